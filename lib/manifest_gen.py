#!/usr/bin/env python3
"""Regenerates MANIFEST.json from the table below (single source of truth for the interface)."""
import json, os
ROOT = os.path.dirname(os.path.dirname(os.path.abspath(__file__)))
props = [json.loads(l) for l in open(os.path.join(ROOT, "properties.jsonl"))]

CLAIMED = {
 "C01": dict(
   text="Coq theorems (C01.v: desired-set characterisation, uniqueness, greedy reading, effective range/slots, "
        "max/min helpers, normalised slot sets) hold for every replica count and every annotation string; the Gallina "
        "model of helper.go is tied to the code on every run by evaluating the real helpers and the model on the same "
        "inputs (exhaustive small domain, int32 extremes, malformed-annotation stream, random) inside coqc.",
   note="Trusted: Coq kernel + vm_compute, the hand-written model of helper.go incl. the encoding/json reading of []int32 "
        "(validated by the correspondence), harness and driver. Hypothesis: r + |slots| <= MaxInt32.",
   technique="Coq proof over an executable model + differential correspondence with the real helpers",
   ref="6 C01"),
}

checks = []
for p in props:
    pid = p["id"]
    if pid not in CLAIMED:
        continue
    c = CLAIMED[pid]
    checks.append({
        "property_id": pid,
        "quick_cmd": "./verif.py check %s --tier quick" % pid,
        "thorough_cmd": "./verif.py check %s --tier thorough" % pid,
        "evidence_file": "/verif/evidence/%s.json" % pid,
        "replay_cmd_template": "./verif.py replay {path}",
        "engine": "coq-model+go-harness",
        "level_claimed": {"category": "proof", "text": c["text"], "design_ref": "DESIGN.md section " + c["ref"]},
        "level_note": c["note"],
        "technique": c["technique"],
    })

na = [{"property_id": p["id"],
       "reason": "not yet claimed: the check for this property is still being built (see DESIGN.md section 10 for the order of work); "
                 "the technique applies and the property will be claimed when its model, theorems and correspondence run exist"}
      for p in props if p["id"] not in CLAIMED]

manifest = {
 "version": 1,
 "setup_cmd": "./verif.py setup",
 "hooks": {
   "guard": "verif",
   "enable": "go build -tags verif (the harness module /verif/harness replaces the two repo modules by /repo and /repo/client)",
   "baseline_off_cmd": "for m in . ./client; do (cd /repo/$m && GOFLAGS=-mod=mod GOPROXY=off GOSUMDB=off GOTOOLCHAIN=local go test -json -vet=off -count=1 -timeout 25m ./...); done",
   "source_commits": ["797bc1c"],
   "add_only": True,
 },
 "engines": [{
   "name": "coq-model+go-harness", "path": "/verif",
   "serves_properties": [c["property_id"] for c in checks],
   "kind_free_text": "Coq 8.16.1 development (/verif/coq: executable Gallina model, proofs, one C<id>.v of statements per property) "
                     "+ Go harness built from /repo with -tags verif (/verif/harness) + Python driver (/verif/verif.py, /verif/props) that "
                     "runs the real code and the model on the same cases and the property monitors on the implementation",
 }],
 "checks": checks,
 "not_applicable": na,
 "notes": "Every check rebuilds the harness from /repo's working tree, re-makes the Coq development, re-checks the property's theorem "
          "file with Print Assumptions, then runs the correspondence. Genuine defects repaired in /repo are listed in known_findings.json.",
}
json.dump(manifest, open(os.path.join(ROOT, "MANIFEST.json"), "w"), indent=1)
print("MANIFEST.json: %d checks, %d not yet claimed" % (len(checks), len(na)))
