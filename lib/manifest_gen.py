#!/usr/bin/env python3
"""Regenerates MANIFEST.json from the table below (single source of truth for the interface)."""
import json, os
ROOT = os.path.dirname(os.path.dirname(os.path.abspath(__file__)))
props = [json.loads(l) for l in open(os.path.join(ROOT, "properties.jsonl"))]

CLAIMED = {
 "C01": dict(
   text="Coq theorems (C01.v: desired-set characterisation, uniqueness, greedy reading, effective range/slots, "
        "max/min helpers, normalised slot sets) hold for every replica count and every annotation string; the Gallina "
        "model of helper.go is tied to the code on every run by evaluating the real helpers and the model on the same "
        "inputs (exhaustive small domain, int32 extremes, malformed-annotation stream, random) inside coqc. Controller clause: theorem "
        "C01_controller_creates_only_desired (every pod create of every reconcile, all API states / caches / oracles, names a member of the desired set) over "
        "the reconcile model, tied by snapshots through the real controller (create calls projected) + monitor (created only at desired ordinals; under Parallel "
        "every vacant desired ordinal is created by the reconcile, members without a usable ordinal holding none).",
   note="Trusted: Coq kernel + vm_compute, the hand-written model of helper.go incl. the encoding/json reading of []int32 "
        "(validated by the correspondence), harness and driver. Hypothesis: r + |slots| <= MaxInt32.",
   technique="Coq proof over an executable model + differential correspondence with the real helpers and the real controller + monitor",
   ref="6 C01"),
 "C03": dict(
   text="Coq theorems (C03.v) over the model of the WHOLE reconcile: every pod delete call in the log of every reconcile, for every API "
        "state, informer cache and fault oracle, has one of the property's three reasons w.r.t. the snapshot reconciled "
        "(delete_reason); an up-to-date live desired pod is never planned for deletion; a slot removes only its pod. The model is tied "
        "to the real controller (real sync / pod control / status updater / ref manager over fake clientsets with fault-injecting reactors) "
        "by a differential run on generated snapshots and every single-fault variant, compared on the projection 'pod deletes'; an "
        "independent Python monitor states the property over the implementation's own calls.",
   note="Trusted: Coq kernel; the hand-written Gallina model of sync/ClaimPods/UpdateStatefulSet (Reconcile.v) and of the API-server "
        "semantics; harness reactors; the monitor. Domain: claimed pods have non-empty phase and distinct canonical ordinals.",
   technique="Coq proof (planner invariants lifted through a monadic program logic to the reconcile log) + differential correspondence + monitor",
   ref="6 C03"),
 "C04": dict(
   text="Coq theorem (C04.v): every pod create call of every reconcile (all API states, caches, fault oracles) is the fresh pod of an ordinal "
        "in C01's desired set that is vacant in the claimed snapshot or whose Failed/Succeeded occupant's delete immediately precedes it; "
        "a deleting set plans nothing. Tied to the real controller by the projected ('pod creates') differential run and a monitor.",
   note="As C03. Hypothesis: every observed pod has a non-empty phase (API-server invariant; the counter-example without it is an Example).",
   technique="Coq proof (vacancy-fill invariant of replicas[] + lifting to the log) + differential correspondence + monitor",
   ref="6 C04"),
 "C05": dict(
   text="Coq theorem (C05.v): under the ordered policy the create/delete actions of a reconcile's plan are exactly one of five shapes "
        "(nothing / one create with all lower desired ordinals steady / in-place replacement / delete of the highest condemned pod with all "
        "desired pods steady / one update delete with nothing to scale in and all steady), and every pod call of the log comes from that one "
        "plan. Projected correspondence (pod creates+deletes) on ordered snapshots incl. condemned pods below desired ones; monitor.",
   note="As C03.",
   technique="Coq proof (case analysis of the ordered planner: ordered_outcome) + differential correspondence + monitor",
   ref="6 C05"),
 "C07": dict(
   text="Coq theorems (C07.v): every revision-motivated delete (delete_reason DR_update) needs strategy <> OnDelete, ordinal >= max(partition,0), "
        "and every higher desired ordinal observed healthy at the update revision; (re)created pods below the partition use the current "
        "revision, the others the update revision. Projected correspondence and monitor on the real controller.",
   note="As C03. The branch with no rollingUpdate block (status.currentReplicas) is modelled and compared, stated separately.",
   technique="Coq proof (update-loop invariant) + differential correspondence + monitor",
   ref="6 C07"),
 "C14": dict(
   text="Coq theorem (C14.v): under Parallel, for every snapshot, the plan of one reconcile contains the create of every vacant desired ordinal, "
        "the replacement of every Failed/Succeeded desired pod, the delete of every live condemned pod, and at most one update delete. "
        "Projected correspondence and monitor (fault-free completeness) on the real controller.",
   note="As C03. Execution of the whole plan absent API errors is by construction of the executor model and checked by the correspondence.",
   technique="Coq proof (burst planner completeness) + differential correspondence + monitor",
   ref="6 C14"),
 "C11": dict(
   text="Coq theorems (C11.v): a paused set (annotation value exactly \"true\") makes the reconcile the identity — no call at all, success, API state "
        "unchanged — for every API state, cache and fault oracle; a set with a deletion timestamp issues no pod/claim create, delete, update or "
        "patch and adopts no ControllerRevision (lifted through the program logic from the planner and the claim/adoption phases). "
        "LOSSLESSNESS over histories of the environment model (PauseProofs.v; reconciles with any fault oracle, kubelet events, cache refreshes, edits): every "
        "reconcile that runs while the cached set carries the annotation can be struck from the history — API state and caches evolve as if it had never been "
        "scheduled — whatever precedes and follows the window (C11_pause_window_is_lossless), and it logs nothing. "
        "Differential run on snapshots with either flag raised (projection: all writes) + monitor; event-driven pause family on the real controller "
        "(edit while paused, un-pause, then only the controller's own informer handlers and work queue run: no write while paused, convergence afterwards).",
   note="As C03. The resume-and-converge part after the window is C02's (proved from regular worlds, monitored elsewhere).",
   technique="Coq proof (paused reconcile = identity; pause window can be struck from any history of the environment model; deleting-set call restrictions "
             "for all oracles) + differential correspondence + monitors (snapshots and event-driven pause/un-pause histories)",
   ref="6 C11"),
 "C12": dict(
   text="Coq theorems (C12.v) for every status write of every reconcile (all API states, caches, oracles): written against the cached resourceVersion "
        "(a stale writer gets Conflict and changes nothing), observedGeneration = reconciled generation, updateRevision/collisionCount as resolved, "
        "currentRevision unchanged unless strategy=RollingUpdate and this reconcile's counters say updated=replicas=ready, then = updateRevision. "
        "Counter bounds (CounterProofs.v, accounting argument pairing every decrement of the three loops with a counted pod): every status write has "
        "0<=ready,current,updated<=replicas, for all pod lists (several revisions in flight, terminating/failed/condemned/duplicate pods) provided cached pods "
        "have a phase (API server default). Census: a reconcile whose plan holds no action writes exactly total/ready/current/updated of the claimed pods. "
        "The same clauses are monitored on every status write of the real controller and compared through the projected correspondence (status payloads). "
        "Event-driven family (monitor only): the controller's own informer handlers and work queue drive the reconciles while the set watch lags; at quiescence "
        "the stored counters must be the census.",
   note="As C03. The bounds theorem carries one environment hypothesis (stored pods have status.phase set), stated in the theorem.",
   technique="Coq proof (status field invariants through the three loops; API precondition) + differential correspondence on status payloads + monitor",
   ref="6 C12"),
 "C15": dict(
   text="Coq theorem (C15.v): for every API state, cache (pods, revisions) and fault oracle, a reconcile of an admitted set (replicas present >= 0, "
        "revisionHistoryLimit present, any policy/strategy strings, rollingUpdate absent/{}/any partition, any annotations; no int32 wrap) never "
        "returns a Panic outcome; every modelled panic site (nil replicas, negative make length, nil revisionHistoryLimit) is guarded or excluded. "
        "Differential run over the CRD-admitted shape product x pod populations (members at the edge of the int32 ordinal range included) under recover, "
        "comparing outcome and full log; monitor-only family for admitted shapes outside the model (template without labels, unappliable revision data, "
        "set names of 64-253 characters: the harness answers an unparsable list selector with 400 like the API server).",
   note="As C03. Panic sites of the Go code are modelled by hand; one that was NOT modelled (nil dereference after the first-unhealthy scan for a pod with ordinal MaxInt32) was a genuine defect, repaired in /repo (e6f563f) (nil dereferences guarded by the repaired code are gone); selector kinds modelled: valid / unconvertible.",
   technique="Coq proof (no-panic program logic over the reconcile model) + differential correspondence under recover + monitor",
   ref="6 C15"),
 "C16": dict(
   text="Coq theorems (C16.v): for every lister and every informer event the handlers' model enqueues exactly the keys of the declarative "
        "specification (controlled pod add/update/delete/tombstone => the set with that name AND uid; owner change => old then new; orphan add / "
        "changed orphan => exactly the matching sets; equal resourceVersion, unrelated pods, malformed tombstones => nothing; set events => that set) "
        "and processNextWorkItem over the work-queue contract always calls Done, re-queues a failed key with NumRequeues+1 and clears it on success, "
        "for every outcome list. Tied to the code exhaustively over the 2661-shape event domain (hook path and informer-handler path) and all "
        "outcome sequences on the real controller and real queue. Event-driven family on the real controller (monitor only): after several failed reconciles the "
        "key waits for its rate-limited retry; a pod or set event delivered then must put the key into the queue at once.",
   note="Trusted: Coq kernel; model of handlers/lister; client-go work queue + rate limiter as a CONTRACT (Queue.v), validated by the worker correspondence; "
        "selector evaluation modelled. Reading: label-less pods match nothing; orphan delete / unchanged orphan update are not relevant events.",
   technique="Coq proof (handlers == declarative enqueue spec; queue state-machine invariant) + exhaustive differential correspondence + monitor",
   ref="6 C16"),
 "C17": dict(
   text="Coq theorems (C17.v) for every built-in object, API state, fault oracle and kill point: only ControllerRevisions, the Advanced set and the built-in set "
        "are called; revisions and pods survive; the built-in delete is last, Orphan, after the spec+status copy and the relabelling; any sequence of "
        "failed or killed attempts followed by a clean run ends like one clean run; no panic. The expression-only-selector defect is proved as "
        "C17_expression_selector_refuted (open known finding) with the positive statement for selectors having a matchLabels key. Tied to the real "
        "helper.Upgrade (two fake clientsets, every call position x 6 error kinds x fail/kill, retries).",
   note="Trusted: Coq kernel; model Upgrade.v; fake tracker + harness_c17 reactors; abstract spec/status (harness checks full JSON equality). Hypotheses: selector "
        "present and valid, unique revision names, same built-in object per attempt, no third-party writes between attempts.",
   technique="Coq proof over an executable monadic model with fault oracle and process death + differential correspondence under fault injection + monitor",
   ref="6 C17"),
 "C20": dict(
   text="Coq theorems (C20.v) over a labelled transition system of the relay (all event sequences, payload kinds, source buffer sizes, interleavings): "
        "received is a converted prefix of the handed events with equal types; Crashed unreachable for marshalable payloads incl. Error/Status; after Stop or "
        "source end every maximal relay-only run ends Done with the result channel closed (decreasing measure); Stop idempotent; the pre-repair relay is "
        "refuted (crash, leak). Tied to the real hijackWatch (opened through the hijack client) by replaying all schedules <=4 (quick) / <=6 (thorough) on real goroutines. "
        "Monitors beyond the model: the same harness built with Go's race detector on schedules with concurrent Stop calls (a report with both accesses in "
        "hijack.go), a harness process killed by a panic is a violation, and at the end of every harness process no goroutine may be left in hijack.go.",
   note="PARTIAL: Go scheduler, channel/select/close semantics, sync.Mutex, defer order and HandleCrash are modelled, not verified; the only leak the model can "
        "exhibit is a parked relay goroutine. Hypothesis: payloads marshalable by encoding/json.",
   technique="Coq proof (LTS invariants by induction over runs + termination measure) + differential schedule replay on the real watch + monitor",
   ref="6 C20"),
 "C10": dict(
   text="Coq theorems (C10.v), for every API state, cache and fault oracle: the claimed list contains only cached pods that match, parse to the set's name and "
        "are controlled by its UID or are adoptable orphans; adoption patches target unowned matching live members of a set not being deleted, release "
        "patches (never deletes) target owned pods that stopped matching; every pod AND every ControllerRevision adoption patch is preceded in the log by a "
        "successful live GET of the set, and CanAdopt says yes only when that GET returned the same UID without deletion timestamp (memoised); planned "
        "deletes target claimed or just-created pods; only own-or-orphan revisions are listed. Differential run (projection: ownership calls) on "
        "ownership-heavy populations + monitor incl. deep comparison of informer objects before/after (cache mutation), release of owned pods that stopped "
        "matching, and updates of stored revisions keeping their hash and marker labels.",
   note="As C03. 'cached objects are left unmodified' is not expressible in the functional model: decided by the monitor on the implementation only.",
   technique="Coq proof (claim/adoption phases in the program logic; log-order invariant for GET-before-adopt) + differential correspondence + monitor",
   ref="6 C10"),
 "C13": dict(
   text="Coq theorems (C13.v): truncateHistory's selection consists of listed (own or orphan, distinct) revisions that are not current, not update and not "
        "named by any claimed pod; is non-empty only when more than the limit are unused; is a prefix of the sorted unused history (oldest first), leaves "
        "at most `limit` unused, selects each name once; and for every API state, cache and oracle the ControllerRevision deletes of the reconcile log "
        "are, in order, a prefix of that selection. Differential run (projection: revision deletes) on revision-heavy populations (own, adopted after "
        "upgrade with labels+marker, orphan, foreign; limits 0..3; pods pinned to old revisions) + monitor.",
   note="As C03. 'belongs to this set' = listed by the set's selector labels or upgrade marker and orphan or controlled by its UID.",
   technique="Coq proof (pure selection spec + phase decomposition of the reconcile log) + differential correspondence + monitor",
   ref="6 C13"),
 "C08": dict(
   text="Coq theorems (C08.v): the revision resolution reads nothing of the set but name, UID, template and status (two sets differing only in replicas, "
        "slots, pause flag, policy, strategy ... resolve state-by-state to the same computation); a listed revision recording the template => no create "
        "(reuse or renumber); the collision loop, for EVERY hash function, only creates and reads and returns the requested template; EqualRevision "
        "implies equal templates. Projected correspondence (revision writes) on revision-heavy populations incl. engineered name collisions + monitor "
        "(stored update revision mirrors the template; rollback renumbered above all others, also when the renumbering write meets a Conflict: "
        "family rollback_conflict). The codec-level facts (getPatch depends on "
        "spec.template only; ApplyRevision restores it) are checked on the real code over generated PodTemplateSpecs: modelled, not proved.",
   note="As C03. Templates are abstract values in the model; the apimachinery codec and strategic-merge patch are modelled, validated by the `patch` family.",
   technique="Coq proof (revision resolution: independence, no-create, collision loop) + differential correspondence + monitor + codec differential test",
   ref="6 C08"),
 "C18": dict(
   text="(a) Byte identity of the revision data with the built-in controller's is a statement about apimachinery's codecs: differentially tested (real "
        "getPatch on the converted set vs a reference encoder on client-go's apps/v1 scheme, generated valid PodTemplateSpecs, both directions) — "
        "PARTIAL, not proved. (b) Coq theorems (C18.v): a listed revision recording the template is reused without any create; pods of the desired set at "
        "the update revision are never deleted; adoption of the marked revisions happens after a fresh GET; a concrete migrated world is adopted, "
        "creates nothing, deletes nothing and is quiet on the second reconcile. Correspondence + monitor on generated migrated worlds (orphan revisions "
        "with marker and without selector labels, orphaned pods, any point of a rollout), two reconciles; bytes also through helper.Upgrade itself on fake "
        "clientsets; the window between Upgrade and the garbage collector's orphaning (revisions and pods still controlled by the deleted built-in set, then "
        "a gc step, then the migration goes on). OPEN FINDING C18-pre-gc-collision-count: in that window a copied status.collisionCount >= 1 makes the "
        "reconcile create a duplicate revision that later becomes the update revision, and pods are restarted.",
   note="PARTIAL for (a) as stated. (b) as C03.",
   technique="codec differential test (bytes) + Coq proof of the control part over the reconcile model + differential correspondence + monitor",
   ref="6 C18"),
 "C19": dict(
   text="Coq theorems (C19.v): annotation codecs lossless for all int32 sets and all maps incl. nil (decimal printer/parser round trip; union; empty removes "
        "the key; frame); schema-directed JSON conversion lossless on every field the Advanced schema models, never fails, keeps list length/order, yields "
        "apps/v1 — generic in the schemas and re-instantiated each run on schemas extracted from the Go types by reflection; the combinator model of "
        "SetObjectDefaults_StatefulSet is idempotent on every JSON tree. Tied to the real helpers, From/ToBuiltin*, the real hijack client over the fake "
        "clientset and the real defaulter by differential evaluation inside coqc; the hijack family also checks what Create/Update/UpdateStatus return "
        "and store and that AlreadyExists / NotFound of the Advanced API reach the caller.",
   note="Trusted: Coq kernel; opaque-leaf assumption for identical k8s types; tree-level model of encoding/json; the reflection translator; Quantity.RoundUp / "
        "ParseImageName as functions with an idempotence hypothesis (proved for the evaluated model). Partial: leaves calling into apimachinery.",
   technique="Coq proof over executable models + reflection-based schema translator + differential correspondence",
   ref="6 C19"),
 "C06": dict(
   text="Coq theorems (C06.v): parse_name (pod_name S i) = (S, i) for EVERY string S and every int32 ordinal (hence injective names, own pods recognised); "
        "the pod built for ordinal i has name/pod-name label S-i, the revision label, the controller reference by UID and a volume per claim template bound "
        "to claim T-S-i, and passes the controller's identity and storage tests; in the log of CreateStatefulPod, for every claim list, claim cache and "
        "fault oracle, all claim calls precede the pod create, a failed claim creation means no pod create and an error; claims present before a reconcile "
        "are present after it (whole reconcile, all oracles). Correspondence: names on random/adversarial strings; pod and claim writes with every "
        "single fault (claim creations addressed by name); monitor incl. hostname/subdomain/owner/volumes of every created pod.",
   note="As C03. hostname/subdomain/template volumes are outside the model (harness `ident` flag on the real pod object).",
   technique="Coq proof (string-level round trip; log-order lemma; state monotonicity through the reconcile) + differential correspondence + monitor",
   ref="6 C06"),
 "C09": dict(
   text="Coq theorems (C09.v): for every API state, cache and fault oracle (any number, kind and position of faults) a reconcile that reports success has met "
        "only the enumerated benign errors (NotFound/Invalid on ownership patches, AlreadyExists in the collision loop, Conflict retried in place, the ignored "
        "re-read) — any other failing call, reads included, makes it report failure; a reported failure is re-queued with back-off over the queue contract; the "
        "executor stops at the first failing action and every call follows the one plan, so the safety theorems (stated for all oracles) cover partial work "
        "and crashes. Fault enumeration on the real controller through the real work queue: every call position x every error kind (pairs in the thorough "
        "tier), compared with the model on outcome and FULL log; monitors: reported, requeued, partial work safe (C03 C04 C05 C07 C10 C11 C13 monitors).",
   note="As C03. Crash = 'timeout applied or lost, then nothing' (log prefix). Recovery to the same final state is C02's convergence (partial there).",
   technique="Coq proof (benign-error logic over the monadic model for all oracles) + exhaustive single-fault enumeration on the real controller + monitors",
   ref="6 C09"),
 "C02": dict(
   text="Coq theorems (C02.v): NO STUCK STATE — for every settled snapshot within the premises, an empty plan implies the pods are exactly the desired ones, "
        "steady, identity/storage in order, and at the update revision from the partition up; FIXED POINT — converged pods give an empty plan, and then every "
        "reconcile (all API states, oracles) issues no pod or claim write; TERMINATION (TerminationProofs.v) — a fair round of any well-formed snapshot of any "
        "size strictly decreases the measure mu while the plan is non-empty and keeps well-formedness, hence after at most mu(pods) rounds the pods are converged "
        "and stay so, whatever current revision each round resolves, for ANY environment whose snapshots have the members of the round (TerminationEnv.v), and "
        "the status computed there says replicas = readyReplicas = spec.replicas (ConvergedStatus.v); FULL MODEL (RoundExec/RoundLift/RoundChain.v) — one fair "
        "round of the full reconcile + environment model (revision phase, claiming, planner, executor, status write, truncation, kubelet) of a regular world has "
        "exactly the members of the abstract round, hence along the fair rounds of the full model the pods converge within mu rounds as long as every round "
        "starts from a regular world — of which only the revision-phase part (rev_quiet) is assumed per round, the rest is preserved by the rounds (KeepsSet.v: a reconcile writes the set's status only) — (non-vacuity: a concrete 8-world chain, RoundExample.v); QUIET (QuietProofs.v) — in a world satisfying the decidable "
        "condition quietb a fault-free reconcile succeeds, leaves the API state unchanged and logs list/get calls only. "
        "From hypotheses on the initial world only when the revision list is within revisionHistoryLimit (C02_full_model_converges_closed, RoundRevs.v), and from "
        "the round after convergence on every world satisfies quietb, i.e. no write at all (C02_full_model_converges_and_goes_quiet: the whole property over the "
        "full model, within mu+1 fair rounds of a regular initial world; the stored status then says replicas = readyReplicas = spec.replicas, C02_full_model_stored_status). "
        "ANY HISTORY LENGTH (RoundTrunc.v, SortFilter.v): the same without the bound on the revision list, truncateHistory deleting in mid-rollout included "
        "(C02_full_model_converges_any_history, _any_history_goes_quiet within mu+2 rounds, _any_history_stored_status; premises: the update revision has no numeric "
        "hash label, revisionHistoryLimit >= 0; insertion sort and name de-duplication commute with a filter by name; getStatefulSetRevisions resolves the same revisions on the shorter list). "
        "PARTIAL: the phase before regularity (chaotic prefix: faults, lagging caches, adoption, creation of the update revision, unsettled pods), "
        "and (as a cross-check of the hypotheses on observed worlds) that a fair history ends in a quietb world, are evaluated inside coqc (round_check "
        "on worlds observed at round boundaries of histories and on synthetic settled worlds; quietb on the final world of every history), not proved. Both are "
        "decided on the implementation on every generated history (chaotic prefix of reconciles, kubelet events, partial cache refreshes, faults, edits that stop; "
        "fair suffix): converged, status = census, last two reconciles write nothing. The environment model (Env.v) is compared with the real world after every op inside coqc. "
        "Outage family (monitor only): event-driven execution through the real work queue, 14-30 consecutive failing reconciles, then a fair suffix driven by the "
        "controller's own retries and informer events: the set must still converge.",
   note="PARTIAL as stated (comment (4) in C02.v). Premises: valid defaulted spec (RollingUpdate carries a partition), canonical names, no unclaimable pod "
        "holding a desired name, not paused/deleting, no terminal-phase pod outside the desired set.",
   technique="Coq proof (fixed points, progress, termination measure of the pod phase, lifting of the round to the full reconcile + environment model, quiet worlds) "
             "+ history-level differential correspondence of the environment model + in-Coq evaluation of the regularity hypotheses + convergence monitor",
   ref="6 C02"),
}

checks = []
for p in props:
    pid = p["id"]
    if pid not in CLAIMED:
        continue
    c = CLAIMED[pid]
    checks.append({
        "property_id": pid,
        "quick_cmd": "./verif.py check %s --tier quick" % pid,
        "thorough_cmd": "./verif.py check %s --tier thorough" % pid,
        "evidence_file": "/verif/evidence/%s.json" % pid,
        "replay_cmd_template": "./verif.py replay {path}",
        "engine": "coq-model+go-harness",
        "level_claimed": {"category": "proof", "text": c["text"], "design_ref": "DESIGN.md section " + c["ref"]},
        "level_note": c["note"],
        "technique": c["technique"],
    })

na = [{"property_id": p["id"],
       "reason": "not yet claimed: the check for this property is still being built (see DESIGN.md section 10 for the order of work); "
                 "the technique applies and the property will be claimed when its model, theorems and correspondence run exist"}
      for p in props if p["id"] not in CLAIMED]

manifest = {
 "version": 1,
 "setup_cmd": "./verif.py setup",
 "hooks": {
   "guard": "verif",
   "enable": "go build -tags verif (the harness module /verif/harness replaces the two repo modules by /repo and /repo/client)",
   "baseline_off_cmd": "for m in . ./client; do (cd /repo/$m && GOFLAGS=-mod=mod GOPROXY=off GOSUMDB=off GOTOOLCHAIN=local go test -json -vet=off -count=1 -timeout 25m ./...); done",
   "source_commits": ["797bc1c", "fd3ec5a"],
   "add_only": True,
 },
 "engines": [{
   "name": "coq-model+go-harness", "path": "/verif",
   "serves_properties": [c["property_id"] for c in checks],
   "kind_free_text": "Coq 8.16.1 development (/verif/coq: executable Gallina model, proofs, one C<id>.v of statements per property) "
                     "+ Go harness built from /repo with -tags verif (/verif/harness) + Python driver (/verif/verif.py, /verif/props) that "
                     "runs the real code and the model on the same cases and the property monitors on the implementation",
 }],
 "checks": checks,
 "not_applicable": na,
 "notes": "Every check rebuilds the harness from /repo's working tree, re-makes the Coq development, re-checks the property's theorem "
          "file with Print Assumptions, then runs the correspondence. Genuine defects repaired in /repo are listed in known_findings.json.",
}
json.dump(manifest, open(os.path.join(ROOT, "MANIFEST.json"), "w"), indent=1)
print("MANIFEST.json: %d checks, %d not yet claimed" % (len(checks), len(na)))
