"""Shared machinery of the checks: harness build, Coq build, case evaluation inside Coq,
evidence, known findings, verdict protocol.  See DESIGN.md sections 4 and 5."""
import fcntl, hashlib, json, os, random, re, subprocess, sys, time
from concurrent.futures import ThreadPoolExecutor

ROOT = os.path.dirname(os.path.dirname(os.path.abspath(__file__)))
REPO = os.environ.get("VERIF_REPO", "/repo")
BUILD = os.path.join(ROOT, "build")
COQ = os.path.join(ROOT, "coq")
HARNESS_SRC = os.path.join(ROOT, "harness")
HARNESS_BIN = os.path.join(BUILD, "harness")
EVIDENCE = os.path.join(ROOT, "evidence")
REPLAYS = os.path.join(ROOT, "replays")
CORPUS = os.path.join(ROOT, "corpus")
KNOWN = os.path.join(ROOT, "known_findings.json")

GOENV = dict(os.environ, GOFLAGS="-mod=mod", GOPROXY="off", GOSUMDB="off", GOTOOLCHAIN="local",
             CGO_ENABLED="0")

ALLOWED_AXIOMS = set()   # property theorems are expected to be closed under the global context

TRUSTED_BASE_COMMON = [
    "Coq 8.16.1 kernel and vm_compute (no native_compute)",
    "Coq standard library only (List ZArith Lia Bool String Ascii Sorting); no axioms",
    "hand-written Gallina model of the Go code, tied to /repo by the correspondence run of this check "
    "(same inputs through the real code built with -tags verif and through the model inside coqc)",
    "Go harness /verif/harness (concretise/abstract tables, fake clientsets, reactors) and driver /verif/lib",
]


class BuildError(Exception):
    pass


def log(*a):
    print(*a, file=sys.stderr, flush=True)


class Lock:
    def __init__(self, name):
        os.makedirs(BUILD, exist_ok=True)
        self.path = os.path.join(BUILD, name + ".lock")

    def __enter__(self):
        self.f = open(self.path, "w")
        fcntl.flock(self.f, fcntl.LOCK_EX)
        return self

    def __exit__(self, *a):
        fcntl.flock(self.f, fcntl.LOCK_UN)
        self.f.close()


# ------------------------------------------------------------------ harness
def build_harness(name="harness", race=False):
    """Build a harness module (/verif/<name>, package main) against /repo's current working tree with the
    verif tag; the binary is /verif/build/<name> (with race=True: built with Go's race detector, /verif/build/<name>_race)."""
    t0 = time.time()
    src = os.path.join(ROOT, name)
    with Lock(name):
        os.makedirs(BUILD, exist_ok=True)
        gosum = os.path.join(src, "go.sum")
        if not os.path.exists(gosum):
            subprocess.run(["cp", os.path.join(REPO, "go.sum"), gosum], check=True)
        args = ["go", "build"] + (["-race"] if race else []) + ["-tags", "verif", "-o", os.path.join(BUILD, name + ("_race" if race else "")), "."]
        env = dict(GOENV, CGO_ENABLED="1") if race else GOENV
        p = subprocess.run(args, cwd=src, env=env, capture_output=True, text=True, timeout=900)
        if p.returncode != 0:
            raise BuildError("%s build failed (does /repo compile with -tags verif?):\n" % name + p.stderr[-4000:])
    return time.time() - t0


def repo_builds_plain():
    """does /repo build without the verif tag (both modules)?"""
    for mod in (REPO, os.path.join(REPO, "client")):
        p = subprocess.run(["go", "build", "./..."], cwd=mod, env=GOENV, capture_output=True, text=True, timeout=900)
        if p.returncode != 0:
            return False
    return True


def run_harness(cmd, cases, timeout=600, extra_args=(), binary="harness"):
    """Run one harness sub-command on a list of JSON-able cases; returns the list of observations."""
    if not cases:
        return []
    data = "\n".join(json.dumps(c, separators=(",", ":")) for c in cases) + "\n"
    p = subprocess.run([os.path.join(BUILD, binary), cmd, *extra_args], input=data, capture_output=True, text=True,
                       timeout=timeout)
    if p.returncode != 0:
        raise BuildError("harness %s exited %d: %s" % (cmd, p.returncode, p.stderr[-3000:]))
    outs = [json.loads(l) for l in p.stdout.splitlines() if l.strip()]
    if len(outs) != len(cases):
        raise BuildError("harness %s: %d outputs for %d cases; stderr: %s" % (cmd, len(outs), len(cases), p.stderr[-2000:]))
    return outs


def run_harness_parallel(cmd, cases, shards=8, timeout=900, extra_args=()):
    if len(cases) < 64:
        return run_harness(cmd, cases, timeout, extra_args)
    n = len(cases)
    per = (n + shards - 1) // shards
    parts = [cases[i:i + per] for i in range(0, n, per)]
    with ThreadPoolExecutor(max_workers=shards) as ex:
        res = list(ex.map(lambda part: run_harness(cmd, part, timeout, extra_args), parts))
    return [o for part in res for o in part]


# ------------------------------------------------------------------ Coq
def coq_make(timeout=1500):
    """Full .vo build of the development (never -vos).  Returns (ok, log_tail)."""
    with Lock("coq"):
        mk = os.path.join(COQ, "Makefile")
        proj = os.path.join(COQ, "_CoqProject")
        if not os.path.exists(mk) or os.path.getmtime(mk) < os.path.getmtime(proj):
            subprocess.run(["coq_makefile", "-f", "_CoqProject", "-o", "Makefile"], cwd=COQ, check=True,
                           capture_output=True)
        p = subprocess.run(["timeout", str(timeout), "make", "-j16", "-k"], cwd=COQ, capture_output=True, text=True)
        return p.returncode == 0, (p.stdout + p.stderr)[-6000:]


def coqchk(pid, timeout=3000):
    """Independent re-check of the compiled property file and everything it depends on (thorough tier).
    Returns (ok, summary)."""
    with Lock("coq"):
        p = subprocess.run(["timeout", str(timeout), "coqchk", "-silent", "-o", "-Q", COQ, "ASTS", "ASTS." + pid],
                           capture_output=True, text=True, cwd=COQ)
    out = p.stdout + p.stderr
    summary = " ".join(out[out.find("CONTEXT SUMMARY"):].split())[:600] if "CONTEXT SUMMARY" in out else out[-600:]
    ok = p.returncode == 0 and "* Axioms: <none>" in out and "type-in-type: <none>" in out and "unsafe (co)fixpoints: <none>" in out \
        and "positivity is assumed: <none>" in out
    return ok, summary


FORBIDDEN = re.compile(r"\b(Admitted|admit|Axiom|Parameter|Conjecture|Hypothesis|Variable|Unset Guard|bypass_check|"
                       r"type-in-type|impredicative-set|Admit Obligations)\b")


def coq_hygiene():
    """grep the development for anything that would declare an axiom or switch off a check."""
    bad = []
    for fn in sorted(os.listdir(COQ)):
        if not fn.endswith(".v"):
            continue
        txt = open(os.path.join(COQ, fn)).read()
        txt = re.sub(r"\(\*.*?\*\)", "", txt, flags=re.S)   # comments may mention the words
        for i, line in enumerate(txt.splitlines(), 1):
            m = FORBIDDEN.search(line)
            if m and not (m.group(1) in ("Variable", "Hypothesis") and in_section(txt, i)):
                bad.append("%s:%d: %s" % (fn, i, line.strip()[:100]))
    return bad


def in_section(txt, lineno):
    depth = 0
    for i, line in enumerate(txt.splitlines(), 1):
        if i >= lineno:
            break
        if re.match(r"\s*Section\s+\w+", line):
            depth += 1
        elif re.match(r"\s*End\s+\w+", line) and depth > 0:
            depth -= 1
    return depth > 0


def property_theorems(pid):
    """Compile C<id>.v on its own, parse theorem names and the Print Assumptions output.
    Returns (obligations, discharged, details, ok, err)."""
    fn = os.path.join(COQ, pid + ".v")
    src = open(fn).read()
    src_nc = re.sub(r"\(\*.*?\*\)", "", src, flags=re.S)
    names = re.findall(r"^\s*(?:Theorem|Corollary)\s+(\w+)", src_nc, flags=re.M)
    printed = re.findall(r"^\s*Print Assumptions\s+(\w+)\s*\.", src_nc, flags=re.M)
    with Lock("coq"):
        p = subprocess.run(["timeout", "600", "coqc", "-Q", COQ, "ASTS", fn], capture_output=True, text=True, cwd=COQ)
    out = p.stdout
    details = []
    if p.returncode != 0:
        return len(names), 0, [{"file": pid + ".v", "error": (p.stderr or out)[-1500:]}], False, (p.stderr or out)[-1500:]
    # split the output into one block per Print Assumptions, in order
    blocks = re.split(r"(?=Closed under the global context|Axioms:)", out)
    blocks = [b for b in blocks if b.startswith("Closed") or b.startswith("Axioms:")]
    discharged = 0
    for i, name in enumerate(printed):
        blk = blocks[i] if i < len(blocks) else "missing"
        if blk.startswith("Closed"):
            axioms = []
        else:
            axioms = re.findall(r"^(\S+)\s*:", blk[len("Axioms:"):], flags=re.M)
        okax = all(a in ALLOWED_AXIOMS for a in axioms) and blk != "missing"
        details.append({"theorem": name, "assumptions": "closed" if not axioms and blk != "missing" else axioms or blk})
        if okax and name in names:
            discharged += 1
    unprinted = [n for n in names if n not in printed]
    ok = discharged == len(names) and not unprinted
    err = None if ok else "theorems without closed Print Assumptions: %s" % (unprinted or [d for d in details if d["assumptions"] != "closed"])
    return len(names), discharged, details, ok, err


# ---- rendering Python values as Gallina terms
def Zl(n):
    return "(%d)" % n if n < 0 else str(n)


def Zlist(l):
    return "[" + "; ".join(Zl(x) for x in l) + "]"


def natl(n):
    return "%d%%nat" % n


def Bl(b):
    return "true" if b else "false"


def Strl(s):
    """a Coq string literal; byte codes for anything outside printable ASCII"""
    if isinstance(s, str):
        b = s.encode("utf-8", "surrogateescape")
    else:
        b = s
    if all(32 <= c < 127 for c in b):
        return '"%s"%%string' % b.decode("ascii").replace('"', '""')
    return "(str_of_codes [" + "; ".join(str(c) for c in b) + "]%nat)"


def Optl(x, f):
    return "None" if x is None else "(Some %s)" % f(x)


def Listl(l, f):
    return "[" + "; ".join(f(x) for x in l) + "]"


def coq_mismatches(tag, imports, ctype, check_fn, terms, shard_size=400, timeout=900, prelude=""):
    """Evaluate `check_fn : ctype -> bool` on every term inside coqc (vm_compute); return the sorted
    list of indices where the model disagrees with the observation embedded in the case."""
    d = os.path.join(BUILD, "cases")
    os.makedirs(d, exist_ok=True)
    shards = [(i, terms[i:i + shard_size]) for i in range(0, len(terms), shard_size)]

    def one(sh):
        off, ts = sh
        base = "cases_%s_%d" % (tag, off)
        fn = os.path.join(d, base + ".v")
        with open(fn, "w") as f:
            f.write("From ASTS Require Import %s.\n%s\n" % (" ".join(imports), prelude))
            f.write("Definition cases : list (%s) := [\n" % ctype)
            f.write(";\n".join(ts))
            f.write("\n].\nDefinition M := Eval vm_compute in mismatches (%s) cases.\nPrint M.\n" % check_fn)
        p = subprocess.run(["timeout", str(timeout), "coqc", "-Q", COQ, "ASTS", fn], capture_output=True, text=True, cwd=d)
        for ext in (".vo", ".vok", ".vos", ".glob"):
            try:
                os.remove(os.path.join(d, base + ext))
            except OSError:
                pass
        try:
            os.remove(os.path.join(d, "." + base + ".aux"))
        except OSError:
            pass
        if p.returncode != 0:
            raise BuildError("coqc failed on %s: %s" % (fn, (p.stderr or p.stdout)[-3000:]))
        txt = " ".join(p.stdout.split())
        m = re.search(r"M = \[(.*?)\]", txt)
        if not m:
            raise BuildError("cannot parse coqc output for %s: %s" % (fn, txt[:500]))
        body = m.group(1).strip()
        idx = [int(x.replace("%nat", "")) for x in body.split(";") if x.strip()] if body else []
        if not idx:
            try:
                os.remove(fn)            # keep only the case files that hold a disagreement
            except OSError:
                pass
        return [off + i for i in idx]

    with ThreadPoolExecutor(max_workers=16) as ex:
        res = list(ex.map(one, shards))
    return sorted(i for r in res for i in r)


def coq_eval(tag, imports, exprs, timeout=300, prelude=""):
    """Evaluate expressions with vm_compute and return the printed values (for replay output)."""
    d = os.path.join(BUILD, "cases")
    os.makedirs(d, exist_ok=True)
    base = "eval_%s" % tag
    fn = os.path.join(d, base + ".v")
    with open(fn, "w") as f:
        f.write("From ASTS Require Import %s.\n%s\n" % (" ".join(imports), prelude))
        for i, e in enumerate(exprs):
            f.write("Definition E%d := Eval vm_compute in (%s).\nPrint E%d.\n" % (i, e, i))
    p = subprocess.run(["timeout", str(timeout), "coqc", "-Q", COQ, "ASTS", fn], capture_output=True, text=True, cwd=d)
    for ext in (".vo", ".vok", ".vos", ".glob"):
        try:
            os.remove(os.path.join(d, base + ext))
        except OSError:
            pass
    if p.returncode != 0:
        return ["coqc error: " + (p.stderr or p.stdout)[-800:]]
    parts = re.split(r"(?=^E\d+ = )", p.stdout, flags=re.M)
    return [" ".join(x.split()) for x in parts if x.strip()]


# ------------------------------------------------------------------ known findings
def load_known(pid):
    if not os.path.exists(KNOWN):
        return []
    data = json.load(open(KNOWN))
    return [f for f in data.get("open", []) if f["property"] == pid]


# ------------------------------------------------------------------ context / result
class Ctx:
    def __init__(self, pid, tier, seed):
        self.pid, self.tier, self.seed = pid, tier, seed
        self.rng = random.Random((seed << 8) ^ int(hashlib.sha1(pid.encode()).hexdigest()[:8], 16))
        self.t0 = time.time()
        self.evaluations = 0
        self.nontrivial = set()
        self.samples = []
        self.distribution = {}
        self.violations = []        # dicts: {clause, input, observed, ...} found on the implementation
        self.corr_breaks = []       # dicts: {family, index, input, observed, model}
        self.known_hits = {}        # finding id -> example
        self.families = {}
        self.notes = []
        self.traces_validated = 0

    @property
    def quick(self):
        return self.tier == "quick"

    def count(self, key, n=1):
        self.distribution[key] = self.distribution.get(key, 0) + n

    def nontriv(self, canon):
        self.nontrivial.add(hashlib.sha1(json.dumps(canon, sort_keys=True).encode()).hexdigest())

    def sample(self, s, limit=6):
        if len(self.samples) < limit:
            self.samples.append(s)


def match_known(known, viol):
    """A violation is covered by a known finding iff the finding's `match` predicate (a dict of
    key -> value over the violation's `signature`) holds."""
    sig = viol.get("signature", {})
    for k in known:
        m = k.get("match", {})
        if m and all(sig.get(a) == b for a, b in m.items()):
            return k
    return None


def finish(ctx, prop_title, theorems, technique, extra_cov=None, assumptions=None):
    """Write evidence, replay files; print VIOLATION / KNOWN-FINDING lines; return exit code."""
    obligations, discharged, details, proofs_ok, proof_err = theorems
    os.makedirs(EVIDENCE, exist_ok=True)
    os.makedirs(REPLAYS, exist_ok=True)
    known = load_known(ctx.pid)
    new_viol = []
    for v in ctx.violations:
        k = match_known(known, v)
        if k:
            ctx.known_hits.setdefault(k["id"], (k, v))
        else:
            new_viol.append(v)
    exit_code = 0
    lines = []
    for kid, (k, v) in sorted(ctx.known_hits.items()):
        lines.append("KNOWN-FINDING: property=%s %s" % (ctx.pid, k["what"]))
    if new_viol:
        v = new_viol[0]
        h = hashlib.sha1(json.dumps(v, sort_keys=True, default=str).encode()).hexdigest()[:10]
        path = os.path.join(REPLAYS, "%s-%s.json" % (ctx.pid, h))
        json.dump({"property": ctx.pid, "kind": "failing-input", "violation": v,
                   "others": new_viol[1:6], "seed": ctx.seed, "tier": ctx.tier}, open(path, "w"), indent=1, default=str)
        lines.append("VIOLATION property=%s replay=%s" % (ctx.pid, path))
        exit_code = 1
    elif (not proofs_ok) or ctx.corr_breaks:
        what = {"property": ctx.pid, "kind": "no-failing-input-found", "seed": ctx.seed, "tier": ctx.tier}
        if not proofs_ok:
            what["broken_proof_obligations"] = proof_err
            what["theorem_details"] = details
        if ctx.corr_breaks:
            what["correspondence_breaks"] = ctx.corr_breaks[:8]
            what["families"] = sorted({b.get("family", "?") for b in ctx.corr_breaks})
        h = hashlib.sha1(json.dumps(what, sort_keys=True, default=str).encode()).hexdigest()[:10]
        path = os.path.join(REPLAYS, "%s-%s.json" % (ctx.pid, h))
        json.dump(what, open(path, "w"), indent=1, default=str)
        lines.append("VIOLATION property=%s replay=%s no-failing-input-found" % (ctx.pid, path))
        exit_code = 1
    cov = {
        "obligations": obligations, "discharged": discharged,
        "checker_cmd": "make -C /verif/coq (coq_makefile, full .vo build) && coqc -Q /verif/coq ASTS /verif/coq/%s.v (Print Assumptions under every theorem)" % ctx.pid,
        "trusted_base": TRUSTED_BASE_COMMON + (assumptions or []),
        "theorems": details,
        "evaluations": ctx.evaluations,
        "distinct_nontrivial": len(ctx.nontrivial),
        "rule": "cases are generated/enumerated per family (see families); a case is non-trivial when it reaches a "
                "non-default branch of the model (recorded per family) and distinct by its canonical JSON input",
        "samples": ctx.samples,
        "traces_validated_against_impl": ctx.traces_validated,
        "families": ctx.families,
        "input_distribution": ctx.distribution,
        "correspondence_breaks": len(ctx.corr_breaks),
        "known_findings_hit": sorted(ctx.known_hits),
        "notes": ctx.notes,
    }
    if extra_cov:
        cov.update(extra_cov)
    ev = {"property_id": ctx.pid, "tier": ctx.tier, "seed": ctx.seed, "level": "proof", "coverage": cov,
          "assumptions": assumptions or [], "wall_s": round(time.time() - ctx.t0, 2),
          "violations": len(new_viol) + (1 if exit_code and not new_viol else 0),
          "title": prop_title, "technique": technique}
    json.dump(ev, open(os.path.join(EVIDENCE, ctx.pid + ".json"), "w"), indent=1, default=str)
    for l in lines:
        print(l, flush=True)
    if exit_code == 0:
        print("OK property=%s tier=%s obligations=%d/%d evaluations=%d wall=%.1fs" %
              (ctx.pid, ctx.tier, discharged, obligations, ctx.evaluations, time.time() - ctx.t0), flush=True)
    return exit_code
