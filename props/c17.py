"""C17 — upgrade from the built-in StatefulSet never loses pods and survives interruption.

Runs the REAL helper.Upgrade (harness_c17, command `upgrade`) on two fake clientsets, once per attempt,
with one injected API fault or one process death per faulty attempt, then a clean attempt.  The monitor
below is the property coded directly over the observed call logs / API states; the correspondence
re-computes every observation (outcome, call log, final state of every case) with the Gallina model
coq/Upgrade.v inside coqc."""
import itertools, json, os, sys
from concurrent.futures import ThreadPoolExecutor
from lib import core
from lib.core import Zl, Bl, Strl, Optl, Listl

TITLE = "Upgrade from built-in StatefulSet never loses pods and survives interruption"
TECHNIQUE = ("Coq proof (for every initial API state, fault oracle and kill point: delete last / Orphan / after the copy and the "
             "relabelling; crash-safety and idempotence of re-runs; no panic; no call outside three resources) over a Gallina "
             "model of helper.Upgrade with fault oracle and process death, tied to the code by differential evaluation of the "
             "real helper on two fake clientsets (every call position x error kind x fail/kill, with retries) against the "
             "model inside coqc")
ASSUMPTIONS = [
    "hypotheses of the crash-safety theorem: between attempts nobody else writes the objects; every attempt is handed the same "
    "built-in object; the selector is present and valid; ControllerRevision names are unique (C17_hypotheses_satisfiable)",
    "API-server semantics are modelled (fake tracker + reactors of harness_c17: status subresource, resourceVersion "
    "precondition, no resourceVersion on create, garbage collection of dependents on a non-Orphan delete)",
    "spec / status / metadata of the two StatefulSet kinds are abstract values; helper.FromBuiltinStatefulSet (JSON re-typing) is "
    "the identity on them in the model (the harness checks the whole spec and status for equality on the real objects)",
    "label selector evaluation (matchLabels, In, NotIn, Exists, DoesNotExist) is modelled; key/value syntax assumed valid",
    "known finding C17-expr-selector: for selectors without matchLabels no label is removed (C17_expression_selector_refuted)",
]
HARNESSES = ["harness_c17"]
BINARY = "harness_c17"
MARKER = "apps.pingcap.com/upgrade-to-asts"
NAME = "web"
KNOWN_KIND = "expression-selector-labels-not-removed"

# ------------------------------------------------------------------ input domain
def E(key, op, *vals):
    return {"key": key, "operator": op, "values": list(vals)}


SELECTORS = {
    "ml1": {"matchLabels": {"app": "web"}},
    "ml2": {"matchLabels": {"app": "web", "tier": "db"}},
    "in": {"matchExpressions": [E("app", "In", "web")]},
    "in2": {"matchExpressions": [E("app", "In", "web", "api")]},
    "exists": {"matchExpressions": [E("app", "Exists")]},
    "dne": {"matchExpressions": [E("legacy", "DoesNotExist")]},
    "notin": {"matchExpressions": [E("app", "NotIn", "other")]},
    "mixed": {"matchLabels": {"app": "web"}, "matchExpressions": [E("tier", "In", "db", "cache")]},
    "mixed-dne": {"matchLabels": {"tier": "db"}, "matchExpressions": [E("legacy", "DoesNotExist")]},
    "in-nomarker": {"matchExpressions": [E("app", "In", "web"), E(MARKER, "DoesNotExist")]},
    "empty": {},
}
OUT_OF_DOMAIN = {
    "nil": None,                                                        # apps/v1 validation requires spec.selector
    "invalid-in": {"matchExpressions": [E("app", "In")]},               # In without values: LabelSelectorAsSelector fails
    "invalid-exists": {"matchLabels": {"app": "web"}, "matchExpressions": [E("app", "Exists", "x")]},
}
# revision kinds: labels, owner
KINDS = {
    "M": ({"app": "web", "tier": "db", "controller.kubernetes.io/hash": "h1"}, NAME),   # carries the selector labels
    "N": ({"app": "other", "legacy": "1"}, NAME),                                       # does not
    "NIL": (None, NAME),                                                                # nil label map
    "K": ({"app": "web", "tier": "db", MARKER: NAME}, NAME),                             # already marked, labels still there
    "F": ({"app": "web", "tier": "db"}, "other"),                                       # matching, controlled by a DaemonSet
    "S": ({"tier": "db", MARKER: NAME}, NAME),                                           # marked and stripped (a finished relabelling)
    "O": ({}, None),                                                                    # empty map, no owner
}
MAIN_KINDS = ["M", "N", "NIL", "K", "F"]
ERR_KINDS = ["500", "conflict", "notfound", "exists", "timeout_lost", "timeout_applied"]
FAULTS = [("fault", k) for k in ERR_KINDS] + [("kill", False), ("kill", True)]
FKIND = {"500": "F500", "conflict": "FConflict", "notfound": "FNotFound", "exists": "FExists",
         "timeout_lost": "FTimeoutLost", "timeout_applied": "FTimeoutApplied"}
ADV = {"absent": None, "present": {"meta": 9, "spec": 1, "status": 2, "rv": 4}, "same": {"meta": 7, "spec": 3, "status": 5, "rv": 12},
       # left by an interrupted run, after which the built-in set lost a node selector, a toleration and a template annotation:
       # the spec to write differs from the stored one by omissions only
       "super": {"meta": 7, "spec": 3, "status": 5, "rv": 12, "super": True}}


def population(kinds):
    return [{"name": "%s-%d" % (NAME, i + 1), "labels": (None if KINDS[k][0] is None else dict(KINDS[k][0])), "owner": KINDS[k][1]}
            for i, k in enumerate(kinds)]


def world(selname, kinds, adv, builtin=True):
    sel = SELECTORS[selname] if selname in SELECTORS else OUT_OF_DOMAIN[selname]
    return {"set": {"name": NAME, "selector": sel, "meta": 7, "spec": 3, "status": 5}, "builtin_present": builtin,
            "revisions": population(kinds), "advanced": ADV[adv], "_tag": [selname, list(kinds), adv, builtin]}


def attempt(pos, fault):
    if fault[0] == "kill":
        return {"kill": {"at": pos, "applied": fault[1]}}
    return {"fault": {"at": pos, "kind": fault[1]}}


def case_of(w, attempts):
    c = {k: v for k, v in w.items() if k != "_tag"}
    c["attempts"] = list(attempts) + [{}]
    return c


# ------------------------------------------------------------------ harness
def run_cases(cases, binary, shards=8):
    if len(cases) < 64:
        return core.run_harness("upgrade", cases, binary=binary)
    per = (len(cases) + shards - 1) // shards
    parts = [cases[i:i + per] for i in range(0, len(cases), per)]
    with ThreadPoolExecutor(max_workers=shards) as ex:
        res = list(ex.map(lambda p: core.run_harness("upgrade", p, binary=binary), parts))
    return [o for part in res for o in part]


# ------------------------------------------------------------------ monitor (independent of the Coq model)
def py_matches(sel, labels):
    """metav1.LabelSelector on a label map; None selector = the string "" on the wire = no restriction."""
    if sel is None:
        return True
    labels = labels or {}
    for k, v in (sel.get("matchLabels") or {}).items():
        if labels.get(k) != v:
            return False
    for e in sel.get("matchExpressions") or []:
        k, op, vals = e["key"], e["operator"], e["values"]
        if op == "In" and not (k in labels and labels[k] in vals):
            return False
        if op == "NotIn" and (k in labels and labels[k] in vals):
            return False
        if op == "Exists" and k not in labels:
            return False
        if op == "DoesNotExist" and k in labels:
            return False
    return True


def py_selector_string(sel):
    if sel is None:
        return ""
    reqs = [(k, "%s=%s" % (k, v)) for k, v in (sel.get("matchLabels") or {}).items()]
    for e in sel.get("matchExpressions") or []:
        k, op, vals = e["key"], e["operator"], sorted(e["values"])
        reqs.append((k, {"In": "%s in (%s)" % (k, ",".join(vals)), "NotIn": "%s notin (%s)" % (k, ",".join(vals)),
                         "Exists": k, "DoesNotExist": "!" + k}[op]))
    reqs.sort(key=lambda r: r[0])
    return ",".join(r[1] for r in reqs)


def shape(c):
    return (c["verb"], c.get("group", ""), c["res"], c.get("sub", ""))


ALLOWED = {("list", "apps", "controllerrevisions", ""), ("update", "apps", "controllerrevisions", ""),
           ("get", "apps.pingcap.com", "statefulsets", ""), ("create", "apps.pingcap.com", "statefulsets", ""),
           ("update", "apps.pingcap.com", "statefulsets", ""), ("update", "apps.pingcap.com", "statefulsets", "status"),
           ("delete", "apps", "statefulsets", "")}


def projection(state):
    a = state["advanced"]
    return {"builtin": state["builtin"],
            "revisions": [[r["name"], r["labels"], r["owner"]] for r in state["revisions"]],
            "advanced": None if a is None else [a["name"], a["meta"], a["spec"], a["status"], a["spec_equal"], a["status_equal"]]}


def monitor(case, obs, ref_final):
    """Returns (clauses, still_matching): the violated clauses other than the known defect, and the
    instances of 'a listed revision still matches the built-in selector' (the known defect's clause)."""
    bad, still = [], []
    sel = case["set"]["selector"]
    name = case["set"]["name"]
    mlkeys = [k for k in ((sel or {}).get("matchLabels") or {}) if k != MARKER]
    nonempty = bool(sel) and bool((sel.get("matchLabels") or {}) or (sel.get("matchExpressions") or []))
    ever_listed = set()
    for ai, att in enumerate(obs["attempts"]):
        calls = att["calls"]
        if att["result"] == "panic":
            bad.append("attempt %d: Upgrade panicked: %s" % (ai, att.get("msg")))
        if att["result"] == "ok" and att.get("returned") is None:
            bad.append("attempt %d: Upgrade reported success without returning the Advanced StatefulSet (a failed call was swallowed)" % ai)
        if att["result"] == "ok" and any(c.get("err") and not (c["verb"] == "get" and c.get("err") == "notfound") and not (c["verb"] == "delete" and c.get("err") == "notfound") for c in calls):
            bad.append("attempt %d: Upgrade reported success although a call failed: %s" % (
                ai, [(c["verb"], c["res"], c.get("err")) for c in calls if c.get("err")][:2]))
        listed = []
        for i, c in enumerate(calls):
            sh = shape(c)
            if c["res"] in ("pods", "persistentvolumeclaims"):
                bad.append("attempt %d call %d: %s on %s" % (ai, i, c["verb"], c["res"]))
            elif sh not in ALLOWED:
                bad.append("attempt %d call %d: unexpected call %s" % (ai, i, "/".join(sh)))
            if c["verb"] == "list":
                if c.get("sel") != py_selector_string(sel):
                    bad.append("attempt %d: LIST selector %r, the set's selector reads %r" % (ai, c.get("sel"), py_selector_string(sel)))
                listed = c.get("listed") or []
                ever_listed.update(listed)
            if c["verb"] in ("delete", "deletecollection") and sh != ("delete", "apps", "statefulsets", ""):
                bad.append("attempt %d call %d: deletes %s %s" % (ai, i, c["res"], c.get("name")))
            if sh == ("delete", "apps", "statefulsets", ""):
                if c.get("name") != name:
                    bad.append("attempt %d: deletes StatefulSet %r" % (ai, c.get("name")))
                if i != len(calls) - 1:
                    bad.append("attempt %d: the built-in delete is call %d of %d, not the last" % (ai, i, len(calls)))
                if c.get("policy") != "Orphan":
                    bad.append("attempt %d: built-in delete with propagation policy %r" % (ai, c.get("policy")))
                st = c["at_delete"]
                a = st["advanced"]
                if a is None:
                    bad.append("attempt %d: built-in deleted while no Advanced StatefulSet exists" % ai)
                else:
                    if a["name"] != name:
                        bad.append("attempt %d: Advanced StatefulSet is named %r" % (ai, a["name"]))
                    if not a["spec_equal"]:
                        bad.append("attempt %d: built-in deleted while the Advanced spec differs from the built-in spec" % ai)
                    if not a["status_equal"]:
                        bad.append("attempt %d: built-in deleted while the Advanced status differs from the built-in status" % ai)
                revs = {r["name"]: r for r in st["revisions"]}
                for n in listed:
                    if n not in revs:
                        bad.append("attempt %d: listed revision %s is gone at delete time" % (ai, n))
                        continue
                    lb = revs[n]["labels"] or {}
                    if lb.get(MARKER) != name:
                        bad.append("attempt %d: listed revision %s has no upgrade marker at delete time" % (ai, n))
                    for k in mlkeys:
                        if k in lb:
                            bad.append("attempt %d: listed revision %s still has selector label %s at delete time" % (ai, n, k))
                    if nonempty and py_matches(sel, lb):
                        still.append("attempt %d: listed revision %s still matches the built-in selector at delete time" % (ai, n))
    last = obs["attempts"][-1]
    fin = obs["final"]
    if last["result"] != "ok":
        bad.append("the final clean run did not succeed: %s %s" % (last["result"], last.get("msg")))
    if fin["builtin"]:
        bad.append("built-in StatefulSet still exists after a clean run")
    if fin["cascaded"] or not fin["pods_intact"]:
        bad.append("the set's pod was deleted or modified")
    if not fin["claims_intact"]:
        bad.append("the set's claim was deleted or modified")
    if [r["name"] for r in fin["revisions"]] != [r["name"] for r in case["revisions"]]:
        bad.append("ControllerRevisions lost: %s" % [r["name"] for r in fin["revisions"]])
    a = fin["advanced"]
    if a is None or not (a["spec_equal"] and a["status_equal"] and a["name"] == name):
        bad.append("final Advanced StatefulSet differs from the built-in one: %s" % a)
    if ref_final is not None and projection(fin) != projection(ref_final):
        bad.append("final state differs from the final state of the uninterrupted run")
    if nonempty:
        for r in fin["revisions"]:
            if r["name"] in ever_listed and py_matches(sel, r["labels"]):
                still.append("final: listed revision %s still matches the built-in selector" % r["name"])
    return bad, still


def judge(ctx, family, case, obs, ref_final):
    bad, still = monitor(case, obs, ref_final)
    sel = case["set"]["selector"] or {}
    if still:
        if not bad and not (sel.get("matchLabels") or {}) and (sel.get("matchExpressions") or []):
            sig = {"kind": KNOWN_KIND}
        else:
            sig = {"kind": "selector-labels-not-removed", "matchLabels": sorted((sel.get("matchLabels") or {}))}
    elif bad:
        sig = {"kind": "other", "first": bad[0].split(":")[-1].strip()[:60]}
    else:
        return
    key = "violations:" + sig["kind"]
    ctx.count(key)
    if ctx.distribution[key] <= 30:      # the known defect shows on thousands of cases; keep a bounded number of witnesses
        ctx.violations.append({"family": family, "input": case, "observed": obs, "clauses": bad + still, "signature": sig})


# ------------------------------------------------------------------ rendering for the model
class Interner:
    """Repeated sub-terms (strings, label maps, revisions, the set, calls) are defined once in the prelude of
    the case files and referred to by name: coqc spends its time parsing string literals otherwise."""

    TYPES = {"s": "string", "l": "labels", "b": "bset", "r": "revision", "c": "call"}

    def __init__(self):
        self.names, self.lines = {}, []

    def __call__(self, prefix, term):
        n = self.names.get(term)
        if n is None:
            n = "%s%d" % (prefix, len(self.names))
            self.names[term] = n
            self.lines.append("Definition %s : %s := %s." % (n, self.TYPES[prefix], term))
        return n

    def prelude(self):
        return "\n".join(self.lines)


INTERN = Interner()


def S(x):
    return INTERN("s", Strl(x))


def labels_term(m):
    return INTERN("l", Listl(sorted(m.items()), lambda kv: "(%s, %s)" % (S(kv[0]), S(kv[1]))))


OPS = {"In": "OpIn", "NotIn": "OpNotIn", "Exists": "OpExists", "DoesNotExist": "OpDoesNotExist"}


def selector_term(sel):
    if sel is None:
        return "None"
    ex = Listl(sel.get("matchExpressions") or [], lambda e: "{| e_key := %s; e_op := %s; e_vals := %s |}" % (
        S(e["key"]), OPS[e["operator"]], Listl(e["values"], S)))
    return "(Some {| sel_labels := %s; sel_exprs := %s |})" % (labels_term(sel.get("matchLabels") or {}), ex)


def sts_term(s):
    return INTERN("b", "{| b_name := %s; b_selector := %s; b_meta := %s; b_spec := %s; b_status := %s |}" % (
        S(s["name"]), selector_term(s["selector"]), Zl(s["meta"]), Zl(s["spec"]), Zl(s["status"])))


def rev_term(r):
    return INTERN("r", "{| rv_name := %s; rv_labels := %s; rv_owner := %s |}" % (S(r["name"]), Optl(r["labels"], labels_term), Optl(r["owner"], S)))


def rvnum(s):
    try:
        return int(s)
    except (TypeError, ValueError):
        return -1


def aset_term(meta, spec, status, rv):
    return "{| a_meta := %s; a_spec := %s; a_status := %s; a_rv := %s |}" % (Zl(meta), Zl(spec), Zl(status), Zl(rv))


def world_term(builtin, revs, adv, cascaded):
    a = "None" if adv is None else "(Some %s)" % aset_term(adv["meta"], adv["spec"], adv["status"], rvnum(adv["rv"]))
    return "{| w_sts := %s; w_revs := %s; w_asts := %s; w_cascaded := %s |}" % (
        Bl(builtin), Listl(sorted(revs, key=lambda r: r["name"].encode()), rev_term), a, Bl(cascaded))


POLICY = {"Orphan": "POrphan", "Background": "PBackground", "Foreground": "PForeground", "none": "PNone"}


def call_term(c):
    return INTERN("c", call_term0(c))


def call_term0(c):
    sh = shape(c)
    n = S(c.get("name", ""))
    if sh == ("list", "apps", "controllerrevisions", ""):
        return "(CListRevs None)"
    if sh == ("update", "apps", "controllerrevisions", "") and c.get("has_labels"):
        return "(CUpdateRev %s %s)" % (n, labels_term(c.get("labels") or {}))
    if sh == ("get", "apps.pingcap.com", "statefulsets", ""):
        return "(CGetAsts %s)" % n
    if sh == ("create", "apps.pingcap.com", "statefulsets", ""):
        return "(CCreateAsts %s %s %s %s)" % (n, Zl(c["meta"]), Zl(c["spec"]), "None" if c.get("rv") == "" else "(Some %s)" % Zl(rvnum(c.get("rv"))))
    if sh == ("update", "apps.pingcap.com", "statefulsets", ""):
        return "(CUpdateAsts %s %s %s %s)" % (n, Zl(c["meta"]), Zl(c["spec"]), Zl(rvnum(c.get("rv"))))
    if sh == ("update", "apps.pingcap.com", "statefulsets", "status"):
        return "(CUpdateStatus %s %s %s)" % (n, Zl(c["status"]), Zl(rvnum(c.get("rv"))))
    if sh == ("delete", "apps", "statefulsets", "") and c.get("policy") in POLICY:
        return "(CDeleteSts %s %s)" % (n, POLICY[c["policy"]])
    return "(COther %s %s %s)" % (S(c["verb"]), S(c["res"] + ("/" + c["sub"] if c.get("sub") else "")), n)


ERR = {"500": "E500", "conflict": "EConflict", "notfound": "ENotFound", "exists": "EExists", "timeout": "ETimeout",
       "badrequest": "EBadRequest", "other": "EOther"}


def outcome_term(att):
    r = att["result"]
    if r == "ok":
        a = att.get("returned")
        if a is None:
            # success reported without an object (never the model's outcome: rendered as an error the model cannot produce here)
            return "(OErr EOther)"
        return "(OOk %s)" % aset_term(a["meta"], a["spec"], a["status"], rvnum(a["rv"]))
    if r == "err":
        return "(OErr %s)" % ERR.get(att.get("err"), "EOther")
    if r == "killed":
        return "(OKilled %d%%nat)" % (len(att["calls"]) - 1)
    return '(OPanic ""%string)'


def attempt_term(a):
    if a.get("kill"):
        return "(Some (%d%%nat, %s))" % (a["kill"]["at"], "FKillAfter" if a["kill"]["applied"] else "FKillBefore")
    if a.get("fault"):
        return "(Some (%d%%nat, %s))" % (a["fault"]["at"], FKIND[a["fault"]["kind"]])
    return "None"


def case_term(case, obs):
    present = case.get("builtin_present", True)
    adv0 = None if case["advanced"] is None else dict(case["advanced"])
    fin = obs["final"]
    return "{| uc_sts := %s; uc_world := %s; uc_attempts := %s; uc_obs := %s; uc_final := %s |}" % (
        sts_term(case["set"]), world_term(present, case["revisions"], adv0, False),
        Listl(case["attempts"], attempt_term),
        Listl(obs["attempts"], lambda a: "{| ao_out := %s; ao_calls := %s |}" % (outcome_term(a), Listl(a["calls"], call_term))),
        world_term(fin["builtin"], fin["revisions"], fin["advanced"], fin["cascaded"]))


IMPORTS = ["Base", "Upgrade"]


def model_view(case):
    present = case.get("builtin_present", True)
    expr = "upgrade_model %s %s %s" % (
        sts_term(case["set"]), Listl(case["attempts"], attempt_term), world_term(present, case["revisions"], case["advanced"], False))
    return core.coq_eval("C17_mm", IMPORTS, [expr], prelude=INTERN.prelude())


# ------------------------------------------------------------------ families
def populations(max_size, kinds=MAIN_KINDS):
    out = []
    for n in range(0, max_size + 1):
        out.extend(itertools.combinations_with_replacement(kinds, n))
    return out


def run_family(ctx, family, worlds, depth, binary, plan, in_domain=True):
    """plan(world, n_calls, rng) -> list of lists of faulty attempts (the clean final attempt is appended)."""
    refs = run_cases([case_of(w, []) for w in worlds], binary)
    cases, meta = [], []
    for w, ref in zip(worlds, refs):
        n0 = len(ref["attempts"][0]["calls"])
        cases.append(case_of(w, []))
        meta.append(ref)
        cases.append(case_of(w, [{}]))                # a re-run after success
        meta.append(ref)
        for atts in plan(w, n0, ctx.rng):
            cases.append(case_of(w, atts))
            meta.append(ref)
    obs = run_cases(cases, binary)
    terms = []
    for case, o, ref in zip(cases, obs, meta):
        ctx.evaluations += 1
        if "harness_error" in o:
            raise core.BuildError("harness_c17: %s on %s" % (o["harness_error"], json.dumps(case)[:300]))
        nf = len(case["attempts"]) - 1
        ctx.count("faulty_attempts:%d" % nf)
        for a in case["attempts"]:
            ctx.count("attempt:" + ("kill" if a.get("kill") else a["fault"]["kind"] if a.get("fault") else "clean"))
        for a in o["attempts"]:
            ctx.count("result:" + a["result"])
        if any(c.get("fault") for a in o["attempts"] for c in a["calls"]):
            ctx.nontriv([case["set"]["selector"], case["revisions"], case["advanced"], case["attempts"]])
        if in_domain:
            judge(ctx, family, case, o, ref["final"])
        terms.append(case_term(case, o))
    k = len(cases) // 2
    ctx.sample({"family": family, "input": cases[k], "observed": {"results": [a["result"] for a in obs[k]["attempts"]],
                                                                  "calls": [["%s %s%s %s" % (c["verb"], c["res"], "/" + c["sub"] if c.get("sub") else "", c.get("name", ""))
                                                                             for c in a["calls"]] for a in obs[k]["attempts"]],
                                                                  "final": projection(obs[k]["final"])}})
    PENDING.append((family, cases, obs, terms, len(worlds), in_domain))
    return len(cases)


PENDING = []


def flush(ctx, tag="C17"):
    """One batched evaluation of every pending case inside coqc (better use of the 16 cores than one batch per family)."""
    allterms, owner = [], []
    for fi, (family, cases, obs, terms, nworlds, in_domain) in enumerate(PENDING):
        for i, t in enumerate(terms):
            allterms.append(t)
            owner.append((fi, i))
    mm = core.coq_mismatches(tag, IMPORTS, "upgrade_case", "upgrade_check", allterms, shard_size=300, prelude=INTERN.prelude())
    per = {}
    for g in mm:
        fi, i = owner[g]
        per.setdefault(fi, []).append(i)
    for fi, (family, cases, obs, terms, nworlds, in_domain) in enumerate(PENDING):
        bad = per.get(fi, [])
        for i in bad[:3]:
            ctx.corr_breaks.append({"family": family, "input": cases[i], "observed": obs[i], "model": model_view(cases[i])})
        for i in bad[3:]:
            ctx.corr_breaks.append({"family": family, "input": cases[i]})
        ctx.traces_validated += len(terms)
        ctx.families[family] = {"worlds": nworlds, "cases": len(cases), "model_mismatches": len(bad), "monitored": in_domain}
    del PENDING[:]


def single_fault_plan(fraction):
    def plan(w, n0, rng):
        out = []
        for pos in range(n0):
            for f in FAULTS:
                if fraction >= 1.0 or rng.random() < fraction:
                    out.append([attempt(pos, f)])
        return out
    return plan


RETRY_FAULTS = [("fault", "500"), ("fault", "notfound"), ("fault", "timeout_applied"), ("kill", False), ("kill", True)]


def retry_plan(pairs, triples):
    """pairs: None = every pair of (position, representative fault), else a sample size; triples: sample size"""
    def plan(w, n0, rng):
        singles = [attempt(p, f) for p in range(n0) for f in RETRY_FAULTS]
        allp = [[a, b] for a in singles for b in singles]
        out = allp if pairs is None else [allp[i] for i in sorted(rng.sample(range(len(allp)), min(pairs, len(allp))))]
        full = [attempt(p, f) for p in range(n0) for f in FAULTS]
        for _ in range(triples):
            out.append([rng.choice(full), rng.choice(full), rng.choice(full)])
        return out
    return plan


def check(ctx, depth, binary=BINARY):
    quick = depth == "quick"
    del PENDING[:]
    pops = populations(2 if quick else 3)
    extra = [("S",), ("O",), ("M", "S"), ("K", "O")] if quick else [("S",), ("O",), ("M", "S"), ("K", "O"), ("M", "O", "S"), ("S", "S")]
    advs = ["absent", "present"]
    for selname in SELECTORS:
        worlds = [world(selname, p, adv) for p in pops + extra for adv in advs]
        worlds += [world(selname, p, "same") for p in (pops[1:4] if quick else pops[1:12])]
        worlds += [world(selname, p, "super") for p in (pops[1:3] if quick else pops[1:8])]
        worlds += [world(selname, p, adv, builtin=False) for p in [(), ("M",), ("M", "K")] for adv in advs]   # built-in already gone
        run_family(ctx, "faults/" + selname, worlds, depth, binary, single_fault_plan(1.0 / 3 if quick else 1.0))
    # retries: two and three faulty attempts, then a clean one
    rworlds = [world(s, p, adv) for s in ("ml1", "in", "mixed", "dne") for p in [("M",), ("M", "NIL"), ("M", "K", "F")]
               for adv in advs]
    run_family(ctx, "retries", rworlds, depth, binary, retry_plan(60 if quick else None, 20 if quick else 150))
    if not quick:
        # every sequence of three faulty attempts (position x {500, timeout-applied, death before, death after}) on two worlds
        t3 = [("fault", "500"), ("fault", "timeout_applied"), ("kill", False), ("kill", True)]

        def triples(w, n0, rng):
            singles = [attempt(p, f) for p in range(n0) for f in t3]
            return [[a, b, c] for a in singles for b in singles for c in singles]
        run_family(ctx, "retries3", [world("ml1", ("M",), "absent"), world("in", ("M",), "present")], depth, binary, triples)
    # outside the admitted domain (nil / invalid selector): correspondence only
    oworlds = [world(s, p, adv) for s in OUT_OF_DOMAIN for p in [(), ("M",), ("NIL", "M")] for adv in advs]
    run_family(ctx, "out-of-domain", oworlds, depth, binary, single_fault_plan(0.5 if quick else 1.0), in_domain=False)
    flush(ctx)
    ctx.notes.append("family out-of-domain (nil selector: Upgrade panics on sts.Spec.Selector.MatchLabels when the namespace has a "
                     "ControllerRevision; invalid selector: error before any call) is compared with the model only; apps/v1 "
                     "validation admits neither")


def run(ctx, depth):
    check(ctx, depth, BINARY)


def search(ctx):
    check(ctx, "thorough", BINARY)


def replay(data):
    v = data.get("violation") or (data.get("correspondence_breaks") or [{}])[0]
    case = v.get("input")
    if not case:
        print(json.dumps(data, indent=1))
        return 0
    core.build_harness(BINARY)
    o = core.run_harness("upgrade", [case], binary=BINARY)[0]
    ref = core.run_harness("upgrade", [dict(case, attempts=[{}])], binary=BINARY)[0]
    bad, still = monitor(case, o, ref["final"])
    print("input         :", json.dumps(case))
    print("implementation:", json.dumps({"attempts": [{"result": a["result"], "msg": a.get("msg"), "calls": [
        {k: c[k] for k in c if k != "at_delete"} for c in a["calls"]]} for a in o["attempts"]], "final": o["final"]}))
    print("model         :", model_view(case))
    print("monitor       :", bad + still)
    return 1 if (bad or still) else 0


if __name__ == "__main__":
    # python3 -m props.c17 <binary under /verif/build> [quick|thorough] : run the check logic against another harness binary
    binary = sys.argv[1] if len(sys.argv) > 1 else BINARY
    depth = sys.argv[2] if len(sys.argv) > 2 else "quick"
    ctx = core.Ctx("C17", depth, 20260930)
    check(ctx, depth, binary)
    known = core.load_known("C17")
    new = [v for v in ctx.violations if not core.match_known(known, v)]
    print(json.dumps({"binary": binary, "evaluations": ctx.evaluations,
                      "violation_kinds": {k: n for k, n in ctx.distribution.items() if k.startswith("violations:")},
                      "new_violations": len(new), "first_new": (new[0]["clauses"][:4] if new else None),
                      "first_new_input": ({k: new[0]["input"][k] for k in ("set", "revisions", "advanced", "attempts")} if new else None),
                      "correspondence_breaks": len(ctx.corr_breaks),
                      "families_with_mismatches": {f: d["model_mismatches"] for f, d in ctx.families.items() if d["model_mismatches"]}}, indent=1))
    sys.exit(1 if (new or ctx.corr_breaks) else 0)
