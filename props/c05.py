"""C05 — OrderedReady: one pod at a time, predecessors healthy, scale-in from the top."""
from lib import core
from props import reconcile_common as rc, monitors

TITLE = "OrderedReady: one pod at a time, predecessors healthy, scale-in from the top"
TECHNIQUE = ("Coq proof over the Gallina model of the whole reconcile (pure pod-phase planner + monadic executor, every API state, "
             "cache and fault oracle) + projected differential correspondence with the real controller + implementation-side monitor")
ASSUMPTIONS = [
    "API-server and informer-cache semantics are modelled (World.v/Reconcile.v api_*), validated against the fake clientsets + harness reactors",
    "domain: observed pods have a non-empty phase and canonical names with distinct ordinals (monitors skip other snapshots; the model covers them)",
]
PI = "pi_pod_cd"


def monitor(sn, faulty):
    return monitors.mon_c05(sn)


def _set_pods(sc, pods, replicas=None, slots=None):
    import copy as _c, json as _j
    for w in (sc["api"], sc["cache"]):
        st = w.get("set")
        if not st:
            return sc
        st["policy"] = "OrderedReady"
        if replicas is not None:
            st["replicas"] = replicas
        ann = dict(st.get("ann") or {})
        ann.pop("paused-reconcile", None)
        if slots is not None:
            if slots:
                ann["delete-slots"] = _j.dumps(slots)
            else:
                ann.pop("delete-slots", None)
        st["ann"] = ann or None
        st["deleting"] = False
        w["pods"] = _c.deepcopy(pods)
    return sc


def tweak(rng, sc):
    from props.c01 import first_free
    st = sc["cache"].get("set") or sc["api"].get("set")
    if st is None:
        return sc
    rev = (st.get("status") or {}).get("updateRevision") or "web-x"
    claims = st.get("claims") or []
    r = rng.random()
    if r < 0.12:
        # a scale-in across the one-digit / two-digit boundary: the pods to go are named web-9, web-10, web-11 (name order is
        # not ordinal order), everything else healthy or with one unready pod
        reps = rng.choice([8, 9, 9, 10])
        top = rng.choice([10, 11, 11, 12])
        pods = [rc.mkpod(i, rev, claims=claims) for i in range(0, top + 1) if i < reps or rng.random() < 0.85]
        if rng.random() < 0.3 and pods:
            p = rng.choice(pods)
            p["ready"] = False
        return _set_pods(sc, pods, replicas=reps, slots=[])
    if r < 0.24:
        # a delete slot holding an UNHEALTHY pod below a desired pod that exists but is not Running+Ready
        reps = rng.choice([3, 4, 5])
        k = rng.randint(0, reps - 1)
        desired = first_free(reps, {k})
        later = [o for o in desired if o > k]
        pods = [rc.mkpod(o, rev, claims=claims) for o in desired if rng.random() < 0.9]
        if later:
            j = rng.choice(later)
            for p in pods:
                if p["name"].endswith("-%d" % j):
                    p.update(phase=rng.choice(["Pending", "Running"]), ready=False)
        bad = rc.mkpod(k, rev, claims=claims)
        mode = rng.random()
        if mode < 0.4:
            bad.update(phase="Pending", ready=False)
        elif mode < 0.8:
            bad.update(ready=False)
        else:
            bad.update(term=True)
        pods.append(bad)
        return _set_pods(sc, pods, replicas=reps, slots=[k])
    # the property quantifies over the ordered policy: force it on most snapshots
    if rng.random() < 0.9:
        for w in (sc["api"], sc["cache"]):
            if w.get("set"):
                w["set"]["policy"] = "OrderedReady"
    return sc


def run(ctx, depth):
    rc.run_reconcile_property(ctx, depth, "C05", PI, monitor, tweak=tweak)


def search(ctx):
    run(ctx, "thorough")


def replay(data):
    v = data.get("violation") or (data.get("correspondence_breaks") or [{}])[0]
    case = v.get("input")
    if not case:
        print(data)
        return 0
    return rc.replay_case(case, monitor, PI)
