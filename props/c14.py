"""C14 — Parallel policy never waits on other pods when scaling."""
from lib import core
from props import reconcile_common as rc, monitors

TITLE = "Parallel policy never waits on other pods when scaling"
TECHNIQUE = ("Coq proof over the Gallina model of the whole reconcile (pure pod-phase planner + monadic executor, every API state, "
             "cache and fault oracle) + projected differential correspondence with the real controller + implementation-side monitor")
ASSUMPTIONS = [
    "API-server and informer-cache semantics are modelled (World.v/Reconcile.v api_*), validated against the fake clientsets + harness reactors",
    "domain: observed pods have a non-empty phase and canonical names with distinct ordinals (monitors skip other snapshots; the model covers them)",
]
PI = "pi_pod_cd"


def monitor(sn, faulty):
    return monitors.mon_c14(sn, faulty)


def tweak(rng, sc):
    if rng.random() < 0.9:
        for w in (sc["api"], sc["cache"]):
            if w.get("set"):
                w["set"]["policy"] = "Parallel"
    if rng.random() < 0.2 and sc["api"].get("set") and sc["cache"].get("set"):
        # objects of another kind in an unusual state: claims left behind by earlier pods, some of them being deleted (held by
        # the pvc-protection finalizer) — for the controller an existing claim like any other
        cl = ["data"]
        name = sc["api"]["set"]["name"]
        for w in (sc["api"], sc["cache"]):
            w["set"]["claims"] = cl
            for p in w["pods"]:
                o = monitors.parse_name(p["name"])[1]
                if o >= 0 and p.get("vols") is not None:
                    p["vols"] = [{"name": "data", "claim": "data-%s-%d" % (name, o)}] + [v for v in p["vols"] if v["claim"] is None and v["name"] != "data"]
        allc = ["data-%s-%d" % (name, o) for o in range(0, 9)]
        have = [c for c in allc if rng.random() < 0.7]
        term = [c for c in have if rng.random() < 0.4]
        for w in (sc["api"], sc["cache"]):
            w["claims"] = list(have)
            w["claims_term"] = list(term)
    return sc


def run(ctx, depth):
    rc.run_reconcile_property(ctx, depth, "C14", PI, monitor, tweak=tweak)


def search(ctx):
    run(ctx, "thorough")


def replay(data):
    v = data.get("violation") or (data.get("correspondence_breaks") or [{}])[0]
    case = v.get("input")
    if not case:
        print(data)
        return 0
    return rc.replay_case(case, monitor, PI)
