"""C11 — Deleted and paused sets are left alone, and a pause is lossless."""
from lib import core
from props import reconcile_common as rc, monitors

TITLE = "Deleted and paused sets are left alone, and a pause is lossless"
TECHNIQUE = ("Coq proof over the Gallina model of the whole reconcile (pure pod-phase planner + monadic executor, every API state, "
             "cache and fault oracle) + projected differential correspondence with the real controller + implementation-side monitor")
ASSUMPTIONS = [
    "API-server and informer-cache semantics are modelled (World.v/Reconcile.v api_*), validated against the fake clientsets + harness reactors",
    "domain: observed pods have a non-empty phase and canonical names with distinct ordinals (monitors skip other snapshots; the model covers them)",
]
PI = "pi_write"


def monitor(sn, faulty):
    return monitors.mon_c11(sn)


def tweak(rng, sc):
    # raise one of the two flags on most snapshots (both copies of the set)
    r = rng.random()
    for w in (sc["api"], sc["cache"]):
        st = w.get("set")
        if not st:
            continue
        if r < 0.45:
            ann = dict(st.get("ann") or {})
            ann["paused-reconcile"] = "true"
            st["ann"] = ann
        elif r < 0.75:
            st["deleting"] = True
    if 0.75 <= r < 0.92 and sc["api"].get("set") and sc["cache"].get("set"):
        # the deletion has reached the API server but not the informer cache yet; something is there to adopt:
        # the fresh read before an adoption must show the deletion
        sc["api"]["set"]["deleting"] = True
        sc["cache"]["set"]["deleting"] = False
        for rv in sc["api"]["revs"]:
            if rng.random() < 0.6:
                rv["owner"] = None
        for w in (sc["api"], sc["cache"]):
            st = rng.getstate()
            for p in w["pods"]:
                if rng.random() < 0.35:
                    p["owner"] = None
                    p["term"] = False
            rng.setstate(st)
        for p in sc["api"]["pods"]:
            rng.random()
    return sc


def run(ctx, depth):
    rc.run_reconcile_property(ctx, depth, "C11", PI, monitor, tweak=tweak)


def search(ctx):
    run(ctx, "thorough")


def replay(data):
    v = data.get("violation") or (data.get("correspondence_breaks") or [{}])[0]
    case = v.get("input")
    if not case:
        print(data)
        return 0
    return rc.replay_case(case, monitor, PI)
