"""C11 — Deleted and paused sets are left alone, and a pause is lossless."""
from lib import core
from props import reconcile_common as rc, monitors

TITLE = "Deleted and paused sets are left alone, and a pause is lossless"
TECHNIQUE = ("Coq proof over the Gallina model of the whole reconcile (pure pod-phase planner + monadic executor, every API state, "
             "cache and fault oracle) + projected differential correspondence with the real controller + implementation-side monitor")
ASSUMPTIONS = [
    "API-server and informer-cache semantics are modelled (World.v/Reconcile.v api_*), validated against the fake clientsets + harness reactors",
    "domain: observed pods have a non-empty phase and canonical names with distinct ordinals (monitors skip other snapshots; the model covers them)",
]
PI = "pi_write"


def monitor(sn, faulty):
    return monitors.mon_c11(sn)


def tweak(rng, sc):
    # raise one of the two flags on most snapshots (both copies of the set)
    r = rng.random()
    for w in (sc["api"], sc["cache"]):
        st = w.get("set")
        if not st:
            continue
        if r < 0.45:
            ann = dict(st.get("ann") or {})
            ann["paused-reconcile"] = "true"
            st["ann"] = ann
        elif r < 0.75:
            st["deleting"] = True
    if 0.75 <= r < 0.92 and sc["api"].get("set") and sc["cache"].get("set"):
        # the deletion has reached the API server but not the informer cache yet; something is there to adopt:
        # the fresh read before an adoption must show the deletion
        sc["api"]["set"]["deleting"] = True
        sc["cache"]["set"]["deleting"] = False
        for rv in sc["api"]["revs"]:
            if rng.random() < 0.6:
                rv["owner"] = None
        for w in (sc["api"], sc["cache"]):
            st = rng.getstate()
            for p in w["pods"]:
                if rng.random() < 0.35:
                    p["owner"] = None
                    p["term"] = False
            rng.setstate(st)
        for p in sc["api"]["pods"]:
            rng.random()
    return sc


def run_pause_events(ctx, depth):
    """event-driven execution (monitor only): a paused set is edited, then the pause annotation is removed; nothing else
    happens to the set or its pods.  Only the controller's own informer handlers and work queue decide when a reconcile
    runs: while paused no write may be issued, and after the un-pause the set must converge as if it had never been paused."""
    from props import gen
    from props.c02 import converged
    rng = ctx.rng
    n = 32 if depth == "quick" else 500
    gen.init_hashes()
    scs = []
    for _ in range(n):
        reps = rng.choice([2, 3, 3, 4])
        t = rng.choice([1, 2, 3])
        rev = gen.revname(t)
        s = rc.mkset(replicas=reps, tmpl=t, policy=rng.choice(["OrderedReady", "Parallel"]), claims=rng.choice([[], ["data"]]))
        paused_first = rng.random() < 0.7
        if paused_first:
            s["ann"] = {"paused-reconcile": "true"}
        have = [i for i in range(reps) if rng.random() < 0.85]
        s["status"].update(replicas=len(have), ready=len(have), current=len(have), updated=len(have), currentRevision=rev,
                           updateRevision=rev, observedGeneration=s["gen"], collisionCount=0)
        pods = [rc.mkpod(i, rev, claims=s["claims"], tmpl=t) for i in have]
        claims = sorted({v["claim"] for p in pods for v in p["vols"] if v["claim"]})
        api = rc.mkworld(s, pods, [rc.mkrev(rev, 1, t, hashlabel=gen.HASH[(t, 0)])], claims)
        names = ["web-%d" % i for i in range(reps + 3)]
        ops = [{"op": "refresh", "what": "all", "notify": True}, {"op": "drain", "max": 6}]
        if not paused_first:
            ops += [{"op": "edit", "field": "pause", "str": "true"}, {"op": "refresh", "what": "set", "notify": True}, {"op": "drain", "max": 6}]
        kind = rng.choice(["up", "down", "slot", "tmpl", "none"])
        if kind == "up":
            ops += [{"op": "edit", "field": "replicas", "int": reps + 1}]
        elif kind == "down":
            ops += [{"op": "edit", "field": "replicas", "int": reps - 1}]
        elif kind == "slot":
            ops += [{"op": "edit", "field": "slots", "str": "[%d]" % rng.randrange(reps)}]
        elif kind == "tmpl":
            ops += [{"op": "edit", "field": "tmpl", "int": rng.choice([k for k in (1, 2, 3) if k != t])}]
        ops += [{"op": "refresh", "what": "set", "notify": True}, {"op": "drain", "max": 6}]
        npaused = len(ops)
        ops += [{"op": "edit", "field": "pause", "str": None}, {"op": "refresh", "what": "set", "notify": True}]
        for _r in range(3 * reps + 6):
            ops += [{"op": "drain", "max": 6}]
            ops += [{"op": "kubelet", "pod": nm, "ev": "gone"} for nm in names]
            ops += [{"op": "kubelet", "pod": nm, "ev": "settle"} for nm in names]
            ops += [{"op": "refresh", "what": "all", "notify": True}]
        ops += [{"op": "drain", "max": 6}]
        sc = rc.scenario(api, cache=rc.mkworld(None, [], [], []), ops=ops, tmpls=(1, 2, 3))
        sc["_npaused"] = npaused
        sc["_kind"] = kind
        scs.append(sc)
    outs = core.run_harness_parallel("reconcile", [{k: v for k, v in sc.items() if not k.startswith("_")} for sc in scs], shards=16)
    pending = 0
    for sc, out in zip(scs, outs):
        ctx.evaluations += 1
        ctx.count("family:pause-events")
        ctx.count("pause-events:" + sc["_kind"])
        steps = out["steps"]
        bad = []
        first_paused = 2 if sc["api"]["set"].get("ann") else 5      # steps before: initial refresh/drain (+ the pause itself)
        for k, st in enumerate(steps[:sc["_npaused"]]):
            if k >= first_paused and isinstance(st, dict) and "drain" in st:
                for w in st["drain"]:
                    wr = [c for c in w["calls"] if c["verb"] not in ("list", "get")]
                    if wr:
                        bad.append("a reconcile of the paused set issued %s %s %s" % (wr[0]["verb"], wr[0]["res"], wr[0].get("name", "")))
        fin = out["final"]
        fin["pods"] = fin.get("pods") or []
        if fin.get("set") is None:
            bad.append("the set disappeared")
        else:
            nb = converged(fin, sc["api"]["set"])
            if nb:
                bad.append("after the pause was removed and a fair event-driven suffix the set has not converged: %s" % "; ".join(nb[:3]))
            elif sc["_kind"] == "tmpl":
                ur = fin["set"]["status"]["updateRevision"]
                old = [p["name"] for p in fin["pods"] if p["rev"] != ur]
                if old:
                    bad.append("after the pause was removed the rolling update did not finish: %s are not at %s" % (old, ur))
        if sc["_kind"] != "none" or len(sc["api"]["pods"]) < sc["api"]["set"]["replicas"]:
            pending += 1
        if bad:
            ctx.violations.append({"family": "C11/pause-events", "input": {k: v for k, v in sc.items() if not k.startswith("_")},
                                   "observed": {"final": out["final"]}, "clauses": bad, "signature": {"kind": "C11", "clause": bad[0][:40]}})
        ctx.nontriv(["pause-events", sc["_kind"], sc["api"]["set"]["replicas"]])
    ctx.families["C11/pause-events"] = {"histories": n, "with_work_pending_at_the_unpause": pending,
                                        "tie": "monitor only (informer handlers + real work queue; the model covers single reconciles)"}


def run(ctx, depth):
    rc.run_reconcile_property(ctx, depth, "C11", PI, monitor, tweak=tweak)
    run_pause_events(ctx, depth)


def search(ctx):
    run(ctx, "thorough")


def replay(data):
    v = data.get("violation") or (data.get("correspondence_breaks") or [{}])[0]
    case = v.get("input")
    if not case:
        print(data)
        return 0
    return rc.replay_case(case, monitor, PI)
