"""Structured generator of valid PodTemplateSpecs (JSON), shared by the patch families of C08 and C18."""


def gen_container(rng, i):
    c = {"name": "c%d" % i, "image": rng.choice(["nginx", "nginx:1.2", "reg.io:5000/a/b:v1", "busybox@sha256:" + "a" * 64])}
    if rng.random() < 0.5:
        c["command"] = rng.choice([["sh", "-c", "sleep 1"], ["/bin/app"], []])
    if rng.random() < 0.5:
        c["env"] = [{"name": "K%d" % j, "value": rng.choice(["", "v", "a b", "1"])} for j in range(rng.randint(1, 3))]
        if rng.random() < 0.3:
            c["env"].append({"name": "POD", "valueFrom": {"fieldRef": {"fieldPath": "metadata.name"}}})
    if rng.random() < 0.5:
        c["ports"] = [{"containerPort": rng.choice([80, 443, 8080, 65535]), **({"name": "p%d" % j} if rng.random() < 0.5 else {}),
                       **({"protocol": rng.choice(["TCP", "UDP"])} if rng.random() < 0.5 else {})} for j in range(rng.randint(1, 2))]
    if rng.random() < 0.5:
        res = {}
        if rng.random() < 0.7:
            res["limits"] = {"cpu": rng.choice(["500m", "1", "0.5", "100u"]), "memory": rng.choice(["128Mi", "1Gi", "1e3"])}
        if rng.random() < 0.5:
            res["requests"] = {"cpu": rng.choice(["250m", "2"]), **({"ephemeral-storage": "1Gi"} if rng.random() < 0.3 else {})}
        c["resources"] = res
    if rng.random() < 0.4:
        h = rng.choice([{"httpGet": {"path": "/", "port": rng.choice([80, "http"])}}, {"tcpSocket": {"port": 80}}, {"exec": {"command": ["true"]}}])
        pr = dict(h)
        if rng.random() < 0.5:
            pr.update({"initialDelaySeconds": rng.randint(0, 30), "periodSeconds": rng.randint(1, 20)})
        c[rng.choice(["livenessProbe", "readinessProbe", "startupProbe"])] = pr
    if rng.random() < 0.3:
        c["volumeMounts"] = [{"name": "data", "mountPath": "/data"}]
    if rng.random() < 0.2:
        c["securityContext"] = {"runAsUser": rng.choice([0, 1000]), "privileged": rng.random() < 0.3}
    if rng.random() < 0.2:
        c["imagePullPolicy"] = rng.choice(["Always", "IfNotPresent", "Never"])
    if rng.random() < 0.2:
        c["lifecycle"] = {"preStop": {"exec": {"command": ["sleep", "1"]}}}
    return c


def gen_template(rng):
    t = {"metadata": {"labels": {"app": "web"}}, "spec": {"containers": [gen_container(rng, i) for i in range(rng.randint(1, 3))]}}
    if rng.random() < 0.3:
        t["metadata"]["labels"]["tier"] = rng.choice(["db", "cache"])
    if rng.random() < 0.3:
        t["metadata"]["annotations"] = {"note": rng.choice(["x", "", "a/b"])}
    sp = t["spec"]
    if rng.random() < 0.3:
        sp["initContainers"] = [gen_container(rng, 9)]
    if rng.random() < 0.4:
        sp["volumes"] = [rng.choice([{"name": "tmp", "emptyDir": {}}, {"name": "cfg", "configMap": {"name": "cm"}},
                                     {"name": "sec", "secret": {"secretName": "s"}}, {"name": "host", "hostPath": {"path": "/tmp"}},
                                     {"name": "pvc", "persistentVolumeClaim": {"claimName": "c"}},
                                     {"name": "proj", "projected": {"sources": [{"serviceAccountToken": {"path": "t"}}]}}])]
    if rng.random() < 0.3:
        sp["terminationGracePeriodSeconds"] = rng.choice([0, 10, 30])
    # int64 fields at the edge of what JSON numbers carry exactly (admitted by pod validation)
    BIG = [9007199254740993, 9007199254740992, 9223372036854775807, 4611686018427387905, 2147483648]
    if rng.random() < 0.12:
        sp["terminationGracePeriodSeconds"] = rng.choice(BIG)
    if rng.random() < 0.08:
        sp.setdefault("securityContext", {})["runAsUser"] = rng.choice(BIG)
    if rng.random() < 0.06:
        sp["tolerations"] = [{"key": "k", "operator": "Exists", "effect": "NoExecute", "tolerationSeconds": rng.choice(BIG)}]
    if rng.random() < 0.2:
        sp["restartPolicy"] = "Always"
    if rng.random() < 0.2:
        sp["nodeSelector"] = {"disk": "ssd"}
    if rng.random() < 0.2:
        sp["tolerations"] = [{"key": "k", "operator": "Exists", "effect": "NoSchedule"}]
    if rng.random() < 0.2:
        sp["affinity"] = {"podAntiAffinity": {"requiredDuringSchedulingIgnoredDuringExecution": [
            {"labelSelector": {"matchLabels": {"app": "web"}}, "topologyKey": "kubernetes.io/hostname"}]}}
    if rng.random() < 0.2:
        sp["securityContext"] = {"fsGroup": 2000}
    if rng.random() < 0.15:
        sp["hostNetwork"] = True
    if rng.random() < 0.15:
        sp["dnsPolicy"] = rng.choice(["ClusterFirst", "Default"])
    if rng.random() < 0.15:
        sp["serviceAccountName"] = "sa"
    if rng.random() < 0.1:
        sp["priorityClassName"] = "high"
    if rng.random() < 0.1:
        sp["topologySpreadConstraints"] = [{"maxSkew": 1, "topologyKey": "zone", "whenUnsatisfiable": "DoNotSchedule",
                                            "labelSelector": {"matchLabels": {"app": "web"}}}]
    return t


def mutate_template(rng, t):
    import copy
    t2 = copy.deepcopy(t)
    r = rng.random()
    if r < 0.3:
        return t2           # identical
    c = t2["spec"]["containers"][0]
    if r < 0.6:
        c["image"] = c["image"] + "-x"
    elif r < 0.8:
        c.setdefault("env", []).append({"name": "ADDED", "value": "1"})
    else:
        t2["metadata"]["labels"]["rev"] = "2"
    return t2


def has_big_int(x):
    """an integer above 2^53 somewhere in the template (not exactly representable as a float64 JSON number)"""
    if isinstance(x, bool):
        return False
    if isinstance(x, int):
        return abs(x) > 2 ** 53
    if isinstance(x, dict):
        return any(has_big_int(v) for v in x.values())
    if isinstance(x, list):
        return any(has_big_int(v) for v in x)
    return False
