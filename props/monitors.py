"""Implementation-side monitors: each property coded directly over what the real controller did
(harness observation) and the snapshot it was given.  Independent of the Coq model."""
import re
from props.c01 import py_slots, first_free, MAXI32

NAME_RE = re.compile(r"^(.*)-([0-9]+)$", re.S)


def parse_name(name):
    m = NAME_RE.match(name)
    if not m:
        return "", -1
    v = int(m.group(2))
    return m.group(1), (v if v <= MAXI32 else -1)


class Snap:
    """the snapshot one reconcile worked on, as the property text sees it"""

    def __init__(self, sc, obs):
        self.sc, self.obs = sc, obs
        self.set = sc["cache"].get("set")
        self.calls = obs["calls"]
        s = self.set
        self.ok = s is not None
        if not self.ok:
            return
        self.name = s["name"]
        ann = s.get("ann") or {}
        D = py_slots(ann.get("delete-slots"))
        self.slots = D if D is not None else set()
        self.r = s["replicas"] if s["replicas"] is not None else 0
        self.desired = first_free(self.r, self.slots) if self.r <= 4096 else []
        self.desired_set = set(self.desired)
        self.deleting = s["deleting"]
        self.paused = ann.get("paused-reconcile") == "true"
        self.parallel = s["policy"] == "Parallel"
        self.strategy = s["strategy"]
        ro = s["rolling"]
        self.partition = max(ro["partition"], 0) if ro and ro.get("partition") is not None else 0
        adopted = {c["name"] for c in self.calls if c["verb"] == "patch" and c["res"] == "pods" and c.get("kind") == "adopt" and not c.get("err")}
        self.claimed = []
        for p in sc["cache"]["pods"]:
            parent, ord_ = parse_name(p["name"])
            if not (p["match"] and parent == self.name):
                continue
            o = p["owner"]
            if o is not None and o.get("controller", True):
                if o["uid"] == s["uid"]:
                    self.claimed.append(p)
            elif p["name"] in adopted:
                self.claimed.append(p)
        self.by_name = {p["name"]: p for p in self.claimed}
        self.by_ord = {}
        for p in self.claimed:
            self.by_ord.setdefault(parse_name(p["name"])[1], []).append(p)
        # domain of the per-reconcile monitors: non-empty phases, canonical names (S-<ordinal> printed as %d), distinct ordinals
        self.domain_ok = (all(p["phase"] != "" for p in self.claimed)
                          and all(len(v) == 1 for k, v in self.by_ord.items() if k >= 0)
                          and all(parse_name(p["name"])[1] < 0 or p["name"] == "%s-%d" % (self.name, parse_name(p["name"])[1]) for p in self.claimed))
        # revisions as written / known
        st = None
        for c in self.calls:
            if c["verb"] == "update" and c["res"] == "statefulsets" and c.get("status"):
                st = c["status"]
        if st is None and obs["result"] == "ok":
            st = s["status"]
        self.upd = st["updateRevision"] if st else None
        self.cur_written = st["currentRevision"] if st else None

    def ord(self, name):
        return parse_name(name)[1]

    def steady(self, p):
        return p["phase"] == "Running" and p["ready"] and not p["term"]

    def healthy(self, p):
        return self.steady(p)

    def pod_calls(self):
        return [c for c in self.calls if c["res"] == "pods" and c["verb"] in ("create", "delete")]


def classify_delete(sn, idx, c):
    """returns 'a' | 'b' | 'c' | 'fresh-c' | None (unjustified) for the delete call at position idx of sn.calls"""
    name = c["name"]
    o = sn.ord(name)
    p = sn.by_name.get(name)
    pods_after = [x for x in sn.calls[idx + 1:] if x["res"] == "pods" and x["verb"] in ("create", "delete")]
    if any(x["verb"] == "create" and x["res"] == "pods" and x["name"] == name and not x.get("err") for x in sn.calls[:idx]):
        p = None      # the object of that name is the one created earlier in this very reconcile, not the snapshot's
    if p is None:
        # not a claimed pod of the snapshot: only a pod created earlier in this very reconcile may be deleted (update loop)
        created = [x for x in sn.calls[:idx] if x["verb"] == "create" and x["res"] == "pods" and x["name"] == name and not x.get("err")]
        if created and sn.strategy != "OnDelete" and o in sn.desired_set and o >= sn.partition and (sn.upd is None or created[-1].get("rev") != sn.upd):
            return "fresh-c"
        return None
    if o not in sn.desired_set:
        return "a"
    if p["phase"] in ("Failed", "Succeeded"):
        nxt = pods_after[0] if pods_after else None
        if nxt is not None and nxt["verb"] == "create" and nxt["name"] == name:
            return "b"
        if nxt is None and (c.get("err") or sn.obs["result"] != "ok"):
            return "b"           # the reconcile failed at the delete or between delete and create
        # a claim creation of the replacement failed: no pod create, error reported
        if nxt is None:
            return None
    if sn.strategy != "OnDelete" and o >= sn.partition and (sn.upd is None or p["rev"] != sn.upd):
        return "c"
    return None


def mon_c03(sn):
    bad = []
    if sn.ok and not sn.domain_ok and sn.strategy in ("RollingUpdate", "OnDelete") and all(p["phase"] != "" for p in sn.claimed):
        # outside the domain of the classification below (two members claim one ordinal, or a name is not canonical): the three
        # reasons still apply to each pod by the ordinal its name parses to — a live, up-to-date member of the desired set is never deleted
        for c in sn.calls:
            if c["verb"] == "delete" and c["res"] == "pods":
                p0 = sn.by_name.get(c["name"])
                o = parse_name(c["name"])[1]
                if p0 is not None and o >= 0 and o in sn.desired_set and p0["phase"] not in ("Failed", "Succeeded") \
                        and not p0["term"] and sn.upd is not None and p0["rev"] == sn.upd:
                    bad.append("delete of pod %s (ordinal %d in the desired set %s, live, at the update revision) has none of the reasons"
                               % (c["name"], o, sn.desired))
        return bad
    if not sn.ok or not sn.domain_ok or sn.strategy not in ("RollingUpdate", "OnDelete"):
        return bad
    for i, c in enumerate(sn.calls):
        if c["verb"] == "delete" and c["res"] == "pods":
            k = classify_delete(sn, i, c)
            if k is None:
                bad.append("delete of pod %s has none of the reasons (a) outside desired set %s, (b) failed/succeeded and replaced at once, (c) outdated at/above the partition" % (c["name"], sn.desired))
    return bad


def mon_c04(sn):
    bad = []
    if not sn.ok or not sn.domain_ok:
        return bad
    for i, c in enumerate(sn.calls):
        if c["verb"] == "create" and c["res"] == "pods":
            parent, o = parse_name(c["name"])
            if sn.deleting:
                bad.append("pod %s created for a set that is being deleted" % c["name"])
            if parent != sn.name or o not in sn.desired_set:
                bad.append("pod %s created outside the desired set %s (slots %s)" % (c["name"], sn.desired, sorted(sn.slots)))
                continue
            occ = sn.by_ord.get(o, [])
            if occ:
                p = occ[0]
                deleted_before = any(x["verb"] == "delete" and x["res"] == "pods" and x["name"] == p["name"] for x in sn.calls[:i])
                if not (p["phase"] in ("Failed", "Succeeded") and deleted_before):
                    # the update loop may not re-create either: an occupied ordinal is never created
                    bad.append("pod %s created although ordinal %d is occupied by %s (%s)" % (c["name"], o, p["name"], p["phase"]))
    return bad


def mon_c05(sn):
    bad = []
    if not sn.ok or not sn.domain_ok or sn.parallel:
        return bad
    pc = sn.pod_calls()
    ords = {sn.ord(c["name"]) for c in pc}
    if len({c["name"] for c in pc}) > 1 or len(ords) > 1:
        bad.append("ordered reconcile created/deleted pods at more than one ordinal: %s" % [c["verb"] + " " + c["name"] for c in pc])
    for i, c in enumerate(sn.calls):
        if c["res"] != "pods" or c["verb"] not in ("create", "delete"):
            continue
        o = sn.ord(c["name"])
        if c["verb"] == "create":
            for j in sn.desired:
                if j < o:
                    q = sn.by_ord.get(j)
                    if not q or not sn.steady(q[0]) or q[0]["phase"] in ("Failed", "Succeeded"):
                        bad.append("pod %s created although desired ordinal %d is not Running+Ready" % (c["name"], j))
                        break
        else:
            p = sn.by_name.get(c["name"])
            if p is None:
                continue
            all_steady = all(sn.by_ord.get(j) and sn.steady(sn.by_ord[j][0]) for j in sn.desired)
            if o not in sn.desired_set:
                higher = [q for q in sn.claimed if sn.ord(q["name"]) not in sn.desired_set and sn.ord(q["name"]) > o]
                if not all_steady:
                    bad.append("pod %s outside the desired set deleted although a desired pod is not Running+Ready" % c["name"])
                if higher:
                    bad.append("pod %s deleted for scale-in although %s has a higher ordinal" % (c["name"], higher[0]["name"]))
            elif p["phase"] not in ("Failed", "Succeeded"):
                cond = [q for q in sn.claimed if sn.ord(q["name"]) >= 0 and sn.ord(q["name"]) not in sn.desired_set]
                if cond:
                    bad.append("pod %s taken down for update although %s is still to be scaled in" % (c["name"], cond[0]["name"]))
                if not all_steady:
                    bad.append("pod %s taken down for update although a desired pod is not healthy" % c["name"])
    return bad


def mon_c07(sn):
    bad = []
    if not sn.ok or not sn.domain_ok or sn.strategy not in ("RollingUpdate", "OnDelete"):
        return bad
    ro = sn.set["rolling"]
    for i, c in enumerate(sn.calls):
        if c["res"] != "pods":
            continue
        o = sn.ord(c["name"])
        if c["verb"] == "delete":
            k = classify_delete(sn, i, c)
            p0 = sn.by_name.get(c["name"])
            if k is None and p0 is not None and o in sn.desired_set and p0["phase"] not in ("Failed", "Succeeded") \
                    and sn.strategy == "RollingUpdate" and sn.upd is not None and p0["rev"] != sn.upd and 0 <= o < sn.partition:
                # no other reason exists for this delete than the pod's revision, and its ordinal is below the partition
                bad.append("pod %s (ordinal %d, revision %s) deleted because of its revision although it is below the partition %d"
                           % (c["name"], o, p0["rev"], sn.partition))
            if k is None and p0 is not None and o in sn.desired_set and p0["phase"] not in ("Failed", "Succeeded") \
                    and sn.strategy == "OnDelete" and sn.upd is not None and p0["rev"] != sn.upd and not p0["term"]:
                # a live pod of the desired set: no reason for this delete exists other than its revision
                bad.append("OnDelete: pod %s (revision %s, update revision %s) deleted because of its revision" % (c["name"], p0["rev"], sn.upd))
            if k in ("c", "fresh-c"):
                if sn.strategy == "OnDelete":
                    bad.append("OnDelete: pod %s deleted because of its revision" % c["name"])
                if o < sn.partition:
                    bad.append("pod %s below the partition %d deleted for update" % (c["name"], sn.partition))
                if sn.upd is not None:
                    for j in sn.desired:
                        if j > o:
                            q = sn.by_ord.get(j)
                            if not q or q[0]["rev"] != sn.upd or not sn.healthy(q[0]):
                                bad.append("pod %s deleted for update although desired ordinal %d above it is not updated and healthy" % (c["name"], j))
                                break
        elif c["verb"] == "create" and ro and ro.get("partition") is not None and sn.upd is not None and sn.cur_written is not None:
            # which revision a (re)created pod is built from; only checkable when both names are known and
            # the rollout did not complete in this very reconcile (then current := update)
            cur_before = sn.set["status"]["currentRevision"]
            names = {r["name"] for r in sn.sc["api"]["revs"]}
            if cur_before in names and cur_before == sn.cur_written:
                want = cur_before if o < ro["partition"] else sn.upd
                if c.get("rev") != want:
                    bad.append("pod %s created from revision %s, expected %s (partition %d)" % (c["name"], c.get("rev"), want, ro["partition"]))
    return bad


def mon_c14(sn, faulty):
    bad = []
    # a reconcile that reports an error although no API call failed (no fault was injected) is judged like a successful one:
    # under Parallel nothing but a failed call excuses work that was not issued
    # (the one legitimate error without a failed call: an adoption refused because the fresh read shows the set deleted or replaced)
    failed_call = any(c.get("err") for c in sn.calls)
    api_set = sn.sc["api"].get("set")
    live_same = api_set is not None and api_set["uid"] == sn.set["uid"] and not api_set["deleting"]
    if not sn.ok or not sn.domain_ok or not sn.parallel or sn.deleting or faulty or sn.obs["result"] == "panic" \
            or (sn.obs["result"] != "ok" and (failed_call or not live_same)) or sn.paused or sn.set["selector"] != "ok":
        return bad
    created = {c["name"] for c in sn.calls if c["verb"] == "create" and c["res"] == "pods"}
    deleted = {c["name"] for c in sn.calls if c["verb"] == "delete" and c["res"] == "pods"}
    for j in sn.desired:
        if not sn.by_ord.get(j) and "%s-%d" % (sn.name, j) not in created:
            bad.append("Parallel: vacant desired ordinal %d not created in this reconcile" % j)
    for p in sn.claimed:
        o = sn.ord(p["name"])
        if o >= 0 and o not in sn.desired_set and not p["term"] and p["name"] not in deleted:
            bad.append("Parallel: live pod %s outside the desired set not deleted in this reconcile" % p["name"])
    upd = [c for i, c in enumerate(sn.calls) if c["verb"] == "delete" and c["res"] == "pods" and classify_delete(sn, i, c) in ("c", "fresh-c")]
    if len(upd) > 1:
        bad.append("Parallel: %d pods taken down for update in one reconcile" % len(upd))
    if sn.upd is not None:
        for c in upd:
            o = sn.ord(c["name"])
            for j in sn.desired:
                q = sn.by_ord.get(j)
                if j > o and q and (q[0]["rev"] != sn.upd or not sn.healthy(q[0])) and "%s-%d" % (sn.name, j) not in created:
                    bad.append("Parallel: pod %s taken down for update while desired pod %s above it is not updated and healthy"
                               % (c["name"], q[0]["name"]))
                    break
    return bad


def mon_c11(sn):
    bad = []
    if not sn.ok:
        return bad
    writes = [c for c in sn.calls if c["verb"] not in ("list", "get")]
    if sn.paused:
        if sn.calls:
            bad.append("paused set: the reconcile issued calls %s" % [c["verb"] + " " + c["res"] for c in sn.calls][:4])
        if sn.obs["result"] != "ok":
            bad.append("paused set: reconcile did not return success (%s)" % sn.obs["result"])
    if sn.deleting:
        for c in writes:
            if c["res"] in ("pods", "persistentvolumeclaims"):
                bad.append("set being deleted: %s %s %s" % (c["verb"], c["res"], c["name"]))
            if c["res"] == "controllerrevisions" and c["verb"] == "patch":
                bad.append("set being deleted: ControllerRevision %s adopted" % c["name"])
    api_set = sn.sc["api"].get("set")
    if api_set is not None and api_set["deleting"] and api_set["uid"] == sn.set["uid"]:
        # the cache may lag: the fresh read before an adoption shows the deletion
        for c in writes:
            if c["res"] == "controllerrevisions" and c["verb"] == "patch" and not c.get("err"):
                bad.append("the live set is being deleted (stale cache): ControllerRevision %s adopted" % c["name"])
            if c["res"] == "pods" and c["verb"] == "patch" and c.get("kind") == "adopt" and not c.get("err"):
                bad.append("the live set is being deleted (stale cache): pod %s adopted" % c["name"])
    return bad


def mon_c12(sn):
    bad = []
    if not sn.ok or not sn.domain_ok:
        return bad
    s = sn.set
    # revisions the set can find: listed by its selector labels or its upgrade marker, orphan or its own
    revnames = {r["name"] for r in sn.sc["api"]["revs"]
                if (r["owner"] is None or r["owner"]["uid"] == s["uid"]) and not r["labels_nil"]
                and (r["match"] or r["marker"] == s["name"])}
    pod_writes = [c for c in sn.calls if c["res"] == "pods" and c["verb"] in ("create", "delete")]
    for c in sn.calls:
        if not (c["verb"] == "update" and c["res"] == "statefulsets" and c.get("status")):
            continue
        st = c["status"]
        for k in ("ready", "current", "updated"):
            if not (0 <= st[k] <= st["replicas"]):
                bad.append("status written with %sReplicas=%d outside [0, replicas=%d]" % (k, st[k], st["replicas"]))
        if st["observedGeneration"] != s["gen"]:
            bad.append("status written with observedGeneration %d, the reconciled generation is %d" % (st["observedGeneration"], s["gen"]))
        api_set = sn.sc["api"].get("set")
        if api_set and not c.get("err") and st["observedGeneration"] < api_set["status"]["observedGeneration"] and api_set["status"]["observedGeneration"] <= api_set["gen"]:
            bad.append("status write lowered observedGeneration from %d to %d" % (api_set["status"]["observedGeneration"], st["observedGeneration"]))
        cur0 = s["status"]["currentRevision"]
        if cur0 in revnames and st["currentRevision"] != cur0:
            allup = all(p["rev"] == st["updateRevision"] and p["phase"] == "Running" and p["ready"] for p in sn.claimed)
            if not (s["strategy"] == "RollingUpdate" and st["currentRevision"] == st["updateRevision"] and allup and not pod_writes):
                bad.append("currentRevision changed from %s to %s although not every pod is at the update revision and Ready" % (cur0, st["currentRevision"]))
        if not pod_writes:
            n = len(sn.claimed)
            rr = sum(1 for p in sn.claimed if p["phase"] == "Running" and p["ready"])
            upd = sum(1 for p in sn.claimed if p["phase"] != "" and not p["term"] and p["rev"] == st["updateRevision"])
            if st["replicas"] != n or st["ready"] != rr or st["updated"] != upd:
                bad.append("status counters (%d/%d/upd %d) are not the census of the claimed pods (%d/%d/upd %d)" % (st["replicas"], st["ready"], st["updated"], n, rr, upd))
    bad += status_retry_clauses(sn)
    harness_refresh = any(op.get("refresh_on_conflict") for op in (sn.sc.get("ops") or []))     # the harness itself updates the cache then
    if sn.obs.get("cache_mutated") and not harness_refresh:
        # the computed status (or anything else) written into the object held by the informer cache: whether or not the API
        # write succeeds, later reconciles compare against it, find nothing to write, and the stored counters stay stale
        bad.append("the cached StatefulSet (or another cached object) was modified by the reconcile: a status that never reached "
                   "the API server would be taken for stored")
    return bad


def mon_c15(sn):
    return ["the controller panicked: " + sn.obs.get("msg", "")] if sn.obs["result"] == "panic" else []


def listed_revs(sn):
    """revisions the controller can see for this set: selector labels or its marker, orphan or its own, by name once"""
    s = sn.set
    out = {}
    for r in sn.sc["api"]["revs"]:
        if r["labels_nil"] or not (r["match"] or r["marker"] == s["name"]):
            continue
        if r["owner"] is not None and r["owner"].get("controller", True) and r["owner"]["uid"] != s["uid"]:
            continue
        out.setdefault(r["name"], r)
    return out


def mon_c13(sn, faulty):
    bad = []
    if not sn.ok:
        return bad
    s = sn.set
    dels = [c for c in sn.calls if c["verb"] == "delete" and c["res"] == "controllerrevisions"]
    if not dels:
        return bad
    allrevs = {r["name"]: r for r in sn.sc["api"]["revs"]}
    created = {c["name"]: c for c in sn.calls if c["verb"] == "create" and c["res"] == "controllerrevisions" and not c.get("err")}
    listed = listed_revs(sn)
    # adoption / label sync earlier in this reconcile make more revisions the set's own
    live = {p["rev"] for p in sn.claimed}
    if sn.upd is not None:
        live.add(sn.upd)
    if sn.cur_written is not None:
        live.add(sn.cur_written)
        live.add(s["status"]["currentRevision"])
    limit = s["rhl"] if s["rhl"] is not None else 0
    seen = set()
    for c in dels:
        n = c["name"]
        if n in seen:
            bad.append("revision %s deleted twice in one reconcile" % n)
        seen.add(n)
        r = allrevs.get(n)
        if r is None:
            bad.append("delete of a revision %s that does not exist in the snapshot" % n)
            continue
        if r["owner"] is not None and r["owner"]["uid"] != s["uid"]:
            bad.append("revision %s controlled by %s/%s deleted" % (n, r["owner"]["kind"], r["owner"]["name"]))
        if n not in listed:
            bad.append("revision %s deleted although it does not belong to this set" % n)
        if n in live:
            bad.append("live revision %s (current, update or named by a pod) deleted" % n)
    if sn.upd is not None and sn.cur_written is not None:
        unused = sorted([r for r in listed.values() if r["name"] not in live], key=lambda r: (r["revision"], r["created"], r["name"]))
        if len(unused) <= limit:
            bad.append("history trimmed although only %d unused revisions exist (limit %d)" % (len(unused), limit))
        want = [r["name"] for r in unused[:max(len(unused) - limit, 0)]]
        got = [c["name"] for c in dels]
        if got != want[:len(got)]:
            bad.append("revisions deleted %s, the oldest unused beyond the limit are %s" % (got, want))
        if not faulty and sn.obs["result"] == "ok" and len(unused) - len([g for g in got if g in {u['name'] for u in unused}]) > limit:
            bad.append("after a successful reconcile %d unused revisions remain (limit %d)" % (len(unused) - len(got), limit))
    return bad


def mon_c10(sn):
    bad = []
    if not sn.ok:
        return bad
    s = sn.set
    cache_pods = {p["name"]: p for p in sn.sc["cache"]["pods"]}
    api_revs = {r["name"]: r for r in sn.sc["api"]["revs"]}
    got_ok = False
    created = set()
    adopted_revs = set()
    for i, c in enumerate(sn.calls):
        v, res, n = c["verb"], c["res"], c.get("name", "")
        if v == "get" and res == "statefulsets" and not c.get("err"):
            got_ok = True
        if res == "statefulsets" and v not in ("get",) and not (v == "update" and c.get("sub") == "status"):
            bad.append("the set itself written through %s %s" % (v, c.get("sub", "")))
        if res == "pods":
            p = cache_pods.get(n)
            mine = p is not None and p["owner"] is not None and p["owner"]["uid"] == s["uid"] and p["owner"].get("controller", True)
            if v == "patch" and c.get("kind") == "adopt":
                if not got_ok:
                    bad.append("pod %s adopted without a preceding successful fresh GET of the set" % n)
                if p is None or p["owner"] is not None or not p["match"] or parse_name(n)[0] != s["name"] or p["term"] or s["deleting"]:
                    bad.append("pod %s adopted although it is not an unowned, matching, live member" % n)
                api_set = sn.sc["api"].get("set")
                if api_set is None or api_set["uid"] != s["uid"] or api_set["deleting"]:
                    bad.append("pod %s adopted although the live set is gone, replaced or being deleted" % n)
            elif v == "patch":
                if not mine or (p["match"] and parse_name(n)[0] == s["name"]):
                    bad.append("pod %s released although it is not an owned, no longer matching pod" % n)
            elif v == "create":
                created.add(n)
            elif v in ("delete", "update"):
                adopted = any(x["verb"] == "patch" and x["res"] == "pods" and x.get("kind") == "adopt" and x["name"] == n and not x.get("err") for x in sn.calls[:i])
                if not (mine or adopted or n in created):
                    # identity repair renames: the update goes to the canonical name of an owned pod
                    src = [q for q in sn.claimed if "%s-%d" % (s["name"], parse_name(q["name"])[1]) == n]
                    if not (v == "update" and src):
                        bad.append("%s of pod %s which this set does not control" % (v, n))
        if res == "controllerrevisions" and v in ("patch", "update", "delete"):
            r = api_revs.get(n)
            if r is not None and r["owner"] is not None and r["owner"].get("controller", True) and r["owner"]["uid"] != s["uid"]:
                bad.append("%s of ControllerRevision %s controlled by %s/%s" % (v, n, r["owner"]["kind"], r["owner"]["name"]))
            if v == "update" and r is not None and not r.get("labels_nil") and c.get("labels") is not None:
                # an update of a stored revision (label sync, renumbering) keeps the labels it had: its hash label and its
                # upgrade marker (the template labels may be added)
                keep = []
                if r.get("hashlabel") is not None:
                    keep.append("controller.kubernetes.io/hash=%s" % r["hashlabel"])
                if r.get("marker") is not None:
                    keep.append("apps.pingcap.com/upgrade-to-asts=%s" % r["marker"])
                lost = [k for k in keep if k not in c["labels"]]
                if lost:
                    bad.append("update of ControllerRevision %s dropped its label(s) %s" % (n, lost))
            if v == "patch":
                if not got_ok:
                    bad.append("revision %s adopted without a preceding successful fresh GET of the set" % n)
                if r is not None and r["owner"] is not None:
                    bad.append("revision %s adopted although it has a controller" % n)
                api_set = sn.sc["api"].get("set")
                if api_set is None or api_set["uid"] != s["uid"] or api_set["deleting"]:
                    bad.append("revision %s adopted although the live set is gone, replaced or being deleted" % n)
    if sn.obs.get("cache_mutated"):
        bad.append("an object read from the informer caches was modified")
    # pods the set controls whose labels stopped matching are released (owner reference removed) by a reconcile that succeeds
    api_set = sn.sc["api"].get("set")
    if sn.obs["result"] == "ok" and not any(c.get("err") for c in calls_all(sn)) and not s["deleting"] and s["selector"] == "ok" \
            and not sn.paused and api_set is not None and api_set["uid"] == s["uid"] and not api_set["deleting"]:
        released = {c["name"] for c in sn.calls if c["verb"] == "patch" and c["res"] == "pods" and c.get("kind") == "release"}
        api_pods = {p["name"] for p in sn.sc["api"]["pods"]}
        for p in sn.sc["cache"]["pods"]:
            o = p["owner"]
            if o is not None and o.get("controller", True) and o["uid"] == s["uid"] and not p["match"] and p["name"] in api_pods \
                    and p["name"] not in released:
                bad.append("pod %s is controlled by the set and no longer matches its selector, but was not released" % p["name"])
                break
    return bad


def calls_all(sn):
    return sn.calls


def mon_c08(sn, faulty):
    """update revision mirrors the template; no needless revision; rollback renumbers; collisions never overwrite"""
    bad = []
    if not sn.ok or sn.paused or sn.set["selector"] != "ok":
        return bad
    s = sn.set
    listed = listed_revs(sn)
    revcalls = [c for c in sn.calls if c["res"] == "controllerrevisions" and c["verb"] in ("create", "update", "delete", "patch")]
    creates = [c for c in revcalls if c["verb"] == "create"]
    allrevs = {r["name"]: r for r in sn.sc["api"]["revs"]}
    # (d) an equal revision is listed (no numeric hash label in play) => nothing is created
    equal = [r for r in listed.values() if r["tmpl"] == s["tmpl"] and not (r["hashlabel"] or "").lstrip("+-").isdigit()]
    if equal and creates:
        bad.append("a revision equal to the template is listed (%s) but %s was created" % (equal[0]["name"], creates[0]["name"]))
    # (f) a colliding name with different data is never updated / deleted to make room
    for c in creates:
        if c.get("err") == "exists":
            r = allrevs.get(c["name"])
            if r is not None and r["tmpl"] != s["tmpl"]:
                later = [x for x in revcalls if x["name"] == c["name"] and x["verb"] in ("update", "delete", "patch") and x is not c]
                if later and r["name"] not in listed:
                    bad.append("revision %s collides by name with different data and was then %s" % (c["name"], later[0]["verb"]))
    for c in creates:
        if c.get("tmpl") != s["tmpl"]:
            bad.append("revision %s created with data of template %s, the set's template is %s" % (c["name"], c.get("tmpl"), s["tmpl"]))
    # (e) rollback: renumbered above all others
    for c in revcalls:
        if c["verb"] == "update" and c["name"] in listed and c.get("revision") != listed[c["name"]]["revision"]:
            mx = max(r["revision"] for r in listed.values())
            if c.get("revision") != mx + 1:
                bad.append("revision %s renumbered to %s, expected %d (above all others)" % (c["name"], c.get("revision"), mx + 1))
            if listed[c["name"]]["tmpl"] != s["tmpl"]:
                bad.append("revision %s renumbered although its data is not the set's template" % c["name"])
    # (e') after ANY successful reconcile (a conflict on the way included) the revision named as update revision is numbered
    # at least as high as every other revision of the set
    if sn.obs["result"] == "ok" and sn.upd is not None and getattr(sn, "final", None):
        fin = {r["name"]: r for r in sn.final["revs"]}
        r = fin.get(sn.upd)
        if r is not None and sn.upd in listed:
            higher = [q["name"] for n, q in fin.items() if n in listed and n != sn.upd and q["revision"] > r["revision"]]
            if higher:
                bad.append("the reconcile succeeded, status.updateRevision %s has Revision %d, which is below %s" % (sn.upd, r["revision"], higher[:2]))
    # (c) after a successful fault-free reconcile the update revision is stored and mirrors the template
    if not faulty and sn.obs["result"] == "ok" and sn.upd is not None and getattr(sn, "final", None):
        fin = {r["name"]: r for r in sn.final["revs"]}
        r = fin.get(sn.upd)
        if r is None:
            bad.append("status.updateRevision %s names no stored ControllerRevision" % sn.upd)
        elif r["tmpl"] != s["tmpl"]:
            bad.append("status.updateRevision %s records template %s, the set's template is %s" % (sn.upd, r["tmpl"], s["tmpl"]))
    return bad


def mon_c06(sn, faulty):
    bad = []
    if not sn.ok:
        return bad
    s = sn.set
    calls = sn.calls
    for i, c in enumerate(calls):
        if c["res"] == "persistentvolumeclaims" and c["verb"] != "create":
            bad.append("claim %s %s: the controller may only create claims" % (c["verb"], c["name"]))
        if c.get("ns"):
            bad.append("%s %s %s issued in namespace %s, not in the set's" % (c["verb"], c["res"], c.get("name", ""), c["ns"]))
        if c["res"] == "persistentvolumeclaims" and c["verb"] == "create" and s["selector"] == "ok":
            if "app=%s" % (s.get("app") or s["name"]) not in (c.get("labels") or []):
                bad.append("claim %s created without the selector's match labels (%s)" % (c["name"], c.get("labels")))
        if c["res"] == "pods" and c["verb"] == "create":
            if c.get("ident") is False and sn.domain_ok:     # (a phase-less cached pod is re-submitted as it is: outside the domain)
                bad.append("pod %s created without the full identity (name/hostname/subdomain/labels/owner/claim volumes)" % c["name"])
            parent, o = parse_name(c["name"])
            want = ["%s-%s-%d" % (t, s["name"], o) for t in s["claims"]]
            cached = set(sn.sc["cache"]["claims"])
            # every claim of that pod that is not in the claim cache must have been created (or attempted) before, without error
            before = {x["name"]: x for x in calls[:i] if x["res"] == "persistentvolumeclaims" and x["verb"] == "create"}
            for w in want:
                if w not in cached:
                    x = before.get(w)
                    if x is None:
                        bad.append("pod %s created before its claim %s was created" % (c["name"], w))
                    elif x.get("err"):
                        bad.append("pod %s created although the creation of claim %s failed (%s)" % (c["name"], w, x["err"]))
        resubmitted = any(q["name"] == c.get("name") and q["phase"] == "" for q in sn.sc["cache"]["pods"])
        if c["res"] == "pods" and c["verb"] == "create" and c.get("rev") and not resubmitted:
            # the revision label names the revision the pod was built from
            # (a cached pod without a phase is re-submitted as it is, with whatever label it carries: not built here)
            known = {r["name"]: r["tmpl"] for r in sn.sc["api"]["revs"]}
            for x in calls[:i]:
                if x["res"] == "controllerrevisions" and x["verb"] == "create" and not x.get("err"):
                    known[x["name"]] = x.get("tmpl")
            if c["rev"] in known and known[c["rev"]] is not None and c.get("tmpl") is not None and known[c["rev"]] != c["tmpl"]:
                bad.append("pod %s is labelled with revision %s (template %s) but was built from template %s"
                           % (c["name"], c["rev"], known[c["rev"]], c["tmpl"]))
        if c["res"] == "pods" and c["verb"] == "update" and c.get("ident") is False and not c.get("err"):
            bad.append("pod %s updated to a state that still lacks identity / claim volumes" % c["name"])
    # a failed claim creation is reported
    if any(c["res"] == "persistentvolumeclaims" and c.get("err") for c in calls) and sn.obs["result"] == "ok":
        bad.append("a claim creation failed but the reconcile reported success")
    # claims never disappear
    if getattr(sn, "final", None) is not None:
        missing = set(sn.sc["api"]["claims"]) - set(sn.final["claims"] or [])
        if missing:
            bad.append("claims %s disappeared during the reconcile" % sorted(missing))
    return bad


def benign_err(c):
    e = c.get("err")
    if not e:
        return True
    v, res = c["verb"], c["res"]
    if v == "patch" and res == "pods":
        return e == "notfound" or (e == "invalid" and c.get("kind") == "release")
    if v == "create" and res == "controllerrevisions":
        return e == "exists"
    if v == "update" and (res in ("pods", "controllerrevisions") or (res == "statefulsets" and c.get("sub") == "status")):
        return e == "conflict"
    if v == "get" and res == "controllerrevisions":
        return True
    return False


def status_retry_clauses(sn):
    """a status write that is retried after a Conflict carries the status this reconcile computed, on a fresh copy of the
    set: the same counters and revisions as the first attempt (only the resourceVersion may differ)"""
    bad = []
    writes = [c for c in sn.calls if c["verb"] == "update" and c["res"] == "statefulsets" and c.get("status")]
    for a, b in zip(writes, writes[1:]):
        if a.get("err") == "conflict":
            da, db = dict(a["status"]), dict(b["status"])
            if da != db:
                bad.append("status write retried after a Conflict carries %s, the reconcile had computed %s" % (db, da))
    return bad


def mon_c09(sn, faulty):
    bad = []
    if not sn.ok:
        return bad
    nb = [c for c in sn.calls if not benign_err(c)]
    if nb and sn.obs["result"] == "ok":
        c = nb[0]
        bad.append("%s %s %s failed (%s) but the reconcile reported success" % (c["verb"], c["res"], c.get("name", ""), c["err"]))
    if "requeues" in sn.obs or sn.obs.get("via_worker"):
        rq = sn.obs.get("requeues", 0)
        if sn.obs["result"] == "err" and rq < 1:
            bad.append("failed reconcile was not put back with back-off (NumRequeues=%d)" % rq)
        if sn.obs["result"] == "ok" and rq != 0:
            bad.append("successful reconcile left NumRequeues=%d" % rq)
    bad += status_retry_clauses(sn)
    # harmless: the partial work of a failed / crashed reconcile violates none of the safety rules
    for m in (mon_c03, mon_c04, mon_c05, mon_c07, mon_c10, mon_c11):
        bad += ["[partial work] " + x for x in m(sn)]
    bad += ["[partial work] " + x for x in mon_c13(sn, True)]
    return bad
