"""C03 — Only pods that must go are ever deleted; scale-in at slot k removes only pod k."""
from lib import core
from props import reconcile_common as rc, monitors

TITLE = "Only pods that must go are ever deleted; scale-in at slot k removes only pod k"
TECHNIQUE = ("Coq proof over the Gallina model of the whole reconcile (pure pod-phase planner + monadic executor, every API state, "
             "cache and fault oracle) + projected differential correspondence with the real controller + implementation-side monitor")
ASSUMPTIONS = [
    "API-server and informer-cache semantics are modelled (World.v/Reconcile.v api_*), validated against the fake clientsets + harness reactors",
    "domain: observed pods have a non-empty phase and canonical names with distinct ordinals (monitors skip other snapshots; the model covers them)",
]
PI = "pi_pod_delete"


def monitor(sn, faulty):
    return monitors.mon_c03(sn)


def tweak(rng, sc):
    # now and then the worlds of c07.tweak: a partition (in ordinals) beyond spec.replicas with delete slots inside the range and
    # healthy outdated pods below it — a delete there has none of the reasons
    from props import c07
    return c07.tweak(rng, sc)


def run(ctx, depth):
    rc.run_reconcile_property(ctx, depth, "C03", PI, monitor, tweak=tweak)


def search(ctx):
    run(ctx, "thorough")


def replay(data):
    v = data.get("violation") or (data.get("correspondence_breaks") or [{}])[0]
    case = v.get("input")
    if not case:
        print(data)
        return 0
    return rc.replay_case(case, monitor, PI)
