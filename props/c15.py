"""C15 — No admitted object can crash the controller."""
from lib import core
from props import reconcile_common as rc, monitors

TITLE = "No admitted object can crash the controller"
TECHNIQUE = ("Coq proof over the Gallina model of the whole reconcile (pure pod-phase planner + monadic executor, every API state, "
             "cache and fault oracle) + projected differential correspondence with the real controller + implementation-side monitor")
ASSUMPTIONS = [
    "API-server and informer-cache semantics are modelled (World.v/Reconcile.v api_*), validated against the fake clientsets + harness reactors",
    "domain: observed pods have a non-empty phase and canonical names with distinct ordinals (monitors skip other snapshots; the model covers them)",
]
PI = "pi_all"


def monitor(sn, faulty):
    return monitors.mon_c15(sn)


def tweak(rng, sc):
    # everything the CRD admits: odd strings, absent / empty rolling block, any partition, bad annotations
    for w in (sc["api"], sc["cache"]):
        st = w.get("set")
        if not st:
            continue
    r = rng.random
    policy = rng.choice(["OrderedReady", "Parallel", "", "parallel", "Weird"])
    strategy = rng.choice(["RollingUpdate", "OnDelete", "", "Recreate"])
    rolling = rng.choice([None, {"partition": None}, {"partition": -1}, {"partition": -2147483648}, {"partition": 0}, {"partition": 2}, {"partition": 2147483647}])
    slots = rng.choice([None, "[-1]", "[2147483647]", "[-2147483648,0]", "[1,", "{}", "[99999999999]", "[0,1,2,3,4,5,6,7]", "null"])
    rhl = rng.choice([0, 1, 10, 2147483647])
    for w in (sc["api"], sc["cache"]):
        st = w.get("set")
        if not st:
            continue
        st["policy"], st["strategy"], st["rolling"], st["rhl"] = policy, strategy, rolling, rhl
        ann = dict(st.get("ann") or {})
        if slots is None:
            ann.pop("delete-slots", None)
        else:
            ann["delete-slots"] = slots
        st["ann"] = ann or None
    return sc


def run(ctx, depth):
    rc.run_reconcile_property(ctx, depth, "C15", PI, monitor, tweak=tweak, cmp_outcome=True)


def search(ctx):
    run(ctx, "thorough")


def replay(data):
    v = data.get("violation") or (data.get("correspondence_breaks") or [{}])[0]
    case = v.get("input")
    if not case:
        print(data)
        return 0
    return rc.replay_case(case, monitor, PI)
