"""C15 — No admitted object can crash the controller."""
from lib import core
from props import reconcile_common as rc, monitors

TITLE = "No admitted object can crash the controller"
TECHNIQUE = ("Coq proof over the Gallina model of the whole reconcile (pure pod-phase planner + monadic executor, every API state, "
             "cache and fault oracle) + projected differential correspondence with the real controller + implementation-side monitor")
ASSUMPTIONS = [
    "API-server and informer-cache semantics are modelled (World.v/Reconcile.v api_*), validated against the fake clientsets + harness reactors",
    "domain: observed pods have a non-empty phase and canonical names with distinct ordinals (monitors skip other snapshots; the model covers them)",
]
PI = "pi_all"


def monitor(sn, faulty):
    return monitors.mon_c15(sn)


def tweak(rng, sc):
    # everything the CRD admits: odd strings, absent / empty rolling block, any partition, bad annotations
    for w in (sc["api"], sc["cache"]):
        st = w.get("set")
        if not st:
            continue
    r = rng.random
    policy = rng.choice(["OrderedReady", "Parallel", "", "parallel", "Weird"])
    strategy = rng.choice(["RollingUpdate", "OnDelete", "", "Recreate"])
    rolling = rng.choice([None, {"partition": None}, {"partition": -1}, {"partition": -2147483648}, {"partition": 0}, {"partition": 2}, {"partition": 2147483647}])
    slots = rng.choice([None, "[-1]", "[2147483647]", "[-2147483648,0]", "[1,", "{}", "[99999999999]", "[0,1,2,3,4,5,6,7]", "null"])
    rhl = rng.choice([0, 1, 10, 2147483647])
    for w in (sc["api"], sc["cache"]):
        st = w.get("set")
        if not st:
            continue
        st["policy"], st["strategy"], st["rolling"], st["rhl"] = policy, strategy, rolling, rhl
        ann = dict(st.get("ann") or {})
        if slots is None:
            ann.pop("delete-slots", None)
        else:
            ann["delete-slots"] = slots
        st["ann"] = ann or None
    if rng.random() < 0.12 and sc["api"].get("set") and sc["cache"].get("set"):
        # any population of pods: a member at the edge of the ordinal range (the highest int32, and its neighbour), healthy or
        # not — somebody created a pod with that name and the set's labels; it is outside every desired range
        sname = sc["api"]["set"]["name"]
        o = rng.choice([2147483647, 2147483647, 2147483646])
        ref = next((p for p in sc["api"]["pods"] if p.get("owner")), None)
        revn = ref["rev"] if ref else (sc["api"]["set"]["status"].get("currentRevision") or "")
        cl = sc["api"]["set"].get("claims") or []
        pod = rc.mkpod(o, revn, phase=rng.choice(["Running", "Running", "Pending"]), ready=rng.random() < 0.3, claims=cl,
                       tmpl=(ref or {}).get("tmpl", 1), setname=sname)
        if rng.random() < 0.2:
            pod["owner"] = None
        for w in (sc["api"], sc["cache"]):
            w["pods"] = [p for p in w["pods"] if p["name"] != pod["name"]] + [dict(pod)]
    return sc


def run_template_shapes(ctx, depth):
    """Monitor-only family: shapes of spec.template / spec.selector that the CRD admits but that the model does not
    represent (template without labels, empty label map, a ControllerRevision whose data cannot be applied).  Two reconciles of the real
    controller under recover; the only clause checked is the property's: no panic."""
    from props import gen
    rng = ctx.rng
    n = 80 if depth == "quick" else 2500
    scs = []
    while len(scs) < n:
        sc = gen.gen_rollout(rng) if len(scs) % 2 else gen.gen_snapshot(rng)
        sc = tweak(rng, sc)
        if rng.random() < 0.6:
            shape = rng.choice(["none", "none", "empty"])
            for w in (sc["api"], sc["cache"]):
                if w.get("set"):
                    w["set"]["tmpl_labels"] = shape
            if rng.random() < 0.5:
                sc["api"]["revs"], sc["cache"]["revs"] = [], []
        else:
            # a ControllerRevision whose data cannot be applied (the API stores any RawExtension): most interesting when it
            # is the one status.currentRevision names
            st = (sc["api"].get("set") or {}).get("status") or {}
            revs = sc["api"]["revs"]
            if revs:
                named = [r for r in revs if r["name"] in (st.get("currentRevision"), st.get("updateRevision"))]
                for r in (named if named and rng.random() < 0.8 else [rng.choice(revs)]):
                    r["corrupt"] = True
                ctx.count("family:corrupt-revision")
        if rng.random() < 0.2 and not sc["api"].get("others") and not sc["cache"].get("others"):
            # an object name is a DNS subdomain of up to 253 characters; beyond 63 it is no label value any more (the upgrade
            # marker selector of ListRevisions carries the set name as a value: the API server answers 400, the harness does too)
            sc = gen.rename_set(sc, gen.long_name(rng, *rng.choice([(61, 63), (64, 64), (65, 120), (253, 253)])))
            ctx.count("family:long-set-name")
        sc["ops"] = [{"op": "reconcile"}, {"op": "refresh", "what": "all"}, {"op": "reconcile"}]
        scs.append(sc)
    outs = core.run_harness_parallel("reconcile", scs, shards=16)
    panics = 0
    for sc, out in zip(scs, outs):
        ctx.evaluations += 1
        ctx.count("family:template-shape")
        if "harness_error" in out:
            # the harness builds its revision-hash table with the controller's own constructor (newRevision)
            if "panic" in out["harness_error"]:
                panics += 1
                ctx.violations.append({"family": "C15/template-shapes", "input": sc, "observed": out,
                                       "clauses": ["the controller's revision constructor panicked: " + out["harness_error"]],
                                       "signature": {"kind": "C15", "clause": "panic on an admitted template shape"}})
            else:
                raise core.BuildError("harness: " + out["harness_error"])
            continue
        for st in out["steps"]:
            if isinstance(st, dict) and st.get("result") == "panic":
                panics += 1
                ctx.violations.append({"family": "C15/template-shapes", "input": sc, "observed": st,
                                       "clauses": ["the controller panicked: " + st.get("msg", "")],
                                       "signature": {"kind": "C15", "clause": "panic on an admitted template shape"}})
                break
    ctx.families["C15/template-shapes"] = {"scenarios": len(scs), "panics": panics, "tie": "monitor only (shapes outside the model)"}


def run(ctx, depth):
    rc.run_reconcile_property(ctx, depth, "C15", PI, monitor, tweak=tweak, cmp_outcome=True)
    run_template_shapes(ctx, depth)


def search(ctx):
    run(ctx, "thorough")


def replay(data):
    v = data.get("violation") or (data.get("correspondence_breaks") or [{}])[0]
    case = v.get("input")
    if not case:
        print(data)
        return 0
    return rc.replay_case(case, monitor, PI)
