"""C18 — Migration keeps pods running: revision identity equals the built-in controller's."""
import copy
from lib import core
from props import reconcile_common as rc, monitors, gen, templates

TITLE = "Migration keeps pods running: revision identity equals the built-in controller's"
TECHNIQUE = ("byte identity: differential test of the real getPatch against a reference encoder on client-go's apps/v1 scheme (not a proof); "
             "control part: Coq theorems over the reconcile model (existing revision reused, updated pods kept, adoption after fresh GET) "
             "+ differential correspondence and monitor on migrated worlds")
ASSUMPTIONS = [
    "PARTIAL: byte identity with the upstream controller is a statement about k8s.io/apimachinery's codecs; it is modelled and differentially tested, not proved",
    "API-server and informer-cache semantics are modelled (World.v/Reconcile.v api_*), validated against the fake clientsets + harness reactors",
]


def mon_migrated(sc, steps, final):
    bad = []
    s = sc["cache"]["set"]
    if s is None or (s.get("ann") or {}).get("paused-reconcile") == "true" or s["deleting"]:
        return bad
    revs = {r["name"]: r for r in sc["api"]["revs"]}
    newest = sc["api"]["revs"][-1]["name"]
    recs = [st for st in steps if "calls" in st]
    for k, obs in enumerate(recs):
        for c in obs["calls"]:
            if c["verb"] == "create" and c["res"] == "controllerrevisions" and not c.get("err"):
                bad.append("reconcile %d after the migration created ControllerRevision %s although %s records the template" % (k + 1, c["name"], newest))
            if c["verb"] == "delete" and c["res"] == "pods":
                p = next((q for q in sc["cache"]["pods"] if q["name"] == c["name"]), None)
                if p is not None and p["rev"] == newest and p["phase"] not in ("Failed", "Succeeded"):
                    o = monitors.parse_name(p["name"])[1]
                    sn = monitors.Snap(sc, obs)
                    if o in sn.desired_set:
                        bad.append("reconcile %d after the migration deleted pod %s which is at the update revision" % (k + 1, c["name"]))
    if sc.get("pre_gc"):
        # the first two reconciles run in the window (nothing of the built-in set may be touched), the others after the orphaning
        for k, obs in enumerate(recs[:2]):
            for c in obs["calls"]:
                if c["verb"] in ("patch", "update", "delete") and c["res"] == "controllerrevisions" and c.get("name") in revs and not c.get("err"):
                    bad.append("reconcile %d touched ControllerRevision %s, which the built-in set still controls" % (k + 1, c["name"]))
        return bad
    if recs and recs[0]["result"] == "ok":
        first = recs[0]["calls"]
        adopted = {c["name"] for c in first if c["verb"] == "patch" and c["res"] == "controllerrevisions" and not c.get("err")}
        synced = {c["name"] for c in first if c["verb"] == "update" and c["res"] == "controllerrevisions" and not c.get("err")}
        for n, r in revs.items():
            if n not in adopted and r["owner"] is None:
                bad.append("marked revision %s was not adopted by the first reconcile" % n)
            if n not in synced and not r["match"]:
                bad.append("marked revision %s was not label-synced by the first reconcile" % n)
    if sc.get("complete") and len(recs) >= 2 and recs[0]["result"] == "ok" and recs[1]["result"] == "ok":
        w = [c for c in recs[1]["calls"] if c["verb"] not in ("list", "get")]
        if w:
            bad.append("second reconcile after a migration of a converged set still writes: %s" % [c["verb"] + " " + c["res"] for c in w][:4])
    return bad


def run(ctx, depth):
    from props import c08
    # (a) bytes
    n = 300 if depth == "quick" else 5000
    cases = []
    for _ in range(n):
        t = templates.gen_template(ctx.rng)
        cases.append({"template": t, "template2": templates.mutate_template(ctx.rng, t)})
    outs = core.run_harness_parallel("patch", cases)
    for c, o in zip(cases, outs):
        ctx.evaluations += 1
        ctx.count("family:bytes")
        ctx.nontriv(c)
        bad = []
        if o.get("panic") or o.get("err") or o.get("bad_template"):
            bad.append("getPatch failed on a valid template: %s" % (o.get("panic") or o.get("err") or o.get("bad_template")))
        elif o["non_template_edits_changing_patch"]:
            bad.append("revision data changed by non-template edits: %s" % o["non_template_edits_changing_patch"])
        if not o.get("same_as_builtin", False):
            bad.append("revision data differs from the built-in controller's bytes: %s vs %s" % (o.get("advanced", "")[:120], o.get("builtin", "")[:120]))
        if not o.get("same_after_from_builtin", True):
            bad.append("a built-in set converted to the Advanced type records different revision data")
        if o.get("upgrade_err"):
            bad.append("helper.Upgrade failed on a valid built-in set: %s" % o["upgrade_err"])
        elif not o.get("same_after_upgrade", True):
            bad.append("the Advanced StatefulSet stored by helper.Upgrade records different revision data than the built-in set: %s vs %s" % (
                o.get("after_upgrade", "")[:160], o.get("builtin", "")[:160]))
        if bad:
            ctx.violations.append({"family": "C18/bytes", "input": c, "observed": o, "clauses": bad, "signature": {"kind": "bytes"}})
    ctx.sample({"family": "bytes", "input": cases[0], "observed": outs[0]})
    ctx.families["C18/bytes"] = {"templates": n, "tie": "real getPatch vs reference apps/v1 encoder, byte comparison (differential test, not a proof)"}
    # (b) migrated worlds: first reconcile, refresh, second reconcile
    m = 200 if depth == "quick" else 3000
    scs = []
    for _ in range(m):
        sc = gen.gen_migrated(ctx.rng)
        if ctx.rng.random() < 0.25:
            # the window between helper.Upgrade and the garbage collector: the built-in set is gone, its revisions and pods
            # still carry its controller reference (same name, another UID) — nothing of them may be adopted, and the revision
            # the template needs exists under the very name the controller would give it
            sc["pre_gc"] = True
            for w in (sc["api"], sc["cache"]):
                for r in w["revs"]:
                    r["owner"] = dict(rc.STALE)
                for p in w["pods"]:
                    p["owner"] = dict(rc.STALE)
        elif ctx.rng.random() < 0.25 and len(sc["api"]["revs"]) >= 2:
            # an earlier reconcile was interrupted in the middle of the label sync: the oldest revision already carries the selector
            # labels again (and may be adopted), the others are still found by their marker only
            r0 = sc["api"]["revs"][0]
            r0["match"] = True
            if ctx.rng.random() < 0.5:
                r0["owner"] = dict(rc.ME)
        sc["ops"] = [{"op": "reconcile"}, {"op": "refresh", "what": "all"}, {"op": "reconcile"}]
        if sc.get("pre_gc"):
            # ... then the garbage collector orphans the dependents of the built-in set, and the migration goes on
            sc["ops"] += [{"op": "gc", "what": rc.STALE["uid"]}, {"op": "refresh", "what": "all"}, {"op": "reconcile"},
                          {"op": "refresh", "what": "all"}, {"op": "reconcile"}]
        scs.append(sc)
    outs = core.run_harness_parallel("reconcile", scs, shards=16)
    first = []
    for sc, out in zip(scs, outs):
        ctx.evaluations += 1
        ctx.count("family:migrated-" + ("converged" if sc.get("complete") else "mid-rollout"))
        ctx.nontriv([sc["api"]])
        bad = mon_migrated(sc, out["steps"], out["final"])
        if bad:
            kind = "migrated"
            if sc.get("pre_gc") and (sc["api"]["set"]["status"].get("collisionCount") or 0) >= 1 and \
                    all(("created ControllerRevision" in b or "deleted pod" in b) for b in bad):
                kind = "migrated-pre-gc-collision"
            ctx.violations.append({"family": "C18/migrated", "input": sc, "observed": [st for st in out["steps"] if "calls" in st][0],
                                   "clauses": bad, "signature": {"kind": kind}})
        sc1 = copy.deepcopy(sc)
        sc1["ops"] = [{"op": "reconcile"}]
        first.append(sc1)
    ctx.sample({"family": "migrated", "revs": [(r["name"], r["marker"], r["owner"]) for r in scs[0]["api"]["revs"]],
                "calls": [rc.fault_free_shape(c) for c in outs[0]["steps"][0]["calls"]]})
    nt, nm = rc.correspond_proj(ctx, "C18/migrated", first, outs, "recon_check_proj pi_write true", "recon_model_proj pi_write")
    ctx.families["C18/migrated"] = {"worlds": m, "compared_in_coq": nt, "model_mismatches": nm, "projection": "all writes of the first reconcile"}


def search(ctx):
    run(ctx, "thorough")


def replay(data):
    v = data.get("violation") or (data.get("correspondence_breaks") or [{}])[0]
    case = v.get("input")
    if not case:
        print(data)
        return 0
    if "template" in case:
        o = core.run_harness("patch", [case])[0]
        print(o)
        return 0
    return rc.replay_case(case, None, "pi_write")
