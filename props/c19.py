"""C19 — client-side helpers are lossless (conversion, annotation codecs, defaulting idempotence)."""
import itertools, json, os, re, subprocess
from lib import core
from lib.core import Zl, Zlist, Bl, Strl, Optl, Listl

TITLE = "Client-side helpers are lossless"
TECHNIQUE = ("Coq proofs over executable Gallina models (annotation codecs incl. decimal printer/parser round trip; "
             "schema-directed JSON conversion between the two StatefulSet APIs with the schemas regenerated from the Go "
             "types by reflection on every run; combinator model of the client-side defaulter with idempotence proofs), "
             "tied to the code by differential evaluation of the real helpers, real From/ToBuiltin*, the real hijack client "
             "and the real SetObjectDefaults_StatefulSet against the models inside coqc")
ASSUMPTIONS = [
    "part A: encoding/json is modelled at the level of JSON trees by a schema-directed projection (conv); embedded structs are "
    "flattened by the translator; struct types that are the identical Go type on both sides (ObjectMeta, PodTemplateSpec, "
    "PersistentVolumeClaim, LabelSelector, Time, ListMeta, IntOrString) are opaque leaves whose JSON is assumed to survive "
    "Unmarshal+Marshal unchanged (validated by the correspondence on every generated object); outside the schema language: "
    "custom marshalers on non-struct types, the ,string option, []byte, non-string map keys, interfaces, duplicate or "
    "case-insensitively clashing json names (the translator reports them; none occurs in the two types)",
    "part A: theorems quantify over canonical trees (canon S j: what json.Marshal of a value of the type can produce); "
    "nil vs empty omitempty collections both marshal to an absent key, so they are identified (as apiequality.Semantic.DeepEqual does)",
    "part B: hypothesis all_i32 (set members are int32 values); annotation maps have pairwise distinct keys (wf_amap) where keys are compared",
    "part C: hypothesis idem_lib L (Quantity.RoundUp is idempotent on the JSON form of a quantity); proved for the concrete model "
    "roundq_model that the correspondence evaluates; the image tag parser is an arbitrary function in the theorems (latest_model in the correspondence); "
    "the grouping of the sequential Go defaulter into per-key updates is validated by the whole-object correspondence",
    "the composition 'read back through the hijack client, re-submit' (conversion followed by defaulting) is not composed formally "
    "(defaulted trees are not proved canonical); it is covered by the defaults/hijack monitors on the real code",
]
HARNESSES = ["harness_c19"]
BIN = "harness_c19"
MAXI32 = 2147483647
MINI32 = -2147483648
SLOTS_KEY = "delete-slots"
PAUSE_KEY = "paused-reconcile"

# ======================================================================================
# Part B — annotation codecs
# ======================================================================================
ELEM = r"(?:null|-?(?:0|[1-9][0-9]*))"
GRAMMAR = re.compile(r"^[ \t\r\n]*(?:null|\[[ \t\r\n]*(?:%s(?:[ \t\r\n]*,[ \t\r\n]*%s)*)?[ \t\r\n]*\])[ \t\r\n]*$" % (ELEM, ELEM))
CANON = re.compile(r"^\[-?(?:0|[1-9][0-9]*)(?:,-?(?:0|[1-9][0-9]*))*\]$")


def py_slots(value):
    """Independent reading of a delete-slots annotation value (what encoding/json gives for []int32)."""
    if value is None or not GRAMMAR.match(value):
        return set()
    if value.strip(" \t\r\n") == "null":
        return set()
    nums = [0 if t == "null" else int(t) for t in re.findall(ELEM, value)]
    if any(n < MINI32 or n > MAXI32 for n in nums):
        return set()
    return set(nums)


def codec_monitor(case, obs):
    """The codec clauses of the property, stated over the implementation's answers only."""
    bad = []
    if "panic" in obs:
        return ["codec panicked: " + obs["panic"]]
    if "err" in obs:
        bad.append("codec returned an error: " + obs["err"])
    ain = case["ann"]
    aout = obs["ann"]
    op = case["op"]
    key = PAUSE_KEY if op == "pause" else SLOTS_KEY
    arg = set() if case.get("nilset") else set(case.get("slots") or [])
    if op in ("set", "add"):
        before = py_slots((ain or {}).get(SLOTS_KEY))
        if sorted(before) != obs["before_slots"]:
            bad.append("GetDeleteSlots before the call = %s, annotation denotes %s" % (obs["before_slots"], sorted(before)))
        want = arg if op == "set" else (before | arg)
        if obs["slots"] != sorted(want):
            bad.append("read back %s, expected %s" % (obs["slots"], sorted(want)))
        if want:
            v = (aout or {}).get(SLOTS_KEY)
            if v is None or not CANON.match(v) or [int(x) for x in v[1:-1].split(",")] != sorted(want):
                bad.append("annotation value %r is not the sorted JSON list of %s" % (v, sorted(want)))
        else:
            if aout is not None and SLOTS_KEY in aout:
                bad.append("empty set did not remove the annotation: %r" % aout[SLOTS_KEY])
            if (aout is None) != (ain is None):
                bad.append("empty set changed the nil-ness of the map")
        if not case.get("nilset") and obs.get("arg_after") != sorted(arg):
            bad.append("the argument set was modified: %s" % obs.get("arg_after"))
        if obs["paused"] != ((ain or {}).get(PAUSE_KEY) == "true"):
            bad.append("pause flag changed by a slot codec")
    else:
        if obs["paused"] != case["paused"]:
            bad.append("GetPausedReconcile=%s after SetPausedReconcile(%s)" % (obs["paused"], case["paused"]))
        if case["paused"] and (aout or {}).get(PAUSE_KEY) != "true":
            bad.append("pause value is %r, not \"true\"" % (aout or {}).get(PAUSE_KEY))
        if not case["paused"] and aout is not None and PAUSE_KEY in aout:
            bad.append("SetPausedReconcile(false) left the key")
        if aout is None:
            bad.append("SetPausedReconcile left a nil map")
        if obs["slots"] != sorted(py_slots((ain or {}).get(SLOTS_KEY))):
            bad.append("slots changed by the pause codec")
    # frame: no other annotation disturbed, none added, none dropped
    for k, v in (ain or {}).items():
        if k != key and (aout or {}).get(k) != v:
            bad.append("annotation %r disturbed: %r -> %r" % (k, v, (aout or {}).get(k)))
    for k in (aout or {}):
        if k != key and k not in (ain or {}):
            bad.append("annotation %r appeared" % k)
    return bad


OTHER_ANNS = [
    None, {}, {"x": "y"}, {"": ""}, {"delete-slots ": "[9]", "Delete-Slots": "[8]", "delete-slot": "[7]"},
    {"paused-reconcile": "true"}, {"paused-reconcile": "false", "a": "1", "b": "2"}, {"paused-reconcile": "True"},
    {"kéy": "väl", "tab\t": "nl\n"}, {"z": "1", "a": "2", "m": "3", "delete-slotsx": "q", "paused-reconcilex": "w"},
]
CUR_VALUES = [None, "[]", "[1]", "[3,1,2]", "[1,1,2]", " [ 4 , 5 ] ", "null", "[null]", "[-1]", "[2147483647,-2147483648]",
              "[1", "x", "", "[1.5]", "[2147483648]", "[01]", "{}", "\"[1]\"", "[1,,2]", "[0]", "[5,4,3,2,1,0]"]


def gen_codec_cases(ctx, depth):
    rng = ctx.rng
    quick = depth == "quick"
    cases = []
    uni = [MINI32, -1, 0, 1, 2, 10, MAXI32]
    subsets = [list(c) for k in range(0, 3 if quick else 6) for c in itertools.combinations(uni, k)]

    def mk_ann(base, cur):
        if base is None and cur is None:
            return None
        a = dict(base or {})
        if cur is not None:
            a[SLOTS_KEY] = cur
        return a

    # family codec/exhaustive: every small subset x every shape of the existing value x set/add, on nil/empty/other maps
    n = 0
    for S in subsets:
        for cur in CUR_VALUES:
            for op in ("set", "add"):
                base = OTHER_ANNS[n % len(OTHER_ANNS)]
                n += 1
                sl = list(S)
                if n % 3 == 0:
                    sl = sl + sl[:1]
                    rng.shuffle(sl)
                cases.append(({"ann": mk_ann(base, cur), "op": op, "slots": sl, "nilset": False}, "exhaustive"))
    for base in OTHER_ANNS:
        for cur in CUR_VALUES:
            for op in ("set", "add"):
                cases.append(({"ann": mk_ann(base, cur), "op": op, "slots": [], "nilset": True}, "nilset"))
                cases.append(({"ann": mk_ann(base, cur), "op": op, "slots": [], "nilset": False}, "emptyset"))
            for p in (True, False):
                cases.append(({"ann": mk_ann(base, cur), "op": "pause", "paused": p}, "pause"))
    # family codec/random: arbitrary int32 lists (all digit counts, extremes, duplicates)
    for _ in range(400 if quick else 8000):
        k = rng.choice([1, 1, 2, 3, 5, 8, rng.randint(0, 40)])
        mag = lambda: rng.choice([rng.randint(-12, 12), rng.randint(MINI32, MAXI32), rng.choice([1, -1]) * 10 ** rng.randint(0, 9),
                                  rng.choice([1, -1]) * (10 ** rng.randint(1, 9) - 1), MAXI32 - rng.randint(0, 3), MINI32 + rng.randint(0, 3)])
        sl = [max(MINI32, min(MAXI32, mag())) for _ in range(k)]
        base = rng.choice(OTHER_ANNS)
        cur = rng.choice(CUR_VALUES + [json.dumps([max(MINI32, min(MAXI32, mag())) for _ in range(rng.randint(0, 6))])])
        cases.append(({"ann": mk_ann(base, cur), "op": rng.choice(["set", "add", "add"]), "slots": sl, "nilset": False}, "random"))
    return cases


def amap_term(a):
    if a is None:
        return "None"
    return "(Some [%s])" % "; ".join("(%s, %s)" % (Strl(k), Strl(v)) for k, v in a.items())


def codec_op_term(case):
    if case["op"] == "pause":
        return "(OpPause %s)" % Bl(case["paused"])
    arg = "None" if case.get("nilset") else "(Some %s)" % Zlist(case.get("slots") or [])
    return "(%s %s)" % ("OpSet" if case["op"] == "set" else "OpAdd", arg)


def codec_term(case, obs):
    return "{| cc_ann := %s; cc_op := %s; cc_out := %s; cc_slots := %s; cc_paused := %s |}" % (
        amap_term(case["ann"]), codec_op_term(case), amap_term(obs["ann"]), Zlist(obs["slots"]), Bl(obs["paused"]))


def run_codec_family(ctx, depth):
    tagged = gen_codec_cases(ctx, depth)
    cases = [c for c, _ in tagged]
    obs = core.run_harness("codec", cases, binary=BIN)
    terms, keep = [], []
    for (case, fam), o in zip(tagged, obs):
        ctx.evaluations += 1
        ctx.count("codec:" + fam)
        bad = codec_monitor(case, o)
        if bad:
            ctx.violations.append({"family": "codec/" + fam, "input": case, "observed": o, "clauses": bad,
                                   "signature": {"kind": "codec", "op": case["op"]}})
        if "panic" in o or "err" in o:
            ctx.corr_breaks.append({"family": "codec/" + fam, "input": case, "observed": o, "model": "model has no panic/error here"})
            continue
        if case["op"] != "pause" and (o["slots"] or o["before_slots"]):
            ctx.nontriv(["codec", case["op"], o["before_slots"], o["slots"], sorted((case["ann"] or {}).keys())])
        elif case["op"] == "pause":
            ctx.nontriv(["codec", "pause", case["paused"], sorted((case["ann"] or {}).items())])
        terms.append(codec_term(case, o))
        keep.append((case, o, fam))
    ctx.sample({"family": "codec", "input": keep[len(keep) // 2][0], "observed": keep[len(keep) // 2][1]})
    ctx.sample({"family": "codec", "input": keep[-1][0], "observed": keep[-1][1]})
    mm = core.coq_mismatches("C19_codec", ["Base", "Slots", "Codec"], "codec_case", "codec_check", terms)
    for i in mm[:10]:
        case, o, fam = keep[i]
        mv = core.coq_eval("C19_codec_mm", ["Base", "Slots", "Codec"],
                           ["codec_model %s %s" % (amap_term(case["ann"]), codec_op_term(case))])
        ctx.corr_breaks.append({"family": "codec/" + fam, "input": case, "observed": o, "model": mv})
    ctx.traces_validated += len(terms)
    ctx.families["codec"] = {"cases": len(cases), "model_mismatches": len(mm),
                             "exhaustive_part": "all subsets (size<=%d) of {MinInt32,-1,0,1,2,10,MaxInt32} x %d shapes of the existing value "
                                                "(valid, duplicate, spaced, null, malformed, out of range) x set/add, over nil/empty/other maps"
                                                % (2 if depth == "quick" else 5, len(CUR_VALUES))}


# ======================================================================================
# Object generator — built-in StatefulSets over the whole schema (shared by parts A and C)
# ======================================================================================
IMAGES = ["nginx", "nginx:latest", "nginx:1.25", "reg.io:5000/a/nginx", "reg.io:5000/a/nginx:latest", "a/b:v1",
          "nginx@sha256:" + "a" * 64, "nginx:latest@sha256:" + "b" * 64, "", "UPPER", "busybox:LATEST"]
QUANTS = ["100m", "1", "2Gi", "0.5", "1500m", "0.0005", "1.0001", "128974848", "129e6", "123Mi", "0", "1e-4", "0.1m"]


def pick(rng, *xs):
    return rng.choice(xs)


def maybe(rng, d, key, *vals, p=0.5):
    if rng.random() < p:
        d[key] = rng.choice(vals)


def gen_resources(rng):
    r = {}
    shape = rng.randint(0, 5)
    if shape == 1:
        r["limits"] = {"cpu": rng.choice(QUANTS)}
    elif shape == 2:
        r["limits"] = {"cpu": rng.choice(QUANTS), "memory": rng.choice(QUANTS)}
        r["requests"] = {"cpu": rng.choice(QUANTS)}
    elif shape == 3:
        r["requests"] = {"memory": rng.choice(QUANTS), "example.com/dev": "1"}
    elif shape == 4:
        r["limits"] = {}
        r["requests"] = {}
    return r


def gen_http_get(rng):
    h = {"port": rng.choice([80, "http", 0])}
    maybe(rng, h, "path", "/healthz", "", "/")
    maybe(rng, h, "scheme", "HTTPS", "HTTP", "")
    maybe(rng, h, "host", "h")
    if rng.random() < 0.2:
        h["httpHeaders"] = [{"name": "X", "value": "y"}]
    return h


def gen_probe(rng):
    p = {}
    k = rng.randint(0, 5)
    if k == 1:
        p["httpGet"] = gen_http_get(rng)
    elif k == 2:
        p["exec"] = {"command": ["true"]}
    elif k == 3:
        p["tcpSocket"] = {"port": rng.choice([1, "p"])}
    elif k == 4:
        p["grpc"] = {"port": 9}
    for f in ("timeoutSeconds", "periodSeconds", "successThreshold", "failureThreshold", "initialDelaySeconds"):
        maybe(rng, p, f, 0, 1, 5, 10, p=0.35)
    maybe(rng, p, "terminationGracePeriodSeconds", 0, 7, p=0.1)
    return p


def gen_handler(rng):
    k = rng.randint(0, 3)
    if k == 0:
        return {}
    if k == 1:
        return {"httpGet": gen_http_get(rng)}
    if k == 2:
        return {"exec": {"command": ["x"]}}
    return {"tcpSocket": {"port": 3}}


def gen_env(rng):
    k = rng.randint(0, 6)
    e = {"name": "E%d" % rng.randint(0, 9)}
    if k == 0:
        e["value"] = "v"
    elif k == 1:
        e["valueFrom"] = {"fieldRef": {"fieldPath": "metadata.name"}}
    elif k == 2:
        e["valueFrom"] = {"fieldRef": {"apiVersion": rng.choice(["v1", "", "v2"]), "fieldPath": "status.podIP"}}
    elif k == 3:
        e["valueFrom"] = {"secretKeyRef": {"name": "s", "key": "k"}}
    elif k == 4:
        e["valueFrom"] = {"resourceFieldRef": {"resource": "limits.cpu", "divisor": rng.choice(["1m", "0", "1"])}}
    elif k == 5:
        e["valueFrom"] = {}
    return e


def gen_container(rng, i, ephemeral=False):
    c = {"name": "c%d" % i}
    maybe(rng, c, "image", *IMAGES, p=0.9)
    maybe(rng, c, "imagePullPolicy", "", "Always", "Never", "IfNotPresent", p=0.35)
    if rng.random() < 0.6:
        ports = []
        for _ in range(rng.randint(0, 3)):
            p = {"containerPort": rng.choice([80, 53, 0, 8080])}
            maybe(rng, p, "protocol", "UDP", "TCP", "", "SCTP")
            maybe(rng, p, "hostPort", 0, 53, 9000, p=0.3)
            maybe(rng, p, "name", "http", p=0.3)
            ports.append(p)
        c["ports"] = ports
    if rng.random() < 0.5:
        c["env"] = [gen_env(rng) for _ in range(rng.randint(0, 3))]
    if rng.random() < 0.7:
        c["resources"] = gen_resources(rng)
    for pr in ("livenessProbe", "readinessProbe", "startupProbe"):
        if rng.random() < 0.4:
            c[pr] = gen_probe(rng)
    if rng.random() < 0.4:
        lc = {}
        if rng.random() < 0.7:
            lc["postStart"] = gen_handler(rng)
        if rng.random() < 0.6:
            lc["preStop"] = gen_handler(rng)
        c["lifecycle"] = lc
    maybe(rng, c, "terminationMessagePath", "/x", "", p=0.25)
    maybe(rng, c, "terminationMessagePolicy", "FallbackToLogsOnError", "File", "", p=0.25)
    maybe(rng, c, "command", ["a", "b"], [], p=0.2)
    maybe(rng, c, "securityContext", {}, {"privileged": True}, {"runAsUser": 0}, p=0.2)
    maybe(rng, c, "volumeMounts", [{"name": "v0", "mountPath": "/m"}], [], p=0.3)
    maybe(rng, c, "stdin", True, False, p=0.1)
    if ephemeral:
        maybe(rng, c, "targetContainerName", "c0", p=0.5)
    return c


def volume_pool():
    return [
        {},
        {"emptyDir": {}},
        {"emptyDir": {"medium": "Memory", "sizeLimit": "0.0005"}},
        {"hostPath": {"path": "/p"}},
        {"hostPath": {"path": "/p", "type": ""}},
        {"hostPath": {"path": "/p", "type": "Directory"}},
        {"secret": {"secretName": "s"}},
        {"secret": {"secretName": "s", "defaultMode": 0}},
        {"secret": {"secretName": "s", "defaultMode": 256, "items": [{"key": "k", "path": "p"}], "optional": True}},
        {"iscsi": {"targetPortal": "1.2.3.4", "iqn": "iqn.x", "lun": 0}},
        {"iscsi": {"targetPortal": "1.2.3.4", "iqn": "iqn.x", "lun": 1, "iscsiInterface": "eth0"}},
        {"rbd": {"monitors": ["m"], "image": "i"}},
        {"rbd": {"monitors": ["m"], "image": "i", "pool": "p", "user": "u", "keyring": "/k"}},
        {"rbd": {"monitors": [], "image": "i", "pool": "", "user": "u"}},
        {"downwardAPI": {}},
        {"downwardAPI": {"items": [{"path": "a", "fieldRef": {"fieldPath": "metadata.name"}},
                                   {"path": "b", "fieldRef": {"fieldPath": "metadata.labels", "apiVersion": "v1"}},
                                   {"path": "c", "resourceFieldRef": {"resource": "limits.cpu", "containerName": "c0"}},
                                   {"path": "d", "fieldRef": {"fieldPath": "x", "apiVersion": ""}, "mode": 0}],
                         "defaultMode": 288}},
        {"configMap": {"name": "cm"}},
        {"configMap": {"name": "cm", "defaultMode": 0, "optional": False}},
        {"azureDisk": {"diskName": "d", "diskURI": "u"}},
        {"azureDisk": {"diskName": "d", "diskURI": "u", "cachingMode": "None", "kind": "Managed", "fsType": "", "readOnly": True}},
        {"azureDisk": {"diskName": "d", "diskURI": "u", "readOnly": False, "fsType": "xfs"}},
        {"projected": {"sources": None}},
        {"projected": {"sources": [{"downwardAPI": {"items": [{"path": "a", "fieldRef": {"fieldPath": "metadata.name"}},
                                                             {"path": "b", "resourceFieldRef": {"resource": "requests.cpu"}}]}},
                                   {"serviceAccountToken": {"path": "t"}},
                                   {"serviceAccountToken": {"path": "t", "expirationSeconds": 600, "audience": "a"}},
                                   {"secret": {"name": "s"}}, {"configMap": {"name": "c"}}, {}, {"downwardAPI": {}}],
                       "defaultMode": 0}},
        {"projected": {"sources": [{"serviceAccountToken": {"path": "t", "expirationSeconds": 0}}]}},
        {"scaleIO": {"gateway": "g", "system": "s", "secretRef": {"name": "n"}}},
        {"scaleIO": {"gateway": "g", "system": "s", "secretRef": None, "storageMode": "ThickProvisioned", "fsType": "ext4"}},
        {"persistentVolumeClaim": {"claimName": "c"}},
        {"nfs": {"server": "s", "path": "/"}},
        {"ephemeral": {"volumeClaimTemplate": {"spec": {"accessModes": ["ReadWriteOnce"], "resources": {"requests": {"storage": "0.0001"}}}}}},
    ]


def gen_pvc(rng, i):
    pvc = {"metadata": {"name": "data%d" % i}}
    if rng.random() < 0.3:
        pvc["metadata"]["labels"] = {"a": "b"}
    spec = {}
    maybe(rng, spec, "accessModes", ["ReadWriteOnce"], [], p=0.7)
    if rng.random() < 0.8:
        res = {}
        maybe(rng, res, "requests", {"storage": rng.choice(QUANTS)}, {}, p=0.8)
        maybe(rng, res, "limits", {"storage": rng.choice(QUANTS)}, p=0.2)
        spec["resources"] = res
    maybe(rng, spec, "storageClassName", "fast", "", p=0.4)
    maybe(rng, spec, "volumeMode", "Block", "Filesystem", p=0.3)
    pvc["spec"] = spec
    if rng.random() < 0.5:
        st = {}
        maybe(rng, st, "phase", "Bound", "Pending", "")
        maybe(rng, st, "capacity", {"storage": rng.choice(QUANTS)}, {}, p=0.4)
        pvc["status"] = st
    if rng.random() < 0.2:
        pvc["kind"] = "PersistentVolumeClaim"
        pvc["apiVersion"] = "v1"
    return pvc


def gen_template(rng, rich):
    t = {}
    if rng.random() < 0.7:
        md = {}
        maybe(rng, md, "labels", {"app": "x"}, {}, {"app": "x", "tier": "db"})
        maybe(rng, md, "annotations", {"a": "1"}, {}, p=0.3)
        t["metadata"] = md
    spec = {}
    n = rng.choice([0, 1, 1, 2, 3]) if rich else rng.choice([0, 1])
    if n or rng.random() < 0.8:
        spec["containers"] = [gen_container(rng, i) for i in range(n)]
    if rich and rng.random() < 0.4:
        spec["initContainers"] = [gen_container(rng, 10 + i) for i in range(rng.randint(0, 2))]
    if rich and rng.random() < 0.3:
        spec["ephemeralContainers"] = [gen_container(rng, 20 + i, ephemeral=True) for i in range(rng.randint(0, 2))]
    if rich and rng.random() < 0.6:
        pool = volume_pool()
        vols = []
        for i in range(rng.randint(0, 4)):
            v = {"name": "v%d" % i}
            v.update(json.loads(json.dumps(rng.choice(pool))))
            vols.append(v)
        spec["volumes"] = vols
    maybe(rng, spec, "hostNetwork", True, False, p=0.4)
    maybe(rng, spec, "dnsPolicy", "Default", "", "ClusterFirst", p=0.3)
    maybe(rng, spec, "restartPolicy", "Always", "OnFailure", "", p=0.3)
    maybe(rng, spec, "securityContext", {}, {"runAsUser": 1000, "fsGroup": 0}, None, p=0.4)
    maybe(rng, spec, "terminationGracePeriodSeconds", 0, 10, 30, p=0.4)
    maybe(rng, spec, "schedulerName", "custom", "", p=0.3)
    maybe(rng, spec, "overhead", {"cpu": rng.choice(QUANTS)}, {}, p=0.2)
    maybe(rng, spec, "enableServiceLinks", True, False, p=0.2)
    maybe(rng, spec, "nodeSelector", {"k": "v"}, {}, p=0.2)
    maybe(rng, spec, "serviceAccountName", "sa", p=0.2)
    maybe(rng, spec, "tolerations", [{"key": "k", "operator": "Exists"}], [], p=0.2)
    t["spec"] = spec
    return t


UPDATE_STRATEGIES = [
    None, {}, {"type": "RollingUpdate"}, {"type": "OnDelete"}, {"type": ""},
    {"type": "RollingUpdate", "rollingUpdate": {}}, {"type": "RollingUpdate", "rollingUpdate": {"partition": 0}},
    {"type": "RollingUpdate", "rollingUpdate": {"partition": 2}}, {"type": "RollingUpdate", "rollingUpdate": None},
    {"type": "OnDelete", "rollingUpdate": {}}, {"type": "OnDelete", "rollingUpdate": {"partition": 1}},
    {"rollingUpdate": {}}, {"rollingUpdate": {"partition": 0}}, {"rollingUpdate": {"partition": 3}},
    {"type": "RollingUpdate", "rollingUpdate": {"maxUnavailable": 1}},
    {"type": "RollingUpdate", "rollingUpdate": {"partition": 1, "maxUnavailable": "25%"}},
    {"type": "Recreate"}, {"type": "Recreate", "rollingUpdate": {}},
]


def gen_status(rng):
    st = {}
    maybe(rng, st, "observedGeneration", 0, 1, 2 ** 40, p=0.6)
    maybe(rng, st, "replicas", 0, 3, p=0.8)
    for f in ("readyReplicas", "currentReplicas", "updatedReplicas", "availableReplicas"):
        maybe(rng, st, f, 0, 1, 3, p=0.5)
    maybe(rng, st, "currentRevision", "web-7d", "", p=0.5)
    maybe(rng, st, "updateRevision", "web-8e", "", p=0.5)
    maybe(rng, st, "collisionCount", 0, 3, p=0.4)
    if rng.random() < 0.5:
        conds = []
        for i in range(rng.randint(0, 3)):
            c = {"type": rng.choice(["Ready", "X", ""]), "status": rng.choice(["True", "False", "Unknown", ""])}
            maybe(rng, c, "lastTransitionTime", "2024-01-02T03:04:05Z", None)
            maybe(rng, c, "reason", "R", "")
            maybe(rng, c, "message", "m with \"quotes\" and é", "")
            conds.append(c)
        st["conditions"] = conds
    return st


def gen_metadata(rng, name):
    md = {"name": name}
    maybe(rng, md, "namespace", "default", p=0.3)
    maybe(rng, md, "labels", {"app": "x"}, {}, {"a": "1", "b": "2"}, p=0.6)
    if rng.random() < 0.5:
        ann = rng.choice([{}, {"x": "y"}, {SLOTS_KEY: "[1,3]"}, {SLOTS_KEY: "[1,3]", PAUSE_KEY: "true", "z": "w"}])
        md["annotations"] = ann
    maybe(rng, md, "generation", 0, 5, p=0.3)
    maybe(rng, md, "uid", "1234-abcd", p=0.3)
    maybe(rng, md, "resourceVersion", "77", p=0.2)
    maybe(rng, md, "creationTimestamp", "2024-05-06T07:08:09Z", None, p=0.3)
    maybe(rng, md, "finalizers", ["f"], [], p=0.2)
    maybe(rng, md, "ownerReferences", [{"apiVersion": "v1", "kind": "K", "name": "o", "uid": "u", "controller": True}], [], p=0.2)
    maybe(rng, md, "generateName", "g-", p=0.1)
    maybe(rng, md, "deletionGracePeriodSeconds", 0, 30, p=0.1)
    return md


def gen_sts(rng, idx, rich=True):
    """A built-in apps/v1 StatefulSet as JSON: optional fields present/absent, nil vs empty collections
    (null / [] / {}), defaulted and undefaulted values, the fields only the built-in API has."""
    o = {}
    maybe(rng, o, "kind", "StatefulSet", p=0.6)
    maybe(rng, o, "apiVersion", "apps/v1", "apps/v1beta2", p=0.6)
    o["metadata"] = gen_metadata(rng, "web%d" % idx)
    spec = {}
    maybe(rng, spec, "replicas", 0, 1, 3, 2147483647, p=0.7)
    sel = rng.choice([None, "absent", {}, {"matchLabels": {"app": "x"}}, {"matchLabels": {}},
                      {"matchExpressions": [{"key": "k", "operator": "In", "values": ["a", "b"]}]},
                      {"matchExpressions": [{"key": "k", "operator": "Exists"}], "matchLabels": {"a": "b"}}])
    if sel != "absent":
        spec["selector"] = sel
    spec["template"] = gen_template(rng, rich)
    vct = rng.choice(["absent", None, [], 1, 2])
    if vct != "absent":
        spec["volumeClaimTemplates"] = [gen_pvc(rng, i) for i in range(vct)] if isinstance(vct, int) and not isinstance(vct, bool) else vct
    maybe(rng, spec, "serviceName", "svc", "", p=0.8)
    maybe(rng, spec, "podManagementPolicy", "OrderedReady", "Parallel", "", p=0.6)
    us = rng.choice(UPDATE_STRATEGIES)
    if us is not None:
        spec["updateStrategy"] = json.loads(json.dumps(us))
    maybe(rng, spec, "revisionHistoryLimit", 0, 10, 3, p=0.6)
    maybe(rng, spec, "minReadySeconds", 0, 5, p=0.3)
    maybe(rng, spec, "persistentVolumeClaimRetentionPolicy", {}, {"whenDeleted": "Delete"}, {"whenDeleted": "Retain", "whenScaled": "Delete"}, p=0.3)
    maybe(rng, spec, "ordinals", {"start": 0}, {"start": 5}, {}, p=0.2)
    if rng.random() < 0.95:
        o["spec"] = spec
    if rng.random() < 0.7:
        o["status"] = gen_status(rng)
    return o


# ======================================================================================
# Part A — conversion between the two APIs
# ======================================================================================
GEN_DIR = os.path.join(core.BUILD, "gen")
PINNED_UNMODELLED = ["spec.minReadySeconds", "spec.ordinals", "spec.persistentVolumeClaimRetentionPolicy",
                     "spec.updateStrategy.rollingUpdate.maxUnavailable", "status.availableReplicas"]
AS_VERSION = "apps.pingcap.com/v1"
BI_VERSION = "apps/v1"
import hashlib
from fractions import Fraction


def jterm(v):
    """a Python JSON value as a Gallina term of type Json.json"""
    if v is None:
        return "JNull"
    if v is True or v is False:
        return "(JBool %s)" % Bl(v)
    if isinstance(v, int):
        return "(JNum %s)" % Zl(v)
    if isinstance(v, float):
        return "(JRaw %s)" % Strl(repr(v))
    if isinstance(v, str):
        return "(JStr %s)" % Strl(v)
    if isinstance(v, list):
        return "(JArr [%s])" % "; ".join(jterm(x) for x in v)
    return "(JObj [%s])" % "; ".join("(%s, %s)" % (Strl(k), jterm(x)) for k, x in v.items())


def schema_term(n):
    k = n["k"]
    if k == "bool":
        return "(SScalar KBool)"
    if k == "string":
        return "(SScalar KString)"
    if k == "float":
        return "(SScalar KFloat)"
    if k == "int":
        return "(SScalar (KInt %s %s))" % (Zl(int(n["lo"])), Zl(int(n["hi"])))
    if k == "opaque":
        return "(SOpaque %s %s)" % (Strl(n["name"]), jterm(n.get("zero")))
    if k in ("ptr", "slice", "map"):
        return "(%s %s)" % ({"ptr": "SPtr", "slice": "SSlice", "map": "SMap"}[k], schema_term(n["e"]))
    if k == "struct":
        return "(SStruct [%s])" % ";\n  ".join("(%s, %s, %s)" % (Strl(f["n"]), Bl(f["oe"]), schema_term(f["s"])) for f in n.get("fields") or [])
    raise core.BuildError("schema node of unknown kind %r" % k)


def schema_gen_text(sc):
    return ("(* generated on every run by props/c19.py from the Go types (harness_c19 command `schemas`); do not edit *)\n"
            "From ASTS Require Import Base Json Convert.\n"
            "Definition schema_as : schema :=\n  %s.\nDefinition schema_builtin : schema :=\n  %s.\n"
            "Definition schema_as_list : schema :=\n  %s.\nDefinition schema_builtin_list : schema :=\n  %s.\n"
            % (schema_term(sc["as"]), schema_term(sc["builtin"]), schema_term(sc["as_list"]), schema_term(sc["builtin_list"])))


SCHEMA_CHECK = r"""From ASTS Require Import Base Json Convert ConvertProofs.
From ASTSGen Require Import SchemaGen.
Definition gen_checks := Eval vm_compute in
  [wf_schema schema_as; wf_schema schema_builtin; wf_schema schema_as_list; wf_schema schema_builtin_list;
   compat schema_as schema_builtin; compat schema_as_list schema_builtin_list;
   has_api schema_as; has_api schema_builtin; has_api schema_builtin_list].
Print gen_checks.
Definition gen_dropped := Eval vm_compute in dropped EmptyString schema_as schema_builtin.
Print gen_dropped.
Theorem gen_compat : wf_schema schema_as = true /\ wf_schema schema_builtin = true
  /\ wf_schema schema_as_list = true /\ wf_schema schema_builtin_list = true
  /\ compat schema_as schema_builtin = true /\ compat schema_as_list schema_builtin_list = true
  /\ has_api schema_as = true /\ has_api schema_builtin = true /\ has_api schema_builtin_list = true.
Proof. vm_compute. repeat split. Qed.
Theorem gen_roundtrip : forall j, canon schema_builtin j ->
  exists j1 j2, convert_to schema_as as_version j = Some j1 /\ convert_to schema_builtin builtin_version j1 = Some j2
    /\ canon schema_as j1 /\ canon schema_builtin j2
    /\ get_field api_key j1 = JStr as_version /\ get_field api_key j2 = JStr builtin_version
    /\ agree schema_as j2 (set_field api_key (JStr builtin_version) j).
Proof.
  destruct gen_compat as (H1 & H2 & _ & _ & H5 & _ & H7 & H8 & _).
  apply roundtrip_api; try assumption; discriminate.
Qed.
Theorem gen_list : forall jl, canon schema_as_list jl ->
  exists out, convert_list_to schema_builtin_list builtin_version jl = Some out
    /\ get_field api_key out = JStr builtin_version
    /\ length (items_of out) = length (items_of jl)
    /\ forall i x y, nth_error (items_of out) i = Some x -> nth_error (items_of jl) i = Some y ->
         agree schema_as x (set_field api_key (JStr builtin_version) y) /\ get_field api_key x = JStr builtin_version.
Proof.
  destruct gen_compat as (H1 & _ & H3 & H4 & _ & H6 & H7 & _ & H9).
  apply (list_roundtrip schema_as_list schema_builtin_list schema_as); try assumption; try discriminate.
  eexists. split; [reflexivity | vm_compute; reflexivity].
Qed.
Print Assumptions gen_compat.
Print Assumptions gen_roundtrip.
Print Assumptions gen_list.
"""


def regen_schemas(ctx):
    """Translator step: extract both schema trees from the Go types, write SchemaGen.v when it changed, and
    re-check compat + the instantiated theorems against the generated definitions."""
    os.makedirs(GEN_DIR, exist_ok=True)
    sc = core.run_harness("schemas", [{}], binary=BIN)[0]
    info = {"translator_errors": sc["errors"], "as_version": sc["as_version"], "builtin_version": sc["builtin_version"]}
    text = schema_gen_text(sc)
    fn = os.path.join(GEN_DIR, "SchemaGen.v")
    old = open(fn).read() if os.path.exists(fn) else None
    if old != text or not os.path.exists(os.path.join(GEN_DIR, "SchemaGen.vo")):
        open(fn, "w").write(text)
        info["rewritten"] = True
    pinned = os.path.join(core.COQ, "ConvertPinned.v")
    if os.path.exists(pinned):
        ptxt = open(pinned).read()
        body = lambda t: re.sub(r"\(\*.*?\*\)", "", t, flags=re.S).split("From ASTS Require Import Base Json Convert.", 1)[-1].split()
        info["differs_from_pinned"] = body(ptxt)[:len(body(text))] != body(text)
    with core.Lock("c19gen"):
        p = subprocess.run(["timeout", "300", "coqc", "-Q", core.COQ, "ASTS", "-Q", GEN_DIR, "ASTSGen", fn],
                           capture_output=True, text=True, cwd=GEN_DIR)
        if p.returncode != 0:
            info["gen_compile_error"] = (p.stderr or p.stdout)[-800:]
            return sc, info
        cfn = os.path.join(GEN_DIR, "SchemaCheck.v")
        open(cfn, "w").write(SCHEMA_CHECK)
        p = subprocess.run(["timeout", "300", "coqc", "-Q", core.COQ, "ASTS", "-Q", GEN_DIR, "ASTSGen", cfn],
                           capture_output=True, text=True, cwd=GEN_DIR)
    out = " ".join(p.stdout.split())
    m = re.search(r"gen_checks = \[(.*?)\]", out)
    if m:
        names = ["wf(as)", "wf(builtin)", "wf(as_list)", "wf(builtin_list)", "compat(as,builtin)", "compat(as_list,builtin_list)",
                 "has_api(as)", "has_api(builtin)", "has_api(builtin_list)"]
        vals = [x.strip() == "true" for x in m.group(1).split(";")]
        info["checks"] = dict(zip(names, vals))
    m = re.search(r"gen_dropped = \[(.*?)\]", out)
    if m:
        info["dropped_by_model"] = sorted(x.strip().strip('"') for x in m.group(1).split(";") if x.strip())
    info["generated_theorems"] = {"gen_compat": False, "gen_roundtrip": False, "gen_list": False}
    if p.returncode == 0:
        closed = out.count("Closed under the global context")
        for i, k in enumerate(["gen_compat", "gen_roundtrip", "gen_list"]):
            info["generated_theorems"][k] = i < closed
    else:
        info["check_compile_error"] = (p.stderr or p.stdout)[-800:]
    return sc, info


GEN_PRELUDE = 'Add LoadPath "%s" as ASTSGen.\nFrom ASTSGen Require Import SchemaGen.' % GEN_DIR


def field_of(node, name):
    for f in node.get("fields") or []:
        if f["n"] == name:
            return f
    return None


def abstract(node, v):
    """replace every opaque subtree by a digest (the model copies opaque leaves verbatim)"""
    if v is None:
        return None
    k = node["k"]
    if k == "opaque":
        return "#" + hashlib.sha1(json.dumps(v, sort_keys=True).encode()).hexdigest()[:20]
    if k == "ptr":
        return abstract(node["e"], v)
    if k == "slice" and isinstance(v, list):
        return [abstract(node["e"], x) for x in v]
    if k == "map" and isinstance(v, dict):
        return {a: abstract(node["e"], b) for a, b in v.items()}
    if k == "struct" and isinstance(v, dict):
        out = {}
        for a, b in v.items():
            f = field_of(node, a)
            out[a] = abstract(f["s"], b) if f else b
        return out
    return v


def conv_case_term(to_as, is_list, jin, jout):
    return "{| cv_to_as := %s; cv_list := %s; cv_in := %s; cv_out := %s |}" % (
        Bl(to_as), Bl(is_list), jterm(jin), Optl(jout, jterm))


def del_path(tree, path):
    """delete a dotted path from a JSON tree (through arrays at every level)"""
    if tree is None:
        return
    if isinstance(tree, list):
        for x in tree:
            del_path(x, path)
        return
    if not isinstance(tree, dict):
        return
    head, _, rest = path.partition(".")
    if not rest:
        tree.pop(head, None)
    elif head in tree:
        del_path(tree[head], rest)


def prune(tree, paths=PINNED_UNMODELLED):
    t = json.loads(json.dumps(tree))
    for p in paths:
        del_path(t, p)
    return t


def first_diff(a, b, path=""):
    if type(a) != type(b):
        return "%s: %r vs %r" % (path or ".", a, b)
    if isinstance(a, dict):
        for k in sorted(set(a) | set(b)):
            if k not in a or k not in b:
                return "%s.%s: %s" % (path, k, "missing on the left" if k not in a else "missing on the right")
            d = first_diff(a[k], b[k], path + "." + k)
            if d:
                return d
        return None
    if isinstance(a, list):
        if len(a) != len(b):
            return "%s: length %d vs %d" % (path, len(a), len(b))
        for i, (x, y) in enumerate(zip(a, b)):
            d = first_diff(x, y, "%s[%d]" % (path, i))
            if d:
                return d
        return None
    return None if a == b else "%s: %r vs %r" % (path or ".", a, b)


def convert_monitor(ob):
    bad = []
    if "panic" in ob:
        return ["conversion panicked: " + ob["panic"]]
    for k in ("err_from", "err_to", "err_from2"):
        if ob.get(k):
            bad.append("%s: %s" % (k, ob[k]))
    if bad:
        return bad
    if ob["as_api"] != AS_VERSION:
        bad.append("Advanced object typed %r" % ob["as_api"])
    if ob["bi_api"] != BI_VERSION or ob["j2"].get("apiVersion") != BI_VERSION:
        bad.append("read back typed %r, not apps/v1" % ob["bi_api"])
    if not ob["sem_equal_modelled"]:
        bad.append("not semantically equal on the modelled fields: " + ob.get("diff", ""))
    if not ob.get("as_roundtrip_equal"):
        bad.append("Advanced -> built-in -> Advanced changed the object: " + ob.get("diff_as", ""))
    extra = [p for p in ob["dropped_set"] if p.replace("[]", "") not in PINNED_UNMODELLED]
    if extra:
        bad.append("fields outside the documented unmodelled set were dropped: %s" % extra)
    want = prune(ob["j0"])
    want["apiVersion"] = BI_VERSION
    d = first_diff(want, prune(ob["j2"]))
    if d:
        bad.append("JSON of the read-back object differs on a modelled field: " + d)
    return bad


def run_convert_family(ctx, depth):
    quick = depth == "quick"
    sc, info = regen_schemas(ctx)
    ctx.families["schemas"] = info
    if info["translator_errors"]:
        ctx.notes.append("schema translator left its fragment: %s; pinned schema used for the theorems, correspondence escalated" % info["translator_errors"][:3])
    checks = info.get("checks", {})
    if not checks or not all(checks.values()) or not all(info.get("generated_theorems", {"x": False}).values()):
        ctx.corr_breaks.append({"family": "convert/schema-compat", "input": None,
                                "observed": {k: v for k, v in info.items() if k != "rewritten"},
                                "model": "compat schema_as schema_builtin = true is a proof obligation re-checked on the generated schemas"})
    static = core.run_harness("unmodelled", [{}], binary=BIN)[0]["paths"]
    info["unmodelled_builtin_fields"] = static
    if sorted(static) != sorted(PINNED_UNMODELLED):
        ctx.violations.append({"family": "convert/unmodelled", "input": {"types": "asv1.StatefulSet vs appsv1.StatefulSet"},
                               "observed": {"unmodelled": static}, "clauses": [
                                   "the set of built-in fields the Advanced API does not model changed: %s (documented: %s)"
                                   % (sorted(set(static) ^ set(PINNED_UNMODELLED)), PINNED_UNMODELLED)],
                               "signature": {"kind": "convert", "what": "unmodelled-set"}})
    rng = ctx.rng
    objs = [gen_sts(rng, i, rich=(i % 4 != 0)) for i in range(160 if quick else 3000)]
    # hand-picked corners: empty object, nil vs empty collections everywhere, only unmodelled fields
    objs += [
        {}, {"spec": {}}, {"metadata": {"name": "x"}, "spec": {"template": {}}, "status": {}},
        {"spec": {"volumeClaimTemplates": [], "selector": {}, "template": {"spec": {"containers": []}}}, "status": {"conditions": []}},
        {"spec": {"volumeClaimTemplates": None, "selector": None, "template": {"spec": {"containers": None}}}, "status": {"conditions": None}},
        {"spec": {"minReadySeconds": 3, "ordinals": {"start": 2}, "persistentVolumeClaimRetentionPolicy": {"whenScaled": "Delete"},
                  "updateStrategy": {"rollingUpdate": {"maxUnavailable": "50%"}}}, "status": {"availableReplicas": 4}},
        {"kind": "Foo", "apiVersion": "v9", "spec": {"replicas": -2147483648, "revisionHistoryLimit": 2147483647}},
        {"status": {"observedGeneration": 9223372036854775807, "replicas": -1, "collisionCount": 0,
                    "conditions": [{"type": "", "status": ""}, {"type": "A", "status": "True", "lastTransitionTime": "2020-02-29T23:59:59Z"}]}},
    ]
    obs = core.run_harness("convert", [{"obj": o} for o in objs], binary=BIN)
    terms, keep = [], []
    usable = bool(checks) and "gen_compile_error" not in info
    for o, ob in zip(objs, obs):
        ctx.evaluations += 1
        if "decode_err" in ob:
            if not any(b.get("family") == "convert/decode" for b in ctx.corr_breaks):
                ctx.corr_breaks.append({"family": "convert/decode", "input": {"obj": o}, "observed": ob["decode_err"],
                                        "model": "the built-in type rejects a field the generator knows: " + ob["decode_err"]})
            continue
        bad = convert_monitor(ob)
        if bad:
            ctx.violations.append({"family": "convert/object", "input": {"obj": o}, "observed": {k: ob.get(k) for k in ("j2", "diff", "dropped_set", "err_from", "err_to")},
                                   "clauses": bad, "signature": {"kind": "convert", "what": "roundtrip"}})
        if "panic" in ob or ob.get("err_from") or ob.get("err_to"):
            ctx.corr_breaks.append({"family": "convert/object", "input": {"obj": o}, "observed": ob, "model": "conversion of a canonical tree never fails in the model"})
            continue
        for p in ob["dropped_set"]:
            ctx.count("convert:dropped:" + p)
        ctx.count("convert:%s" % ("lossless" if ob["sem_equal_full"] else "only-unmodelled-fields-dropped"))
        ctx.nontriv(["convert", prune(ob["j0"])])
        if usable:
            a0, a1, a2 = abstract(sc["builtin"], ob["j0"]), abstract(sc["as"], ob["j1"]), abstract(sc["builtin"], ob["j2"])
            terms.append(conv_case_term(True, False, a0, a1)); keep.append((o, "FromBuiltinStatefulSet", ob["j0"], ob["j1"]))
            terms.append(conv_case_term(False, False, a1, a2)); keep.append((o, "ToBuiltinStatefulSet", ob["j1"], ob["j2"]))
            if "j3" in ob:
                terms.append(conv_case_term(True, False, a2, abstract(sc["as"], ob["j3"]))); keep.append((o, "FromBuiltinStatefulSet(2)", ob["j2"], ob["j3"]))
    ctx.sample({"family": "convert", "input": objs[1 % len(objs)], "observed": {"j2": obs[1].get("j2"), "dropped_set": obs[1].get("dropped_set")}})
    # lists: order and length, nil vs empty items
    lcases = []
    for n in ([0, 0, 1, 2, 3, 5] if quick else [0, 0, 1, 2, 3, 5, 8, 13, 40] * 6):
        pickd = [objs[rng.randrange(len(objs))] for _ in range(n)]
        lcases.append({"is_list": True, "list": pickd, "nil_items": n == 0 and len(lcases) % 2 == 0})
    lobs = core.run_harness("convert", lcases, binary=BIN)
    for c, ob in zip(lcases, lobs):
        ctx.evaluations += 1
        bad = []
        if "panic" in ob or ob.get("err_list") or "decode_err" in ob or ob.get("err_from") or ob.get("err_to"):
            bad.append("list conversion failed: %s" % (ob.get("panic") or ob.get("err_list") or ob.get("decode_err") or ob.get("err_from") or ob.get("err_to")))
        else:
            if ob["n_in"] != ob["n_out"] or ob["n_in"] != len(c["list"]):
                bad.append("list length %d -> %d" % (ob["n_in"], ob["n_out"]))
            if not ob["items_equal_in_order"]:
                bad.append("items differ or are reordered: " + ob.get("diff", ""))
            if ob["list_api"] != BI_VERSION:
                bad.append("list typed %r" % ob["list_api"])
            items = ob["jo"].get("items") or []
            for i, (it, single) in enumerate(zip(items, ob["singles"])):
                if it.get("apiVersion") != BI_VERSION:
                    bad.append("item %d typed %r" % (i, it.get("apiVersion")))
                d = first_diff(single, it)
                if d:
                    bad.append("item %d differs from ToBuiltinStatefulSet of the same object: %s" % (i, d))
            if ob["items_nil_in"] != ob["items_nil_out"]:
                bad.append("nil-ness of items changed")
            ctx.count("convert:list:n=%d" % ob["n_in"])
            ctx.nontriv(["convertlist", ob["jl"]])
            if usable:
                terms.append(conv_case_term(False, True, abstract(sc["as_list"], ob["jl"]), abstract(sc["builtin_list"], ob["jo"])))
                keep.append((c, "ToBuiltinStetefulsetList", ob["jl"], ob["jo"]))
        if bad:
            ctx.violations.append({"family": "convert/list", "input": c, "observed": {k: ob.get(k) for k in ("n_in", "n_out", "diff", "err_list")},
                                   "clauses": bad, "signature": {"kind": "convert", "what": "list"}})
    mm = []
    if usable:
        mm = core.coq_mismatches("C19_conv", ["Base", "Json", "Convert"], "conv_case",
                                 "conv_check schema_as schema_builtin schema_builtin_list", terms, shard_size=60, prelude=GEN_PRELUDE)
        for i in mm[:6]:
            o, what, jin, jout = keep[i]
            ctx.corr_breaks.append({"family": "convert/" + what, "input": o if "list" in o else {"obj": o}, "observed": {"in": jin, "out": jout},
                                    "model": "conv on the generated schema disagrees with the real " + what})
        ctx.traces_validated += len(terms)
    ctx.families["convert"] = {"objects": len(objs), "lists": len(lcases), "conversion_steps_checked_against_model": len(terms),
                               "model_mismatches": len(mm),
                               "unmodelled_builtin_fields_dropped_by_design": static,
                               "note": "nil vs empty collections: an empty non-nil slice/map under an omitempty tag comes back nil "
                                       "(equal under apiequality.Semantic.DeepEqual); time stamps are compared at second precision (JSON form)"}
    return sc if usable else None


# ---------- the hijack client: Create -> Get -> List, Update of what was read back -> Get ----------
SUFFIX = {"n": Fraction(1, 10 ** 9), "u": Fraction(1, 10 ** 6), "m": Fraction(1, 1000), "": Fraction(1), "k": Fraction(10 ** 3),
          "M": Fraction(10 ** 6), "G": Fraction(10 ** 9), "T": Fraction(10 ** 12), "P": Fraction(10 ** 15), "E": Fraction(10 ** 18),
          "Ki": Fraction(2 ** 10), "Mi": Fraction(2 ** 20), "Gi": Fraction(2 ** 30), "Ti": Fraction(2 ** 40), "Pi": Fraction(2 ** 50), "Ei": Fraction(2 ** 60)}


def quantity(s):
    m = re.match(r"^([+-]?[0-9]*\.?[0-9]*)(?:[eE]([+-]?[0-9]+))?(n|u|m|k|M|G|T|P|E|Ki|Mi|Gi|Ti|Pi|Ei)?$", s) if isinstance(s, str) else None
    if not m or not m.group(1) or m.group(1) in ("+", "-", "."):
        return None
    v = Fraction(m.group(1)) * SUFFIX[m.group(3) or ""]
    if m.group(2):
        v *= Fraction(10) ** int(m.group(2))
    return v


def rounded_up_milli(a, b):
    qa, qb = quantity(a), quantity(b)
    if qa is None or qb is None:
        return False
    return qb == Fraction(-((-qa * 1000) // 1), 1000)


RESOURCE_PATH = re.compile(r"(\.resources\.(limits|requests)\.[^.]+|\.overhead\.[^.]+|\.status\.capacity\.[^.]+)$")


def included(a, b, path, out):
    """every value the user set (tree a) is found unchanged in the object read back (tree b)"""
    if a is None or a == {} or a == [] or a == "" or a == 0 or a is False:
        if b not in (None, {}, [], "", 0, False) and not isinstance(b, (dict, list)) and a not in (None, {}, []):
            pass
        return
    if isinstance(a, dict):
        if not isinstance(b, dict):
            out.append("%s: %r -> %r" % (path, a, b)); return
        for k, v in a.items():
            if k not in b:
                if v not in (None, {}, [], "", 0, False):
                    out.append("%s.%s: %r lost" % (path, k, v))
                continue
            included(v, b[k], path + "." + k, out)
        return
    if isinstance(a, list):
        if not isinstance(b, list) or len(a) != len(b):
            out.append("%s: list %r -> %r" % (path, a, b)); return
        for i, (x, y) in enumerate(zip(a, b)):
            included(x, y, "%s[%d]" % (path, i), out)
        return
    if a != b:
        if RESOURCE_PATH.search(re.sub(r"\[\d+\]", "", path)) and rounded_up_milli(a, b):
            return
        out.append("%s: %r -> %r" % (path, a, b))


def hijack_monitor(case, ob):
    bad = []
    sig = {"kind": "hijack", "what": "roundtrip"}
    if "panic" in ob:
        return ["hijack client panicked: " + ob["panic"]], sig
    for i, st in enumerate(ob["steps"]):
        for k in ("err_create", "err_get", "err_update", "err_get2"):
            if st.get(k):
                bad.append("object %d: %s: %s" % (i, k, st[k]))
        if "got2" not in st:
            continue
        if not st["created_equals_got"]:
            bad.append("object %d: Create returned something else than Get" % i)
        if st["got"].get("apiVersion") != BI_VERSION or st["created"].get("apiVersion") != BI_VERSION:
            bad.append("object %d: read back typed %r" % (i, st["got"].get("apiVersion")))
        lost = []
        want = prune(st["input"])
        want.pop("apiVersion", None)
        included(want, st["got"], "", lost)
        if lost:
            bad.append("object %d: a field set by the writer changed on read-back: %s" % (i, "; ".join(lost[:4])))
            if all(".spec.updateStrategy.rollingUpdate" in x for x in lost):
                sig = {"kind": "hijack", "what": "defaulting-overwrites-rollingUpdate"}
        if not st["resubmit_unchanged"] or not st.get("stored_unchanged", True):
            bad.append("object %d: re-submitting the object read back changed it: %s" % (i, st.get("diff_resubmit", "")))
        if not st["template_unchanged"]:
            bad.append("object %d: re-submitting the object read back changed its pod template" % i)
        if st.get("updated_nil") or st.get("updated_equals_got2") is False:
            bad.append("object %d: Update through the hijack client returned %s, not the stored object" % (i, "nothing" if st.get("updated_nil") else "something else"))
        if st.get("err_updstatus"):
            bad.append("object %d: UpdateStatus through the hijack client failed: %s" % (i, st["err_updstatus"]))
        elif st.get("status_roundtrip") is False:
            bad.append("object %d: a status written through the hijack client did not come back (or disturbed the spec)" % i)
        d = first_diff(st["got"], st["got2"])
        if d:
            bad.append("object %d: JSON differs after re-submission: %s" % (i, d))
    for probe, want in (("dup_create", "exists"), ("ghost_update", "notfound"), ("ghost_updstatus", "notfound"), ("ghost_get", "notfound")):
        pr = ob.get(probe)
        if pr is not None and not (pr.get(want) and pr.get("result_nil")):
            bad.append("%s: the error of the Advanced StatefulSet API did not reach the caller (err=%r, result %s)" % (
                probe, pr.get("err"), "nil" if pr.get("result_nil") else "not nil"))
    if ob.get("err_watch"):
        bad.append("Watch through the hijack client failed: " + ob["err_watch"])
    if ob.get("err_delete"):
        bad.append("Delete through the hijack client failed: " + ob["err_delete"])
    if "watch_events" in ob:
        evs = ob["watch_events"]
        for e in evs:
            if e["gotype"] != "*v1.StatefulSet" or e.get("api") != BI_VERSION:
                bad.append("watch event %s carries %s typed %r, not an apps/v1 StatefulSet" % (e["type"], e["gotype"], e.get("api")))
        kinds = [e["type"] for e in evs]
        if "ADDED" not in kinds or "DELETED" not in kinds:
            bad.append("the watch opened through the hijack client saw %s for objects that were created, updated and one deleted" % kinds)
    if ob.get("err_list"):
        bad.append("List failed: " + ob["err_list"])
    elif "list" in ob:
        if ob["list_api"] != BI_VERSION:
            bad.append("list typed %r" % ob["list_api"])
        if ob["list_names"] != ob["created_names"]:
            bad.append("List returned %s for objects created as %s" % (ob["list_names"], ob["created_names"]))
        gots = [st["got2"] for st in ob["steps"] if "got2" in st]
        for i, (it, g) in enumerate(zip(ob["list"].get("items") or [], gots)):
            a, b = dict(it), dict(g)
            a.pop("kind", None); b.pop("kind", None)
            d = first_diff(a, b)
            if d:
                bad.append("list item %d differs from Get: %s" % (i, d))
    return bad, sig


def run_hijack_family(ctx, depth, sc=None):
    quick = depth == "quick"
    rng = ctx.rng
    cases = []
    for n in ([1] * 30 + [3, 5] if quick else [1] * 500 + [2, 3, 5, 8] * 10):
        objs = []
        for i in range(n):
            o = gen_sts(rng, i, rich=True)
            o.setdefault("metadata", {})["name"] = "web%d" % i
            o["metadata"].pop("namespace", None)
            objs.append(o)
        cases.append({"objs": objs})
    # the corner reported as a finding: rollingUpdate parameters without a strategy type
    cases.append({"objs": [{"metadata": {"name": "p"}, "spec": {"replicas": 5, "updateStrategy": {"rollingUpdate": {"partition": 3}},
                                                               "template": {"spec": {"containers": [{"name": "c", "image": "i:1"}]}}}}]})
    obs = core.run_harness("hijackrt", cases, binary=BIN)
    terms, keep = [], []
    nviol = 0
    for c, ob in zip(cases, obs):
        ctx.evaluations += 1
        if any("decode_err" in st for st in ob.get("steps", [])):
            if not any(b.get("family") == "hijack/decode" for b in ctx.corr_breaks):
                ctx.corr_breaks.append({"family": "hijack/decode", "input": c, "observed": [st.get("decode_err") for st in ob["steps"]],
                                        "model": "the built-in type rejects a field the generator knows"})
            continue
        bad, sig = hijack_monitor(c, ob)
        if bad:
            nviol += 1
            ctx.violations.append({"family": "hijack", "input": c, "observed": {"clauses": bad}, "clauses": bad, "signature": sig})
            if sig.get("what") == "defaulting-overwrites-rollingUpdate" and not any("rollingUpdate" in n for n in ctx.notes):
                ctx.notes.append("finding: SetDefaults_StatefulSet (client/apis/apps/v1/defaults.go) replaces spec.updateStrategy.rollingUpdate by an "
                                 "empty struct when the strategy type is omitted, so a partition written through the hijack client without a type is "
                                 "read back as 0 (theorem C19_defaulting_keeps_partition_refuted; proposed repair build/tmp/fix-C19.diff = the nil test "
                                 "of upstream Kubernetes >= 1.24, for which C19_defaulting_keeps_partition_with_nil_test holds)")
        ctx.count("hijack:objects=%d" % len(c["objs"]))
        ctx.nontriv(["hijack", c])
        if sc is not None and "panic" not in ob:
            for st in ob["steps"]:
                if "stored" in st and "got" in st:
                    terms.append(conv_case_term(False, False, abstract(sc["as"], st["stored"]), abstract(sc["builtin"], st["got"])))
                    keep.append((c, "hijack Get"))
    mm = []
    if terms:
        mm = core.coq_mismatches("C19_hijack", ["Base", "Json", "Convert"], "conv_case",
                                 "conv_check schema_as schema_builtin schema_builtin_list", terms, shard_size=60, prelude=GEN_PRELUDE)
        for i in mm[:4]:
            ctx.corr_breaks.append({"family": "hijack/get", "input": keep[i][0], "observed": "see replay", "model": "stored -> Get differs from convert_to schema_builtin"})
        ctx.traces_validated += len(terms)
    ctx.families["hijack"] = {"scenarios": len(cases), "objects": sum(len(c["objs"]) for c in cases), "violating_scenarios": nviol,
                              "get_steps_checked_against_model": len(terms), "model_mismatches": len(mm),
                              "protocol": "real hijack client over the fake Advanced clientset: Create, Get, Update(read-back), Get, List (list reactor returns creation order)"}


# ======================================================================================
# Part C — idempotence of client-side defaulting
# ======================================================================================
def defaults_variant():
    """Which shape of the updateStrategy block does defaults.go have now?  (the model has both, each proved
    idempotent; the correspondence is run against the one the source has)"""
    try:
        src = open(os.path.join(core.REPO, "client/apis/apps/v1/defaults.go")).read()
    except OSError:
        return False
    src = re.sub(r"//.*", "", src)
    m = re.search(r'UpdateStrategy\.Type\s*==\s*""\s*\{(.*?)\n\t\}', src, flags=re.S)
    return bool(m and re.search(r"UpdateStrategy\.RollingUpdate\s*==\s*nil", m.group(1)))


def dflt_term(keep, set_only, jin, jout):
    return "{| dc_keep := %s; dc_set_only := %s; dc_in := %s; dc_out := %s |}" % (Bl(keep), Bl(set_only), jterm(jin), jterm(jout))


def defaults_monitor(ob):
    bad = []
    if "panic" in ob:
        return ["defaulter panicked: " + ob["panic"]]
    if ob.get("err_to") or ob.get("err_from"):
        bad.append("conversion of the defaulted object failed: %s" % (ob.get("err_to") or ob.get("err_from")))
    if not ob["idempotent"] or ob["j1"] != ob["j2"]:
        bad.append("defaulting twice differs from defaulting once: %s" % (ob.get("diff") or first_diff(ob["j1"], ob["j2"])))
    if "j3" in ob:
        if not ob["resubmit_equal"] or ob["j3"] != ob["j1_typed"]:
            bad.append("an object read back and re-submitted is altered by defaulting: %s" % (ob.get("diff_resubmit") or first_diff(ob["j1_typed"], ob["j3"])))
        if not ob["template_equal"]:
            bad.append("re-submission alters the pod template (would start a rollout)")
    return bad


def run_defaults_family(ctx, depth):
    quick = depth == "quick"
    rng = ctx.rng
    keep = defaults_variant()
    objs = []
    for i in range(140 if quick else 2500):
        objs.append(prune(gen_sts(rng, i, rich=True)))
    # every volume source the defaulter touches, once each, with and without host networking
    pool = volume_pool()
    for hn in (False, True):
        vols = [dict({"name": "v%d" % i}, **v) for i, v in enumerate(pool)]
        objs.append({"metadata": {"name": "allvolumes"}, "spec": {"template": {"spec": {
            "hostNetwork": hn, "volumes": vols,
            "containers": [{"name": "c", "image": im, "ports": [{"containerPort": 80}, {"containerPort": 0, "hostPort": 0}, {"containerPort": 81, "hostPort": 9}]} for im in IMAGES],
            "initContainers": [{"name": "i", "ports": [{"containerPort": 1}], "resources": {"limits": {"cpu": q}}} for q in QUANTS],
            "ephemeralContainers": [{"name": "e", "image": "nginx", "ports": [{"containerPort": 2}], "livenessProbe": {}, "resources": {"limits": {"cpu": "0.0005"}},
                                     "lifecycle": {"postStart": {"httpGet": {"port": 1}}}}]}}}})
    for us in UPDATE_STRATEGIES:
        o = {"metadata": {"name": "us"}, "spec": {"template": {}}}
        if us is not None:
            us = json.loads(json.dumps(us))
            (us.get("rollingUpdate") or {}).pop("maxUnavailable", None)
            o["spec"]["updateStrategy"] = us
        objs.append(o)
    objs += [{}, {"spec": {}}, {"spec": {"replicas": 0, "revisionHistoryLimit": 0, "podManagementPolicy": "Parallel"}}]
    obs = core.run_harness("defaults", [{"obj": o} for o in objs], binary=BIN)
    terms, keepl = [], []
    for o, ob in zip(objs, obs):
        ctx.evaluations += 1
        if "decode_err" in ob:
            # not a verdict by itself (generator and Go type disagree about a field name): reported once, search continues
            if not any(b.get("family") == "defaults/decode" for b in ctx.corr_breaks):
                ctx.corr_breaks.append({"family": "defaults/decode", "input": {"obj": o}, "observed": ob["decode_err"],
                                        "model": "the Advanced type rejects a field the generator (and the model) know: " + ob["decode_err"]})
            continue
        bad = defaults_monitor(ob)
        if bad:
            ctx.violations.append({"family": "defaults", "input": {"obj": o}, "observed": {"j1": ob.get("j1"), "j2": ob.get("j2")}, "clauses": bad,
                                   "signature": {"kind": "defaults", "what": "idempotence"}})
        if "panic" in ob:
            ctx.corr_breaks.append({"family": "defaults", "input": {"obj": o}, "observed": ob, "model": "model has no panic"})
            continue
        ctx.count("defaults:%s" % ("changed-by-first-pass" if ob["changed_by_first"] else "already-defaulted"))
        ctx.nontriv(["defaults", ob["j0"]])
        terms.append(dflt_term(keep, True, ob["j0"], ob["j1"])); keepl.append((o, ob, "set-level"))
        terms.append(dflt_term(keep, False, ob["j0"], ob["j1"])); keepl.append((o, ob, "whole-object"))
        # the defaulted object is a fixpoint of the model too
        terms.append(dflt_term(keep, False, ob["j1"], ob["j2"])); keepl.append((o, ob, "second-pass"))
    ctx.sample({"family": "defaults", "input": objs[0], "observed": {"j1": obs[0].get("j1"), "idempotent": obs[0].get("idempotent")}})
    mm = core.coq_mismatches("C19_dflt", ["Base", "Json", "Defaults"], "dflt_case", "dflt_check", terms, shard_size=40) if terms else []
    kinds = {}
    for i in mm:
        kinds[keepl[i][2]] = kinds.get(keepl[i][2], 0) + 1
    for i in mm[:6]:
        o, ob, what = keepl[i]
        usd = "us_default_keep" if keep else "us_default"
        jin = ob["j1"] if what == "second-pass" else ob["j0"]
        mv = core.coq_eval("C19_dflt_mm", ["Base", "Json", "Defaults"], ["sts_default_with %s libs_model %s" % (usd, jterm(jin))])
        ctx.corr_breaks.append({"family": "defaults/" + what, "input": {"obj": o}, "observed": ob["j2"] if what == "second-pass" else ob["j1"], "model": mv})
    ctx.traces_validated += len(terms)
    ctx.families["defaults"] = {"objects": len(objs), "model_variant": "us_default_keep (nil test present in defaults.go)" if keep else "us_default (defaults.go as it is: empty type replaces rollingUpdate)",
                                "checked_against_model": len(terms), "model_mismatches": len(mm), "mismatch_kinds": kinds,
                                "covers": "every volume source the defaulter touches (x host networking), containers / init / ephemeral containers, "
                                          "probes with and without handlers, lifecycle handlers, limits-only resources, sub-milli quantities, image tags, claim templates"}


# ======================================================================================
def run(ctx, depth):
    run_codec_family(ctx, depth)
    sc = run_convert_family(ctx, depth)
    run_hijack_family(ctx, depth, sc)
    run_defaults_family(ctx, depth)


def extra_cov(ctx):
    info = ctx.families.get("schemas", {})
    gen = info.get("generated_theorems", {})
    return {
        "generated_obligations": {"file": os.path.join(GEN_DIR, "SchemaCheck.v"),
                                  "theorems": gen, "discharged": sum(1 for v in gen.values() if v), "obligations": len(gen),
                                  "what": "compat / round-trip / list theorems instantiated on the schemas extracted from the Go types in this run"},
        "unmodelled_builtin_fields_dropped_by_design": info.get("unmodelled_builtin_fields"),
        "partial": {
            "idempotence of leaves calling into apimachinery": "Quantity.RoundUp enters the theorems as a function with the hypothesis idem_lib "
                                                               "(proved for the model roundq_model used by the correspondence); ParseImageName enters as an arbitrary function (no hypothesis needed)",
            "not modelled": ["go/ast translator of zz_generated.defaults.go (DefaultsGen.v of DESIGN 4.4): the hand model is tied by the whole-object correspondence instead",
                             "Apply / Patch / UpdateStatus paths of the hijack client", "formal composition conversion+defaulting (see assumptions)"],
        },
    }


def search(ctx):
    run(ctx, "thorough")


def replay(data):
    v = data.get("violation") or (data.get("correspondence_breaks") or [{}])[0]
    case = v.get("input")
    fam = v.get("family", "")
    if not case:
        print(json.dumps(data, indent=1)[:6000])
        return 1
    if fam.startswith("codec"):
        o = core.run_harness("codec", [case], binary=BIN)[0]
        mv = core.coq_eval("C19_replay", ["Base", "Slots", "Codec"],
                           ["codec_model %s %s" % (amap_term(case["ann"]), codec_op_term(case))])
        bad = codec_monitor(case, o)
        print("input         :", json.dumps(case))
        print("implementation:", json.dumps(o))
        print("model         :", mv)
        print("monitor       :", bad)
        return 1 if bad else 0
    if fam.startswith("convert"):
        if case.get("is_list"):
            o = core.run_harness("convert", [case], binary=BIN)[0]
            print("input         :", json.dumps(case)[:3000])
            print("implementation:", json.dumps({k: o.get(k) for k in ("n_in", "n_out", "items_equal_in_order", "list_api", "diff", "err_list")}))
            return 0 if o.get("items_equal_in_order") and o.get("n_in") == o.get("n_out") else 1
        if "obj" not in case:
            static = core.run_harness("unmodelled", [{}], binary=BIN)[0]["paths"]
            print("built-in fields without a counterpart in the Advanced API:", static)
            print("documented                                               :", PINNED_UNMODELLED)
            return 0 if sorted(static) == sorted(PINNED_UNMODELLED) else 1
        o = core.run_harness("convert", [case], binary=BIN)[0]
        bad = convert_monitor(o)
        print("input         :", json.dumps(case)[:3000])
        print("implementation: j2 =", json.dumps(o.get("j2"))[:3000])
        print("dropped fields set in this object:", o.get("dropped_set"))
        mv = core.coq_eval("C19_replay", ["Base", "Json", "Convert"],
                           ["match convert_to schema_as as_version %s with Some j1 => convert_to schema_builtin builtin_version j1 | None => None end" % jterm(o["j0"])],
                           prelude=GEN_PRELUDE) if "j0" in o else "n/a"
        print("model         :", str(mv)[:3000])
        print("monitor       :", bad)
        return 1 if bad else 0
    if fam.startswith("hijack"):
        o = core.run_harness("hijackrt", [case], binary=BIN)[0]
        bad, sig = hijack_monitor(case, o)
        print("input         :", json.dumps(case)[:3000])
        for i, st in enumerate(o.get("steps", [])):
            print("object %d written:" % i, json.dumps(st.get("input"))[:1500])
            print("object %d read   :" % i, json.dumps(st.get("got"))[:1500])
        print("model         : sts_default / convert_to on the stored object (see families defaults, convert)")
        print("monitor       :", bad, sig)
        return 1 if bad else 0
    if fam.startswith("defaults"):
        o = core.run_harness("defaults", [case], binary=BIN)[0]
        bad = defaults_monitor(o)
        keep = defaults_variant()
        mv = core.coq_eval("C19_replay", ["Base", "Json", "Defaults"],
                           ["sts_default_with %s libs_model %s" % ("us_default_keep" if keep else "us_default", jterm(o["j0"]))]) if "j0" in o else "n/a"
        print("input              :", json.dumps(case)[:3000])
        print("defaulted once     :", json.dumps(o.get("j1"))[:3000])
        print("defaulted twice    :", json.dumps(o.get("j2"))[:3000])
        print("model (once)       :", str(mv)[:3000])
        print("monitor            :", bad)
        return 1 if bad else 0
    print(json.dumps(data, indent=1)[:6000])
    return 1
