"""C09 — A failure or crash at any API call is reported, harmless, and recoverable."""
import copy
from lib import core
from props import reconcile_common as rc, monitors, gen

TITLE = "A failure or crash at any API call is reported, harmless, and recoverable"
TECHNIQUE = ("Coq proof (success => only enumerated benign errors, for every fault oracle; executor stops at first failure; requeue over the queue "
             "contract) + fault enumeration on the real controller and real work queue (every call position x every error kind, pairs in the "
             "thorough tier) compared with the model on outcome and full log + monitors (reported, requeued, partial work safe)")
ASSUMPTIONS = [
    "API-server and informer-cache semantics are modelled (World.v/Reconcile.v api_*), validated against the fake clientsets + harness reactors",
    "a crash at call k is modelled as the fault 'timeout, applied or lost' at k followed by nothing (log prefix)",
    "recovery (same final state once calls stop failing) is C02's convergence from the state left behind; checked here on histories by the monitor",
]
PI = "pi_all"


def monitor(sn, faulty):
    return monitors.mon_c09(sn, faulty)


def run(ctx, depth):
    rng = ctx.rng
    quick = depth == "quick"
    nb = 45 if quick else 500
    base = []
    while len(base) < nb:
        r = rng.random()
        sc = gen.gen_rollout(rng) if r < 0.45 else gen.gen_history(rng) if r < 0.65 else gen.gen_snapshot(rng)
        sc["ops"] = [{"op": "worker"}]
        base.append(sc)
    outs = core.run_harness_parallel("reconcile", base, shards=16)
    fscs = []
    for sc, out in zip(base, outs):
        kinds = gen.KINDS if rng.random() < 0.25 else [k for k in gen.KINDS if k != "conflict"]
        singles = gen.single_faults(sc, out["steps"][0], kinds=kinds)
        for f in singles:
            f["ops"][0]["op"] = "worker"
        fscs += singles
        if not quick and len(singles) > 4:
            # pairs: a second fault at a later position of the fault-free run
            for _ in range(12):
                a, b = sorted(rng.sample(range(len(singles)), 2))
                fa, fb = singles[a]["ops"][0]["faults"][0], singles[b]["ops"][0]["faults"][0]
                if fa == fb:
                    continue
                sc2 = copy.deepcopy(sc)
                sc2["ops"] = [{"op": "worker", "faults": [fa, fb]}]
                fscs.append(sc2)
    fouts = core.run_harness_parallel("reconcile", fscs, shards=16)
    allsc, allout = base + fscs, outs + fouts
    for k, (sc, out) in enumerate(zip(allsc, allout)):
        obs = out["steps"][0]
        obs["via_worker"] = True
        faulty = k >= len(base)
        ctx.evaluations += 1
        ctx.count("result:" + obs["result"])
        ctx.count("family:" + ("fault" if faulty else "fault-free"))
        if faulty:
            for f in sc["ops"][0]["faults"]:
                ctx.count("fault:" + f["kind"])
            ctx.count("faults-per-reconcile:%d" % len(sc["ops"][0]["faults"]))
        sn = monitors.Snap(sc, obs)
        sn.final = out.get("final")
        bad = monitor(sn, faulty) if sn.ok else []
        if bad:
            ctx.violations.append({"family": "C09/faults", "input": sc, "observed": obs, "clauses": bad,
                                   "signature": {"kind": "C09", "clause": bad[0][:40]}})
        if faulty:
            ctx.nontriv([sc["api"], sc["cache"], sc["ops"]])
    ctx.sample({"family": "fault", "faults": fscs[0]["ops"][0]["faults"], "result": fouts[0]["steps"][0]["result"],
                "requeues": fouts[0]["steps"][0].get("requeues"),
                "calls": [rc.fault_free_shape(c) + (":" + c["err"] if c.get("err") else "") for c in fouts[0]["steps"][0]["calls"]]})
    nt, nm = rc.correspond_proj(ctx, "C09/faults", allsc, allout, "recon_check_proj pi_all true", "recon_model_proj pi_all")
    ctx.families["C09/faults"] = {"fault_free_bases": len(base), "fault_variants": len(fscs), "compared_in_coq": nt, "model_mismatches": nm,
                                  "exhaustive": "every call position of each base x every error kind (pairs sampled in the thorough tier)"}


def search(ctx):
    run(ctx, "thorough")


def replay(data):
    v = data.get("violation") or (data.get("correspondence_breaks") or [{}])[0]
    case = v.get("input")
    if not case:
        print(data)
        return 0
    return rc.replay_case(case, monitor, PI)
