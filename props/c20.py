"""C20 — hijacked watch relays everything, survives error events, shuts down cleanly.

PARTIAL: the theorems (coq/C20.v) are about the transition system of coq/Watch.v, in which the Go scheduler, the channel
implementation, sync.Mutex, defer order and utilruntime.HandleCrash are modelled as rules, not verified; the model cannot
exhibit runtime-level leaks other than the relay goroutine parked at one of its program points.  This module ties the
model to the real hijackWatch: families of schedules run by /verif/harness_c20 on real goroutines, a monitor coding the
property directly on the observations, and the comparison of every observation with the model's sequential driver."""
import itertools, json, os, re, subprocess
from concurrent.futures import ThreadPoolExecutor
from lib import core
from lib.core import Zl, Bl, natl

TITLE = "Hijacked watch relays everything, survives error events, shuts down cleanly"
TECHNIQUE = ("Coq proof (invariants by induction over ALL runs of a labelled transition system: source, relay goroutine "
             "program counter, consumer, Go channel rules; termination of the relay by a decreasing measure) over a "
             "Gallina model of hijackWatch, tied to the code by replaying schedules of send/close/recv/stop on the REAL "
             "hijacked watch (real goroutines, fake clientset, controlled source watchers) and comparing every step "
             "outcome, the received events, the closed flag, the relay goroutine's presence and the panic hook with the "
             "model's sequential driver inside coqc")
ASSUMPTIONS = [
    "PARTIAL: the Go scheduler, the channel implementation (rendezvous, buffering, close, select), sync.Mutex, defer "
    "order and utilruntime.HandleCrash are MODELLED as rules of Watch.v (from the Go specification), not verified; the "
    "model cannot exhibit runtime-level leaks other than the relay goroutine parked at one of its program points",
    "hypothesis of C20_no_crash / of the clean-shutdown theorems: every StatefulSet payload can be marshalled by "
    "encoding/json (true of every object a decoder produced); an in-memory Advanced StatefulSet carrying an IntOrString "
    "with an impossible Type still crashes the relay (C20_no_crash_any_payload_refuted, family 'unmarshalable')",
    "the harness decides 'blocked' by a timeout (60 ms per step, operations complete in microseconds) and lets the relay "
    "settle 3 ms after each completed step; the harness runs with ReallyCrash=false and records what the panic "
    "handlers saw (each recorded panic is a process crash under the default ReallyCrash=true)",
    "correspondence covers the sequentialised interleavings (relay runs to a parked state between external steps); the "
    "'race' family runs source and consumer concurrently and is checked by the monitor only",
]
HARNESSES = ["harness_c20"]
BIN = "harness_c20"
IMPORTS = ["Base", "Watch"]

TYPES = ["ADDED", "MODIFIED", "DELETED", "BOOKMARK", "ERROR"]
COQ_TYPE = {"ADDED": "Added", "MODIFIED": "Modified", "DELETED": "Deleted", "BOOKMARK": "Bookmark", "ERROR": "Error"}
CAP = {"fake": 0, "racefree": 100}


# ------------------------------------------------------------------ schedules
def mk_steps(symbols, rng=None):
    """symbols over S (StatefulSet payload, event type cycling through Added/Modified/Deleted/Bookmark by position),
    E (Error event carrying a Status), c (source close), r (recv), s (Stop)."""
    steps, nsend = [], 0
    for ch in symbols:
        if ch == "S":
            steps.append({"op": "send", "type": TYPES[nsend % 4], "payload": "sts", "id": nsend + 1})
            nsend += 1
        elif ch == "E":
            steps.append({"op": "send", "type": "ERROR", "payload": "status", "id": nsend + 1})
            nsend += 1
        else:
            steps.append({"op": {"c": "close", "r": "recv", "s": "stop"}[ch]})
    return steps


def random_steps(rng, n, bad=False):
    steps, nsend, used_nil = [], 0, False
    for _ in range(n):
        x = rng.random()
        if x < 0.42:
            kind = rng.choice(["sts", "sts", "sts", "status", "status", "builtin", "pod", "nil"])
            if kind == "nil" and used_nil:
                kind = "sts"
            used_nil = used_nil or kind == "nil"
            t = "ERROR" if kind == "status" and rng.random() < 0.8 else rng.choice(TYPES)
            steps.append({"op": "send", "type": t, "payload": kind, "id": nsend + 1})
            nsend += 1
        elif x < 0.80:
            steps.append({"op": "recv"})
        elif x < 0.92:
            steps.append({"op": "stop"})
        else:
            steps.append({"op": "close"})
    if bad:
        ends = [j for j, st in enumerate(steps) if st["op"] in ("stop", "close")]
        k = rng.randrange((ends[0] if ends and rng.random() < 0.8 else len(steps)) + 1)
        steps.insert(k, {"op": "send", "type": rng.choice(TYPES[:4]), "payload": "badsts", "id": 90})
    return steps


def case_of(source, steps, mode="seq"):
    return {"source": source, "mode": mode, "timeout_ms": 60, "settle_ms": 3, "final_settle_ms": 25, "steps": steps}


# ------------------------------------------------------------------ monitor (independent of the Coq model)
def expected_event(st):
    """what the consumer must see for a sent event: same type; an Advanced StatefulSet becomes the equivalent built-in
    one (apps/v1), anything else is relayed as it is"""
    k = st["payload"]
    kind = {"sts": "builtin-sts", "status": "status", "builtin": "builtin-sts", "pod": "pod", "nil": "nil"}[k]
    return {"type": st["type"], "kind": kind, "id": -1 if k == "nil" else st["id"]}


def event_ok(ev, st):
    exp = expected_event(st)
    bad = []
    if ev["type"] != exp["type"]:
        bad.append("event type %s relayed as %s" % (exp["type"], ev["type"]))
    if ev["kind"] != exp["kind"] or ev["id"] != exp["id"]:
        bad.append("payload %s/%s relayed as %s/%s" % (st["payload"], exp["id"], ev["kind"], ev["id"]))
    elif st["payload"] == "sts" and (ev["apiVersion"] != "apps/v1" or not ev["same_content"]):
        bad.append("converted object is not the equivalent apps/v1 StatefulSet")
    elif st["payload"] in ("status", "builtin", "pod") and not ev["same_content"]:
        bad.append("non-StatefulSet payload was not relayed unchanged")
    return bad


T = "[timing] "   # clause that rests on the harness's blocked-versus-completed timeouts: re-run in isolation before reporting


def monitor(case, obs):
    """The property on the observations of one schedule. Returns the violated clauses.
    Precondition (stated in ASSUMPTIONS): no unmarshalable payload in the schedule."""
    if "harness_error" in obs:
        return ["harness error: " + obs["harness_error"]]
    bad = []
    steps, outs = case["steps"], obs["steps"]
    seq = case.get("mode", "seq") == "seq"
    fake = case["source"] == "fake"
    if obs["panics"] or obs.get("would_crash"):
        bad.append("relay panicked (process crash under the default ReallyCrash): %s" % obs["panics"][:2])
    if obs.get("leaked"):
        bad.append("after every watch of the process had been stopped or had ended, %d goroutine(s) were left in hijack.go: %s" % (
            obs["leaked"]["goroutines"], " ".join(obs["leaked"]["where"].split())[:300]))
    sends = [st for st in steps if st["op"] == "send"]
    final = {f["step"]: f["status"] for f in obs["send_final"]}
    # events in the order the consumer got them, the parked one (last probe) included
    got = [o["event"] for o in outs if o["op"] == "recv" and o["status"] == "event"]
    if obs["probe"]["status"] == "event":
        got = got + [obs["probe"]["event"]]
    if len(got) > len(sends):
        bad.append("%d events received, %d sent" % (len(got), len(sends)))
    for ev, st in zip(got, sends):
        bad += event_ok(ev, st)
    stopped = closed = False
    delivered = 0
    sent_open = {}

    def accepted(upto):
        # events the source handed or will hand over: sent while the source was open and not aborted later
        n = 0
        for j in range(upto):
            if steps[j]["op"] == "send" and sent_open[j] and (final.get(j) == "completed" if fake else True):
                n += 1
        return n

    for k, (st, o) in enumerate(zip(steps, outs)):
        if st["op"] == "send":
            sent_open[k] = not (stopped or closed)
            if seq:
                if not sent_open[k]:
                    if o["status"] == "blocked":
                        bad.append(T + "step %d: send on an ended source blocks" % k)
                elif fake:
                    avail = accepted(k) - delivered
                    if avail == 0 and o["status"] != "completed":
                        bad.append(T + "step %d: relay idle but the source's send is %s" % (k, o["status"]))
                elif o["status"] != "completed":
                    bad.append(T + "step %d: buffered send is %s" % (k, o["status"]))
        elif st["op"] in ("stop", "close"):
            if o["status"] != "completed":
                bad.append("step %d: %s did not return" % (k, st["op"]))
            if st["op"] == "stop":
                stopped = True
            else:
                closed = True
        elif st["op"] == "recv":
            if o["status"] == "event":
                delivered += 1
            if seq:
                if stopped:
                    # an event that was in flight when Stop was called may still arrive (select takes any ready case);
                    # what must not happen is a receive that blocks
                    if o["status"] == "blocked":
                        bad.append("step %d: receive after Stop blocks, result channel must be closed" % k)
                else:
                    avail = accepted(k) - (delivered - (1 if o["status"] == "event" else 0))
                    if avail > 0 and o["status"] != "event":
                        bad.append(T + "step %d: an undelivered event exists but receive is %s" % (k, o["status"]))
                    if avail == 0 and closed and o["status"] != "closed":
                        bad.append(T + "step %d: source ended and drained but receive is %s" % (k, o["status"]))
                    if avail == 0 and not closed and o["status"] != "blocked":
                        bad.append(T + "step %d: nothing sent but receive is %s" % (k, o["status"]))
            elif stopped and o["status"] == "blocked":
                bad.append("step %d: receive after Stop blocks" % k)
    # shutdown
    if seq:
        n_acc = sum(1 for j, st in enumerate(steps) if st["op"] == "send" and sent_open.get(j)
                    and (final.get(j) == "completed" if fake else True))
        pending = n_acc - delivered
        must_be_down = stopped or (closed and pending == 0)
    else:
        must_be_down = stopped
        pending = None
    if must_be_down:
        if not obs["result_closed"]:
            bad.append("after %s the result channel is not closed (last receive: %s)" %
                       ("Stop" if stopped else "the source ended", obs["probe"]["status"]))
        if obs["relay_goroutine"]:
            bad.append("after %s a goroutine is still running hijackWatch.receive (%s)" %
                       ("Stop" if stopped else "the source ended", obs.get("relay_where", "")))
    elif seq:
        if pending > 0 and obs["probe"]["status"] != "event":
            bad.append(T + "an accepted event is neither received nor held by the relay (last receive: %s)" % obs["probe"]["status"])
        if pending == 0 and obs["probe"]["status"] != "blocked":
            bad.append(T + "open idle watch: last receive is %s" % obs["probe"]["status"])
    return bad


def signature(case, clauses):
    txt = " ".join(clauses)
    return {"kind": "watch", "panic": "panicked" in txt, "leak": "still running" in txt or "not closed" in txt,
            "source": case["source"], "mode": case.get("mode", "seq")}


# ------------------------------------------------------------------ rendering for the model
def ev_term(t, kind, i):
    p = {"sts": "PAsts", "badsts": "PAstsBad", "status": "PStatus", "builtin": "PBuiltin", "builtin-sts": "PBuiltin",
         "as-sts": "PAsts", "pod": "POther", "nil": "POther"}.get(kind, "POther")
    return "(Ev %s (%s %s))" % (COQ_TYPE.get(t, "Added"), p, Zl(-1 if kind == "nil" else i))


def op_term(st):
    if st["op"] == "send":
        return "XSend %s" % ev_term(st["type"], st["payload"], st["id"])
    return {"close": "XClose", "recv": "XRecv", "stop": "XStop"}[st["op"]]


def ost_term(o):
    s = o["status"]
    if s == "event":
        e = o["event"]
        return "OEvent %s" % ev_term(e["type"], e["kind"], e["id"])
    return {"completed": "OCompleted", "blocked": "OBlocked", "panicked": "OAborted", "closed": "OClosed"}.get(s, "OBlocked")


def ops_term(steps):
    return "[" + "; ".join(op_term(st) for st in steps) + "]"


def term(case, obs):
    return ("{| wc_cap := %s; wc_ops := %s; wc_obs := [%s]; wc_send_final := [%s]; wc_received := [%s]; "
            "wc_alive := %s; wc_probe := %s; wc_panics := %s |}") % (
        natl(CAP[case["source"]]), ops_term(case["steps"]),
        "; ".join(ost_term(o) for o in obs["steps"]),
        "; ".join(ost_term(f) for f in obs["send_final"]),
        "; ".join(ev_term(e["type"], e["kind"], e["id"]) for e in obs["received"]),
        Bl(obs["relay_goroutine"]), ost_term(obs["probe"]), Zl(len(obs["panics"])))


def predict(case, variant="Repaired"):
    return core.coq_eval("C20_predict", IMPORTS, ["watch_predict %s %s %s" % (
        variant, natl(CAP[case["source"]]), ops_term(case["steps"]))])


# ------------------------------------------------------------------ running
def run_part(part, timeout=1200):
    """one harness process for a list of cases; when the process dies (a panic in a goroutine nothing recovers, e.g. a
    double close in Stop, takes the whole process down, as it would take down the user's process) the cases are run
    one by one to find the schedule that kills it"""
    try:
        outs = core.run_harness("watch", list(part) + [{"mode": "leakcheck", "source": "fake", "steps": []}], timeout, binary=BIN)
        leak = outs.pop()
        if leak.get("hijack_goroutines"):
            # every watch of this process has been stopped or has ended, yet goroutines are left in hijack.go: attribute them to the
            # first schedule that stops or closes (all of them leak when Watch itself starts a goroutine that nothing ends)
            for c, o in zip(part, outs):
                if "harness_error" not in o and any(st["op"] in ("stop", "close") for st in c["steps"]):
                    o["leaked"] = {"goroutines": leak["hijack_goroutines"], "where": leak.get("where", "")[:500]}
                    break
        return outs
    except core.BuildError as e:
        msg = "the process running the hijacked watch died: " + str(e)[-500:]
        if len(part) == 1:
            return [{"harness_error": msg}]
        res = []
        for c in part:
            res += run_part([c], timeout)
        if not any("harness_error" in o for o in res):
            res[0] = {"harness_error": msg + " (one of a shard of %d schedules; not reproduced when run alone)" % len(part)}
        return res


def run_sharded(cases, shards=16, timeout=1200):
    if len(cases) < 48:
        return run_part(cases, timeout)
    per = (len(cases) + shards - 1) // shards
    parts = [cases[i:i + per] for i in range(0, len(cases), per)]
    with ThreadPoolExecutor(max_workers=shards) as ex:
        res = list(ex.map(lambda part: run_part(part, timeout), parts))
    return [o for part in res for o in part]


def nontrivial(obs):
    st = obs.get("steps", [])
    return (any(o["status"] == "event" for o in st) or any(o["op"] == "send" and o["status"] != "completed" for o in st)
            or any(o["op"] == "recv" and o["status"] == "closed" for o in st) or obs.get("probe", {}).get("status") == "event")


def rerun_isolated(case):
    """one case alone in a fresh harness process, one worker, generous settling: removes scheduling noise of the
    bulk run from the blocked/completed judgments"""
    slow = dict(case, timeout_ms=150, settle_ms=20, final_settle_ms=60)
    env_old = os.environ.get("VERIF_C20_WORKERS")
    os.environ["VERIF_C20_WORKERS"] = "1"
    try:
        return core.run_harness("watch", [slow], binary=BIN)[0]
    finally:
        if env_old is None:
            os.environ.pop("VERIF_C20_WORKERS", None)
        else:
            os.environ["VERIF_C20_WORKERS"] = env_old


def check_family(ctx, name, cases, correspond=True, expect_panic=False, info=None):
    obs = run_sharded(cases)
    retried = []
    mm = []
    ncmp = 0
    if correspond:
        # sequential mode is deterministic up to timing: a case whose only complaints are timing clauses, or which the
        # model does not reproduce, is re-run once in isolation (and compared again); only what persists is reported
        idx = [i for i, o in enumerate(obs) if "harness_error" not in o]
        ncmp = len(idx)
        mm0 = set(idx[j] for j in core.coq_mismatches("C20_" + name, IMPORTS, "watch_case", "watch_check",
                                                      [term(cases[i], obs[i]) for i in idx])) if idx else set()
        for i, (c, o) in enumerate(zip(cases, obs)):
            cl = [] if expect_panic else monitor(c, o)
            if i in mm0 or (cl and all(x.startswith(T) for x in cl)):
                if len(retried) >= 40:      # that many is not scheduling noise: report as observed
                    if i in mm0:
                        mm.append(i)
                    continue
                obs[i] = rerun_isolated(c)
                retried.append(i)
        again = [i for i in retried if "harness_error" not in obs[i]]
        if again:
            mm += [again[j] for j in core.coq_mismatches("C20_re_" + name, IMPORTS, "watch_case", "watch_check",
                                                        [term(cases[i], obs[i]) for i in again])]
        for i in mm[:12]:
            ctx.corr_breaks.append({"family": name, "input": cases[i], "observed": obs[i], "model": predict(cases[i])})
        ctx.traces_validated += ncmp
    nviol = 0
    for case, o in zip(cases, obs):
        ctx.evaluations += 1
        ctx.count("family:" + name)
        ctx.count("source:" + case["source"])
        if "harness_error" in o:
            ctx.violations.append({"family": name, "input": case, "observed": o, "clauses": ["harness error: " + o["harness_error"]],
                                   "signature": {"kind": "harness"}})
            nviol += 1
            continue
        ctx.count("final:" + ("closed" if o["result_closed"] else "open") + ("+relay" if o["relay_goroutine"] else ""))
        if nontrivial(o):
            ctx.nontriv([case["source"], case.get("mode", "seq"), case["steps"]])
        if expect_panic:
            # documented residual (see ASSUMPTIONS): only the correspondence with the model is checked here
            bad = []
            ctx.count("residual:unmarshalable-payload-" + ("panic" if o.get("panics") else "not-handed-to-the-relay"))
        else:
            bad = monitor(case, o)
        if bad:
            nviol += 1
            ctx.violations.append({"family": name, "input": case, "observed": o, "clauses": bad,
                                   "signature": signature(case, bad)})
    pick = [i for i in (len(cases) // 3, len(cases) - 1) if 0 <= i < len(cases) and "harness_error" not in obs[i]]
    for i in pick:
        c, o = cases[i], obs[i]
        ctx.sample({"family": name, "input": {"source": c["source"], "mode": c["mode"], "steps": c["steps"]},
                    "observed": {"steps": [x["status"] for x in o["steps"]],
                                 "received": [[e["type"], e["kind"], e["id"]] for e in o["received"]],
                                 "result_closed": o["result_closed"], "relay_goroutine": o["relay_goroutine"],
                                 "panics": o["panics"]}})
    fam = {"cases": len(cases), "monitor_violations": nviol, "model_mismatches": len(mm), "compared_with_model": ncmp,
           "rerun_in_isolation_for_timing": len(retried)}
    fam.update(info or {})
    ctx.families[name] = fam


def exhaustive_cases(maxlen):
    cases = []
    for n in range(0, maxlen + 1):
        for sym in itertools.product("SEcrs", repeat=n):
            for src in ("fake", "racefree"):
                cases.append(case_of(src, mk_steps(sym)))
    return cases


def run(ctx, depth):
    quick = depth == "quick"
    rng = ctx.rng
    L = 4 if quick else 6
    check_family(ctx, "exhaustive", exhaustive_cases(L), info={
        "exhaustive": True,
        "domain": "all schedules of length 0..%d over {send StatefulSet, send Error/Status, source close, recv, Stop} x "
                  "{watch.NewFake, watch.NewRaceFreeFake}" % L,
        "pruning": "the four non-error event types are not enumerated independently (the relay copies event.Type and "
                   "never branches on it): the k-th send uses type k mod 4 so that all four occur and order is visible; "
                   "the random family draws types and payload kinds independently"})
    nr = 160 if quick else 3000
    cases = [case_of(rng.choice(["fake", "racefree"]), random_steps(rng, rng.randint(7, 14))) for _ in range(nr)]
    check_family(ctx, "random_long", cases, info={"domain": "random schedules of length 7..14, all five event types, "
                                                            "payload kinds StatefulSet/Status/built-in StatefulSet/Pod/nil"})
    nb = 24 if quick else 300
    cases = [case_of(rng.choice(["fake", "racefree"]), random_steps(rng, rng.randint(2, 8), bad=True)) for _ in range(nb)]
    check_family(ctx, "unmarshalable", cases, expect_panic=True, info={
        "domain": "schedules containing one Advanced StatefulSet that json.Marshal rejects (IntOrString.Type = 7): "
                  "documented residual crash of the current code, checked against the model only"})
    nrace = 200 if quick else 4000
    cases = [case_of(rng.choice(["fake", "racefree"]), random_steps(rng, rng.randint(3, 10)), mode="race") for _ in range(nrace)]
    check_family(ctx, "race", cases, correspond=False, info={
        "domain": "source steps and consumer steps run in two concurrent goroutines without settling; monitor only "
                  "(order/type/payload of what was received, no panic, Stop => closed and no relay goroutine)"})
    run_race_detector(ctx, depth)


def run_race_detector(ctx, depth):
    """the same harness built with Go's race detector (go build -race): schedules in which the source closes while the
    consumer stops, and in which several owners stop the watch at the same moment.  A report whose two conflicting
    accesses are both in hijack.go is an unsynchronised access in the hijacked watch: with the right timing it is a
    double close of the done channel or a send on the closed result channel."""
    rng = ctx.rng
    quick = depth == "quick"
    try:
        core.build_harness(BIN, race=True)
    except core.BuildError as e:
        ctx.notes.append("race detector not available: " + str(e)[:200])
        ctx.families["race-detector"] = {"cases": 0, "note": "go build -race failed"}
        return
    n = 60 if quick else 1200
    cases = []
    for _ in range(n):
        steps = random_steps(rng, rng.randint(3, 9))
        for st in steps:
            if st["op"] == "stop" and rng.random() < 0.7:
                st["par"] = rng.choice([2, 2, 3, 4])
        if not any(st["op"] == "stop" for st in steps):
            steps.insert(rng.randrange(len(steps) + 1), {"op": "stop", "par": rng.choice([2, 3])})
        if rng.random() < 0.5 and not any(st["op"] == "close" for st in steps):
            steps.insert(rng.randrange(len(steps) + 1), {"op": "close"})
        cases.append(case_of("racefree", steps, mode=rng.choice(["race", "race", "seq"])))

    def one(part):
        data = "\n".join(json.dumps(c, separators=(",", ":")) for c in part) + "\n"
        env = dict(os.environ, GORACE="halt_on_error=0 history_size=2", VERIF_C20_WORKERS="1")
        p = subprocess.run([os.path.join(core.BUILD, BIN + "_race"), "watch"], input=data, capture_output=True, text=True, timeout=900, env=env)
        return p.returncode, p.stdout, p.stderr

    def hijack_races(stderr):
        found = []
        for block in stderr.split("=================="):
            if "WARNING: DATA RACE" not in block:
                continue
            # the top frame of each of the two conflicting accesses
            tops = re.findall(r"(?:Read|Write|Previous read|Previous write) at [^\n]*\n\s+([^\n]+)\n\s+([^\n]+)", block)
            if len(tops) >= 2 and all("helper/hijack.go" in t[1] for t in tops[:2]):
                found.append(" / ".join("%s (%s)" % (t[0].strip(), t[1].strip().split("/")[-1].split(" ")[0]) for t in tops[:2]))
        return found

    per = 6
    parts = [cases[i:i + per] for i in range(0, len(cases), per)]
    with ThreadPoolExecutor(max_workers=8) as ex:
        res = list(ex.map(one, parts))
    nrace = 0
    for part, (rcode, so, se) in zip(parts, res):
        ctx.evaluations += len(part)
        ctx.count("family:race-detector", len(part))
        races = hijack_races(se)
        outs = [json.loads(l) for l in so.splitlines() if l.strip()] if rcode == 0 else []
        for c, o in zip(part, outs):
            bad = monitor(c, o) if "harness_error" not in o else []
            bad = [b for b in bad if not b.startswith(T)]
            if bad:
                ctx.violations.append({"family": "race-detector", "input": c, "observed": o, "clauses": bad, "signature": signature(c, bad)})
        if rcode != 0 and not races:
            ctx.violations.append({"family": "race-detector", "input": part, "observed": {"exit": rcode, "stderr": se[-1500:]},
                                   "clauses": ["the harness process died: " + se[-300:]], "signature": {"kind": "crash"}})
        if races:
            nrace += 1
            # which schedule: run the cases of this shard one by one
            culprit = None
            for c in part:
                _r, _so, se1 = one([c])
                if hijack_races(se1):
                    culprit = c
                    break
            ctx.violations.append({"family": "race-detector", "input": culprit or part, "observed": {"race_reports": races[:3]},
                                   "clauses": ["unsynchronised accesses in the hijacked watch (Go race detector): " + races[0]],
                                   "signature": {"kind": "data-race", "where": races[0][:80]}})
    ctx.families["race-detector"] = {"cases": len(cases), "shards_with_a_race_in_hijack.go": nrace,
                                     "tie": "monitor + Go race detector on the real hijackWatch (not compared with the model)"}


def search(ctx):
    run(ctx, "thorough")


def replay(data):
    v = data.get("violation") or (data.get("correspondence_breaks") or [{}])[0]
    case = v.get("input")
    if not case:
        print(json.dumps(data, indent=1))
        return 0
    core.build_harness(BIN)
    o = core.run_harness("watch", [case], binary=BIN)[0]
    print("input         :", json.dumps(case))
    print("implementation:", json.dumps(o))
    if case.get("mode", "seq") == "seq":
        print("model         :", predict(case))
        print("model (relay before 7226928):", predict(case, "PreRepair"))
    bad = monitor(case, o)
    print("monitor       :", bad)
    return 1 if bad else 0
