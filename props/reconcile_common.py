"""Shared by every property decided on the per-key reconcile: scenario builders, the generator of
snapshots / fault schedules, rendering of scenarios and observations as Gallina terms, the
correspondence runner, and the implementation-side monitors (DESIGN 4.3, 6)."""
import copy, json, re
from lib import core
from lib.core import Zl, Bl, Strl, Optl, Listl

ME = {"kind": "StatefulSet", "name": "web", "uid": "u1", "controller": True}
STALE = {"kind": "StatefulSet", "name": "web", "uid": "u0", "controller": True}
OTHERSET = {"kind": "StatefulSet", "name": "db", "uid": "u9", "controller": True}
DS = {"kind": "DaemonSet", "name": "ds", "uid": "ds1", "controller": True}
HOME = {"name": "home", "claim": None}
MAXI32 = 2147483647


def mkstatus(**kw):
    st = dict(replicas=0, ready=0, current=0, updated=0, currentRevision="", updateRevision="", observedGeneration=0,
              collisionCount=None)
    st.update(kw)
    return st


def mkset(**kw):
    s = dict(name="web", uid="u1", gen=1, deleting=False, ann=None, replicas=3, selector="ok", policy="OrderedReady",
             strategy="RollingUpdate", rolling={"partition": 0}, tmpl=1, claims=[], service="svc", rhl=10,
             status=mkstatus(), rv=5)
    s.update(kw)
    return s


def mkpod(i, rev, phase="Running", ready=True, term=False, owner=ME, match=True, name=None, claims=(), tmpl=1,
          namelabel="ok", vols="ok", setname="web"):
    n = name or "%s-%d" % (setname, i)
    if vols == "ok":
        v = [{"name": c, "claim": "%s-%s-%d" % (c, setname, i)} for c in claims] + [HOME]
    elif vols == "missing":
        v = [HOME]
    elif vols == "wrong":
        v = [{"name": c, "claim": "%s-%s-%d" % (c, setname, i + 7)} for c in claims] + [HOME]
    else:
        v = vols
    nl = n if namelabel == "ok" else (None if namelabel == "missing" else namelabel)
    return dict(name=n, match=match, owner=owner, phase=phase, ready=ready, term=term, rev=rev, namelabel=nl, vols=v, tmpl=tmpl)


def mkrev(name, revision, tmpl, owner=ME, match=True, marker=None, hashlabel=None, created=0, labels_nil=False):
    return dict(name=name, revision=revision, tmpl=tmpl, owner=owner, match=match, marker=marker, hashlabel=hashlabel,
                created=created, labels_nil=labels_nil)


def mkworld(set_, pods=(), revs=(), claims=()):
    return dict(set=set_, pods=list(pods), revs=list(revs), claims=list(claims), others=[])


def scenario(api, cache=None, ops=None, tmpls=(1, 2, 3), dump=False):
    return dict(api=api, cache=cache if cache is not None else copy.deepcopy(api), ops=ops or [{"op": "reconcile"}],
                dump=dump, tmpls=list(tmpls))


# ------------------------------------------------------------------------------------------------
# known hashes of the harness templates (img:k) for set "web"; refreshed from the harness output
# ------------------------------------------------------------------------------------------------
def hashes_of(out):
    return {(k, c): h for k, c, h in out["hashes"]}


# ------------------------------------------------------------------------------------------------
# rendering as Gallina terms
# ------------------------------------------------------------------------------------------------
def r_owner(o):
    if o is None or not o.get("controller", True):
        return "None"
    return "(Some {| o_kind := %s; o_name := %s; o_uid := %s |})" % (Strl(o["kind"]), Strl(o["name"]), Strl(o["uid"]))


def r_status(st):
    return ("{| st_replicas := %s; st_ready := %s; st_current := %s; st_updated := %s; st_currev := %s; st_updrev := %s; "
            "st_obsgen := %s; st_coll := %s |}") % (
        Zl(st["replicas"]), Zl(st["ready"]), Zl(st["current"]), Zl(st["updated"]), Strl(st["currentRevision"]),
        Strl(st["updateRevision"]), Zl(st["observedGeneration"]), Optl(st["collisionCount"], Zl))


def r_set(s):
    if s is None:
        return "None"
    ann = s.get("ann") or {}
    rolling = "None" if s["rolling"] is None else "(Some %s)" % Optl(s["rolling"].get("partition"), Zl)
    sel = {"ok": "SelOk", "invalid": "SelInvalid"}[s["selector"]]
    return ("(Some {| s_name := %s; s_uid := %s; s_gen := %s; s_deleting := %s; s_slots := %s; s_pause := %s; s_replicas := %s; "
            "s_selector := %s; s_policy := %s; s_strategy := %s; s_rolling := %s; s_tmpl := %s; s_claims := %s; s_service := %s; "
            "s_rhl := %s; s_status := %s; s_rv := %s |})") % (
        Strl(s["name"]), Strl(s["uid"]), Zl(s["gen"]), Bl(s["deleting"]), Optl(ann.get("delete-slots"), Strl),
        Optl(ann.get("paused-reconcile"), Strl), Optl(s["replicas"], Zl), sel, Strl(s["policy"]), Strl(s["strategy"]), rolling,
        Zl(s["tmpl"]), Listl(s["claims"], Strl), Strl(s["service"]), Optl(s["rhl"], Zl), r_status(s["status"]), Zl(int(s["rv"])))


def r_vol(v):
    return "{| v_name := %s; v_claim := %s |}" % (Strl(v["name"]), Optl(v["claim"], Strl))


def r_pod(p):
    return ("{| p_name := %s; p_match := %s; p_owner := %s; p_phase := %s; p_ready := %s; p_term := %s; p_rev := %s; "
            "p_namelabel := %s; p_vols := %s; p_tmpl := %s |}") % (
        Strl(p["name"]), Bl(p["match"]), r_owner(p["owner"]), Strl(p["phase"]), Bl(p["ready"]), Bl(p["term"]), Strl(p["rev"]),
        Optl(p["namelabel"], Strl), Listl(p.get("vols") or [], r_vol), Zl(p["tmpl"]))


def r_rev(r):
    return ("{| r_name := %s; r_revision := %s; r_tmpl := %s; r_owner := %s; r_match := %s; r_marker := %s; r_hash := %s; "
            "r_created := %s; r_labels_nil := %s |}") % (
        Strl(r["name"]), Zl(r["revision"]), Zl(r["tmpl"]), r_owner(r["owner"]), Bl(r["match"] and not r["labels_nil"]),
        Optl(None if r["labels_nil"] else r["marker"], Strl), Optl(None if r["labels_nil"] else r["hashlabel"], Strl),
        Zl(r.get("created", 0)), Bl(r["labels_nil"]))


def r_world(w):
    return "{| w_set := %s; w_pods := %s; w_revs := %s; w_claims := %s |}" % (
        r_set(w.get("set")), Listl(sorted(w.get("pods") or [], key=lambda p: p["name"]), r_pod),
        Listl(w.get("revs") or [], r_rev), Listl(w.get("claims") or [], Strl))


FK = {"500": "F500", "conflict": "FConflict", "notfound": "FNotFound", "exists": "FExists", "invalid": "FInvalid",
      "timeout": "FTimeout", "timeout_applied": "FTimeoutApplied"}
EK = {"500": "E500", "conflict": "EConflict", "notfound": "ENotFound", "exists": "EExists", "invalid": "EInvalid",
      "timeout": "ETimeout", "other": "EOther"}


def r_fault(f):
    addr = "FAt %d%%nat" % f["at"] if f.get("at") is not None else "FOn %s" % Strl(f["on"])
    return "(%s, %s)" % (addr, FK[f["kind"]])


def r_call(c, app="web"):
    v, res = c["verb"], c["res"]
    if v == "list":
        t = "CListRevs %s" % Bl(c["sel"] == "marker")
    elif v == "get" and res == "statefulsets":
        t = "CGetSet"
    elif v == "get" and res == "controllerrevisions":
        t = "CGetRev %s" % Strl(c["name"])
    elif v == "patch" and res == "controllerrevisions":
        t = "CPatchRev %s" % Strl(c["name"])
    elif v == "patch" and res == "pods":
        t = "CPatchPod %s %s" % (Strl(c["name"]), Bl(c["kind"] == "adopt"))
    elif v == "create" and res == "controllerrevisions":
        t = "CCreateRev %s %s %s" % (Strl(c["name"]), Zl(c["revision"]), Zl(c["tmpl"]))
    elif v == "update" and res == "controllerrevisions":
        t = "CUpdateRev %s %s %s" % (Strl(c["name"]), Zl(c["revision"]), Bl(("app=%s" % app) in (c.get("labels") or [])))
    elif v == "delete" and res == "pods":
        t = "CDeletePod %s" % Strl(c["name"])
    elif v == "create" and res == "persistentvolumeclaims":
        t = "CCreateClaim %s" % Strl(c["name"])
    elif v == "create" and res == "pods":
        t = "CCreatePod %s %s %s" % (Strl(c["name"]), Strl(c.get("rev", "")), Zl(c["tmpl"]))
    elif v == "update" and res == "pods":
        t = "CUpdatePod %s" % Strl(c["name"])
    elif v == "update" and res == "statefulsets":
        t = "CUpdateStatus %s %s" % (r_status(c["status"]), Zl(int(c["rv"] or 0)))
    elif v == "delete" and res == "controllerrevisions":
        t = "CDeleteRev %s" % Strl(c["name"])
    else:
        return None
    e = c.get("err") or None
    return "(%s, %s)" % (t, "Some %s" % EK.get(e, "EOther") if e else "None")


def r_hashes(h):
    return Listl(sorted(h.items()), lambda kv: "((%s, %s), %s)" % (Zl(kv[0][0]), Zl(kv[0][1]), Strl(kv[1])))


OUTC = {"ok": "OOk", "err": "OErr", "panic": "OPanic"}


def final_world(final, base_set):
    """harness dump -> world in scenario format (for rendering)"""
    w = dict(pods=final["pods"] or [], revs=final["revs"] or [], claims=final["claims"] or [])
    if final.get("set") is None:
        w["set"] = None
    else:
        s = copy.deepcopy(base_set)
        s["status"] = final["set"]["status"]
        s["rv"] = int(final["set"]["rv"])
        s["deleting"] = final["set"]["deleting"]
        w["set"] = s
    return w


def render_case(sc, obs, hashes, final=None, api_set=None):
    """one reconcile: scenario sc (api, cache, faults in ops[0]) and its observation -> recon_case term, or None when
    the observation contains a call the model has no constructor for (reported as a correspondence break)."""
    faults = (sc["ops"][0].get("faults") or []) if sc.get("ops") else []
    _st = sc["cache"].get("set") or sc["api"].get("set") or {}
    app = _st.get("app") or _st.get("name", "web")
    calls = [r_call(c, app) for c in obs["calls"]]
    if any(c is None for c in calls):
        return None
    fin = "None"
    if final is not None:
        fin = "(Some %s)" % r_world(final_world(final, api_set or sc["api"].get("set") or sc["cache"].get("set")))
    return ("{| rc_hashes := %s; rc_api := %s; rc_cache := %s; rc_faults := %s; rc_out := %s; rc_log := %s; rc_final := %s |}" % (
        r_hashes(hashes), r_world(sc["api"]), r_world(sc["cache"]), Listl(faults, r_fault), OUTC[obs["result"]],
        "[" + "; ".join(calls) + "]", fin))


IMPORTS = ["Base", "Slots", "Names", "World", "Reconcile", "ReconcileCheck"]


def correspond(ctx, family, scs, outs, with_final=True):
    """compare single-reconcile scenarios against the model inside coqc; records breaks in ctx"""
    terms, idx = [], []
    for i, (sc, out) in enumerate(zip(scs, outs)):
        obs = out["steps"][0]
        t = render_case(sc, obs, hashes_of(out), out["final"] if with_final else None)
        if t is None:
            ctx.corr_breaks.append({"family": family, "input": sc, "observed": obs,
                                    "model": "the implementation issued a call the model cannot produce"})
            continue
        terms.append(t)
        idx.append(i)
    mm = core.coq_mismatches(family.replace("/", "_"), IMPORTS, "recon_case", "recon_check", terms, shard_size=25)
    for j in mm[:12]:
        i = idx[j]
        mv = core.coq_eval("mm_" + family.replace("/", "_"), IMPORTS, ["recon_model (%s)" % terms[j]])
        ctx.corr_breaks.append({"family": family, "input": scs[i], "observed": outs[i]["steps"][0],
                                "observed_final": outs[i]["final"], "model": mv})
    ctx.traces_validated += len(terms)
    return len(terms), len(mm)


def fault_free_shape(call):
    v, res = call["verb"], call["res"]
    if v == "list":
        return "list controllerrevisions " + call["sel"]
    if v == "get" and res == "statefulsets":
        return "get statefulsets"
    if v == "update" and res == "statefulsets":
        return "update statefulsets/status"
    return "%s %s %s" % (v, res, call["name"])


# ------------------------------------------------------------------------------------------------
# generic engine for the properties decided on one reconcile of a snapshot
# ------------------------------------------------------------------------------------------------
def correspond_proj(ctx, family, scs, outs, check_expr, model_expr):
    """like correspond(), with a property-specific projection (check_expr : recon_case -> bool)"""
    terms, idx = [], []
    for i, (sc, out) in enumerate(zip(scs, outs)):
        obs = out["steps"][0]
        t = render_case(sc, obs, hashes_of(out), None)
        if t is None:
            ctx.corr_breaks.append({"family": family, "input": sc, "observed": obs,
                                    "model": "the implementation issued a call the model cannot produce"})
            continue
        terms.append(t)
        idx.append(i)
    mm = core.coq_mismatches(family.replace("/", "_"), IMPORTS, "recon_case", check_expr, terms, shard_size=25)
    for j in mm[:10]:
        i = idx[j]
        mv = core.coq_eval("mm_" + family.replace("/", "_"), IMPORTS, ["%s (%s)" % (model_expr, terms[j])])
        ctx.corr_breaks.append({"family": family, "input": scs[i], "observed": outs[i]["steps"][0], "model": mv})
    ctx.traces_validated += len(terms)
    return len(terms), len(mm)


def run_reconcile_property(ctx, depth, pid, pi, monitor, cmp_outcome=False, tweak=None, sizes=(350, 6000),
                           fault_bases=(40, 400), conflict_frac=0.15, keep=None):
    """snapshots + single-fault variants through the real controller; monitor on every observation;
    projected correspondence with the model.  monitor(sn, faulty) -> list of violated clauses."""
    from props import gen, monitors
    rng = ctx.rng
    quick = depth == "quick"
    n = sizes[0] if quick else sizes[1]
    base = []
    while len(base) < n:
        sc = gen.gen_rollout(rng) if len(base) % 2 == 1 else gen.gen_snapshot(rng)
        if tweak:
            sc = tweak(rng, sc)
        if sc is None or (keep and not keep(sc)):
            continue
        base.append(sc)
    outs = core.run_harness_parallel("reconcile", base, shards=16)
    nb = fault_bases[0] if quick else fault_bases[1]
    fscs = []
    order = list(range(len(base)))
    rng.shuffle(order)
    for i in order[:nb]:
        kinds = gen.KINDS if rng.random() < conflict_frac else [k for k in gen.KINDS if k != "conflict"]
        fscs += gen.single_faults(base[i], outs[i]["steps"][0], kinds=kinds)
    fouts = core.run_harness_parallel("reconcile", fscs, shards=16)
    allsc, allout = base + fscs, outs + fouts
    for k, (sc, out) in enumerate(zip(allsc, allout)):
        obs = out["steps"][0]
        faulty = k >= len(base)
        ctx.evaluations += 1
        ctx.count("result:" + obs["result"])
        ctx.count("family:" + ("fault" if faulty else "snapshot"))
        if faulty:
            ctx.count("fault:" + sc["ops"][0]["faults"][0]["kind"])
        sn = monitors.Snap(sc, obs)
        sn.final = out.get("final")
        if sn.ok:
            ctx.count("policy:" + sn.set["policy"])
            ctx.count("strategy:" + sn.set["strategy"])
        bad = monitor(sn, faulty) if sn.ok else []
        if obs["result"] == "panic":
            bad = bad + ["the controller panicked: " + obs.get("msg", "")] if pid == "C15" else bad
        if bad:
            ctx.violations.append({"family": pid + "/reconcile", "input": sc, "observed": obs, "clauses": bad,
                                   "signature": {"kind": pid, "clause": bad[0][:40]}})
        writes = [c for c in obs["calls"] if c["verb"] not in ("list", "get")]
        if sn.ok and not faulty:
            for i, c in enumerate(obs["calls"]):
                if c["res"] == "pods" and c["verb"] == "delete":
                    ctx.count("branch:delete-" + str(monitors.classify_delete(sn, i, c)))
                elif c["res"] == "pods" and c["verb"] in ("create", "update", "patch"):
                    ctx.count("branch:" + c["verb"] + "-pod")
                elif c["res"] == "controllerrevisions" and c["verb"] != "list":
                    ctx.count("branch:" + c["verb"] + "-revision")
                elif c["res"] == "statefulsets" and c["verb"] == "update":
                    ctx.count("branch:status-write")
        if writes:
            ctx.nontriv([sc["api"], sc["cache"], sc["ops"]])
    ctx.sample({"family": "snapshot", "cache_set": base[0]["cache"]["set"], "cache_pods": [p["name"] + ":" + p["phase"] for p in base[0]["cache"]["pods"]],
                "calls": [fault_free_shape(c) for c in outs[0]["steps"][0]["calls"]], "result": outs[0]["steps"][0]["result"]})
    if fscs:
        ctx.sample({"family": "fault", "faults": fscs[0]["ops"][0]["faults"], "calls": [fault_free_shape(c) + (":" + c["err"] if c.get("err") else "") for c in fouts[0]["steps"][0]["calls"]],
                    "result": fouts[0]["steps"][0]["result"]})
    check_expr = "recon_check_proj %s %s" % (pi, "true" if cmp_outcome else "false")
    nt, nm = correspond_proj(ctx, pid + "/reconcile", allsc, allout, check_expr, "recon_model_proj %s" % pi)
    ctx.families[pid + "/reconcile"] = {"snapshots": len(base), "single_fault_variants": len(fscs), "compared_in_coq": nt,
                                        "model_mismatches": nm, "projection": pi}


def replay_case(case, monitor=None, pi="pi_all"):
    from props import monitors
    out = core.run_harness("reconcile", [case])[0]
    obs = out["steps"][0]
    t = render_case(case, obs, hashes_of(out), None)
    mv = core.coq_eval("replay", IMPORTS, ["recon_model_proj %s (%s)" % (pi, t)]) if t else ["(no model term)"]
    print("cache set     :", json.dumps(case["cache"]["set"]))
    for p in case["cache"]["pods"]:
        print("  cache pod   :", json.dumps(p))
    for r in case["api"]["revs"]:
        print("  api rev     :", json.dumps(r))
    print("ops           :", json.dumps(case["ops"]))
    print("implementation:", obs["result"], obs.get("msg", ""))
    for c in obs["calls"]:
        print("    ", fault_free_shape(c), c.get("err", ""), c.get("status") or "", c.get("rev", ""))
    print("model         :", mv)
    if monitor:
        bad = monitor(monitors.Snap(case, obs), bool(case["ops"][0].get("faults")))
        print("monitor       :", bad)
        return 1 if bad else 0
    return 0
