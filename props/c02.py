"""C02 — Reconciliation converges to exactly the desired pods and then goes quiet."""
import copy, json
from lib import core
from lib.core import Zl, Strl, Optl, Listl
from props import reconcile_common as rc, monitors, gen
from props.c01 import first_free, py_slots

TITLE = "Reconciliation converges to exactly the desired pods and then goes quiet"
TECHNIQUE = ("Coq proof over the reconcile + environment model: a converged snapshot is a fixed point (no pod/claim write, all oracles); a settled snapshot whose "
             "plan is empty is converged (no stuck state); a fair round strictly decreases the measure mu while the plan is non-empty, so the pod phase converges "
             "within mu(pods) rounds from every well-formed snapshot, for any environment (TerminationProofs.v, TerminationEnv.v); a fair round of the FULL model "
             "(revision phase, claiming, executor, status, truncation, kubelet) of a regular world has the members of the abstract round, so the full model's "
             "rounds converge while worlds stay regular (RoundLift.v, RoundChain.v); in a quietb world a reconcile issues no write at all (QuietProofs.v). Tie: "
             "histories of the real controller (random interleavings of reconcile, kubelet, cache lag, faults, edits that stop; then a fair suffix) compared with "
             "the environment model per op inside coqc; regularity + round equality and quietb evaluated inside coqc on observed worlds; convergence monitor")
ASSUMPTIONS = [
    "PARTIAL: C02_full_model_converges_and_goes_quiet / C02_full_model_any_history_goes_quiet (convergence within mu rounds, then quiet) assume a REGULAR initial "
    "world (in sync, nothing to adopt, pods claimed and well-formed, update revision in place; for histories longer than revisionHistoryLimit also: the update "
    "revision has no numeric hash label, limit >= 0); the phase before regularity (chaotic prefix) is not proved: decided by the monitor on every history, with "
    "round_check / regularb evaluated inside coqc (family C02/round) on worlds at the round boundaries of histories and on synthetic settled worlds; "
    "that a fair history ends in a world satisfying quietb (hypothesis of C02_quiet_world_no_write) is evaluated inside coqc on every final world (family C02/quiet) "
    "and decided on the implementation by the monitor (last two reconciles write nothing), not proved",
    "API-server, kubelet and informer-cache semantics are modelled (Env.v, World.v), validated per op against the fake clientsets + harness reactors",
    "premises of the property (WF): valid defaulted spec (RollingUpdate carries a partition), canonical member names, no unclaimable pod holding a desired name, "
    "not paused / deleting, no terminal-phase pod outside the desired set",
]
IMPORTS = rc.IMPORTS + ["Env"]
ROUND_IMPORTS = IMPORTS + ["TerminationProofs", "RoundCheck", "RegularCheck"]
QUIET_IMPORTS = IMPORTS + ["QuietProofs"]
NAMES = 18
ROUND_OPS = 2 + NAMES + NAMES      # refresh, reconcile, gone x names, settle x names
KEV = {"run": "KRun", "ready": "KReady", "unready": "KUnready", "fail": "KFail", "succeed": "KSucceed", "gone": "KGone", "settle": "KSettle"}


# ------------------------------------------------------------------ history generation
def start_world(rng):
    """a WF world: valid spec, canonical names, everything claimable"""
    sc = gen.gen_rollout(rng)
    api = sc["api"]
    s = api["set"]
    s["deleting"] = False
    ann = dict(s.get("ann") or {})
    ann.pop("paused-reconcile", None)
    s["ann"] = ann or None
    if s["rolling"] is None or s["rolling"].get("partition") is None:
        s["rolling"] = {"partition": 0}
    if rng.random() < 0.25:
        # extra / orphaned pods and orphan revisions
        for p in api["pods"]:
            if rng.random() < 0.3:
                p["owner"] = None
                p["term"] = False
        for r in api["revs"]:
            if rng.random() < 0.3:
                r["owner"] = None
    if rng.random() < 0.15:
        # a set that was migrated from a built-in StatefulSet: its older revisions carry the upgrade marker and none of the
        # selector labels (helper.Upgrade), adopted or still orphaned; the marker is never removed
        for r in api["revs"]:
            r["marker"], r["match"] = s["name"], False
            if rng.random() < 0.5:
                r["owner"] = None
    if rng.random() < 0.1 and len(api["revs"]) >= 2:
        # tied revision numbers (adopted or restored histories, two controller instances at fail-over): the order among them is by
        # creation time, then name — which one is newest must not decide which one records the template
        a, b = api["revs"][-2], api["revs"][-1]
        a["revision"] = b["revision"]
        if rng.random() < 0.5:
            a["created"], b["created"] = 5, 0
    if s["policy"] == "OrderedReady":
        desired = set(first_free(s["replicas"], py_slots(ann.get("delete-slots")) or set()))
        api["pods"] = [p for p in api["pods"] if not (p["phase"] in ("Failed", "Succeeded") and monitors.parse_name(p["name"])[1] not in desired)]
    s["rhl"] = rng.choice([1, 2, 10])
    cache = copy.deepcopy(api)
    cache["revs"] = []
    return api, cache


def pods_now(model_pods):
    return list(model_pods)


def gen_ops(rng, api, n_chaos):
    """ops of the chaotic prefix; pod names are drawn from the names that can exist"""
    s = api["set"]
    names = ["%s-%d" % (s["name"], i) for i in range(0, NAMES)]     # every ordinal a history can reach (replicas <= 10, slots <= 11, extras <= replicas + 2)
    ops = []
    edits_left = rng.choice([0, 1, 2])
    for _ in range(n_chaos):
        r = rng.random()
        if r < 0.33:
            if rng.random() < 0.12:
                kind = rng.choice(["500", "notfound", "timeout", "timeout_applied", "exists"])
                # faults are addressed by the SHAPE of the call, never by its index: the order of the adoption patches and of the
                # claim creations follows Go map iteration (informer store, claim templates), so an index inside such a window
                # would name a different call from run to run
                pn = "%s-%d" % (s["name"], rng.randint(0, 6))
                shape = rng.choice(["list controllerrevisions selector", "list controllerrevisions marker", "get statefulsets",
                                    "update statefulsets/status", "update statefulsets/status", "create pods " + pn, "create pods " + pn,
                                    "delete pods " + pn, "delete pods " + pn, "patch pods " + pn, "update pods " + pn,
                                    "create persistentvolumeclaims data-" + pn])
                ops.append({"op": "reconcile", "faults": [{"on": shape, "kind": kind}]})
            else:
                ops.append({"op": "reconcile"})
        elif r < 0.55:
            ops.append({"op": "refresh", "what": "all"})
        elif r < 0.62:
            ops.append({"op": "refresh", "what": "pods", "only": rng.sample(names, rng.randint(1, 3))})
        elif r < 0.66:
            ops.append({"op": "refresh", "what": "set"})
        elif r < 0.93:
            ev = rng.choice(["ready", "ready", "ready", "run", "unready", "gone", "gone", "fail", "succeed"])
            ops.append({"op": "kubelet", "pod": rng.choice(names), "ev": ev})
        elif edits_left > 0:
            edits_left -= 1
            e = rng.random()
            if e < 0.3:
                ops.append({"op": "edit", "field": "replicas", "int": rng.randint(0, 5)})
            elif e < 0.6:
                sl = sorted(set(rng.randint(0, 5) for _ in range(rng.randint(0, 2))))
                ops.append({"op": "edit", "field": "slots", "str": json.dumps(sl) if sl else None})
            elif e < 0.85:
                ops.append({"op": "edit", "field": "tmpl", "int": rng.choice([1, 2, 3])})
            else:
                ops.append({"op": "edit", "field": "partition", "int": rng.choice([0, 1, 2])})
        else:
            ops.append({"op": "refresh", "what": "all"})
    return ops, names


def fair_suffix(names, rounds):
    """the fairness premise, as a schedule: caches catch up, reconcile, terminating pods finish, others become ready"""
    ops = []
    for _ in range(rounds):
        ops.append({"op": "refresh", "what": "all"})
        ops.append({"op": "reconcile"})
        for n in names:
            ops.append({"op": "kubelet", "pod": n, "ev": "gone"})
        for n in names:
            ops.append({"op": "kubelet", "pod": n, "ev": "ready_if_live"})
    ops += [{"op": "refresh", "what": "all"}, {"op": "reconcile"}, {"op": "refresh", "what": "all"}, {"op": "reconcile"}]
    return ops


# ------------------------------------------------------------------ rendering
def r_op(op):
    o = op["op"]
    if o in ("reconcile", "worker"):
        return "HReconcile %s" % Listl(op.get("faults") or [], rc.r_fault)
    if o == "refresh":
        w = op.get("what", "all")
        if w == "all":
            return "HRefresh"
        if w == "pods":
            return "HRefreshPods %s" % Listl(op.get("only") or [], Strl)
        return "HRefreshSet"
    if o == "kubelet":
        return "HKubelet %s %s" % (Strl(op["pod"]), KEV[op["ev"]])
    if o == "edit":
        f = op["field"]
        if f == "replicas":
            return "HEdit (EReplicas %s)" % Zl(op["int"])
        if f == "slots":
            return "HEdit (ESlots %s)" % Optl(op.get("str"), Strl)
        if f == "pause":
            return "HEdit (EPause %s)" % Optl(op.get("str"), Strl)
        if f == "tmpl":
            return "HEdit (ETmpl %s)" % Zl(op["int"])
        if f == "partition":
            return "HEdit (EPartition %s)" % Optl(op.get("int"), Zl)
        if f == "delete":
            return "HEdit EDelete"
    raise ValueError(op)


def dump_world(d, base_set):
    w = dict(pods=d["pods"] or [], revs=d["revs"] or [], claims=d["claims"] or [])
    if d.get("set") is None:
        w["set"] = None
    else:
        s = copy.deepcopy(base_set)
        ds = d["set"]
        s.update(status=ds["status"], rv=int(ds["rv"]), deleting=ds["deleting"], replicas=ds["replicas"], ann=ds["ann"], gen=ds["gen"],
                 tmpl=ds["tmpl"], policy=ds["policy"], strategy=ds["strategy"])
        w["set"] = s
    return w


# ------------------------------------------------------------------ monitor
def converged(d, sset_):
    """Converged: pods exactly the desired ordinals, all Running+Ready, not terminating, at the revision their ordinal calls for;
    status.replicas = readyReplicas = spec.replicas"""
    bad = []
    s = d["set"]
    if s is None:
        return ["the set disappeared"]
    slots = py_slots((s["ann"] or {}).get("delete-slots")) or set()
    desired = first_free(s["replicas"], slots)
    names = sorted(p["name"] for p in d["pods"] if p["owner"] is not None and p["owner"]["uid"] == sset_["uid"])
    want = sorted("%s-%d" % (sset_["name"], i) for i in desired)
    if names != want:
        bad.append("pods are %s, desired %s" % (names, want))
    st = s["status"]
    for p in d["pods"]:
        if p["name"] in want:
            if not (p["phase"] == "Running" and p["ready"] and not p["term"]):
                bad.append("pod %s is not Running+Ready" % p["name"])
    if not (st["replicas"] == st["ready"] == s["replicas"]):
        bad.append("status replicas/ready = %d/%d, spec.replicas = %d" % (st["replicas"], st["ready"], s["replicas"]))
    return bad


def mon_history(sc, out):
    bad = []
    steps = out["steps"]
    sset_ = sc["api"]["set"]
    recs = [st for st in steps if isinstance(st, dict) and "calls" in st]
    final = out["final"]
    final["pods"] = final.get("pods") or []
    final["revs"] = final.get("revs") or []
    fs = final["set"]
    if fs is not None and fs["policy"] != "Parallel":
        slots = py_slots((fs["ann"] or {}).get("delete-slots")) or set()
        desired = set(first_free(fs["replicas"], slots))
        if any(p["phase"] in ("Failed", "Succeeded") and monitors.parse_name(p["name"])[1] not in desired for p in final["pods"]):
            return ["PREMISE"]      # a pod that can never become Ready and that the controller need not replace: outside the fairness premise
    cv = converged(final, sset_)
    if cv:
        bad.append("after the fair suffix the set has not converged: " + "; ".join(cv[:3]))
    for k, obs in enumerate(recs[-2:]):
        w = [c for c in obs["calls"] if c["verb"] not in ("list", "get")]
        if w or obs["result"] != "ok":
            bad.append("reconcile %d of the quiet tail still writes / fails: %s %s" % (k + 1, obs["result"], [c["verb"] + " " + c["res"] for c in w][:4]))
    # revision per ordinal, census
    if not cv:
        s = final["set"]
        st = s["status"]
        upd = st["updateRevision"]
        strategy, part = s["strategy"], 0
        for p in final["pods"]:
            o = monitors.parse_name(p["name"])[1]
            if strategy == "RollingUpdate" and o >= sc["_partition_final"] and p["rev"] != upd:
                bad.append("pod %s is at revision %s, its ordinal calls for the update revision %s" % (p["name"], p["rev"], upd))
        # ... and the update revision is one that records the set's template (the revision its ordinal calls for is judged
        # against the template, not against whatever status.updateRevision happens to name)
        tm = {r["name"]: r.get("tmpl") for r in final["revs"]}
        if upd in tm and s.get("tmpl") is not None and tm[upd] != s["tmpl"]:
            bad.append("at quiescence status.updateRevision %s records template %s, the set's template is %s" % (upd, tm[upd], s["tmpl"]))
        live = [p for p in final["pods"]]
        if st["replicas"] != len(live) or st["ready"] != sum(1 for p in live if p["ready"]) \
                or st["updated"] != sum(1 for p in live if p["rev"] == upd):
            bad.append("quiescent status %s is not the census of the live pods" % {k: st[k] for k in ("replicas", "ready", "current", "updated")})
    return bad


# ------------------------------------------------------------------ run
def run(ctx, depth):
    rng = ctx.rng
    quick = depth == "quick"
    searching = depth == "search"        # a broken proof or correspondence: look for a failing input, stop at the first one
    n = 36 if quick else (480 if searching else 1200)
    chunk = 36 if quick else 60          # histories per harness batch: the per-op world dumps are large, keep memory bounded
    scs, finals = [], []
    terms, idx = [], []
    rterms, ridx = [], []
    qterms, qidx = [], []
    premise_out = set()
    sample0 = None
    limit = 60 if quick else 160
    while len(scs) < n:
        batch = []
        for _ in range(min(chunk, n - len(scs))):
            api, cache = start_world(rng)
            ops, names = gen_ops(rng, api, rng.randint(10, 40) if quick else rng.randint(20, 120))
            rounds = 30 if (api["set"]["replicas"] or 0) <= 5 else 80     # at least mu(pods) of TerminationProofs.v: <= 3 per desired ordinal + extras
            sc = dict(api=api, cache=cache, ops=ops + fair_suffix(names, rounds), dump=True, tmpls=[1, 2, 3])
            part = (api["set"]["rolling"] or {}).get("partition") or 0
            for op in ops:
                if op["op"] == "edit" and op["field"] == "partition":
                    part = op["int"]
            sc["_partition_final"] = max(part, 0)
            sc["_prefix_len"] = len(ops)
            # "ready_if_live": the kubelet makes every pod that is not terminating and not in a terminal phase Running+Ready
            for op in sc["ops"]:
                if op.get("ev") == "ready_if_live":
                    op["ev"] = "settle"
            batch.append(sc)
        outs = core.run_harness_parallel("reconcile", [{k: v for k, v in sc.items() if not k.startswith("_")} for sc in batch], shards=16, timeout=1800)
        for sc, out in zip(batch, outs):
            i = len(scs)
            scs.append(sc)
            finals.append(out["final"])
            ctx.evaluations += 1
            ctx.count("family:history")
            ctx.count("ops:%d0s" % (len(sc["ops"]) // 10))
            recs = [st for st in out["steps"] if isinstance(st, dict) and "calls" in st]
            ctx.count("reconciles", len(recs))
            if any(st["result"] == "err" for st in recs):
                ctx.count("histories-with-failed-reconciles")
            ctx.nontriv([sc["api"], sc["ops"][:30]])
            bad = mon_history(sc, out)
            if bad == ["PREMISE"]:
                ctx.count("outside-fairness-premise (terminal-phase pod outside the desired set, ordered policy)")
                premise_out.add(i)
                bad = []
            if bad:
                premise_out.add(i)
                ctx.violations.append({"family": "C02/history", "input": {k: v for k, v in sc.items() if not k.startswith("_")},
                                       "observed": {"final": out["final"], "last_reconciles": recs[-2:]}, "clauses": bad,
                                       "signature": {"kind": "C02", "clause": bad[0][:40]}})
            if sample0 is None:
                sample0 = {"family": "history", "ops": [o["op"] + ":" + (o.get("ev") or o.get("field") or o.get("what") or "") for o in sc["ops"][:25]],
                           "final_pods": [(p["name"], p["phase"], p["ready"], p["rev"]) for p in out["final"]["pods"]]}
            # per-op correspondence of the world (API side) — on the chaotic prefix and the first rounds of the suffix
            steps = out["steps"]
            pairs = []
            for k, op in enumerate(sc["ops"][:limit]):
                pairs.append("(%s, %s)" % (r_op(op), rc.r_world(dump_world(steps[2 * k + 1], sc["api"]["set"]))))
            start = "{| hw_api := %s; hw_cache := %s |}" % (rc.r_world(sc["api"]), rc.r_world(sc["cache"]))
            hs = rc.r_hashes(rc.hashes_of(out))
            terms.append("{| hc_hashes := %s; hc_start := %s; hc_ops := [%s] |}" % (hs, start, "; ".join(pairs)))
            idx.append(i)
            # the abstract round of TerminationProofs.v against the round of the full model (Env.v), on the worlds the
            # real controller was in at the round boundaries of the fair suffix (and at the end of the chaotic prefix)
            npre = sc["_prefix_len"]
            base = copy.deepcopy(sc["api"]["set"])
            base["rolling"] = {"partition": sc["_partition_final"]}
            for j in range(0, 7 if quick else 12):
                k = npre + ROUND_OPS * j - 1
                if k < 0 or 2 * k + 1 >= len(steps):
                    continue
                w = dump_world(steps[2 * k + 1], base)
                if w["set"] is None:
                    continue
                rterms.append("(%s, %s)" % (hs, rc.r_world(w)))
                ridx.append((i, j))
            # the hypothesis of C02_quiet_world_no_write on the world the real controller ended in
            if i not in premise_out and out["final"].get("set") is not None:
                qterms.append("(%s, %s)" % (hs, rc.r_world(dump_world(out["final"], base))))
                qidx.append(i)
        del outs
        if searching and ctx.violations:
            break
    if searching:
        return
    n_obs = len(rterms)
    # plus synthetic settled worlds (mixed: missing, failed, outdated, extra pods; never seen by the implementation): here the
    # abstract round is compared with the round of the full model only, which the history family ties to the implementation
    for _ in range(80 if quick else 3000):
        api, _c = start_world(rng)
        s0 = api["set"]
        slots0 = py_slots((s0.get("ann") or {}).get("delete-slots")) or set()
        desired0 = set(first_free(s0["replicas"], slots0))
        pods = []
        for p in api["pods"]:
            if p["term"]:
                continue
            p = dict(p, owner={"kind": "StatefulSet", "name": s0["name"], "uid": s0["uid"], "controller": True})
            if p["phase"] in ("Failed", "Succeeded"):
                if monitors.parse_name(p["name"])[1] not in desired0:
                    continue
            else:
                p.update(phase="Running", ready=True)
            pods.append(p)
        api["pods"] = pods
        rterms.append("(%s, %s)" % (rc.r_hashes(gen.init_hashes()), rc.r_world(api)))
        ridx.append((None, None))
    rbad = core.coq_mismatches("C02_round", ROUND_IMPORTS, "round_case", "round_ok", rterms, shard_size=8, timeout=1500)
    rskip = core.coq_mismatches("C02_roundc", ROUND_IMPORTS, "round_case", "round_compared", rterms, shard_size=8, timeout=1500)
    for j in rbad[:4]:
        i, rj = ridx[j]
        mv = core.coq_eval("mm_C02r", ROUND_IMPORTS, ["round_model (fst %s) (snd %s)" % (rterms[j], rterms[j])])
        ctx.corr_breaks.append({"family": "C02/round", "input": ({k: v for k, v in scs[i].items() if not k.startswith("_")} if i is not None else None),
                                "world_term": rterms[j][:4000], "round": rj, "model": " ".join(mv)[:1500]})
    ctx.families["C02/round"] = {"worlds": len(rterms), "observed_in_histories": n_obs, "synthetic_settled": len(rterms) - n_obs, "compared (inside the theorem's hypotheses)": len(rterms) - len(rskip),
                                 "skipped (not settled / not well-formed)": len(rskip) - len(rbad), "mismatches": len(rbad)}
    ctx.count("round-worlds-compared", len(rterms) - len(rskip))
    # how many of these worlds satisfy the hypotheses of C02_full_model_round (regular): non-vacuity on observed worlds
    rirr = core.coq_mismatches("C02_regular", ROUND_IMPORTS, "round_case", "regular_case", rterms, shard_size=8, timeout=1500)
    ctx.families["C02/round"]["regular (hypotheses of C02_full_model_round hold)"] = len(rterms) - len(rirr)
    ctx.count("round-worlds-regular", len(rterms) - len(rirr))
    qbad = core.coq_mismatches("C02_quiet", QUIET_IMPORTS, "(list ((Z * Z) * string) * world)%type",
                               "(fun c => quietb (fst c) (snd c) (snd c))", qterms, shard_size=8, timeout=1500)
    for j in qbad[:4]:
        i = qidx[j]
        ctx.corr_breaks.append({"family": "C02/quiet", "input": {k: v for k, v in scs[i].items() if not k.startswith("_")},
                                "model": "quietb is false on the final world of the history, where the implementation is quiet",
                                "final": finals[i]})
    ctx.families["C02/quiet"] = {"final_worlds": len(qterms), "quietb_false": len(qbad)}
    mm = core.coq_mismatches("C02_hist", IMPORTS, "hist_case", "hist_check", terms, shard_size=2, timeout=1500)
    for j in mm[:6]:
        i = idx[j]
        mv = core.coq_eval("mm_C02", IMPORTS, ["hist_model (%s)" % terms[j]])
        mvs = " ".join(mv)[:1500]
        ctx.corr_breaks.append({"family": "C02/history", "input": {k: v for k, v in scs[i].items() if not k.startswith("_")}, "model": mvs})
    ctx.traces_validated += len(terms)
    if sample0:
        ctx.sample(sample0)
    ctx.families["C02/history"] = {"histories": n, "ops_total": sum(len(s["ops"]) for s in scs), "world_compared_per_op_in_coq": len(terms),
                                   "model_mismatches": len(mm)}
    run_outage_family(ctx, depth)


def run_outage_family(ctx, depth):
    """event-driven execution through the controller's own work queue (monitor only): a long API outage — more than a
    dozen consecutive failing reconciles — then the faults stop.  Nothing else happens to the set or its pods afterwards,
    so only the retries the controller scheduled itself can bring it back: it must still converge."""
    from props import gen
    rng = ctx.rng
    n = 16 if depth == "quick" else 300
    gen.init_hashes()
    scs = []
    for _ in range(n):
        reps = rng.choice([2, 3, 3, 4])
        t = rng.choice([1, 2, 3])
        rev = gen.revname(t)
        s = rc.mkset(replicas=reps, tmpl=t, policy=rng.choice(["OrderedReady", "Parallel"]), claims=rng.choice([[], ["data"]]))
        have = [i for i in range(reps) if rng.random() < 0.4]
        s["status"].update(replicas=len(have), ready=len(have), current=len(have), updated=len(have), currentRevision=rev,
                           updateRevision=rev, observedGeneration=s["gen"], collisionCount=0)
        pods = [rc.mkpod(i, rev, claims=s["claims"], tmpl=t) for i in have]
        claims = sorted({v["claim"] for p in pods for v in p["vols"] if v["claim"]})
        api = rc.mkworld(s, pods, [rc.mkrev(rev, 1, t, hashlabel=gen.HASH[(t, 0)])], claims)
        names = ["web-%d" % i for i in range(reps + 1)]
        fails = rng.choice([14, 18, 22, 30])
        ops = [{"op": "refresh", "what": "all", "notify": True}, {"op": "outage", "on": True}, {"op": "drain", "max": fails},
               {"op": "outage", "on": False}]
        for _r in range(2 * reps + 3):
            ops += [{"op": "drain", "max": 6}]
            ops += [{"op": "kubelet", "pod": nm, "ev": "gone"} for nm in names]
            ops += [{"op": "kubelet", "pod": nm, "ev": "settle"} for nm in names]
            ops += [{"op": "refresh", "what": "all", "notify": True}]
        ops += [{"op": "drain", "max": 6}, {"op": "refresh", "what": "all", "notify": True}, {"op": "drain", "max": 6}]
        # the informers start empty: the first refresh delivers the initial Add events, as an informer's first List does
        sc = rc.scenario(api, cache=rc.mkworld(None, [], [], []), ops=ops, tmpls=(1, 2, 3))
        sc["fast_queue"] = True
        sc["_fails"] = fails
        scs.append(sc)
    outs = core.run_harness_parallel("reconcile", [{k: v for k, v in sc.items() if not k.startswith("_")} for sc in scs], shards=16)
    long_runs = 0
    for sc, out in zip(scs, outs):
        ctx.evaluations += 1
        ctx.count("family:outage")
        drains = [st for st in out["steps"] if isinstance(st, dict) and "drain" in st]
        failed = sum(1 for w in drains[0]["drain"] if w["result"] == "err") if drains else 0
        if failed >= 16:
            long_runs += 1
        fin = out["final"]
        fin["pods"] = fin.get("pods") or []
        bad = converged(fin, sc["api"]["set"])
        if bad:
            bad = ["after an outage of %d consecutive failed reconciles and a fair suffix the set has not converged: %s" % (failed, "; ".join(bad[:3]))]
        last = drains[-1]["drain"] if drains else []
        if not bad and any([c for c in w["calls"] if c["verb"] not in ("list", "get")] for w in last):
            bad.append("the last drain of the quiet tail still writes")
        if bad:
            ctx.violations.append({"family": "C02/outage", "input": {k: v for k, v in sc.items() if not k.startswith("_")},
                                   "observed": {"final": out["final"], "failed_reconciles_in_outage": failed}, "clauses": bad,
                                   "signature": {"kind": "C02", "clause": bad[0][:40]}})
        ctx.nontriv(["outage", sc["api"]["set"]["replicas"], sc["_fails"]])
    ctx.families["C02/outage"] = {"histories": n, "with_16_or_more_consecutive_failures": long_runs,
                                  "tie": "monitor only (informer handlers + real work queue with a short backoff)"}


def search(ctx):
    run(ctx, "search")


def replay(data):
    v = data.get("violation") or (data.get("correspondence_breaks") or [{}])[0]
    case = v.get("input")
    if not case:
        print(data)
        return 0
    out = core.run_harness("reconcile", [case])[0]
    sc = dict(case)
    sc["_partition_final"] = 0
    print("final:", json.dumps(out["final"])[:2000])
    bad = mon_history(sc, out)
    print("monitor:", bad)
    return 1 if bad else 0
