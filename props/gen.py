"""Generator of reconcile snapshots (mostly valid, structured) used by all per-reconcile properties."""
import copy, json
from props.reconcile_common import *

# hashes of templates 1..4 for a set named "web" with selector label app=web (filled by init_hashes)
HASH = {}


def init_hashes():
    if HASH:
        return HASH
    out = core.run_harness("reconcile", [scenario(mkworld(mkset()), tmpls=(1, 2, 3, 4))])[0]
    for k, c, h in out["hashes"]:
        HASH[(k, c)] = h
    return HASH


def revname(k, c=0):
    return "web-" + HASH[(k, c)]


def render_slots(rng, lst):
    style = rng.randint(0, 3)
    if style == 0:
        return json.dumps(lst)
    if style == 1:
        return "[" + ",".join(map(str, lst)) + "]"
    if style == 2:
        return " [ " + " , ".join(map(str, lst)) + " ] "
    l2 = lst + ([rng.choice(lst)] if lst else [])
    rng.shuffle(l2)
    return json.dumps(l2)


def gen_set(rng, tmpls):
    s = mkset()
    s["replicas"] = rng.choice([0, 1, 2, 3, 3, 4, 5])
    if rng.random() < 0.07:
        s["replicas"] = rng.choice([7, 8, 9, 10])       # ordinals with two digits (name order differs from ordinal order)
    ann = {}
    r = rng.random()
    if r < 0.55:
        k = rng.choice([1, 1, 2, 3])
        ann["delete-slots"] = render_slots(rng, [rng.randint(-1, 7) for _ in range(k)])
    elif r < 0.64:
        # not a list of int32: the whole annotation is ignored (syntactically broken, or an array with an entry of the
        # wrong type or out of range: encoding/json reports the error but still fills the slice, zero for the bad entry)
        ann["delete-slots"] = rng.choice(["", "[1,", "null", "[1.5]", "[\"1\"]", "[]", "[99999999999]", "{}",
                                          "[2, \"1\"]", "[\"2\"]", "[1.5, 2]", "[2, 4294967296]", "[1, {}]", "[true]",
                                          "[1, 2147483648]", "[-2147483649, 1]", "[\"0\", 3]", "[null]", "[1, null]"])
    if rng.random() < 0.04:
        ann["paused-reconcile"] = rng.choice(["true", "true", "false", "TRUE", ""])
    if rng.random() < 0.2:
        ann["note"] = "x"
    s["ann"] = ann or (None if rng.random() < 0.5 else {})
    s["policy"] = rng.choice(["OrderedReady", "OrderedReady", "Parallel", "Parallel", "Parallel" if rng.random() < 0.9 else "Weird"])
    s["strategy"] = rng.choice(["RollingUpdate", "RollingUpdate", "RollingUpdate", "OnDelete", "OnDelete" if rng.random() < 0.85 else "Recreate"])
    r = rng.random()
    if r < 0.65:
        s["rolling"] = {"partition": rng.choice([0, 0, 1, 2, 3, 4, 6])}
    elif r < 0.8:
        s["rolling"] = None
    elif r < 0.9:
        s["rolling"] = {"partition": None}
    else:
        s["rolling"] = {"partition": rng.choice([-1, -3, 100])}
    s["tmpl"] = rng.choice(tmpls)
    s["claims"] = rng.choice([[], [], ["data"], ["data", "logs"]])
    s["rhl"] = rng.choice([0, 1, 2, 10, 10])
    s["deleting"] = rng.random() < 0.06
    s["gen"] = rng.randint(1, 4)
    s["rv"] = rng.randint(1, 9)
    if rng.random() < 0.03:
        s["selector"] = "invalid"
    return s


def gen_revs(rng, s, tmpls):
    """a revision history: mostly the set's own, well-formed; sometimes orphans / foreign / marked / colliding"""
    revs, names = [], set()
    n = rng.choice([0, 1, 1, 2, 2, 3, 4])
    num = 0
    pool = list(tmpls)
    for i in range(n):
        num += rng.choice([1, 1, 1, 2]) if rng.random() < 0.9 else 0
        num = max(num, 1)
        k = rng.choice(pool)
        style = rng.random()
        if style < 0.7:
            nm = revname(k, 0)
            hl = HASH[(k, 0)]
        elif style < 0.8:
            nm = revname(k, 1)
            hl = HASH[(k, 1)]
        elif style < 0.9:
            # a name that belongs to another template: engineered collision
            k2 = rng.choice(pool)
            nm = revname(k2, 0)
            hl = HASH[(k2, 0)]
        else:
            nm = "web-old%d" % i
            hl = rng.choice([None, "123", "77", "abc", "+5", "0123", "2147483648"])
        if nm in names:
            continue
        names.add(nm)
        o = rng.random()
        owner = ME if o < 0.75 else None if o < 0.9 else rng.choice([STALE, DS, OTHERSET])
        marker = None
        match = True
        if rng.random() < 0.15:
            marker = rng.choice(["web", "web", "db"])
            match = rng.random() < 0.5
        elif rng.random() < 0.05:
            match = False
        revs.append(mkrev(nm, num, k, owner=owner, match=match, marker=marker, hashlabel=hl, created=rng.choice([0, 0, 1, 5]),
                          labels_nil=(rng.random() < 0.02)))
    return revs


def gen_pods(rng, s, revnames):
    pods = []
    claims = s["claims"]
    maxo = (s["replicas"] or 0) + 3
    present = rng.random()
    for i in range(0, maxo + 1):
        if rng.random() > (0.75 if present < 0.7 else 0.3):
            continue
        ph = rng.random()
        if ph < 0.62:
            phase, ready = "Running", rng.random() < 0.85
        elif ph < 0.78:
            phase, ready = "Pending", False
        elif ph < 0.86:
            phase, ready = "Failed", False
        elif ph < 0.92:
            phase, ready = "Succeeded", False
        elif ph < 0.97:
            phase, ready = "Unknown", rng.random() < 0.3
        else:
            phase, ready = "", False
        term = rng.random() < 0.12
        rv = rng.choice(revnames + [revnames[-1]] * 2) if revnames else ""
        if rng.random() < 0.05:
            rv = rng.choice(["", "web-gone"])
        o = rng.random()
        owner = ME if o < 0.8 else None if o < 0.92 else rng.choice([STALE, DS, OTHERSET])
        match = rng.random() < 0.93
        nl = "ok" if rng.random() < 0.92 else rng.choice(["missing", "web-zzz"])
        vols = "ok" if rng.random() < 0.9 else rng.choice(["missing", "wrong"])
        name = None
        if rng.random() < 0.03:
            name = rng.choice(["web-0%d" % i, "web-x%d" % i, "other-%d" % i, "web-%d9999999999" % (i + 1), "web--%d" % i])
        pods.append(mkpod(i, rv, phase, ready, term, owner, match, name=name, claims=claims, tmpl=rng.choice([1, 2, 3]),
                          namelabel=nl, vols=vols))
    if pods and rng.random() < 0.05:
        # a member whose number does not fit an int32: it has no ordinal at all, holds no slot and is never condemned
        # (two members claiming ONE ordinal, <set>-01 next to <set>-1, are not generated: the model's list order for them is not
        # the cache's, see DESIGN II.4 round 7)
        q = rng.choice(pods)
        i = int(q["name"].rsplit("-", 1)[1]) if q["name"].rsplit("-", 1)[-1].isdigit() and len(q["name"].rsplit("-", 1)[-1]) < 6 else 0
        nm = rng.choice(["web-4294967296", "web-%d9999999999" % (i + 1), "web-99999999999999999999"])
        if all(p["name"] != nm for p in pods):
            tw = mkpod(i, q["rev"], "Running", True, False, ME, True, name=nm, claims=claims, tmpl=q["tmpl"])
            pods.insert(rng.randrange(len(pods) + 1), tw)
    if rng.random() < 0.03:
        # a member at the edge of the ordinal range (int32): somebody created a pod with that name and the set's labels
        o = rng.choice([2147483647, 2147483647, 2147483646])
        rv = rng.choice(revnames) if revnames else ""
        pods.append(mkpod(o, rv, rng.choice(["Running", "Running", "Pending", "Failed"]), rng.random() < 0.4, rng.random() < 0.1,
                          ME if rng.random() < 0.7 else None, True, claims=claims, tmpl=rng.choice([1, 2, 3])))
    return pods


def gen_snapshot(rng, tmpls=(1, 2, 3)):
    init_hashes()
    s = gen_set(rng, tmpls)
    revs = gen_revs(rng, s, tmpls)
    revnames = [r["name"] for r in revs]
    st = s["status"]
    if revnames and rng.random() < 0.85:
        st["currentRevision"] = rng.choice(revnames)
        st["updateRevision"] = rng.choice(revnames + [revname(s["tmpl"])])
    if rng.random() < 0.1:
        st["currentRevision"] = "web-vanished"
    st["collisionCount"] = rng.choice([None, 0, 0, 0, 1])
    st["observedGeneration"] = rng.choice([s["gen"], s["gen"], s["gen"] - 1, 0])
    pods = gen_pods(rng, s, revnames)
    st["replicas"] = rng.choice([len(pods), len(pods), rng.randint(0, 6)])
    st["ready"] = rng.randint(0, st["replicas"])
    st["current"] = rng.randint(0, st["replicas"])
    st["updated"] = rng.randint(0, st["replicas"])
    claims = []
    for p in pods:
        for v in p["vols"]:
            if v["claim"] and rng.random() < 0.85:
                claims.append(v["claim"])
    claims = sorted(set(claims))
    api = mkworld(s, pods, revs, claims)
    cache = copy.deepcopy(api)
    cache["revs"] = []
    r = rng.random()
    if r < 0.12 and pods:
        # stale cache: a cached pod is gone from the API, or changed there
        victim = rng.choice(api["pods"])
        if rng.random() < 0.5:
            api["pods"] = [p for p in api["pods"] if p["name"] != victim["name"]]
        else:
            victim["term"] = True
    elif r < 0.18:
        api["set"]["rv"] = s["rv"] + 1
    elif r < 0.21:
        api["set"]["uid"] = "u2"
    elif r < 0.24:
        api["set"]["deleting"] = True
    elif r < 0.26:
        api["set"] = None
    elif r < 0.3 and claims:
        cache["claims"] = [c for c in claims if rng.random() < 0.5]
    return ready_conditions(rng, scenario(api, cache, tmpls=tmpls))


def in_window(call):
    """calls whose relative order the Go runtime leaves open (map iteration): addressed by shape, not index"""
    return (call["verb"] == "patch" and call["res"] == "pods") or (call["verb"] == "create" and call["res"] == "persistentvolumeclaims")


KINDS = ["500", "conflict", "notfound", "exists", "invalid", "timeout", "timeout_applied"]


def single_faults(sc, base_obs, kinds=KINDS):
    """every call position of the fault-free run x every error kind"""
    out = []
    calls = base_obs["calls"]
    npatch = sum(1 for c in calls if in_window(c) or (c["verb"] == "get" and c["res"] == "statefulsets"))
    for i, c in enumerate(calls):
        for k in kinds:
            sc2 = copy.deepcopy(sc)
            if in_window(c) or (c["verb"] == "get" and c["res"] == "statefulsets" and npatch > 1):
                f = {"on": fault_free_shape(c), "kind": k}
            else:
                f = {"at": i, "kind": k}
            sc2["ops"] = [{"op": "reconcile", "faults": [f]}]
            out.append(sc2)
    return out


def gen_rollout(rng, tmpls=(1, 2, 3)):
    """structured snapshots of a rolling update / scale operation in flight: coherent revisions and status,
    mostly healthy pods, a few odd ones (terminating-but-ready, unready, failed, pending), optional slots"""
    init_hashes()
    a, b = rng.sample(list(tmpls), 2)
    s = mkset()
    s["tmpl"] = b
    s["replicas"] = rng.choice([2, 3, 3, 4, 5])
    wide = rng.random() < 0.08
    if wide:
        s["replicas"] = rng.choice([8, 9, 10])             # a scale-in across the one-digit / two-digit ordinal boundary
    s["policy"] = rng.choice(["OrderedReady", "Parallel", "Parallel"])
    s["strategy"] = "RollingUpdate" if rng.random() < 0.85 else "OnDelete"
    r = rng.random()
    s["rolling"] = {"partition": rng.choice([0, 0, 1, 2, s["replicas"]])} if r < 0.75 else (None if r < 0.9 else {"partition": None})
    slots = []
    if rng.random() < 0.4:
        slots = sorted(set(rng.randint(0, s["replicas"] + 1) for _ in range(rng.choice([1, 1, 2]))))
        written = list(slots)
        if rng.random() < 0.3:
            # a cascade: k slots inside [0, replicas) and the k ordinals from replicas upwards, which are in range only
            # because the lower ones widened it; written in any order (the annotation is a set)
            k = rng.choice([1, 1, 2])
            low = rng.sample(range(0, s["replicas"]), min(k, s["replicas"]))
            slots = sorted(set(low) | set(range(s["replicas"], s["replicas"] + len(low))))
            written = list(slots)
            rng.shuffle(written)
        s["ann"] = {"delete-slots": json.dumps(written)}
    s["claims"] = rng.choice([[], [], ["data"]])
    old, new = revname(a), revname(b)
    revs = [mkrev(old, 1, a, hashlabel=HASH[(a, 0)]), mkrev(new, 2, b, hashlabel=HASH[(b, 0)])]
    if rng.random() < 0.25:
        c = [k for k in tmpls if k not in (a, b)][0]
        revs.insert(0, mkrev(revname(c), 0, c, hashlabel=HASH[(c, 0)]))
        for i, rv in enumerate(revs):
            rv["revision"] = i + 1
    if rng.random() < 0.12:
        revs = revs[:-1]                      # the update revision does not exist yet
    from props.c01 import first_free
    desired = first_free(s["replicas"], set(slots))
    k_new = rng.randint(0, len(desired))     # how many of the top ordinals are already updated
    pods = []
    for idx, o in enumerate(desired):
        if rng.random() < 0.08:
            continue
        rv = new if idx >= len(desired) - k_new else old
        if rng.random() < 0.06:
            rv = revs[0]["name"]
        h = rng.random()
        if h < 0.72:
            pods.append(mkpod(o, rv, claims=s["claims"], tmpl=b if rv == new else a))
        elif h < 0.80:
            pods.append(mkpod(o, rv, "Running", True, True, claims=s["claims"]))      # terminating but still ready
        elif h < 0.87:
            pods.append(mkpod(o, rv, "Running", False, claims=s["claims"]))
        elif h < 0.92:
            pods.append(mkpod(o, rv, "Pending", False, claims=s["claims"]))
        elif h < 0.96:
            pods.append(mkpod(o, rv, rng.choice(["Failed", "Succeeded"]), False, claims=s["claims"]))
        else:
            pods.append(mkpod(o, rv, "Running", False, True, claims=s["claims"]))
    extra = [o for o in range(0, s["replicas"] + 3) if o not in desired]
    for o in extra:
        if rng.random() < (0.75 if wide else 0.25):
            h = rng.random()
            pods.append(mkpod(o, rng.choice([old, new]), "Running", h < 0.8, h > 0.9, claims=s["claims"]))
    st = s["status"]
    st.update(replicas=len(pods), ready=sum(1 for p in pods if p["ready"]), current=sum(1 for p in pods if p["rev"] == old),
              updated=sum(1 for p in pods if p["rev"] == new), currentRevision=old, updateRevision=new if len(revs) >= 2 and revs[-1]["name"] == new else old,
              observedGeneration=s["gen"], collisionCount=0)
    if rng.random() < 0.15:
        st["current"] = rng.randint(0, 5)
    claims = sorted({v["claim"] for p in pods for v in p["vols"] if v["claim"]})
    api = mkworld(s, pods, revs, claims)
    cache = copy.deepcopy(api)
    cache["revs"] = []
    return ready_conditions(rng, scenario(api, cache, tmpls=tmpls))


import re as _re
_WEB = _re.compile(r'(?<![A-Za-z0-9])web(?![A-Za-z0-9])')


def rename_set(sc, new):
    """the same scenario for a set called `new`: every name derived from the set name (pods, claims, revisions, owner
    references, pod-name labels, ops) is renamed with it; the selector label keeps its value"""
    def walk(x):
        if isinstance(x, str):
            return _WEB.sub(new, x)
        if isinstance(x, list):
            return [walk(y) for y in x]
        if isinstance(x, dict):
            return {k: walk(v) for k, v in x.items()}
        return x
    for w in ("api", "cache"):
        sc[w] = walk(sc[w])
        if sc[w].get("set"):
            sc[w]["set"]["app"] = "web"
    sc["ops"] = walk(sc["ops"])
    return sc


def long_name(rng, lo, hi):
    n = rng.randint(lo, hi)
    base = "tidb-cluster-production-eu-west-1-tikv-store-" * 8
    return base[:n - 1].rstrip("-") .ljust(n - 1, "x") + "z"


def ready_conditions(rng, sc):
    """a pod that is not Ready carries no Ready condition, Ready=False or Ready=Unknown (its node stopped reporting):
    only Ready=True counts as ready"""
    choice = {}
    for w in (sc["api"], sc["cache"]):
        for p in w.get("pods") or []:
            if not p.get("ready") and p.get("phase") == "Running":
                if p["name"] not in choice:
                    choice[p["name"]] = rng.choice(["", "False", "Unknown", "Unknown"])
                if choice[p["name"]]:
                    p["cond"] = choice[p["name"]]
    return sc


def gen_history(rng, tmpls=(1, 2, 3, 4)):
    """revision-heavy snapshots: own / adopted-after-upgrade (labels + marker) / orphan / foreign revisions,
    small limits, pods pinned to old revisions"""
    init_hashes()
    sc = gen_rollout(rng, tmpls=(1, 2, 3))
    for w in (sc["api"], sc["cache"]):
        w["set"]["rhl"] = rng.choice([0, 0, 1, 1, 2, 3])
    api = sc["api"]
    base = len(api["revs"])
    n = rng.randint(1, 5)
    names = {r["name"] for r in api["revs"]}
    extra = []
    for i in range(n):
        k = rng.choice(tmpls)
        nm = "web-old%d" % i
        o = rng.random()
        owner = ME if o < 0.6 else None if o < 0.75 else rng.choice([DS, OTHERSET, STALE])
        style = rng.random()
        if style < 0.35:
            match, marker = True, "web"            # adopted after an upgrade: both
        elif style < 0.5:
            match, marker = False, "web"
        elif style < 0.6:
            match, marker = True, "db"
        else:
            match, marker = True, None
        extra.append(mkrev(nm, 0, k, owner=owner, match=match, marker=marker, hashlabel=rng.choice([None, "abc", "12"]),
                           created=rng.choice([0, 1, 2])))
    revs = extra + api["revs"]
    for i, r in enumerate(revs):
        r["revision"] = i + 1 if rng.random() < 0.9 else max(i, 1)
    api["revs"] = revs
    if api["pods"] and rng.random() < 0.5:
        rng.choice(api["pods"])["rev"] = rng.choice(extra)["name"]
        sc["cache"]["pods"] = copy.deepcopy(api["pods"])
    sc["tmpls"] = list(tmpls)
    return sc


def gen_migrated(rng, complete=None):
    """the world helper.Upgrade leaves behind, at any point of a rollout: revisions orphaned, carrying the upgrade
    marker and none of the selector labels; pods orphaned (the built-in set was deleted with orphan propagation);
    status copied"""
    init_hashes()
    sc = gen_rollout(rng)
    api = sc["api"]
    s = api["set"]
    if complete is None:
        complete = rng.random() < 0.5
    if len(api["revs"]) < 2 or api["revs"][-1]["tmpl"] != s["tmpl"]:
        api["revs"] = [r for r in api["revs"] if r["tmpl"] != s["tmpl"]] + [mkrev(revname(s["tmpl"]), 9, s["tmpl"], hashlabel=HASH[(s["tmpl"], 0)])]
        for i, r in enumerate(api["revs"]):
            r["revision"] = i + 1
    new = api["revs"][-1]["name"]
    for r in api["revs"]:
        r["owner"], r["marker"], r["match"] = None, s["name"], False
    for p in api["pods"]:
        p["owner"] = None
        p["term"] = False
        if complete:
            p["rev"], p["phase"], p["ready"] = new, "Running", True
    if complete:
        from props.c01 import first_free, py_slots
        ann = s.get("ann") or {}
        desired = set(first_free(s["replicas"], py_slots(ann.get("delete-slots")) or set()))
        api["pods"] = [p for p in api["pods"] if int(p["name"].rsplit("-", 1)[1]) in desired]
        have = {int(p["name"].rsplit("-", 1)[1]) for p in api["pods"]}
        for o in sorted(desired - have):
            api["pods"].append(mkpod(o, new, claims=s["claims"], owner=None))
        st = s["status"]
        st.update(replicas=len(api["pods"]), ready=len(api["pods"]), current=len(api["pods"]), updated=len(api["pods"]),
                  currentRevision=new, updateRevision=new)
    # the built-in set may have met a name collision earlier: its collision count is then ahead of the count hashed into the
    # name / hash label of the revision that matches the template (recognition must go by the recorded data, not by the label)
    s["status"]["collisionCount"] = 1 if rng.random() < 0.3 else 0
    api["claims"] = sorted({v["claim"] for p in api["pods"] for v in p["vols"] if v["claim"]})
    cache = copy.deepcopy(api)
    cache["revs"] = []
    sc["cache"] = cache
    sc["complete"] = complete
    return sc
