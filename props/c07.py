"""C07 — Rolling update honours partition, goes highest-first; OnDelete never restarts."""
from lib import core
from props import reconcile_common as rc, monitors

TITLE = "Rolling update honours partition, goes highest-first; OnDelete never restarts"
TECHNIQUE = ("Coq proof over the Gallina model of the whole reconcile (pure pod-phase planner + monadic executor, every API state, "
             "cache and fault oracle) + projected differential correspondence with the real controller + implementation-side monitor")
ASSUMPTIONS = [
    "API-server and informer-cache semantics are modelled (World.v/Reconcile.v api_*), validated against the fake clientsets + harness reactors",
    "domain: observed pods have a non-empty phase and canonical names with distinct ordinals (monitors skip other snapshots; the model covers them)",
]
PI = "pi_pod_cd"


def monitor(sn, faulty):
    return monitors.mon_c07(sn)


def tweak(rng, sc):
    """now and then: a partition expressed in ORDINALS that lies beyond spec.replicas (possible with delete slots inside the
    range, e.g. replicas 3, slots [1], pods 0 2 3, partition 4 = hold everything), healthy outdated pods below it"""
    import copy, json
    from props.c01 import first_free
    st = sc["cache"].get("set")
    if st is None or rng.random() > 0.15 or len(sc["api"]["revs"]) < 2:
        return sc
    reps = rng.choice([2, 3, 4])
    nslots = rng.choice([1, 1, 2])
    slots = sorted(rng.sample(range(0, reps + nslots - 1), nslots))
    desired = first_free(reps, set(slots))
    part = rng.choice([reps + 1, max(desired), max(desired) + 1, reps + 1])
    revs = sc["api"]["revs"]
    old, new = revs[-2]["name"], revs[-1]["name"]
    claims = st.get("claims") or []
    pods = []
    for o in desired:
        rv = new if (o >= part and rng.random() < 0.8) else old
        pods.append(rc.mkpod(o, rv, claims=claims))
    for w in (sc["api"], sc["cache"]):
        s2 = w.get("set")
        if not s2:
            return sc
        s2.update(replicas=reps, strategy="RollingUpdate", rolling={"partition": part}, deleting=False)
        ann = dict(s2.get("ann") or {})
        ann.pop("paused-reconcile", None)
        ann["delete-slots"] = json.dumps(slots)
        s2["ann"] = ann
        s2["status"].update(currentRevision=old, updateRevision=new)
        w["pods"] = copy.deepcopy(pods)
    return sc


def run(ctx, depth):
    rc.run_reconcile_property(ctx, depth, "C07", PI, monitor, tweak=tweak)


def search(ctx):
    run(ctx, "thorough")


def replay(data):
    v = data.get("violation") or (data.get("correspondence_breaks") or [{}])[0]
    case = v.get("input")
    if not case:
        print(data)
        return 0
    return rc.replay_case(case, monitor, PI)
