"""C08 — Update revision mirrors the template; scaling edits never cause a restart."""
from lib import core
from props import reconcile_common as rc, monitors

TITLE = "Update revision mirrors the template; scaling edits never cause a restart"
TECHNIQUE = ("Coq proof over the Gallina model of the whole reconcile (pure pod-phase planner + monadic executor, every API state, "
             "cache and fault oracle) + projected differential correspondence with the real controller + implementation-side monitor")
ASSUMPTIONS = [
    "API-server and informer-cache semantics are modelled (World.v/Reconcile.v api_*), validated against the fake clientsets + harness reactors",
    "domain: observed pods have a non-empty phase and canonical names with distinct ordinals (monitors skip other snapshots; the model covers them)",
]
PI = "pi_rev_write"


def monitor(sn, faulty):
    return monitors.mon_c08(sn, faulty)


def tweak(rng, sc):
    from props import gen
    sc = gen.gen_history(rng) if rng.random() < 0.5 else sc
    st = sc["api"].get("set")
    if st and sc["cache"].get("set") and rng.random() < 0.12:
        # a name collision: no revision records the set's template, and the name the new revision would get
        # (hash of the template and the stored collision count) is taken by a revision that records ANOTHER template —
        # the set's own, an orphan, or somebody else's
        k = st["tmpl"]
        cc = st["status"].get("collisionCount") or 0
        if (k, cc) in gen.HASH and (k, cc + 1) in gen.HASH:
            other = rng.choice([t for t in (1, 2, 3) if t != k])
            name = gen.revname(k, cc)
            revs = [r for r in sc["api"]["revs"] if r["tmpl"] != k and r["name"] != name]
            top = max([r["revision"] for r in revs] + [0])
            o = rng.random()
            owner = rc.ME if o < 0.7 else (None if o < 0.85 else rc.STALE)
            revs.append(rc.mkrev(name, rng.choice([top + 1, max(top, 1)]), other, owner=owner, hashlabel=gen.HASH[(k, cc)]))
            sc["api"]["revs"] = sorted(revs, key=lambda r: r["revision"])
    return sc


def patch_monitor(out):
    bad = []
    if out.get("panic") or out.get("err") or out.get("bad_template"):
        return ["getPatch failed on a valid template: %s" % (out.get("panic") or out.get("err") or out.get("bad_template"))]
    if out["non_template_edits_changing_patch"]:
        bad.append("revision data changed by non-template edits: %s" % out["non_template_edits_changing_patch"])
    if out.get("apply_err") or not out.get("apply_restores_template") or not out.get("match_after_apply"):
        bad.append("ApplyRevision does not reproduce the recorded template (%s)" % out.get("apply_err", "templates differ"))
    if not out.get("apply_keeps_replicas", True):
        bad.append("ApplyRevision changed spec.replicas")
    if out["templates_equal"] != out["patches_equal"]:
        bad.append("templates equal=%s but revision data equal=%s" % (out["templates_equal"], out["patches_equal"]))
    return bad


def run_patch_family(ctx, depth, pid="C08"):
    from props import templates
    n = 250 if depth == "quick" else 4000
    cases = []
    for _ in range(n):
        t = templates.gen_template(ctx.rng)
        cases.append({"template": t, "template2": templates.mutate_template(ctx.rng, t)})
    outs = core.run_harness_parallel("patch", cases)
    for c, o in zip(cases, outs):
        ctx.evaluations += 1
        ctx.count("family:patch")
        ctx.nontriv(c)
        bad = patch_monitor(o)
        if bad:
            big = templates.has_big_int(c["template"]) or templates.has_big_int(c["template2"])
            ctx.count("patch:template-with-int-above-2^53" if big else "patch:violation")
            ctx.violations.append({"family": pid + "/patch", "input": c, "observed": o, "clauses": bad,
                                   "signature": {"kind": "patch-bigint" if big else "patch"}})
    ctx.sample({"family": "patch", "input": cases[0], "observed": outs[0]})
    ctx.families[pid + "/patch"] = {"templates": n, "tie": "monitor on the real getPatch / ApplyRevision / Match (codec level is modelled, not proved)"}


def run_rollback_conflicts(ctx, depth):
    """a rollback (the template is reverted to one an older revision records) whose renumbering write meets one Conflict: the
    retry must still renumber the re-used revision above all others (monitor; compared with the model like every fault case)"""
    from props import gen
    rng = ctx.rng
    n = 30 if depth == "quick" else 400
    scs = []
    tries = 0
    while len(scs) < n and tries < 50 * n:
        tries += 1
        sc = gen.gen_history(rng)
        st = sc["api"].get("set")
        if st is None or sc["cache"].get("set") is None:
            continue
        own = [r for r in sc["api"]["revs"] if r["owner"] is not None and r["owner"]["uid"] == st["uid"] and r["match"] and not r["labels_nil"]]
        top = max([r["revision"] for r in sc["api"]["revs"]] + [0])
        old = [r for r in own if r["revision"] < top and sum(1 for q in sc["api"]["revs"] if q["tmpl"] == r["tmpl"]) == 1]
        if not old:
            continue
        r = rng.choice(old)
        for w in (sc["api"], sc["cache"]):
            w["set"]["tmpl"] = r["tmpl"]
            w["set"]["deleting"] = False
            ann = dict(w["set"].get("ann") or {})
            ann.pop("paused-reconcile", None)
            w["set"]["ann"] = ann or None
        sc["ops"] = [{"op": "reconcile", "faults": [{"on": "update controllerrevisions %s" % r["name"], "kind": "conflict"}]}]
        scs.append(sc)
    outs = core.run_harness_parallel("reconcile", scs, shards=16)
    hit = 0
    for sc, out in zip(scs, outs):
        obs = out["steps"][0]
        ctx.evaluations += 1
        ctx.count("family:rollback-conflict")
        if any(c.get("fault") == "conflict" for c in obs["calls"]):
            hit += 1
        sn = monitors.Snap(sc, obs)
        sn.final = out.get("final")
        bad = monitor(sn, True) if sn.ok else []
        if bad:
            ctx.violations.append({"family": "C08/rollback_conflict", "input": sc, "observed": obs, "clauses": bad,
                                   "signature": {"kind": "C08", "clause": bad[0][:40]}})
        ctx.nontriv([sc["api"]["set"]["tmpl"], sc["ops"]])
    nt, nm = rc.correspond_proj(ctx, "C08/rollback_conflict", scs, outs, "recon_check_proj %s true" % PI, "recon_model_proj %s" % PI)
    ctx.families["C08/rollback_conflict"] = {"scenarios": len(scs), "with_the_conflict_hit": hit, "compared_in_coq": nt, "model_mismatches": nm}


def run(ctx, depth):
    rc.run_reconcile_property(ctx, depth, "C08", PI, monitor, tweak=tweak)
    run_rollback_conflicts(ctx, depth)
    run_patch_family(ctx, depth)


def search(ctx):
    run(ctx, "thorough")


def replay(data):
    v = data.get("violation") or (data.get("correspondence_breaks") or [{}])[0]
    case = v.get("input")
    if not case:
        print(data)
        return 0
    return rc.replay_case(case, monitor, PI)
