"""C06 — Stable identity and storage per ordinal; claims come first and are never removed."""
import copy
from lib import core
from lib.core import Zl, Strl
from props import reconcile_common as rc, monitors, gen

TITLE = "Stable identity and storage per ordinal; claims come first and are never removed"
TECHNIQUE = ("Coq proof (name printer/parser round trip for all strings; identity and storage of new pods; log order of CreateStatefulPod for all "
             "claim lists and fault oracles; claims monotone through the whole reconcile) + differential correspondence (names; pod/claim writes "
             "with every single fault) + monitor")
ASSUMPTIONS = [
    "API-server and informer-cache semantics are modelled (World.v/Reconcile.v api_*), validated against the fake clientsets + harness reactors",
    "hostname, subdomain and the preservation of non-claim template volumes are outside the model: checked on every pod create of the real controller (`ident`)",
    "regexp (.*)-([0-9]+)$ and strconv.ParseInt are modelled (Names.v), validated by the names family incl. adversarial strings",
]
PI = "pi_pod_write"
MAXI32 = 2147483647


def monitor(sn, faulty):
    return monitors.mon_c06(sn, faulty)


def tweak(rng, sc):
    # claims everywhere, claim cache partly stale, some claims missing in the API too
    if rng.random() < 0.5:
        sc = gen.gen_rollout(rng)
    cl = rng.choice([["data"], ["data", "logs"], ["a", "b", "c"], ["home"]])
    if not sc["api"].get("set") or not sc["cache"].get("set"):
        return None
    for w in (sc["api"], sc["cache"]):
        w["set"]["claims"] = cl
    for w in (sc["api"], sc["cache"]):
        for p in w["pods"]:
            o = monitors.parse_name(p["name"])[1]
            if o >= 0 and p.get("vols") is not None:
                keep = [v for v in p["vols"] if v["claim"] is None and v["name"] not in cl]
                mode = hash(p["name"]) % 7
                if mode == 0:
                    p["vols"] = keep                                            # storage missing
                else:
                    p["vols"] = [{"name": t, "claim": "%s-%s-%d" % (t, w["set"]["name"], o)} for t in cl] + keep
    allc = sorted({"%s-web-%d" % (t, o) for t in cl for o in range(0, 8)})
    sc["api"]["claims"] = [c for c in allc if rng.random() < 0.5]
    sc["cache"]["claims"] = [c for c in sc["api"]["claims"] if rng.random() < 0.8]
    if rng.random() < 0.12:
        # the pod template carries what a pasted pod manifest carries: a controlling owner reference, name, namespace, uid
        for w in (sc["api"], sc["cache"]):
            w["set"]["tmpl_meta"] = "junk"
    if rng.random() < 0.12 and not sc["api"].get("others") and not sc["cache"].get("others"):
        # a set whose name is as long as a label value may be (63): S-i is then longer than a DNS label
        sc = gen.rename_set(sc, gen.long_name(rng, 60, 63))
    return sc


ADVERSARIAL = ["", "-", "--", "-1", "web", "web-", "web--1", "web-1-", "web-01", "web-1a", "web-a1", "web-1-2", "web-1-2-3", "1-2", "a-b-c-12",
               "web-2147483647", "web-2147483648", "web-99999999999999999999", "web-00000000001", "web- 1", "web-+1", "web--0", "-0", "0", "web-1\n", "wéb-3",
               "web-db-0", "web-0-db", "web-1e3", "web-0x10", "web-１"]


def run_names(ctx, depth):
    rng = ctx.rng
    n = 400 if depth == "quick" else 6000
    cases = []
    for s in ADVERSARIAL:
        cases.append({"pod": s, "set": rng.choice(["web", "a-1", "x-", "-y", "db-0-1"]), "ord": rng.choice([0, 1, 12, MAXI32]), "claim": rng.choice(["data", "d-1", ""])})
    alphabet = "ab-01-9 z"
    while len(cases) < n:
        setname = "".join(rng.choice(alphabet[:7]) for _ in range(rng.randint(0, 6)))
        ordv = rng.choice([0, 1, 7, 10, 99, 1000, MAXI32, rng.randint(0, MAXI32)])
        if rng.random() < 0.5:
            pod = "%s-%d" % (setname, ordv)
        else:
            pod = "".join(rng.choice(alphabet) for _ in range(rng.randint(0, 10)))
        cases.append({"pod": pod, "set": setname, "ord": ordv, "claim": rng.choice(["data", "www-1", "a-"])})
    outs = core.run_harness("names", cases)
    terms = []
    for c, o in zip(cases, outs):
        ctx.evaluations += 1
        ctx.count("family:names")
        ctx.nontriv(c)
        bad = []
        if "panic" in o:
            bad.append("name helper panicked: " + o["panic"])
        else:
            if o["rt_parent"] != c["set"] or o["rt_ordinal"] != c["ord"] or not o["member"]:
                bad.append("name %r of ordinal %d of set %r parses back to (%r, %d)" % (o["pod_name"], c["ord"], c["set"], o["rt_parent"], o["rt_ordinal"]))
            if o["pod_name"] != "%s-%d" % (c["set"], c["ord"]) or o["claim_name"] != "%s-%s-%d" % (c["claim"], c["set"], c["ord"]):
                bad.append("unexpected names %r / %r" % (o["pod_name"], o["claim_name"]))
        if bad:
            ctx.violations.append({"family": "C06/names", "input": c, "observed": o, "clauses": bad, "signature": {"kind": "names"}})
            continue
        terms.append("{| nc_pod := %s; nc_set := %s; nc_ord := %s; nc_claim := %s; nc_parent := %s; nc_ordinal := %s; nc_pod_name := %s; nc_claim_name := %s |}" % (
            Strl(c["pod"]), Strl(c["set"]), Zl(c["ord"]), Strl(c["claim"]), Strl(o["parent"]), Zl(o["ordinal"]), Strl(o["pod_name"]), Strl(o["claim_name"])))
    mm = core.coq_mismatches("C06_names", ["Base", "Slots", "Names"], "names_case", "names_check", terms, shard_size=100)
    for i in mm[:10]:
        ctx.corr_breaks.append({"family": "C06/names", "input": cases[i], "observed": outs[i], "model": "names_check false"})
    ctx.traces_validated += len(terms)
    ctx.sample({"family": "names", "input": cases[3], "observed": outs[3]})
    ctx.families["C06/names"] = {"cases": len(cases), "model_mismatches": len(mm)}


def run(ctx, depth):
    run_names(ctx, depth)
    rc.run_reconcile_property(ctx, depth, "C06", PI, monitor, tweak=tweak, sizes=(250, 5000), fault_bases=(35, 400))


def search(ctx):
    run(ctx, "thorough")


def replay(data):
    v = data.get("violation") or (data.get("correspondence_breaks") or [{}])[0]
    case = v.get("input")
    if not case:
        print(data)
        return 0
    if "pod" in case and "set" in case and "api" not in case:
        print(core.run_harness("names", [case])[0])
        return 0
    return rc.replay_case(case, monitor, PI)
