"""C12 — Status tells the truth."""
from lib import core
from props import reconcile_common as rc, monitors

TITLE = "Status tells the truth"
TECHNIQUE = ("Coq proof over the Gallina model of the whole reconcile (pure pod-phase planner + monadic executor, every API state, "
             "cache and fault oracle) + projected differential correspondence with the real controller + implementation-side monitor")
ASSUMPTIONS = [
    "API-server and informer-cache semantics are modelled (World.v/Reconcile.v api_*), validated against the fake clientsets + harness reactors",
    "domain: observed pods have a non-empty phase and canonical names with distinct ordinals (monitors skip other snapshots; the model covers them)",
]
PI = "pi_status"


def monitor(sn, faulty):
    return monitors.mon_c12(sn)


def tweak(rng, sc):
    return sc


def run_refresh_family(ctx, depth):
    """stale cached set: the status write conflicts, the set informer catches up before the retry (the model keeps the
    cache fixed during a reconcile, so this family is decided by the monitor on the implementation only)"""
    import copy
    from props import gen
    n = 120 if depth == "quick" else 2000
    scs = []
    while len(scs) < n:
        sc = gen.gen_rollout(ctx.rng) if ctx.rng.random() < 0.6 else gen.gen_snapshot(ctx.rng)
        if not sc["api"].get("set") or not sc["cache"].get("set"):
            continue
        a = sc["api"]["set"]
        a["gen"] = sc["cache"]["set"]["gen"] + ctx.rng.choice([1, 1, 2])
        a["rv"] = sc["cache"]["set"]["rv"] + ctx.rng.choice([1, 3])
        if ctx.rng.random() < 0.5:
            a["tmpl"] = 3 if a["tmpl"] != 3 else 1
        sc["ops"] = [{"op": "reconcile", "refresh_on_conflict": True}]
        scs.append(sc)
    outs = core.run_harness_parallel("reconcile", scs, shards=16)
    hit = 0
    for sc, out in zip(scs, outs):
        obs = out["steps"][0]
        ctx.evaluations += 1
        ctx.count("family:status-refresh")
        sn = monitors.Snap(sc, obs)
        sn.final = out.get("final")
        if any(c["verb"] == "update" and c["res"] == "statefulsets" and c.get("err") == "conflict" for c in obs["calls"]):
            hit += 1
            ctx.nontriv([sc["api"], sc["cache"]])
        bad = monitors.mon_c12(sn) if sn.ok else []
        if bad:
            ctx.violations.append({"family": "C12/status-refresh", "input": sc, "observed": obs, "clauses": bad,
                                   "signature": {"kind": "C12", "clause": bad[0][:40]}})
    ctx.families["C12/status-refresh"] = {"cases": n, "with_conflict_then_refresh": hit, "tie": "monitor only (cache refresh between retry attempts is not in the model)"}


def census_bad(final):
    """stored counters against the live pods of the final API state"""
    st = (final.get("set") or {}).get("status")
    if st is None:
        return []
    pods = [p for p in (final.get("pods") or []) if p["owner"] is not None]
    upd, cur = st["updateRevision"], st["currentRevision"]
    want = dict(replicas=len(pods), ready=sum(1 for p in pods if p["phase"] == "Running" and p["ready"]),
                current=sum(1 for p in pods if p["rev"] == cur and not p["term"] and p["phase"] != ""),
                updated=sum(1 for p in pods if p["rev"] == upd and not p["term"] and p["phase"] != ""))
    got = {k: st[k] for k in want}
    return [] if got == want else ["at quiescence the stored status %s is not the census of the live pods %s" % (got, want)]


def run_event_family(ctx, depth):
    """event-driven execution (monitor only): the controller's own informer handlers and work queue decide when a
    reconcile runs.  A pod flaps while the watch of the StatefulSet lags: the reconcile after the flap sees a stale
    cached status, writes nothing, and only the (delayed) event of the earlier status write brings the set back.
    At quiescence (queue empty, caches equal to the API state) the stored counters must be the census."""
    from props import gen
    rng = ctx.rng
    n = 40 if depth == "quick" else 600
    gen.init_hashes()
    scs = []
    for _ in range(n):
        reps = rng.choice([2, 3, 3, 4])
        t = rng.choice([1, 2, 3])
        rev = gen.revname(t)
        s = rc.mkset(replicas=reps, tmpl=t, policy=rng.choice(["OrderedReady", "Parallel"]),
                     claims=rng.choice([[], ["data"]]))
        s["status"].update(replicas=reps, ready=reps, current=reps, updated=reps, currentRevision=rev, updateRevision=rev,
                           observedGeneration=s["gen"], collisionCount=0)
        pods = [rc.mkpod(i, rev, claims=s["claims"], tmpl=t) for i in range(reps)]
        claims = sorted({v["claim"] for p in pods for v in p["vols"] if v["claim"]})
        api = rc.mkworld(s, pods, [rc.mkrev(rev, 1, t, hashlabel=gen.HASH[(t, 0)])], claims)
        victim = "web-%d" % rng.randrange(reps)
        ev_down = rng.choice(["unready", "unready", "fail"]) if s["policy"] == "Parallel" else "unready"
        ops = [{"op": "kubelet", "pod": victim, "ev": ev_down},
               {"op": "refresh", "what": "pods", "notify": True}, {"op": "drain"}]
        if ev_down == "unready":
            ops += [{"op": "kubelet", "pod": victim, "ev": "ready"}]
        else:
            ops += [{"op": "refresh", "what": "pods", "notify": True}, {"op": "drain"},
                    {"op": "kubelet", "pod": victim, "ev": "ready"}]
        lag = rng.random() < 0.75
        if not lag:
            ops += [{"op": "refresh", "what": "set", "notify": True}, {"op": "drain"}]
        ops += [{"op": "refresh", "what": "pods", "notify": True}, {"op": "drain"},
                # the delayed events of the status writes arrive now
                {"op": "refresh", "what": "set", "notify": True}, {"op": "drain"},
                {"op": "refresh", "what": "all", "notify": True}, {"op": "drain"},
                {"op": "refresh", "what": "all", "notify": True}, {"op": "drain"}]
        scs.append(rc.scenario(api, ops=ops, tmpls=(1, 2, 3)))
    outs = core.run_harness_parallel("reconcile", scs, shards=16)
    stale = 0
    for sc, out in zip(scs, outs):
        ctx.evaluations += 1
        ctx.count("family:event-driven")
        drains = [st for st in out["steps"] if isinstance(st, dict) and "drain" in st]
        if any(not d["drain"] for d in drains[1:3]):
            stale += 1                      # a reconcile round in which nothing was queued or nothing needed writing
        bad = []
        if drains and drains[-1]["queue_len"] != 0:
            bad.append("the queue is not empty after the last drain")
        bad += census_bad(out["final"])
        if bad:
            ctx.violations.append({"family": "C12/event-driven", "input": sc, "observed": {"final": out["final"], "drains": drains[-3:]},
                                   "clauses": bad, "signature": {"kind": "C12", "clause": bad[0][:40]}})
        ctx.nontriv(["event", sc["api"]["set"]["replicas"], sc["ops"][0]])
    ctx.families["C12/event-driven"] = {"histories": n, "tie": "monitor only (informer handlers + real work queue; the model covers single reconciles)"}


def run(ctx, depth):
    rc.run_reconcile_property(ctx, depth, "C12", PI, monitor, tweak=tweak)
    run_refresh_family(ctx, depth)
    run_event_family(ctx, depth)


def search(ctx):
    run(ctx, "thorough")


def replay(data):
    v = data.get("violation") or (data.get("correspondence_breaks") or [{}])[0]
    case = v.get("input")
    if not case:
        print(data)
        return 0
    return rc.replay_case(case, monitor, PI)
