"""C12 — Status tells the truth."""
from lib import core
from props import reconcile_common as rc, monitors

TITLE = "Status tells the truth"
TECHNIQUE = ("Coq proof over the Gallina model of the whole reconcile (pure pod-phase planner + monadic executor, every API state, "
             "cache and fault oracle) + projected differential correspondence with the real controller + implementation-side monitor")
ASSUMPTIONS = [
    "API-server and informer-cache semantics are modelled (World.v/Reconcile.v api_*), validated against the fake clientsets + harness reactors",
    "domain: observed pods have a non-empty phase and canonical names with distinct ordinals (monitors skip other snapshots; the model covers them)",
]
PI = "pi_status"


def monitor(sn, faulty):
    return monitors.mon_c12(sn)


def tweak(rng, sc):
    return sc


def run_refresh_family(ctx, depth):
    """stale cached set: the status write conflicts, the set informer catches up before the retry (the model keeps the
    cache fixed during a reconcile, so this family is decided by the monitor on the implementation only)"""
    import copy
    from props import gen
    n = 120 if depth == "quick" else 2000
    scs = []
    while len(scs) < n:
        sc = gen.gen_rollout(ctx.rng) if ctx.rng.random() < 0.6 else gen.gen_snapshot(ctx.rng)
        if not sc["api"].get("set") or not sc["cache"].get("set"):
            continue
        a = sc["api"]["set"]
        a["gen"] = sc["cache"]["set"]["gen"] + ctx.rng.choice([1, 1, 2])
        a["rv"] = sc["cache"]["set"]["rv"] + ctx.rng.choice([1, 3])
        if ctx.rng.random() < 0.5:
            a["tmpl"] = 3 if a["tmpl"] != 3 else 1
        sc["ops"] = [{"op": "reconcile", "refresh_on_conflict": True}]
        scs.append(sc)
    outs = core.run_harness_parallel("reconcile", scs, shards=16)
    hit = 0
    for sc, out in zip(scs, outs):
        obs = out["steps"][0]
        ctx.evaluations += 1
        ctx.count("family:status-refresh")
        sn = monitors.Snap(sc, obs)
        sn.final = out.get("final")
        if any(c["verb"] == "update" and c["res"] == "statefulsets" and c.get("err") == "conflict" for c in obs["calls"]):
            hit += 1
            ctx.nontriv([sc["api"], sc["cache"]])
        bad = monitors.mon_c12(sn) if sn.ok else []
        if bad:
            ctx.violations.append({"family": "C12/status-refresh", "input": sc, "observed": obs, "clauses": bad,
                                   "signature": {"kind": "C12", "clause": bad[0][:40]}})
    ctx.families["C12/status-refresh"] = {"cases": n, "with_conflict_then_refresh": hit, "tie": "monitor only (cache refresh between retry attempts is not in the model)"}


def run(ctx, depth):
    rc.run_reconcile_property(ctx, depth, "C12", PI, monitor, tweak=tweak)
    run_refresh_family(ctx, depth)


def search(ctx):
    run(ctx, "thorough")


def replay(data):
    v = data.get("violation") or (data.get("correspondence_breaks") or [{}])[0]
    case = v.get("input")
    if not case:
        print(data)
        return 0
    return rc.replay_case(case, monitor, PI)
