"""C10 — The controller touches only what it owns; adoption needs a fresh confirmation."""
from lib import core
from props import reconcile_common as rc, monitors

TITLE = "The controller touches only what it owns; adoption needs a fresh confirmation"
TECHNIQUE = ("Coq proof over the Gallina model of the whole reconcile (pure pod-phase planner + monadic executor, every API state, "
             "cache and fault oracle) + projected differential correspondence with the real controller + implementation-side monitor")
ASSUMPTIONS = [
    "API-server and informer-cache semantics are modelled (World.v/Reconcile.v api_*), validated against the fake clientsets + harness reactors",
    "domain: observed pods have a non-empty phase and canonical names with distinct ordinals (monitors skip other snapshots; the model covers them)",
]
PI = "pi_own"


def monitor(sn, faulty):
    return monitors.mon_c10(sn)


def tweak(rng, sc):
    from props import gen
    from props.reconcile_common import ME, STALE, DS, OTHERSET
    # ownership-heavy: re-draw owner / label match / terminating of every pod and revision, sometimes a stale set copy
    if rng.random() < 0.5:
        sc = gen.gen_history(rng)
    for w in (sc["api"], sc["cache"]):
        st = rng.getstate()
        for p in w["pods"]:
            o = rng.random()
            p["owner"] = ME if o < 0.45 else None if o < 0.75 else rng.choice([STALE, DS, OTHERSET])
            p["match"] = rng.random() < 0.8
            p["term"] = rng.random() < 0.15
        rng.setstate(st)          # same draws for the cache copy
    for p in sc["api"]["pods"]:
        o = rng.random()
        p["owner"] = ME if o < 0.45 else None if o < 0.75 else rng.choice([STALE, DS, OTHERSET])
        p["match"] = rng.random() < 0.8
        p["term"] = rng.random() < 0.15
    import copy
    sc["cache"]["pods"] = copy.deepcopy(sc["api"]["pods"])
    for r in sc["api"]["revs"]:
        o = rng.random()
        r["owner"] = ME if o < 0.5 else None if o < 0.8 else rng.choice([STALE, DS, OTHERSET])
    if rng.random() < 0.15 and sc["api"]["pods"]:
        # cached objects are read-only: healthy owned pods whose identity or storage needs the repair path
        # (UpdateStatefulPod works on a copy of the cached pod; the harness compares the caches before and after)
        for p in sc["api"]["pods"]:
            p.update(owner=ME, match=True, term=False, phase="Running", ready=True)
        for p in rng.sample(sc["api"]["pods"], min(len(sc["api"]["pods"]), rng.choice([1, 1, 2]))):
            if rng.random() < 0.7:
                p["namelabel"] = rng.choice([None, "web-zzz"])
            else:
                p["vols"] = [v for v in p["vols"] if v.get("claim") is None]
        sc["cache"]["pods"] = copy.deepcopy(sc["api"]["pods"])
    if rng.random() < 0.12 and sc["api"].get("set") and sc["cache"].get("set"):
        # a stale cached set: the live set was deleted and re-created under the same name (another UID, not being deleted), or is
        # gone, or is being deleted — while orphans (pods, revisions) wait for adoption: nothing may be adopted for the old UID
        how = rng.choice(["replaced", "replaced", "gone", "deleting"])
        if how == "replaced":
            sc["api"]["set"]["uid"] = "u9"
        elif how == "gone":
            sc["api"]["set"] = None
        else:
            sc["api"]["set"]["deleting"] = True
        for r in sc["api"]["revs"]:
            if rng.random() < 0.6:
                r["owner"] = None
        for w in (sc["api"], sc["cache"]):
            st = rng.getstate()
            for p in w["pods"]:
                if rng.random() < 0.4:
                    p["owner"], p["match"], p["term"] = None, True, False
            rng.setstate(st)
        for p in sc["api"]["pods"]:
            rng.random()
    return sc


def run(ctx, depth):
    rc.run_reconcile_property(ctx, depth, "C10", PI, monitor, tweak=tweak)


def search(ctx):
    run(ctx, "thorough")


def replay(data):
    v = data.get("violation") or (data.get("correspondence_breaks") or [{}])[0]
    case = v.get("input")
    if not case:
        print(data)
        return 0
    return rc.replay_case(case, monitor, PI)
