"""C13 — History is trimmed only beyond the limit and never loses a live revision."""
from lib import core
from props import reconcile_common as rc, monitors

TITLE = "History is trimmed only beyond the limit and never loses a live revision"
TECHNIQUE = ("Coq proof over the Gallina model of the whole reconcile (pure pod-phase planner + monadic executor, every API state, "
             "cache and fault oracle) + projected differential correspondence with the real controller + implementation-side monitor")
ASSUMPTIONS = [
    "API-server and informer-cache semantics are modelled (World.v/Reconcile.v api_*), validated against the fake clientsets + harness reactors",
    "domain: observed pods have a non-empty phase and canonical names with distinct ordinals (monitors skip other snapshots; the model covers them)",
]
PI = "pi_rev_delete"


def monitor(sn, faulty):
    return monitors.mon_c13(sn, faulty)


def tweak(rng, sc):
    from props import gen
    # two thirds of the snapshots are revision-heavy
    if rng.random() < 0.67:
        return gen.gen_history(rng)
    return sc


def run(ctx, depth):
    rc.run_reconcile_property(ctx, depth, "C13", PI, monitor, tweak=tweak)


def search(ctx):
    run(ctx, "thorough")


def replay(data):
    v = data.get("violation") or (data.get("correspondence_breaks") or [{}])[0]
    case = v.get("input")
    if not case:
        print(data)
        return 0
    return rc.replay_case(case, monitor, PI)
