"""C01 — desired ordinals = first `replicas` non-negative integers not in delete-slots."""
import itertools, json, re
from lib import core
from lib.core import Zl, Zlist, Bl, Strl, Optl

TITLE = "Desired ordinals = first `replicas` non-negative integers not in delete-slots"
TECHNIQUE = ("Coq proof (characterisation + uniqueness of the desired set, for all r and all annotation strings) over a "
             "Gallina model of helper.go, tied to the code by differential evaluation of the real helpers and of the "
             "real controller against the model inside coqc")
ASSUMPTIONS = [
    "hypothesis of the theorems: 0 <= r and r + |slots| <= MaxInt32 (no int32 wrap of the range counter)",
    "encoding/json is modelled (parse_slots) for the target type []int32; validated by the malformed-annotation stream",
]
MAXI32 = 2147483647

ELEM = r"(?:null|-?(?:0|[1-9][0-9]*))"
GRAMMAR = re.compile(r"^[ \t\r\n]*(?:null|\[[ \t\r\n]*(?:%s(?:[ \t\r\n]*,[ \t\r\n]*%s)*)?[ \t\r\n]*\])[ \t\r\n]*$" % (ELEM, ELEM))


def py_slots(value):
    """Independent reading of the annotation: what []int32 does encoding/json produce (None = error)."""
    if value is None:
        return set()
    if not GRAMMAR.match(value):
        return None
    nums = [0 if t == "null" else int(t) for t in re.findall(ELEM, value)]
    if value.strip(" \t\r\n") == "null":
        return set()
    if any(n < -2**31 or n > MAXI32 for n in nums):
        return None
    return set(nums)


def first_free(r, D):
    out, n = [], 0
    while len(out) < r:
        if n not in D:
            out.append(n)
        n += 1
    return out


def monitor(case, obs):
    """The property, stated directly over the implementation's answers. Returns a list of violated clauses."""
    bad = []
    if "panic" in obs:
        return ["helper panicked: " + obs["panic"]]
    r = case["replicas"]
    val = (case["ann"] or {}).get("delete-slots")
    exp = py_slots(val)
    D = set(obs["slots"])
    if exp is None:
        exp = set()
    if D != exp:
        bad.append("GetDeleteSlots=%s but the annotation denotes %s" % (sorted(D), sorted(exp)))
    if r + len(D) <= MAXI32 and r <= 4096:
        want = first_free(r, D)
        if obs["ords"] != want:
            bad.append("GetPodOrdinals=%s, desired set is %s" % (obs["ords"], want))
        if obs["ords2"] != obs["ords"]:
            bad.append("GetPodOrdinalsFromReplicasAndDeleteSlots disagrees with GetPodOrdinals")
        c, eff = obs["count"], set(obs["eff"])
        if [i for i in range(c) if i not in eff] != want:
            bad.append("[0,count) minus effective slots = %s, desired set is %s" % ([i for i in range(c) if i not in eff], want))
        if eff != {s for s in D if 0 <= s < c}:
            bad.append("effective slots %s are not the slots inside [0,%d)" % (sorted(eff), c))
        if obs["max"] != (max(want) if want else -1):
            bad.append("GetMaxPodOrdinal=%d" % obs["max"])
        if obs["min"] != (min(want) if want else MAXI32):
            bad.append("GetMinPodOrdinal=%d" % obs["min"])
    if obs["slots_after"] != obs["slots"]:
        bad.append("GetMaxReplicaCountAndDeleteSlots modified its argument")
    return bad


def render(lst, rng, style):
    if style == 0:
        return json.dumps(lst)
    if style == 1:
        return "[" + ",".join(str(x) for x in lst) + "]"
    if style == 2:
        return " [ " + " ,\t".join(str(x) for x in lst) + " ]\n"
    lst2 = list(lst) + [rng.choice(lst)] if lst else lst
    rng.shuffle(lst2)
    return json.dumps(lst2)


MALFORMED = [
    "", " ", "null", " null ", "nul", "NULL", "[]", "[ ]", "[", "]", "[1", "1]", "[1,]", "[,1]", "[1,,2]", "[1 2]",
    "[1.0]", "[1.5]", "[1e0]", "[1E2]", "[-]", "[+1]", "[01]", "[-01]", "[00]", "[-0]", "[0]", "[0,0]", "[null]",
    "[null,null]", "[1,null,2]", "[\"1\"]", "[true]", "[false]", "[[1]]", "[{}]", "[{\"a\":1}]", "{}", "{\"a\":[1]}", "1",
    "\"[1]\"", "true", "[1]x", "[1] [2]", "x[1]", "[2147483647]", "[2147483648]", "[-2147483648]", "[-2147483649]",
    "[99999999999999999999]", "[1,2147483648]", "[2147483648,1]", "﻿[1]", "[1] ", " [1]", "[ 1]",
    "[1,\n2]", "[1,\r\n2]", "[1,\t2]", "[1,\x0b2]", "[1,\x0c2]", "[0x10]", "[1_000]", "[1]\x00", "[Infinity]", "[NaN]",
    "[-1]", "[-1,-2]", "[-1,0,1]", "[ -1 , 5 ]", "[1 ,2 , 3]", "[3,2,1]", "[1,1,1]", "[1.0e0]", "[1e]", "[.5]", "[5.]",
    "[-null]", "[nulll]", "[null1]", "[1null]", "nullx", "null null", "[1,2,3,4,5,6,7,8,9,10,11,12]", "[\"a\",1]", "[1,\"a\"]",
    "[1,[2]]", "[1,{}]", "[1,true]", "[\t1\t]", "\n[1]\n", "[1]\n\n", "[-0,0]", "[0,-0]", "[10,2]", "[2,10]", "[007]",
]


def gen_cases(ctx, depth):
    rng = ctx.rng
    cases = []
    quick = depth == "quick"
    # family 1: exhaustive small domain
    R = 4 if quick else 6
    uni = list(range(-2, 8 if quick else 10))
    kmax = 3 if quick else 4
    n1 = 0
    for r in range(0, R + 1):
        for k in range(0, kmax + 1):
            for D in itertools.combinations(uni, k):
                cases.append(({"replicas": r, "ann": {"delete-slots": render(list(D), rng, (n1 % 3))}}, "exhaustive"))
                n1 += 1
    # family 2: extremes, duplicates, other annotations, nil map
    ext = [-2**31, -2**31 + 1, -1, 0, 1, MAXI32 - 1, MAXI32]
    for r in (0, 1, 2, 5):
        for k in (1, 2, 3):
            for D in itertools.combinations(ext, k):
                cases.append(({"replicas": r, "ann": {"delete-slots": render(list(D), rng, 3), "other": "x"}}, "extremes"))
    for r in (0, 3):
        cases.append(({"replicas": r, "ann": None}, "absent"))
        cases.append(({"replicas": r, "ann": {}}, "absent"))
        cases.append(({"replicas": r, "ann": {"paused-reconcile": "true"}}, "absent"))
        cases.append(({"replicas": r, "ann": {"paused-reconcile": "True", "delete-slots": "[1]"}}, "absent"))
    # family 3: malformed stream
    for s in MALFORMED:
        for r in (0, 3):
            cases.append(({"replicas": r, "ann": {"delete-slots": s}}, "malformed"))
    # family 4: random, mostly valid
    for _ in range(300 if quick else 6000):
        r = rng.choice([0, 1, 2, 3, 5, 8, 13, rng.randint(0, 40)])
        k = rng.randint(0, 8)
        D = [rng.choice([rng.randint(-3, r + k + 3), rng.randint(-3, r + k + 3), rng.randint(-50, 200)]) for _ in range(k)]
        s = render(D, rng, rng.randint(0, 3))
        if rng.random() < 0.08 and s:
            i = rng.randrange(len(s))
            s = s[:i] + rng.choice(["", "x", ",", " ", ".", "-", "]", "[", "e", "0"]) + s[i + 1:]
        ann = {"delete-slots": s}
        if rng.random() < 0.2:
            ann["paused-reconcile"] = rng.choice(["true", "false", "", "TRUE"])
        cases.append(({"replicas": r, "ann": ann}, "random"))
    return cases


def term(case, obs):
    ann = case["ann"] or {}
    o = "{| ho_slots := %s; ho_count := %s; ho_eff := %s; ho_ords := %s; ho_max := %s; ho_min := %s; ho_paused := %s |}" % (
        Zlist(obs["slots"]), Zl(obs["count"]), Zlist(obs["eff"]), Zlist(obs["ords"]), Zl(obs["max"]), Zl(obs["min"]), Bl(obs["paused"]))
    return "{| hc_r := %s; hc_slots := %s; hc_pause := %s; hc_obs := %s |}" % (
        Zl(case["replicas"]), Optl(ann.get("delete-slots"), Strl), Optl(ann.get("paused-reconcile"), Strl), o)


def run_helper_family(ctx, depth):
    tagged = gen_cases(ctx, depth)
    cases = [c for c, _ in tagged]
    obs = core.run_harness_parallel("helper", cases)
    terms, keep = [], []
    for (case, fam), o in zip(tagged, obs):
        ctx.evaluations += 1
        ctx.count("family:" + fam)
        bad = monitor(case, o)
        if bad:
            ctx.violations.append({"family": "helper/" + fam, "input": case, "observed": o, "clauses": bad,
                                   "signature": {"kind": "helper", "negative_slot": any(s < 0 for s in o.get("slots", []))}})
        if "panic" in o:
            ctx.corr_breaks.append({"family": "helper/" + fam, "input": case, "observed": o, "model": "model has no panic here"})
            continue
        D = o["slots"]
        ctx.count("slots:%s" % ("none" if not D else "neg" if min(D) < 0 else "inrange" if min(D) < o["count"] else "above"))
        if D and (any(0 <= s < o["count"] for s in D) or any(s < 0 for s in D)):
            ctx.nontriv([case["replicas"], D])
        terms.append(term(case, o))
        keep.append((case, o, fam))
    ctx.sample({"family": "helper", "input": keep[len(keep) // 3][0], "observed": keep[len(keep) // 3][1]})
    ctx.sample({"family": "helper", "input": keep[-1][0], "observed": keep[-1][1]})
    mm = core.coq_mismatches("C01_helper", ["Base", "Slots"], "helper_case", "helper_check", terms)
    for i in mm[:20]:
        case, o, fam = keep[i]
        ann = case["ann"] or {}
        mv = core.coq_eval("C01_mm", ["Base", "Slots"], ["helper_model %s %s %s" % (
            Zl(case["replicas"]), Optl(ann.get("delete-slots"), Strl), Optl(ann.get("paused-reconcile"), Strl))])
        ctx.corr_breaks.append({"family": "helper/" + fam, "input": case, "observed": o, "model": mv})
    ctx.traces_validated += len(terms)
    ctx.families["helper"] = {"cases": len(cases), "model_mismatches": len(mm),
                              "exhaustive_part": "r in 0..%d x subsets of a small slot universe" % (4 if depth == "quick" else 6)}


def controller_monitor(sn, faulty):
    """the controller creates pods at desired ordinals and nowhere else (the vacancy clause is C04's)"""
    from props import monitors
    bad = []
    if not sn.ok:
        return bad
    # "at exactly those ordinals", the other direction, where one reconcile must do it all (Parallel, nothing failing): every
    # desired ordinal that no member pod holds gets its pod — whatever else is around (members whose name carries no usable
    # ordinal, e.g. <set>-4294967296 or <set>-01, hold no ordinal of their own)
    failed_call = any(c.get("err") for c in sn.calls)
    api_set = sn.sc["api"].get("set")
    live_same = api_set is not None and api_set["uid"] == sn.set["uid"] and not api_set["deleting"]
    if sn.parallel and not faulty and not sn.deleting and not sn.paused and sn.set["selector"] == "ok" and sn.obs["result"] == "ok" \
            and not failed_call and live_same and sn.set.get("replicas") is not None:
        held = set()
        for p in sn.claimed:
            parent, o = monitors.parse_name(p["name"])
            if parent == sn.name and o >= 0:
                held.add(o)
        created = {c["name"] for c in sn.calls if c["verb"] == "create" and c["res"] == "pods"}
        for j in sn.desired:
            if j not in held and "%s-%d" % (sn.name, j) not in created:
                bad.append("desired ordinal %d is vacant and was not created by this reconcile (Parallel; desired %s, members %s)"
                           % (j, sn.desired, sorted(p["name"] for p in sn.claimed)))
                break
    if not sn.domain_ok:
        return bad
    for c in sn.calls:
        if c["verb"] == "create" and c["res"] == "pods":
            parent, o = monitors.parse_name(c["name"])
            if parent != sn.name or o not in sn.desired_set:
                bad.append("the controller created pod %s, which is outside the desired set %s (replicas %s, slots %s)"
                           % (c["name"], sn.desired, sn.set["replicas"], sorted(sn.slots)))
    return bad


def controller_tweak(rng, sc):
    """now and then a member pod whose name carries no usable ordinal (it does not fit an int32, or it is written with a
    leading zero): it holds no desired ordinal and takes nobody's place"""
    from props import reconcile_common as rc
    st = sc["api"].get("set")
    if st is None or sc["cache"].get("set") is None or rng.random() > 0.2:
        return sc
    name = st["name"]
    k = rng.randrange(0, 4)
    stray = rng.choice(["%s-4294967296" % name, "%s-%d9999999999" % (name, k + 1), "%s-99999999999999999999" % name])
    ref = next((p for p in sc["api"]["pods"] if p.get("owner")), None)
    pod = rc.mkpod(0, (ref or {}).get("rev", ""), name=stray, claims=st.get("claims") or [], tmpl=(ref or {}).get("tmpl", 1))
    if rng.random() < 0.6:
        for w in (sc["api"], sc["cache"]):
            w["set"]["policy"] = "Parallel"
    for w in (sc["api"], sc["cache"]):
        w["pods"] = [p for p in w["pods"] if p["name"] != stray] + [dict(pod)]
    return sc


def run(ctx, depth):
    run_helper_family(ctx, depth)
    from props import reconcile_common as rc
    # the controller side of the property: every pod create of the real controller is at a desired ordinal,
    # and the create calls agree with the model of the whole reconcile
    rc.run_reconcile_property(ctx, depth, "C01", "pi_pod_create", controller_monitor, tweak=controller_tweak, sizes=(220, 5000), fault_bases=(0, 100))


def search(ctx):
    run(ctx, "thorough")


def replay(data):
    v = data.get("violation") or (data.get("correspondence_breaks") or [{}])[0]
    case = v.get("input")
    if not case:
        print(json.dumps(data, indent=1))
        return 0
    if "replicas" in case and "set" not in case:
        o = core.run_harness("helper", [case])[0]
        ann = case["ann"] or {}
        mv = core.coq_eval("C01_replay", ["Base", "Slots"], ["helper_model %s %s %s" % (
            Zl(case["replicas"]), Optl(ann.get("delete-slots"), Strl), Optl(ann.get("paused-reconcile"), Strl))])
        print("input         :", json.dumps(case))
        print("implementation:", json.dumps(o))
        print("model         :", mv)
        print("monitor       :", monitor(case, o))
        return 1 if monitor(case, o) else 0
    from props import reconcile_common as rc
    return rc.replay_case(case)
