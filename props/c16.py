"""C16 — no lost wake-ups: every relevant event gets the right set reconciled."""
import itertools, json, os
from concurrent.futures import ThreadPoolExecutor
from lib import core
from lib.core import Bl, Strl, Zl

TITLE = "No lost wake-ups: every relevant event gets the right set reconciled"
TECHNIQUE = ("Coq proof (handlers = declarative enqueue specification for every event shape and any lister; "
             "worker/queue state machine for every outcome list) over a Gallina model of the informer handlers and "
             "of processNextWorkItem, tied to the code by differential runs of the real controller's handlers and "
             "real work queue against the model inside coqc (exhaustive over the finite event-shape domain)")
ASSUMPTIONS = [
    "CONTRACT, modelled not verified: client-go's rate-limiting work queue and DefaultControllerRateLimiter "
    "(coq/Queue.v: Add/Get/Done/AddRateLimited/Forget/NumRequeues, dirty and processing sets; AddRateLimited "
    "simplified to an immediate re-add); validated on every run by the `worker` correspondence on the real queue",
    "hypothesis lister_wf: the set lister holds at most one set per namespace/name (it is an indexer keyed so)",
    "reading of the property: a pod without labels matches no set; an orphan's deletion and an orphan update "
    "changing neither labels nor owner are not relevant events; a pod add carrying a deletion timestamp is a delete",
    "label selector evaluation (matchLabels, In, NotIn, Exists, DoesNotExist; arity errors) is modelled; label "
    "keys/values are assumed syntactically valid; metav1.GetControllerOf is applied by the driver when abstracting a pod",
    "handler results (keys drained from the real queue in Get order) are compared with the first occurrences of the "
    "model's handle as ORDERED lists, except when several sets match an orphan (the lister iterates a Go map): then as "
    "sets of equal size; the monitor compares sets; informer delivery, resync and the Run loop are outside the model",
]
HARNESSES = ["harness_c16"]
BIN = "harness_c16"
IMPORTS = ["Base", "Handlers", "Queue"]
API = "apps.pingcap.com/v1"

# ------------------------------------------------------------------ concrete objects of the shape domain
def ml(**kv):
    return {"matchLabels": dict(kv)}


THIS = {"ns": "ns1", "name": "a", "uid": "ua", "selector": ml(app="a")}
OTHER = {"ns": "ns1", "name": "b", "uid": "ub", "selector": ml(tier="x")}
FAR = {"ns": "ns2", "name": "a", "uid": "ua2", "selector": ml(app="a")}
EMPTYSEL = {"ns": "ns1", "name": "e", "uid": "ue", "selector": {}}
NILSEL = {"ns": "ns1", "name": "n", "uid": "un", "selector": None}
LISTERS = {
    "full": [THIS, OTHER, FAR, EMPTYSEL, NILSEL],
    "two": [OTHER, THIS],
    "other-only": [OTHER, FAR],
    "none": [],
}


def owner(kind, name, uid, api=API, controller=True, block=True):
    return {"api": api, "kind": kind, "name": name, "uid": uid, "controller": controller, "block": block}


OWNERS = {
    "none": [],
    "this": [owner("StatefulSet", "a", "ua")],
    "stale": [owner("StatefulSet", "a", "ua-old")],
    "otherkind": [owner("ReplicaSet", "a", "ua", api="apps/v1")],
    "otherset": [owner("StatefulSet", "b", "ub")],
}
LABELS = {
    "this": {"app": "a"},
    "other": {"tier": "x"},
    "both": {"app": "a", "tier": "x"},
    "none": {"app": "z"},
    "nolabels": None,
}


def mkpod(o, l, rv="1", deleting=False, ns="ns1", name="a-0"):
    return {"ns": ns, "name": name, "labels": LABELS[l] if isinstance(l, str) else l,
            "owners": OWNERS[o] if isinstance(o, str) else o, "rv": rv, "deleting": deleting}


# ------------------------------------------------------------------ the property, in Python (monitor)
def set_key(s):
    return s["name"] if s["ns"] == "" else s["ns"] + "/" + s["name"]


def controller_of(pod):
    for o in pod.get("owners") or []:
        if o.get("controller") is True:
            return o
    return None


def same_owner(a, b):
    if a is None or b is None:
        return a is None and b is None
    return all(a.get(f) == b.get(f) for f in ("api", "kind", "name", "uid", "block"))


def req_ok(r):
    n = len(r.get("values") or [])
    return {"In": n > 0, "NotIn": n > 0, "Exists": n == 0, "DoesNotExist": n == 0}.get(r["operator"], False)


def sel_reqs(sel):
    reqs = [{"key": k, "operator": "In", "values": [v]} for k, v in sorted((sel.get("matchLabels") or {}).items())]
    return reqs + list(sel.get("matchExpressions") or [])


def selector_selects(sel, labels):
    """well formed, non-empty ('an empty selector matches nothing') and matching"""
    if sel is None:
        return False
    reqs = sel_reqs(sel)
    if not reqs or not all(req_ok(r) for r in reqs):
        return False
    for r in reqs:
        has, v, vals = r["key"] in labels, labels.get(r["key"]), r.get("values") or []
        ok = {"In": has and v in vals, "NotIn": (not has) or v not in vals,
              "Exists": has, "DoesNotExist": not has}[r["operator"]]
        if not ok:
            return False
    return True


def owner_keys(sets, pod):
    """the set controlling the pod: kind StatefulSet, the pod's namespace, name AND uid"""
    c = controller_of(pod)
    if c is None or c["kind"] != "StatefulSet":
        return set()
    return {set_key(s) for s in sets if s["ns"] == pod["ns"] and s["name"] == c["name"] and s["uid"] == c["uid"]}


def matching_keys(sets, pod):
    labels = pod.get("labels") or {}
    if not labels:
        return set()
    return {set_key(s) for s in sets if s["ns"] == pod["ns"] and selector_selects(s["selector"], labels)}


def expected(sets, ev):
    k = ev["kind"]
    if k in ("set_add", "set_update", "set_delete"):
        return {set_key(ev["set"])}
    if k == "set_tombstone":
        return {ev["key"]}
    if k == "tombstone" and ev["tomb"] != "pod":
        return set()
    pod = ev["pod"]
    if k in ("delete", "tombstone") or (k == "add" and pod["deleting"]):
        return owner_keys(sets, pod)
    orphan = controller_of(pod) is None
    if k == "add":
        return matching_keys(sets, pod) if orphan else owner_keys(sets, pod)
    old = ev["old"]
    if pod["rv"] == old["rv"]:
        return set()
    res = set()
    owner_changed = not same_owner(controller_of(pod), controller_of(old))
    labels_changed = (pod.get("labels") or {}) != (old.get("labels") or {})
    if owner_changed:
        res |= owner_keys(sets, old)
    if not orphan:
        res |= owner_keys(sets, pod)
    elif owner_changed or labels_changed:
        res |= matching_keys(sets, pod)
    return res


def invalid_selector_in_ns(sets, ev):
    pod = ev.get("pod")
    return bool(pod) and any(s["ns"] == pod["ns"] and s["selector"] is not None and sel_reqs(s["selector"])
                             and not all(req_ok(r) for r in sel_reqs(s["selector"])) for s in sets)


def monitor_handlers(case, obs):
    bad = []
    sets, ev = case["sets"], case["event"]
    want = expected(sets, ev)
    for path, kk, pk in (("hook", "keys", "panic"), ("informer", "keys_informer", "panic_informer")):
        if obs.get(pk):
            bad.append("%s: handler panicked: %s" % (path, obs[pk]))
        got = obs.get(kk) or []
        if len(set(got)) != len(got):
            bad.append("%s: key obtained twice from the queue: %s" % (path, got))
        for key in sorted(want - set(got)):
            bad.append("%s: LOST WAKE-UP: %s is not enqueued (event %s; enqueued %s)" % (path, key, ev["kind"], got))
        for key in sorted(set(got) - want):
            bad.append("%s: %s enqueued although the event does not concern it (event %s)" % (path, key, ev["kind"]))
    if obs.get("pre"):
        bad.append("keys queued before any event: %s" % obs["pre"])
    if obs.get("handlers_registered") != [1, 1]:
        bad.append("handlers registered on (pod, set) informers: %s" % obs.get("handlers_registered"))
    return bad


# ------------------------------------------------------------------ Gallina rendering
OPS = {"In": "OpIn", "NotIn": "OpNotIn", "Exists": "OpExists", "DoesNotExist": "OpDoesNotExist"}


def strs(l):
    return "[" + "; ".join(Strl(x) for x in l) + "]"


def sel_term(sel):
    if sel is None:
        return "SelNil"
    return "(Sel [" + "; ".join("{| rq_key := %s; rq_op := %s; rq_vals := %s |}" % (
        Strl(r["key"]), OPS.get(r["operator"], "OpUnknown"), strs(r.get("values") or [])) for r in sel_reqs(sel)) + "])"


def set_term(s):
    return "{| s_ns := %s; s_name := %s; s_uid := %s; s_sel := %s |}" % (
        Strl(s["ns"]), Strl(s["name"]), Strl(s["uid"]), sel_term(s.get("selector")))


def dedupe(sets):
    """the indexer keeps one object per namespace/name (a later Add replaces the earlier one)"""
    seen, out = set(), []
    for s in reversed(sets):
        if (s["ns"], s["name"]) not in seen:
            seen.add((s["ns"], s["name"]))
            out.append(s)
    return list(reversed(out))


def lister_term(sets):
    return "[" + "; ".join(set_term(s) for s in dedupe(sets)) + "]"


def owner_term(o):
    if o is None:
        return "None"
    blk = "None" if o.get("block") is None else "(Some %s)" % Bl(o["block"])
    return "(Some {| or_api := %s; or_kind := %s; or_name := %s; or_uid := %s; or_block := %s |})" % (
        Strl(o["api"]), Strl(o["kind"]), Strl(o["name"]), Strl(o["uid"]), blk)


def pod_term(p):
    lb = sorted((p.get("labels") or {}).items())
    return "{| p_ns := %s; p_name := %s; p_labels := [%s]; p_owner := %s; p_rv := %s; p_deleting := %s |}" % (
        Strl(p["ns"]), Strl(p["name"]), "; ".join("(%s, %s)" % (Strl(k), Strl(v)) for k, v in lb),
        owner_term(controller_of(p)), Strl(p["rv"]), Bl(p["deleting"]))


def event_term(ev):
    k = ev["kind"]
    if k == "add":
        return "(EvAdd %s)" % pod_term(ev["pod"])
    if k == "update":
        return "(EvUpdate %s %s)" % (pod_term(ev["old"]), pod_term(ev["pod"]))
    if k == "delete":
        return "(EvDelete %s)" % pod_term(ev["pod"])
    if k == "tombstone":
        return {"pod": lambda: "(EvDeleteTombstone (TombPod %s))" % pod_term(ev["pod"]),
                "notpod": lambda: "(EvDeleteTombstone TombNotPod)",
                "nottomb": lambda: "(EvDeleteTombstone NotTomb)"}[ev["tomb"]]()
    if k == "set_add":
        return "(EvSetAdd %s)" % set_term(ev["set"])
    if k == "set_update":
        return "(EvSetUpdate %s %s)" % (set_term(ev["oldset"]), set_term(ev["set"]))
    if k == "set_delete":
        return "(EvSetDelete %s)" % set_term(ev["set"])
    if k == "set_tombstone":
        return "(EvSetDeleteTombstone %s)" % Strl(ev["key"])
    raise ValueError(k)


def handlers_term(lister_name, ev, keys):
    return "{| hc_lister := %s; hc_event := %s; hc_obs := %s |}" % (lister_name, event_term(ev), strs(keys))


# ------------------------------------------------------------------ the finite shape domain
# two more owner shapes, used by the thorough tier on top of the product: the same set referenced with another
# apiVersion (updatePod's DeepEqual sees a changed reference; resolution ignores the group) and a reference to
# this set that is not a controller reference (the pod is an orphan)
OWNERS_X = dict(OWNERS)
OWNERS_X["this-otherapi"] = [owner("StatefulSet", "a", "ua", api="apps/v1")]
OWNERS_X["this-noncontroller"] = [owner("StatefulSet", "a", "ua", controller=False)]


def shape_events(owners=None, only_new=False):
    """event kind x old/new owner x old/new labels x resourceVersion equal x deletionTimestamp x tombstone validity"""
    global OWNERS
    if owners is not None:
        saved, OWNERS = OWNERS, owners
        try:
            evs = shape_events()
        finally:
            OWNERS = saved
        if only_new:
            evs = [e for e in evs if e[2] not in saved or any(
                json.dumps(p.get("owners")) not in {json.dumps(v) for v in saved.values()}
                for p in (e[0].get("old"), e[0].get("pod")) if p)]
        return evs
    evs = []
    pods = [(o, l, d) for o in OWNERS for l in LABELS for d in (False, True)]
    for o, l, d in pods:
        p = mkpod(o, l, deleting=d)
        evs.append(({"kind": "add", "pod": p}, "add", o, l))
        evs.append(({"kind": "delete", "pod": p}, "delete", o, l))
        evs.append(({"kind": "tombstone", "tomb": "pod", "pod": p}, "tombstone", o, l))
    evs.append(({"kind": "tombstone", "tomb": "notpod"}, "tombstone-notpod", "-", "-"))
    evs.append(({"kind": "tombstone", "tomb": "nottomb"}, "tombstone-nottomb", "-", "-"))
    for oo, ol in itertools.product(OWNERS, LABELS):
        for no, nl, nd in pods:
            for rveq in (False, True):
                old = mkpod(oo, ol, rv="7")
                new = mkpod(no, nl, rv="7" if rveq else "8", deleting=nd)
                evs.append(({"kind": "update", "old": old, "pod": new}, "update", no, nl))
    gone = {"ns": "ns3", "name": "gone", "uid": "ug", "selector": ml(app="g")}
    for s in (THIS, gone):
        s2 = dict(s, rv="2")
        evs.append(({"kind": "set_add", "set": s}, "set", "-", "-"))
        evs.append(({"kind": "set_update", "oldset": s, "set": s2}, "set", "-", "-"))
        evs.append(({"kind": "set_delete", "set": s}, "set", "-", "-"))
        evs.append(({"kind": "set_tombstone", "key": set_key(s), "set": s}, "set", "-", "-"))
    evs.append(({"kind": "set_tombstone", "key": "ns3/never-seen"}, "set", "-", "-"))
    return evs


def extra_events(rng, n):
    """outside the product: several owner references, non-controller references, references differing only in
    apiVersion / blockOwnerDeletion, other namespaces, richer selectors"""
    evs = []
    refs = [owner("StatefulSet", "a", "ua"), owner("StatefulSet", "a", "ua", controller=False),
            owner("StatefulSet", "a", "ua", controller=None), owner("StatefulSet", "a", "ua", api="apps/v1"),
            owner("StatefulSet", "a", "ua", block=None), owner("StatefulSet", "a", "ua", block=False),
            owner("StatefulSet", "b", "ub"), owner("StatefulSet", "b", "ub", controller=False),
            owner("StatefulSet", "a", "ua2"), owner("statefulset", "a", "ua"), owner("StatefulSet", "A", "ua"),
            owner("StatefulSet", "", "ua"), owner("StatefulSet", "a", ""), owner("Deployment", "b", "ub"),
            owner("StatefulSet", "e", "ue"), owner("StatefulSet", "n", "un"), owner("StatefulSet", "missing", "um")]
    labelsets = [None, {}, {"app": "a"}, {"app": "b"}, {"tier": "x"}, {"app": "a", "tier": "x"}, {"app": "a", "env": "p"},
                 {"env": "p"}, {"app": ""}, {"tier": "y", "app": "a"}]

    def rpod():
        k = rng.choice([0, 0, 1, 1, 1, 2])
        return {"ns": rng.choice(["ns1", "ns1", "ns1", "ns2", "ns3"]), "name": "a-0", "labels": rng.choice(labelsets),
                "owners": [dict(rng.choice(refs)) for _ in range(k)], "rv": rng.choice(["1", "2", "3", ""]),
                "deleting": rng.random() < 0.2}
    for _ in range(n):
        kind = rng.choice(["add", "update", "update", "update", "delete", "tombstone"])
        ev = {"kind": kind, "pod": rpod()}
        if kind == "update":
            old = rpod()
            old["ns"] = ev["pod"]["ns"]
            if rng.random() < 0.5:
                old["labels"] = ev["pod"]["labels"]
            if rng.random() < 0.4:
                old["owners"] = [dict(o) for o in ev["pod"]["owners"]]
            ev["old"] = old
        if kind == "tombstone":
            ev["tomb"] = "pod"
        evs.append(ev)
    return evs


def rich_listers(rng, n):
    """listers with genuinely different, convertible selectors (expressions included)"""
    reqs = [{"key": "app", "operator": "In", "values": ["a"]}, {"key": "app", "operator": "In", "values": ["a", "b"]},
            {"key": "app", "operator": "NotIn", "values": ["a"]}, {"key": "tier", "operator": "Exists", "values": []},
            {"key": "tier", "operator": "DoesNotExist", "values": []}, {"key": "env", "operator": "NotIn", "values": ["p", "q"]},
            {"key": "env", "operator": "Exists"}]
    out = []
    for _ in range(n):
        sets = []
        for i in range(rng.randint(0, 6)):
            kind = rng.choice(["ml", "ml", "expr", "both", "empty", "nil"])
            if kind == "ml":
                sel = ml(**dict(rng.sample([("app", "a"), ("app", "b"), ("tier", "x"), ("env", "p")], rng.randint(1, 2))))
            elif kind == "expr":
                sel = {"matchExpressions": rng.sample(reqs, rng.randint(1, 3))}
            elif kind == "both":
                sel = {"matchLabels": {"app": rng.choice("ab")}, "matchExpressions": rng.sample(reqs, rng.randint(1, 2))}
            elif kind == "empty":
                sel = rng.choice([{}, {"matchLabels": {}}, {"matchExpressions": []}])
            else:
                sel = None
            sets.append({"ns": rng.choice(["ns1", "ns1", "ns2"]), "name": rng.choice(["a", "b", "e", "n", "c%d" % (i % 2)]),
                         "uid": rng.choice(["ua", "ub", "u%d" % i]), "selector": sel})
        out.append(dedupe(sets))
    return out


INVALID_SELECTORS = [
    {"matchExpressions": [{"key": "app", "operator": "In", "values": []}]},
    {"matchExpressions": [{"key": "app", "operator": "NotIn"}]},
    {"matchExpressions": [{"key": "app", "operator": "Exists", "values": ["a"]}]},
    {"matchExpressions": [{"key": "app", "operator": "DoesNotExist", "values": ["a"]}]},
    {"matchExpressions": [{"key": "app", "operator": "Bogus", "values": ["a"]}]},
    {"matchLabels": {"app": "a"}, "matchExpressions": [{"key": "tier", "operator": "in", "values": ["x"]}]},
]


def invalid_selector_cases():
    """a set with an unconvertible selector (admitted: the CRD does not validate selectors) next to healthy sets"""
    cases = []
    for i, sel in enumerate(INVALID_SELECTORS):
        bad1 = {"ns": "ns1", "name": "bad", "uid": "ux", "selector": sel}
        bad2 = {"ns": "ns2", "name": "bad", "uid": "ux2", "selector": sel}
        for lname, sets in (("bad-in-ns1", [THIS, bad1, OTHER]), ("bad-first", [bad1, THIS, OTHER]),
                            ("bad-in-ns2", [THIS, OTHER, bad2])):
            evs = [{"kind": "add", "pod": mkpod("none", "this")},
                   {"kind": "add", "pod": mkpod("none", "both")},
                   {"kind": "add", "pod": mkpod("this", "this")},
                   {"kind": "delete", "pod": mkpod("this", "this")},
                   {"kind": "update", "old": mkpod("none", "none", rv="1"), "pod": mkpod("none", "other", rv="2")},
                   {"kind": "update", "old": mkpod("this", "other", rv="1"), "pod": mkpod("none", "other", rv="2")},
                   {"kind": "update", "old": mkpod("this", "this", rv="1"), "pod": mkpod("otherset", "this", rv="2")},
                   {"kind": "set_update", "oldset": bad1, "set": bad1}]
            for ev in evs:
                cases.append(({"sets": sets, "event": ev}, lname))
    return cases


# ------------------------------------------------------------------ running
def run_sharded(cmd, cases, shards=16, timeout=900):
    if len(cases) < 32:
        return core.run_harness(cmd, cases, timeout, binary=BIN)
    per = (len(cases) + shards - 1) // shards
    parts = [cases[i:i + per] for i in range(0, len(cases), per)]
    with ThreadPoolExecutor(max_workers=shards) as ex:
        res = list(ex.map(lambda part: core.run_harness(cmd, part, timeout, binary=BIN), parts))
    return [o for part in res for o in part]


def signature(case, clauses):
    cause = "other"
    pod = case["event"].get("pod")
    if pod and any("LOST WAKE-UP" in c for c in clauses) and invalid_selector_in_ns(case["sets"], case["event"]) \
            and controller_of(pod) is None:
        cause = "invalid_selector_in_namespace"
    return {"kind": "handlers", "cause": cause, "event": case["event"]["kind"]}


def check_handlers(ctx, tag, tagged, family, listers=None):
    """tagged: list of (case, label). Runs harness, monitor and correspondence."""
    cases = [c for c, _ in tagged]
    obs = run_sharded("handlers", cases)
    terms, prelude, lnames = [], [], {}
    for (case, label), o in zip(tagged, obs):
        ctx.evaluations += 1
        if "harness_error" in o:
            raise core.BuildError("harness_c16 handlers: " + o["harness_error"])
        bad = monitor_handlers(case, o)
        if bad:
            ctx.violations.append({"family": family, "input": case, "observed": o, "clauses": bad,
                                   "signature": signature(case, bad)})
        lt = lister_term(case["sets"])
        if lt not in lnames:
            lnames[lt] = "L%d" % len(lnames)
            prelude.append("Definition %s : lister := %s." % (lnames[lt], lt))
        terms.append(handlers_term(lnames[lt], case["event"], o.get("keys") or []))
        terms.append(handlers_term(lnames[lt], case["event"], o.get("keys_informer") or []))
        want = expected(case["sets"], case["event"])
        if want:
            ctx.nontriv([family, case])
        ctx.count("%s:%s" % (family, label))
        ctx.count("enqueued:%d" % len(want))
    mm = core.coq_mismatches("C16_" + tag, IMPORTS, "handlers_case", "handlers_check", terms,
                             prelude="\n".join(prelude))
    seen = set()
    for i in mm:
        ci = i // 2
        if ci in seen or len(seen) >= 10:
            continue
        seen.add(ci)
        case, o = cases[ci], obs[ci]
        mv = core.coq_eval("C16_mm_" + tag, IMPORTS, ["handle %s %s" % (lister_term(case["sets"]), event_term(case["event"]))])
        ctx.corr_breaks.append({"family": family, "input": case, "observed": o, "model": mv,
                                "path": "hook" if i % 2 == 0 else "informer"})
    ctx.traces_validated += len(terms)
    return cases, obs, len(mm)


def fam_shapes(ctx, depth):
    evs = shape_events()
    lnames = ["full"] if depth == "quick" else ["full", "two", "other-only", "none"]
    tagged = []
    for ln in lnames:
        for ev, kind, o, l in evs:
            tagged.append(({"sets": LISTERS[ln], "event": ev}, "%s/owner=%s/labels=%s" % (kind, o, l)))
    nx = 0
    if depth != "quick":
        for ev, kind, o, l in shape_events(OWNERS_X, only_new=True):
            if kind != "set":
                tagged.append(({"sets": LISTERS["full"], "event": ev}, "x/%s/owner=%s/labels=%s" % (kind, o, l)))
                nx += 1
    cases, obs, nmm = check_handlers(ctx, "shapes", tagged, "shapes")
    i = next(i for i, c in enumerate(cases) if c["event"]["kind"] == "update" and len(obs[i]["keys"]) == 2)
    ctx.sample({"family": "shapes", "input": cases[i], "observed": obs[i]})
    ctx.sample({"family": "shapes", "input": cases[3], "observed": obs[3]})
    ctx.families["shapes"] = {"cases": len(cases), "shapes": len(evs), "listers": lnames, "model_mismatches": nmm,
                              "extended_owner_shapes": nx,
                              "exhaustive": "event kind x old/new owner in {none, this, stale uid, other kind, other set} x "
                                            "old/new labels in {this, other, both, none, no labels} x resourceVersion equal x "
                                            "deletionTimestamp x tombstone validity; set add/update/delete/tombstone",
                              "comparison": "ordered key lists, sets when several sets match an orphan (hook path and registered-informer-handler path)"}


def fam_extra(ctx, depth):
    n = 400 if depth == "quick" else 20000
    evs = extra_events(ctx.rng, n)
    rl = rich_listers(ctx.rng, 40 if depth == "quick" else 1000)
    tagged = []
    for i, ev in enumerate(evs):
        sets = LISTERS["full"] if i % 3 == 0 else rl[i % len(rl)]
        tagged.append(({"sets": sets, "event": ev}, ev["kind"]))
    cases, obs, nmm = check_handlers(ctx, "extra", tagged, "extra")
    ctx.families["extra"] = {"cases": len(cases), "model_mismatches": nmm,
                             "what": "random: several / non-controller / look-alike owner references, three namespaces, "
                                     "listers with expression selectors, empty and nil selectors, duplicate keys"}


def fam_invalid(ctx, depth):
    tagged = invalid_selector_cases()
    cases, obs, nmm = check_handlers(ctx, "invalid", tagged, "invalid-selector")
    ctx.families["invalid-selector"] = {"cases": len(cases), "model_mismatches": nmm,
                                        "what": "a set whose selector LabelSelectorAsSelector rejects, next to healthy sets"}


# ------------------------------------------------------------------ worker
def worker_cases(depth):
    n = 5 if depth == "quick" else 7
    nb = 4 if depth == "quick" else 5
    cases = []
    for k in range(1, n + 1):
        for seq in itertools.product([False, True], repeat=k):
            cases.append({"outcomes": list(seq), "success": "alternate", "bystander": False})
    for k in range(1, nb + 1):
        for seq in itertools.product([False, True], repeat=k):
            cases.append({"outcomes": list(seq), "success": "paused", "bystander": True})
    # long runs of failing reconciles (a retry budget, a counter that wraps, a give-up threshold would show here):
    # the queue is replaced by one of the same type with a short backoff so that they take bounded time
    longs = [[False] * 24 + [True], [False] * 17 + [True] + [False] * 3 + [True], [False] * 40]
    if depth != "quick":
        longs += [[False] * 130 + [True, False, False, True], [False] * 64 + [True] + [False] * 33]
    for seq in longs:
        cases.append({"outcomes": seq, "success": "alternate", "bystander": False, "fast": True})
    return cases


def monitor_worker(case, obs):
    bad = []
    if obs.get("initial_len") != 1:
        bad.append("the key was not queued by the initial enqueue (len %s)" % obs.get("initial_len"))
    prev = 0
    for i, st in enumerate(obs["steps"]):
        if not st["arranged_ok"]:
            raise core.BuildError("harness_c16 worker could not arrange outcome %s at step %d" % (st["want"], i))
        if st["len_before"] < 1:
            bad.append("step %d: the key could not be obtained again (Done not called?)" % i)
        if not st["returned"]:
            bad.append("step %d: processNextWorkItem returned false" % i)
        if st["want"]:
            if st["requeues"] != 0:
                bad.append("step %d: reconcile succeeded but NumRequeues=%d (backoff not cleared)" % (i, st["requeues"]))
        else:
            if st["requeues"] != prev + 1:
                bad.append("step %d: reconcile failed, NumRequeues %d -> %d (expected +1)" % (i, prev, st["requeues"]))
            if not st["back"]:
                bad.append("step %d: LOST RETRY: reconcile failed and the key did not come back within %.0f ms" % (i, st["waited_ms"]))
            elif not case.get("fast") and st["requeues"] >= 1 and st["since_step_ms"] < 0.9 * 5 * 2 ** (st["requeues"] - 1):
                bad.append("step %d: key back after %.2f ms, before the backoff %d ms" % (i, st["since_step_ms"], 5 * 2 ** (st["requeues"] - 1)))
        prev = st["requeues"]
    return bad


def worker_term(case, obs):
    steps = "[" + "; ".join("(%s, %s)" % (Bl(ok), Bl(case["bystander"] and i % 2 == 1)) for i, ok in enumerate(case["outcomes"])) + "]"
    ob = "[" + "; ".join("{| wo_requeues := %s; wo_len := %s; wo_back := %s |}" % (
        Zl(st["requeues"]), Zl(st["len_after"]), Bl(st["back"])) for st in obs["steps"]) + "]"
    return "{| wc_key := %s; wc_other := %s; wc_steps := %s; wc_obs := %s |}" % (Strl(obs["key"]), Strl("ns1/other"), steps, ob)


def fam_worker(ctx, depth):
    cases = worker_cases(depth)
    # longest first so that the shards finish together
    order = sorted(range(len(cases)), key=lambda i: -sum(1 for x in cases[i]["outcomes"] if not x))
    shards = [[] for _ in range(16)]
    for j, i in enumerate(order):
        shards[j % 16].append(i)
    obs = [None] * len(cases)
    with ThreadPoolExecutor(max_workers=16) as ex:
        for idx, res in zip(shards, ex.map(lambda idx: core.run_harness("worker", [cases[i] for i in idx], 900, binary=BIN), shards)):
            for i, o in zip(idx, res):
                obs[i] = o
    terms = []
    for case, o in zip(cases, obs):
        ctx.evaluations += 1
        if "harness_error" in o:
            raise core.BuildError("harness_c16 worker: " + o["harness_error"])
        bad = monitor_worker(case, o)
        if bad:
            ctx.violations.append({"family": "worker", "input": case, "observed": o, "clauses": bad,
                                   "signature": {"kind": "worker", "cause": "other"}})
        terms.append(worker_term(case, o))
        if not all(case["outcomes"]):
            ctx.nontriv(["worker", case])
        ctx.count("worker:len=%d%s" % (len(case["outcomes"]), "/bystander" if case["bystander"] else ""))
    mm = core.coq_mismatches("C16_worker", IMPORTS, "worker_case", "worker_check", terms)
    for i in mm[:10]:
        case, o = cases[i], obs[i]
        steps = "[" + "; ".join("(%s, %s)" % (Bl(ok), Bl(case["bystander"] and j % 2 == 1)) for j, ok in enumerate(case["outcomes"])) + "]"
        mv = core.coq_eval("C16_mm_worker", IMPORTS, ["worker_model %s %s %s (q_add %s q_empty)" % (
            Strl(o["key"]), Strl("ns1/other"), steps, Strl(o["key"]))])
        ctx.corr_breaks.append({"family": "worker", "input": case, "observed": o, "model": mv})
    ctx.traces_validated += len(terms)
    k = next(i for i, c in enumerate(cases) if c["outcomes"] == [False, False, True, False])
    ctx.sample({"family": "worker", "input": cases[k],
                "observed": [{f: st[f] for f in ("want", "requeues", "back", "len_after")} for st in obs[k]["steps"]]})
    ctx.families["worker"] = {"cases": len(cases), "model_mismatches": len(mm),
                              "exhaustive": "all success/failure sequences up to length %d on the real processNextWorkItem and "
                                            "real rate-limiting queue; with a bystander key up to length %d" % (
                                                5 if depth == "quick" else 7, 4 if depth == "quick" else 5),
                              "comparison": "per step: NumRequeues(key), queue length after the backoff, key queued again"}


def fam_events_after_failure(ctx, depth):
    """event-driven, on the real controller (harness `reconcile`): a few reconciles of the set fail (API outage), the key waits
    for its rate-limited retry (NumRequeues > 0, queue empty, next retry tens of milliseconds away); a pod or set event
    arriving NOW must put the key into the queue at once — the backoff delays retries, never events."""
    from props import reconcile_common as rc, gen
    rng = ctx.rng
    n = 24 if depth == "quick" else 300
    gen.init_hashes()
    scs = []
    for _ in range(n):
        reps = rng.choice([2, 3, 4])
        t = rng.choice([1, 2, 3])
        rev = gen.revname(t)
        s = rc.mkset(replicas=reps, tmpl=t, policy=rng.choice(["OrderedReady", "Parallel"]))
        have = list(range(reps - 1))
        s["status"].update(replicas=len(have), ready=len(have), current=len(have), updated=len(have), currentRevision=rev,
                           updateRevision=rev, observedGeneration=s["gen"], collisionCount=0)
        pods = [rc.mkpod(i, rev, tmpl=t) for i in have]
        api = rc.mkworld(s, pods, [rc.mkrev(rev, 1, t, hashlabel=gen.HASH[(t, 0)])], [])
        kind = rng.choice(["pod-unready", "pod-fail", "slots", "pause", "replicas"])
        ops = [{"op": "refresh", "what": "all", "notify": True}, {"op": "outage", "on": True}, {"op": "drain", "max": 8}, {"op": "outage", "on": False}]
        if kind == "pod-unready":
            ops += [{"op": "kubelet", "pod": "web-0", "ev": "unready"}, {"op": "refresh", "what": "pods", "notify": True}]
        elif kind == "pod-fail":
            ops += [{"op": "kubelet", "pod": "web-0", "ev": "fail"}, {"op": "refresh", "what": "pods", "notify": True}]
        elif kind == "slots":
            ops += [{"op": "edit", "field": "slots", "str": "[0]"}, {"op": "refresh", "what": "set", "notify": True}]
        elif kind == "pause":
            ops += [{"op": "edit", "field": "pause", "str": "true"}, {"op": "refresh", "what": "set", "notify": True}]
        else:
            ops += [{"op": "edit", "field": "replicas", "int": reps + 1}, {"op": "refresh", "what": "set", "notify": True}]
        sc = rc.scenario(api, cache=rc.mkworld(None, [], [], []), ops=ops, tmpls=(1, 2, 3))
        sc["_kind"] = kind
        scs.append(sc)
    outs = core.run_harness_parallel("reconcile", [{k: v for k, v in sc.items() if not k.startswith("_")} for sc in scs], shards=16)
    waiting = 0
    for sc, out in zip(scs, outs):
        ctx.evaluations += 1
        ctx.count("family:events-after-failure")
        st = out["steps"]
        drain, ev = st[2], st[-1]
        bad = []
        if drain.get("queue_len") == 0 and drain.get("requeues", 0) > 0 and ev.get("events", 0) > 0:
            waiting += 1
            if ev.get("queue_len", 0) < 1:
                bad.append("informer: LOST WAKE-UP: after %d failed reconciles the key waits for its retry (queue empty); a %s event was "
                           "delivered and the key is still not in the queue" % (drain["requeues"], sc["_kind"]))
        if bad:
            ctx.violations.append({"family": "events-after-failure", "input": {k: v for k, v in sc.items() if not k.startswith("_")},
                                   "observed": {"drain_requeues": drain.get("requeues"), "event_step": ev}, "clauses": bad,
                                   "signature": {"kind": "lost-wakeup-after-failure"}})
        ctx.nontriv(["events-after-failure", sc["_kind"]])
    ctx.families["events-after-failure"] = {"histories": n, "with_the_key_waiting_for_a_retry_when_the_event_arrived": waiting,
                                            "tie": "monitor only (real handlers, real rate-limited queue with the default backoff)"}


def run(ctx, depth):
    fam_events_after_failure(ctx, depth)
    # regressions first; the family that replays the refuted clause (known defect of the current tree) last, so
    # that the replay file of a run names a new failure whenever there is one
    fam_shapes(ctx, depth)
    fam_extra(ctx, depth)
    fam_worker(ctx, depth)
    fam_invalid(ctx, depth)


def search(ctx):
    run(ctx, "thorough")


def replay(data):
    core.build_harness(BIN)
    v = data.get("violation") or (data.get("correspondence_breaks") or [{}])[0]
    case = v.get("input")
    if not case:
        print(json.dumps(data, indent=1))
        return 0
    print("input         :", json.dumps(case))
    if "outcomes" in case:
        o = core.run_harness("worker", [case], binary=BIN)[0]
        steps = "[" + "; ".join("(%s, %s)" % (Bl(ok), Bl(case.get("bystander", False) and j % 2 == 1)) for j, ok in enumerate(case["outcomes"])) + "]"
        mv = core.coq_eval("C16_replay", IMPORTS, ["worker_model %s %s %s (q_add %s q_empty)" % (
            Strl(o["key"]), Strl("ns1/other"), steps, Strl(o["key"]))])
        bad = monitor_worker(case, o)
        print("implementation:", json.dumps([{f: st[f] for f in ("want", "requeues", "back", "len_after", "since_step_ms")} for st in o["steps"]]))
    else:
        o = core.run_harness("handlers", [case], binary=BIN)[0]
        mv = core.coq_eval("C16_replay", IMPORTS, ["handle %s %s" % (lister_term(case["sets"]), event_term(case["event"])),
                                                   "should_enqueue %s %s" % (lister_term(case["sets"]), event_term(case["event"]))])
        bad = monitor_handlers(case, o)
        print("implementation:", json.dumps(o))
        print("property wants:", sorted(expected(case["sets"], case["event"])))
    print("model         :", mv)
    print("monitor       :", bad)
    return 1 if bad else 0
