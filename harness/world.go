package main

// Abstract world <-> concrete Kubernetes objects (the "concretise / abstract" tables of DESIGN 4.2).

import (
	"fmt"
	"sort"
	"strings"
	"time"

	kubeapps "k8s.io/api/apps/v1"
	v1 "k8s.io/api/core/v1"
	metav1 "k8s.io/apimachinery/pkg/apis/meta/v1"
	"k8s.io/apimachinery/pkg/runtime"
	"k8s.io/apimachinery/pkg/types"

	apps "github.com/pingcap/advanced-statefulset/client/apis/apps/v1"
	"github.com/pingcap/advanced-statefulset/client/apis/apps/v1/helper"
	"github.com/pingcap/advanced-statefulset/pkg/controller/statefulset"
)

const ns = "default"

var epoch = time.Date(2020, 1, 1, 0, 0, 0, 0, time.UTC)

type OwnerA struct {
	Kind       string `json:"kind"`
	Name       string `json:"name"`
	UID        string `json:"uid"`
	Controller bool   `json:"controller"`
}

type StatusA struct {
	Replicas           int32  `json:"replicas"`
	Ready              int32  `json:"ready"`
	Current            int32  `json:"current"`
	Updated            int32  `json:"updated"`
	CurrentRevision    string `json:"currentRevision"`
	UpdateRevision     string `json:"updateRevision"`
	ObservedGeneration int64  `json:"observedGeneration"`
	CollisionCount     *int32 `json:"collisionCount"`
}

type RollingA struct {
	Partition *int32 `json:"partition"`
}

type SetA struct {
	Name     string            `json:"name"`
	UID      string            `json:"uid"`
	Gen      int64             `json:"gen"`
	Deleting bool              `json:"deleting"`
	Ann      map[string]string `json:"ann"`
	Replicas *int32            `json:"replicas"`
	Selector string            `json:"selector"` // ok | invalid | nil | empty
	Policy   string            `json:"policy"`
	Strategy string            `json:"strategy"`
	Rolling  *RollingA         `json:"rolling"`
	Tmpl     int               `json:"tmpl"`
	Claims   []string          `json:"claims"`
	Service  string            `json:"service"`
	RHL      *int32            `json:"rhl"`
	Status   StatusA           `json:"status"`
	RV       int64             `json:"rv"`
	App      string            `json:"app"` // value of the selector label; default = set name
	// TmplLabels: "" = the template carries the selector label; "none" = no labels map; "empty" = an empty map
	// (both admitted by the CRD, which validates nothing inside template / selector)
	TmplLabels string `json:"tmpl_labels,omitempty"`
	// TmplMeta "junk": the template's metadata carries what a pasted pod manifest carries (a controlling owner reference to a
	// ReplicaSet, name, namespace, generateName, uid, resourceVersion) next to annotations and finalizers
	TmplMeta string `json:"tmpl_meta,omitempty"`
}

type VolA struct {
	Name  string  `json:"name"`
	Claim *string `json:"claim"`
}

type PodA struct {
	Name      string  `json:"name"`
	Match     bool    `json:"match"`
	Owner     *OwnerA `json:"owner"`
	Phase     string  `json:"phase"`
	Ready     bool    `json:"ready"`
	Cond      string  `json:"cond,omitempty"` // status of the Ready condition of a pod that is not ready: "" = no condition, "False", "Unknown"
	Term      bool    `json:"term"`
	Rev       string  `json:"rev"`
	NameLabel *string `json:"namelabel"`
	Vols      []VolA  `json:"vols"`
	Tmpl      int     `json:"tmpl"`
	App       string  `json:"app"` // label value when Match is false but another set's selector should match
}

type RevA struct {
	Name      string  `json:"name"`
	Revision  int64   `json:"revision"`
	Tmpl      int     `json:"tmpl"`
	Owner     *OwnerA `json:"owner"`
	Match     bool    `json:"match"`
	Marker    *string `json:"marker"`
	HashLabel *string `json:"hashlabel"`
	Created   int64   `json:"created"`
	LabelsNil bool    `json:"labels_nil"`
	// Corrupt: the stored data is not a patch that can be applied (truncated JSON): an object the API admits (data is an
	// opaque RawExtension) but ApplyRevision cannot read.  Outside the model; used by monitor-only families.
	Corrupt bool `json:"corrupt,omitempty"`
}

type WorldA struct {
	Set        *SetA    `json:"set"`
	Pods       []PodA   `json:"pods"`
	Revs       []RevA   `json:"revs"`
	Claims     []string `json:"claims"`
	ClaimsTerm []string `json:"claims_term,omitempty"`
	Others     []SetA   `json:"others"` // other sets (cache side only matters)
}

func appLabel(s *SetA) string {
	if s.App != "" {
		return s.App
	}
	return s.Name
}

func template(k int, app string) v1.PodTemplateSpec {
	return v1.PodTemplateSpec{
		ObjectMeta: metav1.ObjectMeta{Labels: map[string]string{"app": app}},
		Spec: v1.PodSpec{
			Containers: []v1.Container{{Name: "c", Image: fmt.Sprintf("img:%d", k)}},
			Volumes:    []v1.Volume{{Name: "home", VolumeSource: v1.VolumeSource{HostPath: &v1.HostPathVolumeSource{Path: "/tmp/home"}}}},
		},
	}
}

func tmplOfPodSpec(spec *v1.PodSpec) int {
	if len(spec.Containers) == 0 {
		return -1
	}
	var k int
	if _, err := fmt.Sscanf(spec.Containers[0].Image, "img:%d", &k); err != nil {
		return -1
	}
	return k
}

func templateFor(s *SetA) v1.PodTemplateSpec {
	t := template(s.Tmpl, appLabel(s))
	switch s.TmplLabels {
	case "none":
		t.ObjectMeta.Labels = nil
	case "empty":
		t.ObjectMeta.Labels = map[string]string{}
	}
	if s.TmplMeta == "junk" {
		yes := true
		t.ObjectMeta.Name = "pasted-5d8f7c9b6-x2x7k"
		t.ObjectMeta.GenerateName = "pasted-5d8f7c9b6-"
		t.ObjectMeta.Namespace = "elsewhere"
		t.ObjectMeta.UID = "pasted-uid"
		t.ObjectMeta.ResourceVersion = "4711"
		t.ObjectMeta.Annotations = map[string]string{"note": "kept"}
		t.ObjectMeta.Finalizers = []string{"example.com/hold"}
		t.ObjectMeta.OwnerReferences = []metav1.OwnerReference{{APIVersion: "apps/v1", Kind: "ReplicaSet", Name: "pasted-5d8f7c9b6",
			UID: "rs-uid", Controller: &yes, BlockOwnerDeletion: &yes}}
	}
	return t
}

func claimTemplate(name string) v1.PersistentVolumeClaim {
	return v1.PersistentVolumeClaim{ObjectMeta: metav1.ObjectMeta{Name: name}}
}

func (s *SetA) object() *apps.StatefulSet {
	set := &apps.StatefulSet{
		TypeMeta: metav1.TypeMeta{Kind: "StatefulSet", APIVersion: apps.SchemeGroupVersion.String()},
		ObjectMeta: metav1.ObjectMeta{
			Name: s.Name, Namespace: ns, UID: types.UID(s.UID), Generation: s.Gen,
			ResourceVersion: fmt.Sprint(s.RV), Annotations: s.Ann,
		},
		Spec: apps.StatefulSetSpec{
			Replicas:             s.Replicas,
			Template:             templateFor(s),
			ServiceName:          s.Service,
			PodManagementPolicy:  apps.PodManagementPolicyType(s.Policy),
			RevisionHistoryLimit: s.RHL,
		},
	}
	set.Spec.UpdateStrategy.Type = apps.StatefulSetUpdateStrategyType(s.Strategy)
	if s.Rolling != nil {
		set.Spec.UpdateStrategy.RollingUpdate = &apps.RollingUpdateStatefulSetStrategy{Partition: s.Rolling.Partition}
	}
	switch s.Selector {
	case "ok", "":
		set.Spec.Selector = &metav1.LabelSelector{MatchLabels: map[string]string{"app": appLabel(s)}}
	case "invalid":
		set.Spec.Selector = &metav1.LabelSelector{MatchExpressions: []metav1.LabelSelectorRequirement{{Key: "app", Operator: "Bogus", Values: []string{"x"}}}}
	case "empty":
		set.Spec.Selector = &metav1.LabelSelector{}
	case "nil":
		set.Spec.Selector = nil
	}
	for _, c := range s.Claims {
		ct := claimTemplate(c)
		if s.TmplMeta == "junk" {
			// a claim template pasted from a stored claim: its metadata names another namespace
			ct.ObjectMeta.Namespace = "storage"
		}
		set.Spec.VolumeClaimTemplates = append(set.Spec.VolumeClaimTemplates, ct)
	}
	if s.Deleting {
		t := metav1.NewTime(epoch.Add(time.Hour))
		set.DeletionTimestamp = &t
	}
	set.Status = apps.StatefulSetStatus{
		ObservedGeneration: s.Status.ObservedGeneration, Replicas: s.Status.Replicas, ReadyReplicas: s.Status.Ready,
		CurrentReplicas: s.Status.Current, UpdatedReplicas: s.Status.Updated,
		CurrentRevision: s.Status.CurrentRevision, UpdateRevision: s.Status.UpdateRevision, CollisionCount: s.Status.CollisionCount,
	}
	return set
}

func statusA(st *apps.StatefulSetStatus) StatusA {
	return StatusA{Replicas: st.Replicas, Ready: st.ReadyReplicas, Current: st.CurrentReplicas, Updated: st.UpdatedReplicas,
		CurrentRevision: st.CurrentRevision, UpdateRevision: st.UpdateRevision, ObservedGeneration: st.ObservedGeneration,
		CollisionCount: st.CollisionCount}
}

func ownerRefs(o *OwnerA) []metav1.OwnerReference {
	if o == nil {
		return nil
	}
	api := apps.SchemeGroupVersion.String()
	if o.Kind != "StatefulSet" {
		api = "apps/v1"
	}
	ctrl := o.Controller
	t := true
	return []metav1.OwnerReference{{APIVersion: api, Kind: o.Kind, Name: o.Name, UID: types.UID(o.UID), Controller: &ctrl, BlockOwnerDeletion: &t}}
}

func ownerA(refs []metav1.OwnerReference) *OwnerA {
	for _, r := range refs {
		if r.Controller != nil && *r.Controller {
			return &OwnerA{Kind: r.Kind, Name: r.Name, UID: string(r.UID), Controller: true}
		}
	}
	return nil
}

func (p *PodA) object(setApp string) *v1.Pod {
	pod := &v1.Pod{
		TypeMeta:   metav1.TypeMeta{Kind: "Pod", APIVersion: "v1"},
		ObjectMeta: metav1.ObjectMeta{Name: p.Name, Namespace: ns, UID: types.UID("pod-" + p.Name), ResourceVersion: "1", Labels: map[string]string{}},
	}
	if p.Match {
		pod.Labels["app"] = setApp
	} else if p.App != "" {
		pod.Labels["app"] = p.App
	}
	if p.Rev != "" {
		pod.Labels[kubeapps.StatefulSetRevisionLabel] = p.Rev
	}
	if p.NameLabel != nil {
		pod.Labels[apps.StatefulSetPodNameLabel] = *p.NameLabel
	}
	pod.OwnerReferences = ownerRefs(p.Owner)
	tm := template(p.Tmpl, setApp)
	pod.Spec = tm.Spec
	pod.Spec.Volumes = nil
	for _, v := range p.Vols {
		vol := v1.Volume{Name: v.Name}
		if v.Claim != nil {
			vol.VolumeSource.PersistentVolumeClaim = &v1.PersistentVolumeClaimVolumeSource{ClaimName: *v.Claim}
		} else {
			vol.VolumeSource.EmptyDir = &v1.EmptyDirVolumeSource{}
		}
		pod.Spec.Volumes = append(pod.Spec.Volumes, vol)
	}
	pod.Status.Phase = v1.PodPhase(p.Phase)
	if p.Ready {
		pod.Status.Conditions = []v1.PodCondition{{Type: v1.PodReady, Status: v1.ConditionTrue}}
	} else if p.Cond != "" {
		pod.Status.Conditions = []v1.PodCondition{{Type: v1.PodReady, Status: v1.ConditionStatus(p.Cond)}}
	}
	if p.Term {
		t := metav1.NewTime(epoch.Add(time.Hour))
		pod.DeletionTimestamp = &t
	}
	return pod
}

func podA(pod *v1.Pod, setApp string) PodA {
	p := PodA{Name: pod.Name, Match: pod.Labels["app"] == setApp, Owner: ownerA(pod.OwnerReferences), Phase: string(pod.Status.Phase),
		Term: pod.DeletionTimestamp != nil, Rev: pod.Labels[kubeapps.StatefulSetRevisionLabel], Tmpl: tmplOfPodSpec(&pod.Spec)}
	if !p.Match {
		p.App = pod.Labels["app"]
	}
	for _, c := range pod.Status.Conditions {
		if c.Type == v1.PodReady && c.Status == v1.ConditionTrue {
			p.Ready = true
		}
	}
	if l, ok := pod.Labels[apps.StatefulSetPodNameLabel]; ok {
		ll := l
		p.NameLabel = &ll
	}
	for _, v := range pod.Spec.Volumes {
		va := VolA{Name: v.Name}
		if v.PersistentVolumeClaim != nil {
			c := v.PersistentVolumeClaim.ClaimName
			va.Claim = &c
		}
		p.Vols = append(p.Vols, va)
	}
	return p
}

var patchCache = map[string][]byte{}

func patchOf(base *SetA, k int) []byte {
	key := fmt.Sprintf("%s/%d/%s/%s", appLabel(base), k, base.TmplLabels, base.TmplMeta)
	if b, ok := patchCache[key]; ok {
		return b
	}
	s := *base
	s.Tmpl = k
	b, err := statefulset.VerifGetPatch(s.object())
	if err != nil {
		panic(err)
	}
	patchCache[key] = b
	return b
}

func (r *RevA) object(base *SetA) *kubeapps.ControllerRevision {
	rev := &kubeapps.ControllerRevision{
		TypeMeta:   metav1.TypeMeta{Kind: "ControllerRevision", APIVersion: "apps/v1"},
		ObjectMeta: metav1.ObjectMeta{Name: r.Name, Namespace: ns, UID: types.UID("rev-" + r.Name), ResourceVersion: "1"},
		Revision:   r.Revision,
		Data:       runtime.RawExtension{Raw: patchOf(base, r.Tmpl)},
	}
	rev.CreationTimestamp = metav1.NewTime(epoch.Add(time.Duration(r.Created) * time.Second))
	if r.Corrupt {
		raw := patchOf(base, r.Tmpl)
		rev.Data = runtime.RawExtension{Raw: append([]byte{}, raw[:len(raw)/2]...)}
	}
	if !r.LabelsNil {
		rev.Labels = map[string]string{}
		if r.Match {
			rev.Labels["app"] = appLabel(base)
		}
		if r.Marker != nil {
			rev.Labels[helper.UpgradeToAdvancedStatefulSetAnn] = *r.Marker
		}
		if r.HashLabel != nil {
			rev.Labels["controller.kubernetes.io/hash"] = *r.HashLabel
		}
	}
	rev.OwnerReferences = ownerRefs(r.Owner)
	return rev
}

func tmplOfData(base *SetA, raw []byte, known []int) int {
	for _, k := range known {
		if string(patchOf(base, k)) == string(raw) {
			return k
		}
	}
	var k int
	i := strings.Index(string(raw), "img:")
	if i >= 0 {
		fmt.Sscanf(string(raw[i:]), "img:%d", &k)
		return k
	}
	return -1
}

func revA(rev *kubeapps.ControllerRevision, base *SetA) RevA {
	r := RevA{Name: rev.Name, Revision: rev.Revision, Owner: ownerA(rev.OwnerReferences), LabelsNil: rev.Labels == nil,
		Created: int64(rev.CreationTimestamp.Time.Sub(epoch) / time.Second), Tmpl: tmplOfData(base, rev.Data.Raw, nil)}
	if rev.Labels != nil {
		r.Match = rev.Labels["app"] == appLabel(base)
		if m, ok := rev.Labels[helper.UpgradeToAdvancedStatefulSetAnn]; ok {
			mm := m
			r.Marker = &mm
		}
		if h, ok := rev.Labels["controller.kubernetes.io/hash"]; ok {
			hh := h
			r.HashLabel = &hh
		}
	}
	return r
}

func claimObject(name string) *v1.PersistentVolumeClaim {
	return &v1.PersistentVolumeClaim{TypeMeta: metav1.TypeMeta{Kind: "PersistentVolumeClaim", APIVersion: "v1"},
		ObjectMeta: metav1.ObjectMeta{Name: name, Namespace: ns}}
}

// claimObjectIn: the claim of that name in world w; a claim listed in claims_term is being deleted (deletion timestamp, held by
// the pvc-protection finalizer): it exists, and for the controller it is an existing claim like any other
func claimObjectIn(w *WorldA, name string) *v1.PersistentVolumeClaim {
	c := claimObject(name)
	for _, t := range w.ClaimsTerm {
		if t == name {
			ts := metav1.NewTime(epoch.Add(2 * time.Hour))
			c.DeletionTimestamp = &ts
			c.Finalizers = []string{"kubernetes.io/pvc-protection"}
		}
	}
	return c
}

// hashTable: for template ids ks and collision counts 0..3, the hash string the real code derives.
func hashTable(base *SetA, ks []int) [][]interface{} {
	out := [][]interface{}{}
	seen := map[int]bool{}
	for _, k := range ks {
		if seen[k] {
			continue
		}
		seen[k] = true
		s := *base
		s.Tmpl = k
		obj := s.object()
		for c := int32(0); c < 4; c++ {
			cc := c
			rev, err := statefulset.VerifNewRevision(obj, 1, &cc)
			if err != nil {
				panic(err)
			}
			out = append(out, []interface{}{k, c, rev.Labels["controller.kubernetes.io/hash"]})
		}
	}
	return out
}

func sortedStrings(m map[string]bool) []string {
	out := make([]string, 0, len(m))
	for k := range m {
		out = append(out, k)
	}
	sort.Strings(out)
	return out
}
