package main

// valclient.go — the fake clientset panics on a label selector that does not parse (client-go testing
// ExtractFromListOptions); a real API server answers 400 Bad Request.  This wrapper validates the selector of every
// ControllerRevision list first and answers as the API server does, so that set names that are no valid label value
// (longer than 63 characters) can be part of the generated worlds.

import (
	"context"

	kubeapps "k8s.io/api/apps/v1"
	apierrors "k8s.io/apimachinery/pkg/api/errors"
	metav1 "k8s.io/apimachinery/pkg/apis/meta/v1"
	"k8s.io/apimachinery/pkg/labels"
	"k8s.io/client-go/kubernetes"
	appsv1 "k8s.io/client-go/kubernetes/typed/apps/v1"
)

type valKube struct{ kubernetes.Interface }

func (v valKube) AppsV1() appsv1.AppsV1Interface { return valApps{v.Interface.AppsV1()} }

type valApps struct{ appsv1.AppsV1Interface }

func (v valApps) ControllerRevisions(ns string) appsv1.ControllerRevisionInterface {
	return valRevs{v.AppsV1Interface.ControllerRevisions(ns)}
}

type valRevs struct {
	appsv1.ControllerRevisionInterface
}

func (v valRevs) List(ctx context.Context, opts metav1.ListOptions) (*kubeapps.ControllerRevisionList, error) {
	if _, err := labels.Parse(opts.LabelSelector); err != nil {
		return nil, apierrors.NewBadRequest("unable to parse requirement: " + err.Error())
	}
	return v.ControllerRevisionInterface.List(ctx, opts)
}
