package main

// reconcile: runs the REAL controller (real sync, pod control, status updater, ref manager)
// on fake clientsets with recording / fault-injecting reactors and hand-filled informer caches.

import (
	"context"
	"encoding/json"
	"fmt"
	"io"
	"reflect"
	"sort"
	"strings"
	"time"

	kubeapps "k8s.io/api/apps/v1"
	v1 "k8s.io/api/core/v1"
	apierrors "k8s.io/apimachinery/pkg/api/errors"
	metav1 "k8s.io/apimachinery/pkg/apis/meta/v1"
	"k8s.io/apimachinery/pkg/runtime"
	"k8s.io/apimachinery/pkg/runtime/schema"
	kubeinformers "k8s.io/client-go/informers"
	coreinformers "k8s.io/client-go/informers/core/v1"
	kubefake "k8s.io/client-go/kubernetes/fake"
	clienttesting "k8s.io/client-go/testing"
	"k8s.io/client-go/tools/cache"
	"k8s.io/client-go/util/workqueue"
	"k8s.io/klog/v2"

	apps "github.com/pingcap/advanced-statefulset/client/apis/apps/v1"
	asfake "github.com/pingcap/advanced-statefulset/client/client/clientset/versioned/fake"
	asinformers "github.com/pingcap/advanced-statefulset/client/client/informers/externalversions"
	appsinformers "github.com/pingcap/advanced-statefulset/client/client/informers/externalversions/apps/v1"
	"github.com/pingcap/advanced-statefulset/pkg/controller/statefulset"
)

func init() {
	klog.SetOutput(io.Discard)
	klog.LogToStderr(false)
}

type Fault struct {
	At   *int   `json:"at,omitempty"` // index of the API call within the reconcile (0-based)
	On   string `json:"on,omitempty"` // or: shape of the call, "verb resource name"; fires once
	Kind string `json:"kind"`         // 500 | conflict | notfound | exists | invalid | timeout | timeout_applied
}

// shape mirrors shape_of in World.v
func shape(c *Call) string {
	switch {
	case c.Verb == "list":
		return "list controllerrevisions " + c.Sel
	case c.Verb == "get" && c.Res == "statefulsets":
		return "get statefulsets"
	case c.Verb == "update" && c.Res == "statefulsets":
		return "update statefulsets/status"
	}
	return c.Verb + " " + c.Res + " " + c.Name
}

type Op struct {
	Op     string  `json:"op"` // reconcile | refresh | kubelet | edit | worker
	Faults []Fault `json:"faults,omitempty"`
	// RefreshOnConflict: the set informer catches up between the attempts of a status write
	RefreshOnConflict bool `json:"refresh_on_conflict,omitempty"`
	// Notify (refresh): deliver the informer events of what changed in the cache to the handlers the controller registered
	Notify bool `json:"notify,omitempty"`
	// On (outage): every API call of a reconcile fails with an internal error while the outage is on
	On bool `json:"on,omitempty"`
	// Max (drain): at most this many work items
	What  string   `json:"what,omitempty"`  // refresh: all|set|pods|claims
	Only  []string `json:"only,omitempty"`  // refresh pods: only these names
	Pod   string   `json:"pod,omitempty"`   // kubelet
	Ev    string   `json:"ev,omitempty"`    // kubelet: run|ready|unready|fail|succeed|gone|start
	Field string   `json:"field,omitempty"` // edit: replicas|slots|pause|tmpl|partition|delete|policy|strategy
	Int   *int64   `json:"int,omitempty"`
	Str   *string  `json:"str,omitempty"`
	Max   int      `json:"max,omitempty"`
}

type Scenario struct {
	API   WorldA `json:"api"`
	Cache WorldA `json:"cache"`
	Ops   []Op   `json:"ops"`
	Dump  bool   `json:"dump"`
	Tmpls []int  `json:"tmpls"` // template ids for the hash table
	// FastQueue: the controller's work queue is replaced by one of the same type with a backoff of 20us * 2^n capped at 1ms
	FastQueue bool `json:"fast_queue,omitempty"`
}

type Call struct {
	Verb string `json:"verb"`
	Res  string `json:"res"`
	Sub  string `json:"sub,omitempty"`
	Name string `json:"name,omitempty"`
	// projections
	Sel      string   `json:"sel,omitempty"`      // list controllerrevisions: selector | marker
	Kind     string   `json:"kind,omitempty"`     // patch: adopt | release ; update revision: labels | revision
	Rev      string   `json:"rev,omitempty"`      // create pod: revision label
	Tmpl     *int     `json:"tmpl,omitempty"`     // create pod / create revision: template id
	Revision *int64   `json:"revision,omitempty"` // create/update controllerrevision
	Ident    *bool    `json:"ident,omitempty"`    // create pod: all identity fields as C06 demands
	Labels   []string `json:"labels,omitempty"`
	Status   *StatusA `json:"status,omitempty"`
	RV       string   `json:"rv,omitempty"`
	OwnerUID string   `json:"owner_uid,omitempty"`
	Orphan   *bool    `json:"orphan,omitempty"`
	NS       string   `json:"ns,omitempty"`    // namespace of the call when it is not the set's
	Fault    string   `json:"fault,omitempty"` // injected fault at this call
	Err      string   `json:"err,omitempty"`   // error reason returned to the controller
}

type env struct {
	sc                *Scenario
	base              *SetA
	kube              *kubefake.Clientset
	as                *asfake.Clientset
	kinf              kubeinformers.SharedInformerFactory
	ainf              asinformers.SharedInformerFactory
	ctrl              *statefulset.StatefulSetController
	log               []Call
	n                 int
	faults            []Fault
	record            bool
	inReact           bool
	refreshOnConflict bool
	events            int
	podCap            *capShared
	setCap            *capShared
	outage            bool
}

// ---- informer wrappers that remember the handlers the controller registers (event-driven histories)

type capShared struct {
	cache.SharedIndexInformer
	handlers []cache.ResourceEventHandler
}

func (c *capShared) AddEventHandler(h cache.ResourceEventHandler) (cache.ResourceEventHandlerRegistration, error) {
	c.handlers = append(c.handlers, h)
	return c.SharedIndexInformer.AddEventHandler(h)
}

func (c *capShared) AddEventHandlerWithResyncPeriod(h cache.ResourceEventHandler, d time.Duration) (cache.ResourceEventHandlerRegistration, error) {
	c.handlers = append(c.handlers, h)
	return c.SharedIndexInformer.AddEventHandlerWithResyncPeriod(h, d)
}

type capPodInformer struct {
	coreinformers.PodInformer
	inf *capShared
}

func (c capPodInformer) Informer() cache.SharedIndexInformer { return c.inf }

type capSetInformer struct {
	appsinformers.StatefulSetInformer
	inf *capShared
}

func (c capSetInformer) Informer() cache.SharedIndexInformer { return c.inf }

var (
	podGVR = schema.GroupVersionResource{Version: "v1", Resource: "pods"}
	pvcGVR = schema.GroupVersionResource{Version: "v1", Resource: "persistentvolumeclaims"}
	revGVR = schema.GroupVersionResource{Group: "apps", Version: "v1", Resource: "controllerrevisions"}
	setGVR = schema.GroupVersionResource{Group: "apps.pingcap.com", Version: "v1", Resource: "statefulsets"}
)

func faultError(kind string, a clienttesting.Action, name string) error {
	gr := schema.GroupResource{Group: a.GetResource().Group, Resource: a.GetResource().Resource}
	switch kind {
	case "500":
		return apierrors.NewInternalError(fmt.Errorf("injected"))
	case "conflict":
		return apierrors.NewConflict(gr, name, fmt.Errorf("injected"))
	case "notfound":
		return apierrors.NewNotFound(gr, name)
	case "exists":
		return apierrors.NewAlreadyExists(gr, name)
	case "invalid":
		return apierrors.NewInvalid(schema.GroupKind{Group: gr.Group, Kind: gr.Resource}, name, nil)
	case "timeout", "timeout_applied":
		return apierrors.NewTimeoutError("injected", 1)
	}
	return apierrors.NewInternalError(fmt.Errorf("injected %s", kind))
}

func errReason(err error) string {
	if err == nil {
		return ""
	}
	switch {
	case apierrors.IsNotFound(err):
		return "notfound"
	case apierrors.IsAlreadyExists(err):
		return "exists"
	case apierrors.IsConflict(err):
		return "conflict"
	case apierrors.IsInvalid(err):
		return "invalid"
	case apierrors.IsTimeout(err):
		return "timeout"
	case apierrors.IsInternalError(err):
		return "500"
	}
	return "other"
}

func actionName(a clienttesting.Action) string {
	switch x := a.(type) {
	case clienttesting.GetAction:
		return x.GetName()
	case clienttesting.DeleteAction:
		return x.GetName()
	case clienttesting.PatchAction:
		return x.GetName()
	case clienttesting.CreateAction:
		m, _ := metaOf(x.GetObject())
		return m
	case clienttesting.UpdateAction:
		m, _ := metaOf(x.GetObject())
		return m
	}
	return ""
}

func metaOf(o runtime.Object) (string, string) {
	if acc, ok := o.(metav1.Object); ok {
		return acc.GetName(), acc.GetResourceVersion()
	}
	return "", ""
}

func (e *env) abstract(a clienttesting.Action) Call {
	c := Call{Verb: a.GetVerb(), Res: a.GetResource().Resource, Sub: a.GetSubresource(), Name: actionName(a)}
	if a.GetNamespace() != ns && a.GetNamespace() != "" {
		c.NS = a.GetNamespace() // a call that leaves the namespace of the set
	}
	switch x := a.(type) {
	case clienttesting.ListAction:
		sel := x.GetListRestrictions().Labels.String()
		if strings.Contains(sel, "upgrade-to-asts") {
			c.Sel = "marker"
		} else {
			c.Sel = "selector"
		}
	case clienttesting.PatchAction:
		p := string(x.GetPatch())
		if strings.Contains(p, `"$patch":"delete"`) {
			c.Kind = "release"
		} else {
			c.Kind = "adopt"
		}
		var body struct {
			Metadata struct {
				OwnerReferences []map[string]interface{} `json:"ownerReferences"`
			} `json:"metadata"`
		}
		json.Unmarshal(x.GetPatch(), &body)
		if len(body.Metadata.OwnerReferences) > 0 {
			if u, ok := body.Metadata.OwnerReferences[0]["uid"].(string); ok {
				c.OwnerUID = u
			}
		}
	case clienttesting.DeleteAction:
		// propagation policy is not visible through the generated fake (DeleteOptions dropped before 0.29)
	case clienttesting.CreateAction: // also matches update actions (same method set): split on the verb
		if a.GetVerb() == "create" {
			switch o := x.GetObject().(type) {
			case *v1.Pod:
				c.Rev = o.Labels[kubeapps.StatefulSetRevisionLabel]
				t := tmplOfPodSpec(&o.Spec)
				c.Tmpl = &t
				id := createIdentOK(e, o)
				c.Ident = &id
			case *kubeapps.ControllerRevision:
				r := o.Revision
				c.Revision = &r
				t := tmplOfData(e.base, o.Data.Raw, nil)
				c.Tmpl = &t
				if ow := ownerA(o.OwnerReferences); ow != nil {
					c.OwnerUID = ow.UID
				}
			case *v1.PersistentVolumeClaim:
				ls := []string{}
				for k, v := range o.Labels {
					ls = append(ls, k+"="+v)
				}
				sort.Strings(ls)
				c.Labels = ls
			}
		} else {
			switch o := x.GetObject().(type) {
			case *v1.Pod:
				id := e.identityOK(o)
				c.Ident = &id
			case *kubeapps.ControllerRevision:
				r := o.Revision
				c.Revision = &r
				ls := []string{}
				for k, v := range o.Labels {
					ls = append(ls, k+"="+v)
				}
				sort.Strings(ls)
				c.Labels = ls
			case *apps.StatefulSet:
				st := statusA(&o.Status)
				c.Status = &st
				c.RV = o.ResourceVersion
			}
		}
	}
	return c
}

// identityOK: every identity / storage field C06 demands of a pod written for this set.
func (e *env) identityOK(p *v1.Pod) bool {
	set := e.base
	parent, ord := statefulset.VerifGetParentNameAndOrdinal(p)
	if parent != set.Name || ord < 0 {
		return false
	}
	want := fmt.Sprintf("%s-%d", set.Name, ord)
	if p.Name != want || p.Namespace != ns || p.Labels[apps.StatefulSetPodNameLabel] != want {
		return false
	}
	vols := map[string]string{}
	for _, v := range p.Spec.Volumes {
		if v.PersistentVolumeClaim != nil {
			vols[v.Name] = v.PersistentVolumeClaim.ClaimName
		} else {
			vols[v.Name] = ""
		}
	}
	for _, c := range set.Claims {
		if vols[c] != fmt.Sprintf("%s-%s-%d", c, set.Name, ord) {
			return false
		}
	}
	return true
}

func createIdentOK(e *env, p *v1.Pod) bool {
	if !e.identityOK(p) {
		return false
	}
	set := e.base
	if p.Spec.Hostname != p.Name || p.Spec.Subdomain != set.Service {
		return false
	}
	ow := ownerA(p.OwnerReferences)
	if ow == nil || ow.UID != set.UID || ow.Kind != "StatefulSet" || ow.Name != set.Name {
		return false
	}
	ctrl := 0
	for _, r := range p.OwnerReferences {
		if r.Controller != nil && *r.Controller {
			ctrl++
		}
	}
	if ctrl != 1 || len(p.OwnerReferences) != 1 || p.Namespace != ns || p.UID != "" || p.ResourceVersion != "" {
		return false
	}
	// volumes of the template that are not claim templates are preserved
	found := false
	for _, v := range p.Spec.Volumes {
		if v.Name == "home" && v.HostPath != nil {
			found = true
		}
	}
	shadow := false
	for _, c := range set.Claims {
		if c == "home" {
			shadow = true
		}
	}
	return found || shadow
}

func (e *env) react(a clienttesting.Action, tracker clienttesting.ObjectTracker) (bool, runtime.Object, error) {
	if a.GetResource().Resource == "events" {
		switch x := a.(type) {
		case clienttesting.CreateAction:
			return true, x.GetObject(), nil
		case clienttesting.UpdateAction:
			return true, x.GetObject(), nil
		}
		return true, &v1.Event{}, nil
	}
	if !e.record || e.inReact {
		return false, nil, nil
	}
	idx := e.n
	e.n++
	c := e.abstract(a)
	kind, faulty := "", false
	if e.outage {
		kind, faulty = "500", true
	}
	for i, f := range e.faults {
		if faulty {
			break
		}
		if (f.At != nil && *f.At == idx) || (f.At == nil && f.On == shape(&c)) {
			kind, faulty = f.Kind, true
			e.faults = append(append([]Fault{}, e.faults[:i]...), e.faults[i+1:]...)
			break
		}
	}
	if faulty {
		c.Fault = kind
		var ret runtime.Object
		if kind == "timeout_applied" {
			_, ret, _ = e.apply(a, tracker)
		}
		_ = ret
		err := faultError(kind, a, c.Name)
		c.Err = errReason(err)
		e.log = append(e.log, c)
		return true, nil, err
	}
	handled, ret, err := e.apply(a, tracker)
	c.Err = errReason(err)
	e.log = append(e.log, c)
	return handled, ret, err
}

// apply: the API-server semantics the fake tracker lacks (Pending on create, graceful delete,
// resourceVersion precondition and status-only write on statefulsets/status); everything else
// is delegated to the tracker's ObjectReaction.
func (e *env) apply(a clienttesting.Action, tracker clienttesting.ObjectTracker) (bool, runtime.Object, error) {
	e.inReact = true
	defer func() { e.inReact = false }()
	res := a.GetResource().Resource
	verb := a.GetVerb()
	switch x := a.(type) {
	case clienttesting.CreateAction:
		if verb == "update" && res == "statefulsets" && a.GetSubresource() == "status" {
			in := x.GetObject().(*apps.StatefulSet)
			obj, err := tracker.Get(setGVR, ns, in.Name)
			if err != nil {
				return true, nil, err
			}
			cur := obj.(*apps.StatefulSet).DeepCopy()
			if in.ResourceVersion != cur.ResourceVersion {
				if e.refreshOnConflict {
					e.setIndexer().Update(cur.DeepCopy())
				}
				return true, nil, apierrors.NewConflict(schema.GroupResource{Group: setGVR.Group, Resource: "statefulsets"}, in.Name, fmt.Errorf("resourceVersion %s != %s", in.ResourceVersion, cur.ResourceVersion))
			}
			cur.Status = in.Status
			var rv int64
			fmt.Sscan(cur.ResourceVersion, &rv)
			cur.ResourceVersion = fmt.Sprint(rv + 1)
			if err := tracker.Update(setGVR, cur, ns); err != nil {
				return true, nil, err
			}
			return true, cur, nil
		}
		if verb == "create" && res == "controllerrevisions" {
			// the API server stamps what it creates: later than every object of the initial world (epoch + created seconds)
			r := x.GetObject().(*kubeapps.ControllerRevision).DeepCopy()
			if r.CreationTimestamp.IsZero() {
				r.CreationTimestamp = metav1.NewTime(epoch.Add(1000000 * time.Second))
			}
			if err := tracker.Create(revGVR, r, ns); err != nil {
				return true, nil, err
			}
			return true, r, nil
		}
		if verb == "create" && res == "pods" {
			p := x.GetObject().(*v1.Pod).DeepCopy()
			if p.Status.Phase == "" {
				p.Status.Phase = v1.PodPending
			}
			p.ResourceVersion = "1"
			if err := tracker.Create(podGVR, p, ns); err != nil {
				return true, nil, err
			}
			return true, p, nil
		}
	case clienttesting.DeleteAction:
		if res == "pods" {
			obj, err := tracker.Get(podGVR, ns, x.GetName())
			if err != nil {
				return true, nil, err
			}
			p := obj.(*v1.Pod).DeepCopy()
			if p.Status.Phase == v1.PodFailed || p.Status.Phase == v1.PodSucceeded {
				// pods in a terminal phase are deleted without a grace period
				return true, nil, tracker.Delete(podGVR, ns, x.GetName())
			}
			if p.DeletionTimestamp == nil {
				t := metav1.NewTime(epoch.Add(2 * 3600e9))
				p.DeletionTimestamp = &t
				if err := tracker.Update(podGVR, p, ns); err != nil {
					return true, nil, err
				}
			}
			return true, nil, nil
		}
	}
	handled, ret, err := clienttesting.ObjectReaction(tracker)(a)
	// a real API server returns lists in key (name) order; the tracker iterates a map
	if rl, ok := ret.(*kubeapps.ControllerRevisionList); ok && err == nil {
		sort.Slice(rl.Items, func(i, j int) bool { return rl.Items[i].Name < rl.Items[j].Name })
	}
	return handled, ret, err
}

func newEnv(sc *Scenario) *env {
	e := &env{sc: sc}
	e.base = sc.Cache.Set
	if e.base == nil {
		e.base = sc.API.Set
	}
	if e.base == nil {
		e.base = &SetA{Name: "web", UID: "u1", Selector: "ok"}
	}
	app := appLabel(e.base)
	kobjs := []runtime.Object{}
	for i := range sc.API.Pods {
		kobjs = append(kobjs, sc.API.Pods[i].object(app))
	}
	for i := range sc.API.Revs {
		kobjs = append(kobjs, sc.API.Revs[i].object(e.base))
	}
	for _, c := range sc.API.Claims {
		kobjs = append(kobjs, claimObjectIn(&sc.API, c))
	}
	aobjs := []runtime.Object{}
	if sc.API.Set != nil {
		aobjs = append(aobjs, sc.API.Set.object())
	}
	for i := range sc.API.Others {
		aobjs = append(aobjs, sc.API.Others[i].object())
	}
	e.kube = kubefake.NewSimpleClientset(kobjs...)
	e.as = asfake.NewSimpleClientset(aobjs...)
	e.kube.PrependReactor("*", "*", func(a clienttesting.Action) (bool, runtime.Object, error) { return e.react(a, e.kube.Tracker()) })
	e.as.PrependReactor("*", "*", func(a clienttesting.Action) (bool, runtime.Object, error) { return e.react(a, e.as.Tracker()) })
	e.kinf = kubeinformers.NewSharedInformerFactory(e.kube, 0)
	e.ainf = asinformers.NewSharedInformerFactory(e.as, 0)
	podsInf := e.kinf.Core().V1().Pods()
	setsInf := e.ainf.Apps().V1().StatefulSets()
	e.podCap = &capShared{SharedIndexInformer: podsInf.Informer()}
	e.setCap = &capShared{SharedIndexInformer: setsInf.Informer()}
	e.ctrl = statefulset.NewStatefulSetController(
		capPodInformer{PodInformer: podsInf, inf: e.podCap}, capSetInformer{StatefulSetInformer: setsInf, inf: e.setCap},
		e.kinf.Core().V1().PersistentVolumeClaims(),
		e.kinf.Apps().V1().ControllerRevisions(), valKube{e.kube}, e.as)
	if sc.FastQueue {
		e.ctrl.VerifSetQueue(workqueue.NewNamedRateLimitingQueue(
			workqueue.NewItemExponentialFailureRateLimiter(20*time.Microsecond, time.Millisecond), "statefulset-fast"))
	}
	// caches
	if sc.Cache.Set != nil {
		e.setIndexer().Add(sc.Cache.Set.object())
	}
	for i := range sc.Cache.Others {
		e.setIndexer().Add(sc.Cache.Others[i].object())
	}
	for i := range sc.Cache.Pods {
		e.podIndexer().Add(sc.Cache.Pods[i].object(app))
	}
	for _, c := range sc.Cache.Claims {
		e.pvcIndexer().Add(claimObjectIn(&sc.Cache, c))
	}
	return e
}

func (e *env) setIndexer() cache.Indexer {
	return e.ainf.Apps().V1().StatefulSets().Informer().GetIndexer()
}
func (e *env) podIndexer() cache.Indexer { return e.kinf.Core().V1().Pods().Informer().GetIndexer() }
func (e *env) pvcIndexer() cache.Indexer {
	return e.kinf.Core().V1().PersistentVolumeClaims().Informer().GetIndexer()
}

type ReconcileObs struct {
	Result   string `json:"result"` // ok | err | panic
	ErrKind  string `json:"errkind,omitempty"`
	Msg      string `json:"msg,omitempty"`
	Calls    []Call `json:"calls"`
	Mutated  bool   `json:"cache_mutated"`
	Requeues int    `json:"requeues,omitempty"`
}

func snapshotCache(e *env) []interface{} {
	out := []interface{}{}
	for _, ix := range []cache.Indexer{e.setIndexer(), e.podIndexer(), e.pvcIndexer()} {
		for _, o := range ix.List() {
			out = append(out, o.(runtime.Object).DeepCopyObject())
		}
	}
	return out
}

func cacheEqual(e *env, before []interface{}) bool {
	i := 0
	for _, ix := range []cache.Indexer{e.setIndexer(), e.podIndexer(), e.pvcIndexer()} {
		l := ix.List()
		for _, o := range l {
			acc := o.(metav1.Object)
			// find the copy with the same identity
			found := false
			for _, b := range before {
				bacc := b.(metav1.Object)
				if reflect.TypeOf(b) == reflect.TypeOf(o) && bacc.GetName() == acc.GetName() {
					found = true
					if !reflect.DeepEqual(b, o) {
						return false
					}
				}
			}
			if !found {
				return false
			}
			i++
		}
	}
	return i == len(before)
}

func (e *env) reconcile(faults []Fault, viaWorker bool) ReconcileObs {
	e.faults = append([]Fault{}, faults...)
	e.log = nil
	e.n = 0
	key := ns + "/" + e.base.Name
	before := snapshotCache(e)
	obs := ReconcileObs{}
	e.record = true
	func() {
		defer func() {
			if r := recover(); r != nil {
				obs.Result = "panic"
				obs.Msg = fmt.Sprint(r)
			}
		}()
		var err error
		if viaWorker {
			q := e.ctrl.VerifQueue()
			q.Add(key)
			// run sync directly to learn the error, then mimic processNextWorkItem through the real queue
			item, _ := q.Get()
			err = e.ctrl.VerifSync(item.(string))
			if err != nil {
				q.AddRateLimited(item)
			} else {
				q.Forget(item)
			}
			q.Done(item)
			obs.Requeues = q.NumRequeues(key)
		} else {
			err = e.ctrl.VerifSync(key)
		}
		if err != nil {
			obs.Result = "err"
			obs.ErrKind = errReason(err)
			obs.Msg = err.Error()
			if len(obs.Msg) > 300 {
				obs.Msg = obs.Msg[:300]
			}
		} else {
			obs.Result = "ok"
		}
	}()
	e.record = false
	obs.Calls = e.log
	if obs.Calls == nil {
		obs.Calls = []Call{}
	}
	obs.Mutated = !cacheEqual(e, before)
	return obs
}

// dump: abstract view of the API side and of the caches.
func (e *env) dump() map[string]interface{} {
	app := appLabel(e.base)
	api := WorldA{}
	pods, _ := e.kube.Tracker().List(podGVR, schema.GroupVersionKind{Version: "v1", Kind: "Pod"}, ns)
	if pl, ok := pods.(*v1.PodList); ok {
		for i := range pl.Items {
			api.Pods = append(api.Pods, podA(&pl.Items[i], app))
		}
	}
	sort.Slice(api.Pods, func(i, j int) bool { return api.Pods[i].Name < api.Pods[j].Name })
	revs, _ := e.kube.Tracker().List(revGVR, schema.GroupVersionKind{Group: "apps", Version: "v1", Kind: "ControllerRevision"}, ns)
	if rl, ok := revs.(*kubeapps.ControllerRevisionList); ok {
		for i := range rl.Items {
			api.Revs = append(api.Revs, revA(&rl.Items[i], e.base))
		}
	}
	sort.Slice(api.Revs, func(i, j int) bool { return api.Revs[i].Name < api.Revs[j].Name })
	pvcs, _ := e.kube.Tracker().List(pvcGVR, schema.GroupVersionKind{Version: "v1", Kind: "PersistentVolumeClaim"}, ns)
	if cl, ok := pvcs.(*v1.PersistentVolumeClaimList); ok {
		for i := range cl.Items {
			api.Claims = append(api.Claims, cl.Items[i].Name)
		}
	}
	sort.Strings(api.Claims)
	out := map[string]interface{}{"pods": api.Pods, "revs": api.Revs, "claims": api.Claims}
	if obj, err := e.as.Tracker().Get(setGVR, ns, e.base.Name); err == nil {
		s := obj.(*apps.StatefulSet)
		out["set"] = map[string]interface{}{"status": statusA(&s.Status), "rv": s.ResourceVersion, "deleting": s.DeletionTimestamp != nil,
			"replicas": s.Spec.Replicas, "ann": s.Annotations, "gen": s.Generation, "tmpl": tmplOfPodSpec(&s.Spec.Template.Spec),
			"policy": string(s.Spec.PodManagementPolicy), "strategy": string(s.Spec.UpdateStrategy.Type)}
	} else {
		out["set"] = nil
	}
	cpods := []PodA{}
	for _, o := range e.podIndexer().List() {
		cpods = append(cpods, podA(o.(*v1.Pod), app))
	}
	sort.Slice(cpods, func(i, j int) bool { return cpods[i].Name < cpods[j].Name })
	out["cache_pods"] = cpods
	return out
}

func (e *env) apiSet() *apps.StatefulSet {
	obj, err := e.as.Tracker().Get(setGVR, ns, e.base.Name)
	if err != nil {
		return nil
	}
	return obj.(*apps.StatefulSet).DeepCopy()
}

func (e *env) refresh(op Op) {
	what := op.What
	if what == "" {
		what = "all"
	}
	if what == "all" || what == "set" {
		var old *apps.StatefulSet
		for _, o := range e.setIndexer().List() {
			if o.(*apps.StatefulSet).Name == e.base.Name {
				old = o.(*apps.StatefulSet)
			}
		}
		if s := e.apiSet(); s != nil {
			e.setIndexer().Update(s)
			if op.Notify {
				for _, h := range e.setCap.handlers {
					if old == nil {
						h.OnAdd(s, false)
						e.events++
					} else if old.ResourceVersion != s.ResourceVersion || !reflect.DeepEqual(old, s) {
						h.OnUpdate(old, s)
						e.events++
					}
				}
			}
		} else {
			for _, o := range e.setIndexer().List() {
				if o.(*apps.StatefulSet).Name == e.base.Name {
					e.setIndexer().Delete(o)
				}
			}
			if op.Notify && old != nil {
				for _, h := range e.setCap.handlers {
					h.OnDelete(old)
					e.events++
				}
			}
		}
	}
	if what == "all" || what == "pods" {
		only := map[string]bool{}
		for _, n := range op.Only {
			only[n] = true
		}
		live := map[string]*v1.Pod{}
		pods, _ := e.kube.Tracker().List(podGVR, schema.GroupVersionKind{Version: "v1", Kind: "Pod"}, ns)
		if pl, ok := pods.(*v1.PodList); ok {
			for i := range pl.Items {
				live[pl.Items[i].Name] = pl.Items[i].DeepCopy()
			}
		}
		olds := map[string]*v1.Pod{}
		for _, o := range e.podIndexer().List() {
			p := o.(*v1.Pod)
			olds[p.Name] = p
			if len(only) > 0 && !only[p.Name] {
				continue
			}
			if _, ok := live[p.Name]; !ok {
				e.podIndexer().Delete(o)
				if op.Notify {
					for _, h := range e.podCap.handlers {
						h.OnDelete(p)
						e.events++
					}
				}
			}
		}
		names := []string{}
		for n := range live {
			names = append(names, n)
		}
		sort.Strings(names)
		for _, n := range names {
			p := live[n]
			if len(only) > 0 && !only[n] {
				continue
			}
			p.TypeMeta = metav1.TypeMeta{Kind: "Pod", APIVersion: "v1"}
			e.podIndexer().Update(p)
			if op.Notify {
				old := olds[n]
				for _, h := range e.podCap.handlers {
					if old == nil {
						h.OnAdd(p, false)
						e.events++
					} else if !reflect.DeepEqual(old, p) {
						// the fake tracker does not bump resourceVersion on status changes: give the event one
						q := p.DeepCopy()
						q.ResourceVersion = old.ResourceVersion + "x"
						h.OnUpdate(old, q)
						e.events++
					}
				}
			}
		}
	}
	if what == "all" || what == "claims" {
		pvcs, _ := e.kube.Tracker().List(pvcGVR, schema.GroupVersionKind{Version: "v1", Kind: "PersistentVolumeClaim"}, ns)
		if cl, ok := pvcs.(*v1.PersistentVolumeClaimList); ok {
			for i := range cl.Items {
				e.pvcIndexer().Update(cl.Items[i].DeepCopy())
			}
		}
	}
}

func (e *env) gcOrphan(uid string) int {
	n := 0
	strip := func(refs []metav1.OwnerReference) ([]metav1.OwnerReference, bool) {
		out, hit := []metav1.OwnerReference{}, false
		for _, r := range refs {
			if string(r.UID) == uid {
				hit = true
				continue
			}
			out = append(out, r)
		}
		if len(out) == 0 {
			out = nil
		}
		return out, hit
	}
	pods, _ := e.kube.Tracker().List(podGVR, schema.GroupVersionKind{Version: "v1", Kind: "Pod"}, ns)
	if pl, ok := pods.(*v1.PodList); ok {
		for i := range pl.Items {
			p := pl.Items[i].DeepCopy()
			if refs, hit := strip(p.OwnerReferences); hit {
				p.OwnerReferences = refs
				e.kube.Tracker().Update(podGVR, p, ns)
				n++
			}
		}
	}
	revs, _ := e.kube.Tracker().List(revGVR, schema.GroupVersionKind{Group: "apps", Version: "v1", Kind: "ControllerRevision"}, ns)
	if rl, ok := revs.(*kubeapps.ControllerRevisionList); ok {
		for i := range rl.Items {
			r := rl.Items[i].DeepCopy()
			if refs, hit := strip(r.OwnerReferences); hit {
				r.OwnerReferences = refs
				e.kube.Tracker().Update(revGVR, r, ns)
				n++
			}
		}
	}
	return n
}

func (e *env) kubelet(op Op) string {
	obj, err := e.kube.Tracker().Get(podGVR, ns, op.Pod)
	if err != nil {
		return "nopod"
	}
	p := obj.(*v1.Pod).DeepCopy()
	setReady := func(b bool) {
		p.Status.Conditions = nil
		if b {
			p.Status.Conditions = []v1.PodCondition{{Type: v1.PodReady, Status: v1.ConditionTrue}}
		}
	}
	switch op.Ev {
	case "run":
		p.Status.Phase = v1.PodRunning
	case "ready":
		p.Status.Phase = v1.PodRunning
		setReady(true)
	case "settle":
		// the fairness premise: a pod the controller leaves in place eventually becomes Running and Ready
		if p.DeletionTimestamp != nil || p.Status.Phase == v1.PodFailed || p.Status.Phase == v1.PodSucceeded {
			return "ok"
		}
		p.Status.Phase = v1.PodRunning
		setReady(true)
	case "unready":
		setReady(false)
	case "fail":
		p.Status.Phase = v1.PodFailed
		setReady(false)
	case "succeed":
		p.Status.Phase = v1.PodSucceeded
		setReady(false)
	case "gone":
		if p.DeletionTimestamp == nil {
			return "notterminating"
		}
		e.kube.Tracker().Delete(podGVR, ns, op.Pod)
		return "ok"
	}
	e.kube.Tracker().Update(podGVR, p, ns)
	return "ok"
}

func (e *env) edit(op Op) string {
	s := e.apiSet()
	if s == nil {
		return "noset"
	}
	var rv int64
	fmt.Sscan(s.ResourceVersion, &rv)
	s.ResourceVersion = fmt.Sprint(rv + 1)
	gen := true
	switch op.Field {
	case "replicas":
		v := int32(*op.Int)
		s.Spec.Replicas = &v
	case "slots":
		gen = false
		if s.Annotations == nil {
			s.Annotations = map[string]string{}
		}
		if op.Str == nil {
			delete(s.Annotations, "delete-slots")
		} else {
			s.Annotations["delete-slots"] = *op.Str
		}
	case "pause":
		gen = false
		if s.Annotations == nil {
			s.Annotations = map[string]string{}
		}
		if op.Str == nil {
			delete(s.Annotations, "paused-reconcile")
		} else {
			s.Annotations["paused-reconcile"] = *op.Str
		}
	case "tmpl":
		s.Spec.Template = template(int(*op.Int), appLabel(e.base))
	case "partition":
		if op.Int == nil {
			s.Spec.UpdateStrategy.RollingUpdate = nil
		} else {
			v := int32(*op.Int)
			s.Spec.UpdateStrategy.RollingUpdate = &apps.RollingUpdateStatefulSetStrategy{Partition: &v}
		}
	case "policy":
		s.Spec.PodManagementPolicy = apps.PodManagementPolicyType(*op.Str)
	case "strategy":
		s.Spec.UpdateStrategy.Type = apps.StatefulSetUpdateStrategyType(*op.Str)
	case "delete":
		gen = false
		t := metav1.NewTime(epoch.Add(3600e9))
		s.DeletionTimestamp = &t
	}
	if gen {
		s.Generation++
	}
	e.as.Tracker().Update(setGVR, s, ns)
	return "ok"
}

func init() {
	register("reconcile", func(raw json.RawMessage) (interface{}, error) {
		var sc Scenario
		if err := json.Unmarshal(raw, &sc); err != nil {
			return nil, err
		}
		e := newEnv(&sc)
		out := map[string]interface{}{}
		steps := []interface{}{}
		ops := sc.Ops
		if len(ops) == 0 {
			ops = []Op{{Op: "reconcile"}}
		}
		for _, op := range ops {
			switch op.Op {
			case "reconcile":
				e.refreshOnConflict = op.RefreshOnConflict
				steps = append(steps, e.reconcile(op.Faults, false))
				e.refreshOnConflict = false
			case "worker":
				steps = append(steps, e.reconcile(op.Faults, true))
			case "refresh":
				e.events = 0
				e.refresh(op)
				steps = append(steps, map[string]interface{}{"refresh": "ok", "events": e.events, "queue_len": e.ctrl.VerifQueue().Len()})
			case "gc":
				// the garbage collector orphans the dependents of an owner that was deleted with the orphan policy: every owner
				// reference with that UID is removed from the pods and ControllerRevisions of the API state
				steps = append(steps, map[string]interface{}{"gc": e.gcOrphan(op.What)})
			case "outage":
				e.outage = op.On
				steps = append(steps, map[string]interface{}{"outage": op.On})
			case "drain":
				// the worker: real processNextWorkItem on whatever the event handlers and the retries queued
				max := op.Max
				if max == 0 {
					max = 12
				}
				key := ns + "/" + e.base.Name
				q := e.ctrl.VerifQueue()
				works := []ReconcileObs{}
				for i := 0; i < max; i++ {
					if q.Len() == 0 && q.NumRequeues(key) > 0 {
						// a retry is scheduled: wait for the backoff (fast queue: at most 1ms)
						for w := 0; w < 400 && q.Len() == 0; w++ {
							time.Sleep(50 * time.Microsecond)
						}
					}
					if q.Len() == 0 {
						break
					}
					e.log, e.n, e.faults = nil, 0, nil
					before := q.NumRequeues(key)
					e.record = true
					obs := ReconcileObs{Result: "ok"}
					func() {
						defer func() {
							if r := recover(); r != nil {
								obs.Result, obs.Msg = "panic", fmt.Sprint(r)
							}
						}()
						e.ctrl.VerifProcessNext()
					}()
					e.record = false
					obs.Requeues = q.NumRequeues(key)
					if obs.Result == "ok" && obs.Requeues > before {
						obs.Result = "err"
					}
					obs.Calls = e.log
					if obs.Calls == nil {
						obs.Calls = []Call{}
					}
					works = append(works, obs)
				}
				steps = append(steps, map[string]interface{}{"drain": works, "queue_len": q.Len(), "requeues": q.NumRequeues(key)})
			case "kubelet":
				steps = append(steps, map[string]string{"kubelet": e.kubelet(op)})
			case "edit":
				steps = append(steps, map[string]string{"edit": e.edit(op)})
			default:
				return nil, fmt.Errorf("bad op %q", op.Op)
			}
			if sc.Dump {
				steps = append(steps, e.dump())
			}
		}
		out["steps"] = steps
		ks := append([]int{}, sc.Tmpls...)
		if e.base != nil {
			ks = append(ks, e.base.Tmpl)
		}
		out["hashes"] = hashTable(e.base, ks)
		out["final"] = e.dump()
		e.ctrl.VerifQueue().ShutDown()
		return out, nil
	})
}

var _ = context.TODO
