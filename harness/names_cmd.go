package main

// names: the pod-name parser and the name printers on arbitrary strings (C06 a).

import (
	"encoding/json"

	v1 "k8s.io/api/core/v1"
	metav1 "k8s.io/apimachinery/pkg/apis/meta/v1"

	apps "github.com/pingcap/advanced-statefulset/client/apis/apps/v1"
	"github.com/pingcap/advanced-statefulset/pkg/controller/statefulset"
)

func init() {
	register("names", func(raw json.RawMessage) (interface{}, error) {
		var in struct {
			Pod   string `json:"pod"`
			Set   string `json:"set"`
			Ord   int    `json:"ord"`
			Claim string `json:"claim"`
		}
		if err := json.Unmarshal(raw, &in); err != nil {
			return nil, err
		}
		out := map[string]interface{}{}
		var pan string
		func() {
			defer recoverTo(&pan)
			pod := &v1.Pod{ObjectMeta: metav1.ObjectMeta{Name: in.Pod}}
			parent, ord := statefulset.VerifGetParentNameAndOrdinal(pod)
			out["parent"], out["ordinal"] = parent, ord
			set := &apps.StatefulSet{ObjectMeta: metav1.ObjectMeta{Name: in.Set}}
			name := statefulset.VerifGetPodName(set, in.Ord)
			out["pod_name"] = name
			out["claim_name"] = statefulset.VerifGetPersistentVolumeClaimName(set, &v1.PersistentVolumeClaim{ObjectMeta: metav1.ObjectMeta{Name: in.Claim}}, in.Ord)
			p2, o2 := statefulset.VerifGetParentNameAndOrdinal(&v1.Pod{ObjectMeta: metav1.ObjectMeta{Name: name}})
			out["rt_parent"], out["rt_ordinal"] = p2, o2
			out["member"] = statefulset.VerifIsMemberOf(set, &v1.Pod{ObjectMeta: metav1.ObjectMeta{Name: name}})
		}()
		if pan != "" {
			out["panic"] = pan
		}
		return out, nil
	})
}
