package main

// patch: revision data of a set (getPatch / ApplyRevision / Match) on generated pod templates, and the
// reference bytes the built-in controller's encoder produces for the same template (C08, C18).

import (
	"bytes"
	"context"
	"encoding/json"
	"fmt"

	kubeapps "k8s.io/api/apps/v1"
	v1 "k8s.io/api/core/v1"
	apiequality "k8s.io/apimachinery/pkg/api/equality"
	metav1 "k8s.io/apimachinery/pkg/apis/meta/v1"
	"k8s.io/apimachinery/pkg/runtime"
	kubefake "k8s.io/client-go/kubernetes/fake"
	clientscheme "k8s.io/client-go/kubernetes/scheme"

	apps "github.com/pingcap/advanced-statefulset/client/apis/apps/v1"
	"github.com/pingcap/advanced-statefulset/client/apis/apps/v1/helper"
	asfake "github.com/pingcap/advanced-statefulset/client/client/clientset/versioned/fake"
	"github.com/pingcap/advanced-statefulset/pkg/controller/statefulset"
)

var builtinCodec = clientscheme.Codecs.LegacyCodec(kubeapps.SchemeGroupVersion)

// what the upstream controller records: the same extraction, over the apps/v1 encoding
func builtinPatch(set *kubeapps.StatefulSet) ([]byte, error) {
	data, err := runtime.Encode(builtinCodec, set)
	if err != nil {
		return nil, err
	}
	var raw map[string]interface{}
	if err := json.Unmarshal(data, &raw); err != nil {
		return nil, err
	}
	objCopy := make(map[string]interface{})
	specCopy := make(map[string]interface{})
	spec := raw["spec"].(map[string]interface{})
	template := spec["template"].(map[string]interface{})
	specCopy["template"] = template
	template["$patch"] = "replace"
	objCopy["spec"] = specCopy
	return json.Marshal(objCopy)
}

func init() {
	register("patch", func(raw json.RawMessage) (interface{}, error) {
		var in struct {
			Template  json.RawMessage `json:"template"`
			Template2 json.RawMessage `json:"template2"`
		}
		if err := json.Unmarshal(raw, &in); err != nil {
			return nil, err
		}
		out := map[string]interface{}{}
		var pan string
		func() {
			defer recoverTo(&pan)
			var tpl, tpl2 v1.PodTemplateSpec
			if err := json.Unmarshal(in.Template, &tpl); err != nil {
				out["bad_template"] = err.Error()
				return
			}
			if err := json.Unmarshal(in.Template2, &tpl2); err != nil {
				out["bad_template"] = err.Error()
				return
			}
			three := int32(3)
			mk := func(t v1.PodTemplateSpec) *apps.StatefulSet {
				return &apps.StatefulSet{
					TypeMeta:   metav1.TypeMeta{Kind: "StatefulSet", APIVersion: apps.SchemeGroupVersion.String()},
					ObjectMeta: metav1.ObjectMeta{Name: "web", Namespace: ns, UID: "u1", Generation: 3, Labels: map[string]string{"a": "b"}},
					Spec: apps.StatefulSetSpec{Replicas: &three, Template: t, ServiceName: "svc",
						Selector: &metav1.LabelSelector{MatchLabels: map[string]string{"app": "web"}}},
				}
			}
			base := mk(tpl)
			p0, err := statefulset.VerifGetPatch(base)
			if err != nil {
				out["err"] = err.Error()
				return
			}
			out["patch_len"] = len(p0)
			// non-template edits must leave the patch alone
			edits := map[string]func(s *apps.StatefulSet){
				"replicas":   func(s *apps.StatefulSet) { n := int32(7); s.Spec.Replicas = &n },
				"slots":      func(s *apps.StatefulSet) { s.Annotations = map[string]string{"delete-slots": "[1,3]"} },
				"pause":      func(s *apps.StatefulSet) { s.Annotations = map[string]string{"paused-reconcile": "true"} },
				"labels":     func(s *apps.StatefulSet) { s.Labels = map[string]string{"x": "y"} },
				"generation": func(s *apps.StatefulSet) { s.Generation = 9; s.ResourceVersion = "77" },
				"status": func(s *apps.StatefulSet) {
					s.Status = apps.StatefulSetStatus{Replicas: 5, ReadyReplicas: 2, CurrentRevision: "x", UpdateRevision: "y"}
				},
				"strategy": func(s *apps.StatefulSet) {
					p := int32(2)
					s.Spec.UpdateStrategy = apps.StatefulSetUpdateStrategy{Type: "RollingUpdate", RollingUpdate: &apps.RollingUpdateStatefulSetStrategy{Partition: &p}}
					s.Spec.PodManagementPolicy = "Parallel"
				},
				"history": func(s *apps.StatefulSet) { n := int32(4); s.Spec.RevisionHistoryLimit = &n },
			}
			changed := []string{}
			for name, f := range edits {
				s := mk(tpl)
				f(s)
				p, err := statefulset.VerifGetPatch(s)
				if err != nil || !bytes.Equal(p, p0) {
					changed = append(changed, name)
				}
			}
			out["non_template_edits_changing_patch"] = changed
			// a different template must give a different patch (unless the templates are equal)
			p2, _ := statefulset.VerifGetPatch(mk(tpl2))
			out["templates_equal"] = apiequality.Semantic.DeepEqual(tpl, tpl2)
			out["patches_equal"] = bytes.Equal(p0, p2)
			// ApplyRevision restores the recorded template onto a set with another template
			rev := &kubeapps.ControllerRevision{Data: runtime.RawExtension{Raw: p0}}
			other := mk(tpl2)
			n5 := int32(5)
			other.Spec.Replicas = &n5
			restored, err := statefulset.ApplyRevision(other, rev)
			if err != nil {
				out["apply_err"] = err.Error()
			} else {
				// compare through the codec's own normal form
				want := mk(tpl)
				wantBytes, _ := statefulset.VerifGetPatch(want)
				gotBytes, _ := statefulset.VerifGetPatch(restored)
				out["apply_restores_template"] = bytes.Equal(wantBytes, gotBytes)
				out["apply_keeps_replicas"] = restored.Spec.Replicas != nil && *restored.Spec.Replicas == 5
				m, _ := statefulset.Match(restored, rev)
				out["match_after_apply"] = m
			}
			// the built-in controller's bytes for the same object
			b, err := helper.ToBuiltinStatefulSet(base)
			if err != nil {
				out["convert_err"] = err.Error()
				return
			}
			pb, err := builtinPatch(b)
			if err != nil {
				out["builtin_err"] = err.Error()
				return
			}
			out["same_as_builtin"] = bytes.Equal(pb, p0)
			if !bytes.Equal(pb, p0) {
				out["advanced"] = string(p0)
				out["builtin"] = string(pb)
			}
			// and from the built-in side: a built-in set converted to the advanced type records the same data
			as2, err := helper.FromBuiltinStatefulSet(b)
			if err == nil {
				pa, _ := statefulset.VerifGetPatch(as2)
				out["same_after_from_builtin"] = bytes.Equal(pa, pb)
			}
			// and through the migration itself: helper.Upgrade on the built-in object stores an Advanced StatefulSet
			// that records the same data (nothing on the way may touch the template, e.g. by defaulting it again)
			kc := kubefake.NewSimpleClientset(b.DeepCopy())
			ac := asfake.NewSimpleClientset()
			if _, err := helper.Upgrade(context.TODO(), kc, ac, b.DeepCopy()); err != nil {
				out["upgrade_err"] = err.Error()
			} else if stored, err := ac.AppsV1().StatefulSets(b.Namespace).Get(context.TODO(), b.Name, metav1.GetOptions{}); err != nil {
				out["upgrade_err"] = err.Error()
			} else {
				pu, _ := statefulset.VerifGetPatch(stored)
				out["same_after_upgrade"] = bytes.Equal(pu, pb)
				if !bytes.Equal(pu, pb) {
					out["after_upgrade"] = string(pu)
					out["builtin"] = string(pb)
				}
			}
			h0 := int32(0)
			r1, _ := statefulset.VerifNewRevision(base, 1, &h0)
			out["hash"] = r1.Labels["controller.kubernetes.io/hash"]
		}()
		if pan != "" {
			out["panic"] = pan
		}
		_ = fmt.Sprint
		return out, nil
	})
}
