package main

import (
	"encoding/json"
	"fmt"

	metav1 "k8s.io/apimachinery/pkg/apis/meta/v1"
	"k8s.io/apimachinery/pkg/util/sets"

	"github.com/pingcap/advanced-statefulset/client/apis/apps/v1/helper"
)

// helper: the slot arithmetic and annotation codecs of helper.go.
//
//	in : {"replicas": int32, "ann": null | {"k":"v",...}}
//	out: slots (GetDeleteSlots, sorted), count/eff (GetMaxReplicaCountAndDeleteSlots),
//	     ords (GetPodOrdinals, sorted), max, min, paused
type helperIn struct {
	Replicas int32             `json:"replicas"`
	Ann      map[string]string `json:"ann"`
}

func recoverTo(dst *string) {
	if r := recover(); r != nil {
		*dst = fmt.Sprint(r)
	}
}

func init() {
	register("helper", func(raw json.RawMessage) (interface{}, error) {
		var in helperIn
		if err := json.Unmarshal(raw, &in); err != nil {
			return nil, err
		}
		obj := &metav1.ObjectMeta{Annotations: in.Ann}
		out := map[string]interface{}{}
		var pan string
		func() {
			defer recoverTo(&pan)
			slots := helper.GetDeleteSlots(obj)
			out["slots"] = slots.List()
			cnt, eff := helper.GetMaxReplicaCountAndDeleteSlots(in.Replicas, slots)
			out["count"] = cnt
			out["eff"] = eff.List()
			// the input set must not be modified
			out["slots_after"] = slots.List()
			ords := helper.GetPodOrdinals(in.Replicas, obj)
			out["ords"] = ords.List()
			out["ords2"] = helper.GetPodOrdinalsFromReplicasAndDeleteSlots(in.Replicas, helper.GetDeleteSlots(obj)).List()
			out["max"] = helper.GetMaxPodOrdinal(in.Replicas, obj)
			out["min"] = helper.GetMinPodOrdinal(in.Replicas, obj)
			out["paused"] = helper.GetPausedReconcile(obj)
		}()
		if pan != "" {
			out["panic"] = pan
		}
		return out, nil
	})

	// codec: annotation codecs (C19 b).
	//   in : {"ann": null|map, "op": "set"|"add"|"pause", "slots": [int32]|null, "paused": bool}
	//   out: resulting annotation map (null when nil) and the slots read back
	register("codec", func(raw json.RawMessage) (interface{}, error) {
		var in struct {
			Ann    map[string]string `json:"ann"`
			Op     string            `json:"op"`
			Slots  []int32           `json:"slots"`
			NilSet bool              `json:"nilset"`
			Paused bool              `json:"paused"`
		}
		if err := json.Unmarshal(raw, &in); err != nil {
			return nil, err
		}
		obj := &metav1.ObjectMeta{Annotations: in.Ann}
		out := map[string]interface{}{}
		var pan string
		func() {
			defer recoverTo(&pan)
			var s sets.Int32
			if !in.NilSet {
				s = sets.NewInt32(in.Slots...)
			}
			var err error
			switch in.Op {
			case "set":
				err = helper.SetDeleteSlots(obj, s)
			case "add":
				err = helper.AddDeleteSlots(obj, s)
			case "pause":
				helper.SetPausedReconcile(obj, in.Paused)
			default:
				err = fmt.Errorf("bad op")
			}
			if err != nil {
				out["err"] = err.Error()
			}
			out["ann"] = obj.Annotations
			out["ann_nil"] = obj.Annotations == nil
			out["slots"] = helper.GetDeleteSlots(obj).List()
			out["paused"] = helper.GetPausedReconcile(obj)
		}()
		if pan != "" {
			out["panic"] = pan
		}
		return out, nil
	})
}
