package main

// handlers: delivers ONE informer event to the REAL controller (statefulset.NewStatefulSetController over
// fake clientsets; the StatefulSet informer indexer is filled by hand) and reports which keys the real
// work queue then holds, in the order Get() returns them.
//
// Every case is delivered twice to a fresh queue:
//   keys          through the exported hooks VerifAddPod / VerifUpdatePod / VerifDeletePod / VerifEnqueue
//   keys_informer through the cache.ResourceEventHandler objects that NewStatefulSetController itself
//                 registered on the pod / set informers (captured by a wrapper around AddEventHandler), so
//                 that the wiring AddFunc/UpdateFunc/DeleteFunc -> addPod/updatePod/deletePod and the three
//                 closures of the set informer are exercised as well.
//
//	in : {"sets":[SetJ...], "event": EventJ}
//	out: {"keys":[...], "keys_informer":[...], "panic": "...", "lister":[keys in the indexer]}

import (
	"encoding/json"
	"flag"
	"fmt"
	"io"
	"sort"
	"time"

	v1 "k8s.io/api/core/v1"
	metav1 "k8s.io/apimachinery/pkg/apis/meta/v1"
	"k8s.io/apimachinery/pkg/types"
	kubeinformers "k8s.io/client-go/informers"
	coreinformers "k8s.io/client-go/informers/core/v1"
	kubefake "k8s.io/client-go/kubernetes/fake"
	"k8s.io/client-go/tools/cache"
	"k8s.io/klog/v2"

	apps "github.com/pingcap/advanced-statefulset/client/apis/apps/v1"
	asfake "github.com/pingcap/advanced-statefulset/client/client/clientset/versioned/fake"
	asinformers "github.com/pingcap/advanced-statefulset/client/client/informers/externalversions"
	appsinformers "github.com/pingcap/advanced-statefulset/client/client/informers/externalversions/apps/v1"
	"github.com/pingcap/advanced-statefulset/pkg/controller/statefulset"
)

func init() {
	// utilruntime.HandleError logs at ERROR severity; keep the harness's stderr for real problems
	fs := flag.NewFlagSet("klog", flag.ContinueOnError)
	klog.InitFlags(fs)
	fs.Set("logtostderr", "false")
	fs.Set("alsologtostderr", "false")
	fs.Set("stderrthreshold", "FATAL")
	klog.SetOutput(io.Discard)
	klog.LogToStderr(false)
}

var epoch = time.Date(2020, 1, 1, 0, 0, 0, 0, time.UTC)

type ReqJ struct {
	Key      string   `json:"key"`
	Operator string   `json:"operator"`
	Values   []string `json:"values"`
}

type SelJ struct {
	MatchLabels      map[string]string `json:"matchLabels"`
	MatchExpressions []ReqJ            `json:"matchExpressions"`
}

type SetJ struct {
	NS       string            `json:"ns"`
	Name     string            `json:"name"`
	UID      string            `json:"uid"`
	Selector *SelJ             `json:"selector"` // null = nil selector
	Ann      map[string]string `json:"ann"`
	RV       string            `json:"rv"`
	Replicas int32             `json:"replicas"`
}

type OwnerJ struct {
	API        string `json:"api"`
	Kind       string `json:"kind"`
	Name       string `json:"name"`
	UID        string `json:"uid"`
	Controller *bool  `json:"controller"`
	Block      *bool  `json:"block"`
}

type PodJ struct {
	NS       string            `json:"ns"`
	Name     string            `json:"name"`
	Labels   map[string]string `json:"labels"` // null = nil map
	Owners   []OwnerJ          `json:"owners"`
	RV       string            `json:"rv"`
	Deleting bool              `json:"deleting"`
}

type EventJ struct {
	Kind   string `json:"kind"` // add | update | delete | tombstone | set_add | set_update | set_delete | set_tombstone
	Pod    *PodJ  `json:"pod"`
	Old    *PodJ  `json:"old"`
	Tomb   string `json:"tomb"` // pod | notpod | nottomb
	Set    *SetJ  `json:"set"`
	OldSet *SetJ  `json:"oldset"`
	Key    string `json:"key"` // key carried by a set tombstone
}

type HandlersIn struct {
	Sets  []SetJ `json:"sets"`
	Event EventJ `json:"event"`
}

func (s *SetJ) object() *apps.StatefulSet {
	r := s.Replicas
	set := &apps.StatefulSet{
		TypeMeta: metav1.TypeMeta{Kind: "StatefulSet", APIVersion: apps.SchemeGroupVersion.String()},
		ObjectMeta: metav1.ObjectMeta{Name: s.Name, Namespace: s.NS, UID: types.UID(s.UID), ResourceVersion: s.RV,
			Annotations: s.Ann},
		Spec: apps.StatefulSetSpec{
			Replicas:    &r,
			ServiceName: "svc",
			Template: v1.PodTemplateSpec{
				ObjectMeta: metav1.ObjectMeta{Labels: map[string]string{"app": s.Name}},
				Spec:       v1.PodSpec{Containers: []v1.Container{{Name: "c", Image: "img:1"}}},
			},
			UpdateStrategy: apps.StatefulSetUpdateStrategy{Type: apps.RollingUpdateStatefulSetStrategyType},
		},
	}
	if s.Selector != nil {
		ls := &metav1.LabelSelector{MatchLabels: s.Selector.MatchLabels}
		for _, r := range s.Selector.MatchExpressions {
			ls.MatchExpressions = append(ls.MatchExpressions, metav1.LabelSelectorRequirement{
				Key: r.Key, Operator: metav1.LabelSelectorOperator(r.Operator), Values: r.Values})
		}
		set.Spec.Selector = ls
	}
	return set
}

func (p *PodJ) object() *v1.Pod {
	pod := &v1.Pod{
		TypeMeta: metav1.TypeMeta{Kind: "Pod", APIVersion: "v1"},
		ObjectMeta: metav1.ObjectMeta{Name: p.Name, Namespace: p.NS, UID: types.UID("pod-" + p.Name),
			ResourceVersion: p.RV, Labels: p.Labels},
	}
	for _, o := range p.Owners {
		pod.OwnerReferences = append(pod.OwnerReferences, metav1.OwnerReference{
			APIVersion: o.API, Kind: o.Kind, Name: o.Name, UID: types.UID(o.UID), Controller: o.Controller, BlockOwnerDeletion: o.Block})
	}
	if p.Deleting {
		t := metav1.NewTime(epoch.Add(time.Hour))
		pod.DeletionTimestamp = &t
	}
	return pod
}

// ---- informer wrappers that remember the handlers the controller registers

type capShared struct {
	cache.SharedIndexInformer
	handlers []cache.ResourceEventHandler
}

func (c *capShared) AddEventHandler(h cache.ResourceEventHandler) (cache.ResourceEventHandlerRegistration, error) {
	c.handlers = append(c.handlers, h)
	return c.SharedIndexInformer.AddEventHandler(h)
}

type capPodInformer struct {
	coreinformers.PodInformer
	inf *capShared
}

func (c capPodInformer) Informer() cache.SharedIndexInformer { return c.inf }

type capSetInformer struct {
	appsinformers.StatefulSetInformer
	inf *capShared
}

func (c capSetInformer) Informer() cache.SharedIndexInformer { return c.inf }

type ctl struct {
	kube    *kubefake.Clientset
	as      *asfake.Clientset
	kinf    kubeinformers.SharedInformerFactory
	ainf    asinformers.SharedInformerFactory
	ctrl    *statefulset.StatefulSetController
	podCap  *capShared
	setCap  *capShared
	setIdx  cache.Indexer
	cleanup func()
}

func newCtl() *ctl {
	c := &ctl{}
	c.kube = kubefake.NewSimpleClientset()
	c.as = asfake.NewSimpleClientset()
	c.kinf = kubeinformers.NewSharedInformerFactory(c.kube, 0)
	c.ainf = asinformers.NewSharedInformerFactory(c.as, 0)
	pods := c.kinf.Core().V1().Pods()
	sets := c.ainf.Apps().V1().StatefulSets()
	c.podCap = &capShared{SharedIndexInformer: pods.Informer()}
	c.setCap = &capShared{SharedIndexInformer: sets.Informer()}
	c.ctrl = statefulset.NewStatefulSetController(
		capPodInformer{PodInformer: pods, inf: c.podCap},
		capSetInformer{StatefulSetInformer: sets, inf: c.setCap},
		c.kinf.Core().V1().PersistentVolumeClaims(),
		c.kinf.Apps().V1().ControllerRevisions(), c.kube, c.as)
	c.setIdx = sets.Informer().GetIndexer()
	c.cleanup = func() { c.ctrl.VerifQueue().ShutDown() }
	return c
}

func (c *ctl) drain() []string {
	q := c.ctrl.VerifQueue()
	keys := []string{}
	for q.Len() > 0 {
		item, quit := q.Get()
		if quit {
			break
		}
		keys = append(keys, fmt.Sprint(item))
		q.Forget(item)
		q.Done(item)
	}
	return keys
}

type notAPod struct{ X int }

func tombObject(ev *EventJ) interface{} {
	switch ev.Tomb {
	case "pod":
		p := ev.Pod.object()
		return cache.DeletedFinalStateUnknown{Key: p.Namespace + "/" + p.Name, Obj: p}
	case "notpod":
		// a tombstone whose payload is not a pod (here: a StatefulSet)
		return cache.DeletedFinalStateUnknown{Key: "ns1/x", Obj: (&SetJ{NS: "ns1", Name: "a", UID: "ua"}).object()}
	default:
		// neither a pod nor a tombstone
		return &notAPod{X: 1}
	}
}

func (c *ctl) deliver(ev *EventJ, viaInformer bool) (keys []string, pan string) {
	defer func() {
		if r := recover(); r != nil {
			pan = fmt.Sprint(r)
			keys = c.drain()
		}
	}()
	pod := func(h func(cache.ResourceEventHandler)) {
		for _, x := range c.podCap.handlers {
			h(x)
		}
	}
	set := func(h func(cache.ResourceEventHandler)) {
		for _, x := range c.setCap.handlers {
			h(x)
		}
	}
	switch ev.Kind {
	case "add":
		o := ev.Pod.object()
		if viaInformer {
			pod(func(h cache.ResourceEventHandler) { h.OnAdd(o, false) })
		} else {
			c.ctrl.VerifAddPod(o)
		}
	case "update":
		o, n := ev.Old.object(), ev.Pod.object()
		if viaInformer {
			pod(func(h cache.ResourceEventHandler) { h.OnUpdate(o, n) })
		} else {
			c.ctrl.VerifUpdatePod(o, n)
		}
	case "delete":
		o := ev.Pod.object()
		if viaInformer {
			pod(func(h cache.ResourceEventHandler) { h.OnDelete(o) })
		} else {
			c.ctrl.VerifDeletePod(o)
		}
	case "tombstone":
		o := tombObject(ev)
		if viaInformer {
			pod(func(h cache.ResourceEventHandler) { h.OnDelete(o) })
		} else {
			c.ctrl.VerifDeletePod(o)
		}
	case "set_add":
		o := ev.Set.object()
		if viaInformer {
			set(func(h cache.ResourceEventHandler) { h.OnAdd(o, false) })
		} else {
			c.ctrl.VerifEnqueue(o)
		}
	case "set_update":
		o, n := ev.OldSet.object(), ev.Set.object()
		if viaInformer {
			set(func(h cache.ResourceEventHandler) { h.OnUpdate(o, n) })
		} else {
			// the hook exposes enqueueStatefulSet only; UpdateFunc passes cur
			c.ctrl.VerifEnqueue(n)
		}
	case "set_delete":
		o := ev.Set.object()
		if viaInformer {
			set(func(h cache.ResourceEventHandler) { h.OnDelete(o) })
		} else {
			c.ctrl.VerifEnqueue(o)
		}
	case "set_tombstone":
		var o interface{} = cache.DeletedFinalStateUnknown{Key: ev.Key, Obj: nil}
		if ev.Set != nil {
			o = cache.DeletedFinalStateUnknown{Key: ev.Key, Obj: ev.Set.object()}
		}
		if viaInformer {
			set(func(h cache.ResourceEventHandler) { h.OnDelete(o) })
		} else {
			c.ctrl.VerifEnqueue(o)
		}
	default:
		panic("harness: unknown event kind " + ev.Kind)
	}
	return c.drain(), ""
}

func init() {
	register("handlers", func(raw json.RawMessage) (interface{}, error) {
		var in HandlersIn
		if err := json.Unmarshal(raw, &in); err != nil {
			return nil, err
		}
		c := newCtl()
		defer c.cleanup()
		for i := range in.Sets {
			if err := c.setIdx.Add(in.Sets[i].object()); err != nil {
				return nil, err
			}
		}
		out := map[string]interface{}{}
		lk := c.setIdx.ListKeys()
		sort.Strings(lk)
		out["lister"] = lk
		out["handlers_registered"] = []int{len(c.podCap.handlers), len(c.setCap.handlers)}
		if pre := c.drain(); len(pre) != 0 {
			out["pre"] = pre // nothing may be queued before the event
		}
		keys, pan := c.deliver(&in.Event, false)
		out["keys"] = keys
		if pan != "" {
			out["panic"] = pan
		}
		keys2, pan2 := c.deliver(&in.Event, true)
		out["keys_informer"] = keys2
		if pan2 != "" {
			out["panic_informer"] = pan2
		}
		return out, nil
	})
}
