package main

// worker: drives the REAL processNextWorkItem (VerifProcessNext) over the real rate-limiting work queue,
// one call per requested outcome of the real sync.
//
//	in : {"outcomes":[true,false,...], "success":"paused"|"absent"|"alternate", "bystander": bool}
//	out: {"key":..., "steps":[StepObs...], "initial_len":1}
//
// How the outcome of sync is arranged for the key ns1/web:
//   fail    : the set informer holds an ordinary (unpaused) set; a reactor on both fake clientsets fails
//             every API call, so the reconcile returns the error of its first call (the creation of the
//             first ControllerRevision);
//   succeed : the set informer holds the same set with the paused-reconcile annotation ("paused"), or no
//             set under that key ("absent") - sync returns nil in both cases; "alternate" switches between
//             the two.
// The arrangement is confirmed by calling the real sync once directly (arranged_ok) before the worker step.
//
// After a failing step the key comes back only after the rate limiter's backoff (5ms * 2^n, through
// AddAfter); the harness waits for it and reports how long it took.  After a succeeding step nothing is
// queued, so before the next step the harness re-enqueues the set the way an informer event would
// (VerifEnqueue) and reports whether the key was accepted (it would not be if Done had not been called).

import (
	"encoding/json"
	"fmt"
	"time"

	apierrors "k8s.io/apimachinery/pkg/api/errors"
	"k8s.io/apimachinery/pkg/runtime"
	clienttesting "k8s.io/client-go/testing"
	"k8s.io/client-go/util/workqueue"

	"github.com/pingcap/advanced-statefulset/client/apis/apps/v1/helper"
)

type WorkerIn struct {
	Outcomes  []bool `json:"outcomes"`
	Success   string `json:"success"`
	Bystander bool   `json:"bystander"`
	// Fast: the controller's queue is replaced (VerifSetQueue) by one of the same type whose per-item backoff is
	// 50us * 2^n capped at 2ms, so that long runs of failing reconciles take bounded time
	Fast bool `json:"fast"`
}

type StepObs struct {
	Want       bool     `json:"want"`        // requested outcome of sync
	ArrangedOK bool     `json:"arranged_ok"` // a direct call of the real sync had that outcome
	Mode       string   `json:"mode"`
	Readded    bool     `json:"readded"`    // the harness had to enqueue the key before this step
	LenBefore  int      `json:"len_before"` // queue length just before processNextWorkItem
	Returned   bool     `json:"returned"`   // result of processNextWorkItem
	APICalls   int      `json:"api_calls"`  // API calls made by this step's reconcile
	Requeues   int      `json:"requeues"`   // NumRequeues(key) right after the step
	LenNow     int      `json:"len_now"`    // queue length right after the step
	Back       bool     `json:"back"`       // key in the queue again within the waiting window, without anybody adding it
	WaitedMS   float64  `json:"waited_ms"`
	SinceStep  float64  `json:"since_step_ms"` // from just before processNextWorkItem until the key was seen back (or the window ended)
	LenAfter   int      `json:"len_after"`     // queue length at the end of the waiting window
	Others     []string `json:"others"`        // other keys processed in between (bystander)
}

func init() {
	register("worker", func(raw json.RawMessage) (interface{}, error) {
		var in WorkerIn
		if err := json.Unmarshal(raw, &in); err != nil {
			return nil, err
		}
		c := newCtl()
		defer c.cleanup()
		failing := false
		calls := 0
		react := func(a clienttesting.Action) (bool, runtime.Object, error) {
			calls++
			if failing {
				return true, nil, apierrors.NewInternalError(fmt.Errorf("injected failure of %s %s", a.GetVerb(), a.GetResource().Resource))
			}
			return false, nil, nil
		}
		c.kube.PrependReactor("*", "*", react)
		c.as.PrependReactor("*", "*", react)

		plain := &SetJ{NS: "ns1", Name: "web", UID: "uw", RV: "1", Replicas: 1,
			Selector: &SelJ{MatchLabels: map[string]string{"app": "web"}}}
		paused := *plain
		paused.Ann = map[string]string{helper.PausedReconcileAnn: "true"}
		key := "ns1/web"
		if in.Fast {
			c.ctrl.VerifSetQueue(workqueue.NewNamedRateLimitingQueue(
				workqueue.NewItemExponentialFailureRateLimiter(50*time.Microsecond, 2*time.Millisecond), "statefulset-fast"))
		}
		q := c.ctrl.VerifQueue()
		out := map[string]interface{}{"key": key}

		arrange := func(i int, ok bool) string {
			mode := "fail"
			for _, o := range c.setIdx.List() {
				c.setIdx.Delete(o)
			}
			if in.Bystander {
				// an unrelated paused set whose key is queued in front of ours now and then
				b := paused
				b.Name, b.UID = "other", "uo"
				c.setIdx.Add(b.object())
			}
			if ok {
				mode = in.Success
				if mode == "alternate" || mode == "" {
					if i%2 == 0 {
						mode = "paused"
					} else {
						mode = "absent"
					}
				}
				if mode == "paused" {
					c.setIdx.Add(paused.object())
				}
				failing = false
			} else {
				c.setIdx.Add(plain.object())
				failing = true
			}
			return mode
		}

		// the starting point of the property: a queue containing the key
		c.ctrl.VerifEnqueue(plain.object())
		out["initial_len"] = q.Len()
		steps := []StepObs{}
		for i, want := range in.Outcomes {
			st := StepObs{Want: want}
			st.Mode = arrange(i, want)
			err := c.ctrl.VerifSync(key)
			st.ArrangedOK = (err == nil) == want
			if q.Len() == 0 {
				c.ctrl.VerifEnqueue(plain.object())
				st.Readded = true
			}
			if in.Bystander && i%2 == 1 {
				c.ctrl.VerifEnqueue((&SetJ{NS: "ns1", Name: "other", UID: "uo"}).object())
			}
			st.LenBefore = q.Len()
			calls = 0
			tStep := time.Now()
			// our key is at the head (it was queued first); the bystander, if queued, is processed after it
			st.Returned = c.ctrl.VerifProcessNext()
			st.APICalls = calls
			st.Requeues = q.NumRequeues(key)
			st.LenNow = q.Len()
			if in.Bystander && i%2 == 1 {
				// let the worker take the bystander as well (always succeeds: paused)
				failing = false
				c.ctrl.VerifProcessNext()
				st.Others = append(st.Others, "ns1/other")
			}
			// waiting window: the backoff the limiter announced plus a margin; after a success a short one
			window := 30 * time.Millisecond
			if st.Requeues > 0 || !want {
				n := st.Requeues
				if n < 1 {
					n = 1
				}
				window = time.Duration(5<<uint(n-1))*time.Millisecond + 1500*time.Millisecond
				if in.Fast {
					window = 500 * time.Millisecond
				}
			}
			t0 := time.Now()
			for time.Since(t0) < window {
				if q.Len() > 0 {
					st.Back = true
					break
				}
				if st.Requeues == 0 && want {
					time.Sleep(2 * time.Millisecond)
				} else {
					time.Sleep(500 * time.Microsecond)
				}
			}
			st.WaitedMS = float64(time.Since(t0).Microseconds()) / 1000
			st.SinceStep = float64(time.Since(tStep).Microseconds()) / 1000
			st.LenAfter = q.Len()
			steps = append(steps, st)
		}
		out["steps"] = steps
		// final: whatever is queued can be taken and finished
		out["final_len"] = q.Len()
		return out, nil
	})
}
