#!/usr/bin/env python3
"""Driver of the advanced-statefulset verification framework (DESIGN.md section 5).

  ./verif.py setup                      build the harness and the whole Coq development
  ./verif.py check C01 [--tier quick|thorough]
  ./verif.py replay <replay.json>
"""
import argparse, importlib, json, os, sys, time, traceback

sys.path.insert(0, os.path.dirname(os.path.abspath(__file__)))
from lib import core


def cmd_setup(_):
    t = core.build_harness()
    # extra harness modules of the properties claimed in MANIFEST.json
    claimed = [c["property_id"] for c in json.load(open(os.path.join(core.ROOT, "MANIFEST.json")))["checks"]]
    for pid in claimed:
        mod = importlib.import_module("props." + pid.lower())
        for extra in getattr(mod, "HARNESSES", []):
            t += core.build_harness(extra)
    ok, tail = core.coq_make()
    print("harness built in %.1fs; coq make %s" % (t, "ok" if ok else "FAILED"))
    if not ok:
        print(tail)
        return 1
    return 0


def cmd_check(a):
    pid = a.property.upper()
    tier = a.tier or os.environ.get("VERIF_TIER") or "quick"
    if tier not in ("quick", "thorough"):
        tier = "quick"
    seed = int(os.environ.get("VERIF_SEED", "20260930") or 0)
    ctx = core.Ctx(pid, tier, seed)
    mod = importlib.import_module("props." + pid.lower())
    broken = None
    try:
        core.build_harness()
        for extra in getattr(mod, "HARNESSES", []):
            core.build_harness(extra)
    except core.BuildError as e:
        core.log(str(e))
        if not core.repo_builds_plain():
            print("BUILD-ERROR property=%s: /repo does not build; no verdict" % pid)
            return 2
        # the repository builds, the harness (the hooks of the verif tag and the module that drives the real code) does not: the
        # correspondence between model and implementation cannot be established any more
        broken = {"family": "harness-build", "model": "the harness no longer builds against /repo with -tags verif: " + str(e)[-1500:]}
    make_ok, tail = core.coq_make()
    bad = core.coq_hygiene()
    theorems = core.property_theorems(pid)
    obligations, discharged, details, ok, err = theorems
    if bad:
        ok, err = False, "forbidden constructs in the development: %s" % bad[:5]
    if not make_ok and ok:
        # some other file of the development failed; this property's own closure compiled
        ctx.notes.append("make reported a failure outside this property's closure: " + tail[-300:])
    if tier == "thorough" and ok:
        chk_ok, chk = core.coqchk(pid)
        ctx.notes.append("coqchk -silent -o ASTS.%s: %s" % (pid, chk))
        obligations += 1
        if chk_ok:
            discharged += 1
        else:
            ok, err = False, "coqchk does not accept the compiled development: " + chk[:300]
    theorems = (obligations, discharged if ok else min(discharged, max(obligations - 1, 0)), details, ok, err)
    if broken is not None:
        ctx.corr_breaks.append(broken)
    else:
        try:
            mod.run(ctx, tier)
            if (not ok or ctx.corr_breaks) and not ctx.violations and tier == "quick" and hasattr(mod, "search"):
                ctx.notes.append("proof or correspondence broke: escalated to the thorough search for a failing input")
                mod.search(ctx)
        except core.BuildError as e:
            # the harness process died or answered out of protocol, or coqc rejected a generated case file: the implementation did
            # something the correspondence has no place for
            core.log(str(e))
            ctx.corr_breaks.append({"family": "harness-run", "model": "the run of the real code could not be interpreted: " + str(e)[-1500:]})
        except Exception:
            import traceback
            tb = traceback.format_exc()
            core.log(tb)
            ctx.corr_breaks.append({"family": "driver", "model": "the observations of the real code could not be interpreted by the check: " + tb[-1500:]})
    return core.finish(ctx, mod.TITLE, theorems, mod.TECHNIQUE, getattr(mod, "extra_cov", lambda c: None)(ctx),
                       getattr(mod, "ASSUMPTIONS", []))


def cmd_replay(a):
    data = json.load(open(a.path))
    pid = data["property"]
    mod = importlib.import_module("props." + pid.lower())
    core.build_harness()
    core.coq_make()
    return mod.replay(data)


def main():
    ap = argparse.ArgumentParser()
    sub = ap.add_subparsers(dest="cmd", required=True)
    sub.add_parser("setup")
    c = sub.add_parser("check")
    c.add_argument("property")
    c.add_argument("--tier", default=None)
    r = sub.add_parser("replay")
    r.add_argument("path")
    a = ap.parse_args()
    os.chdir(core.ROOT)
    rc = {"setup": cmd_setup, "check": cmd_check, "replay": cmd_replay}[a.cmd](a)
    sys.exit(rc)


if __name__ == "__main__":
    main()
