#!/usr/bin/env python3
"""mutate.py — a small mutation campaign against the machinery (development aid, not part of any registered check).
  gen                : enumerate single-site mutants of the non-test Go sources -> build/mut/mutants.jsonl
  test <k> <of>      : in scratch worktree /tmp/mut-w<k>, build + run the existing tests on every k-th mutant;
                       mutants that compile and pass are written to build/mut/survivors-<k>.jsonl (with a patch)
"""
import json, os, re, subprocess, sys

REPO = "/repo"
OUT = "/verif/build/mut"
FILES = [
    "pkg/controller/statefulset/stateful_set_control.go", "pkg/controller/statefulset/stateful_set.go",
    "pkg/controller/statefulset/stateful_set_utils.go", "pkg/controller/statefulset/stateful_pod_control.go",
    "pkg/controller/statefulset/stateful_set_status_updater.go", "pkg/third_party/k8s/controller_history.go",
    "pkg/third_party/k8s/controller_ref_manager.go", "pkg/third_party/k8s/pod.go",
    "client/apis/apps/v1/helper/helper.go", "client/apis/apps/v1/helper/upgrade.go",
    "client/apis/apps/v1/helper/hijack.go", "client/apis/apps/v1/defaults.go",
]
OPS = [
    (r" < ", " <= "), (r" <= ", " < "), (r" > ", " >= "), (r" >= ", " > "), (r" == ", " != "), (r" != ", " == "),
    (r" && ", " || "), (r" \|\| ", " && "),
    (r"!(?=[A-Za-z_][\w.]*\()", ""),
    (r"\bcontinue\b", "break"),
    (r"\breturn err\b", "return nil"), (r", err$", ", nil"),
    (r" \+ 1\b", " + 0"), (r" - 1\b", " - 0"),
    (r"\btrue\b", "false"), (r"\bfalse\b", "true"),
]
SKIP = re.compile(r"klog\.|fmt\.Errorf|HandleError|recorder\.|json:\"|^\s*//|^\s*\*|^import|^package|Eventf\(")
GOENV = dict(os.environ, GOFLAGS="-mod=mod", GOPROXY="off", GOSUMDB="off", GOTOOLCHAIN="local")


def code_part(line):
    i = line.find("//")
    return line if i < 0 else line[:i]


def gen():
    muts = []
    for f in FILES:
        lines = subprocess.run(["git", "-C", REPO, "show", "HEAD:" + f], capture_output=True, text=True, check=True).stdout.split("\n")
        for ln, line in enumerate(lines):
            if SKIP.search(line):
                continue
            code = code_part(line)
            if '"' in code and ("true" in code or "false" in code):
                pass
            for pat, rep in OPS:
                for m in re.finditer(pat, code):
                    # not inside a string literal (even number of quotes before the match)
                    if code[:m.start()].count('"') % 2 == 1 or code[:m.start()].count('`') % 2 == 1:
                        continue
                    new = code[:m.start()] + rep + code[m.end():] + line[len(code):]
                    muts.append({"file": f, "line": ln + 1, "op": "%s -> %s" % (pat, rep), "old": line, "new": new})
    os.makedirs(OUT, exist_ok=True)
    with open(os.path.join(OUT, "mutants.jsonl"), "w") as fh:
        for i, m in enumerate(muts):
            m["id"] = i
            fh.write(json.dumps(m) + "\n")
    print(len(muts), "mutants")
    by = {}
    for m in muts:
        by[m["file"]] = by.get(m["file"], 0) + 1
    print(by)


def run(cmd, cwd, timeout=240):
    p = subprocess.run(cmd, cwd=cwd, env=GOENV, capture_output=True, text=True, timeout=timeout)
    return p.returncode, (p.stdout + p.stderr)[-800:]


def test(k, of):
    wt = "/tmp/mut-w%d" % k
    if not os.path.exists(wt):
        subprocess.run(["git", "-C", REPO, "worktree", "add", "--detach", wt, "HEAD"], check=True, capture_output=True)
    muts = [json.loads(l) for l in open(os.path.join(OUT, "mutants.jsonl"))]
    out = open(os.path.join(OUT, "survivors-%d.jsonl" % k), "a")
    log = open(os.path.join(OUT, "test-%d.log" % k), "a")
    done = set()
    for l in open(os.path.join(OUT, "test-%d.log" % k)):
        done.add(int(l.split()[0]))
    for m in muts:
        if m["id"] % of != k or m["id"] in done:
            continue
        path = os.path.join(wt, m["file"])
        orig = open(path).read()
        lines = orig.split("\n")
        assert lines[m["line"] - 1] == m["old"], (m, lines[m["line"] - 1])
        lines[m["line"] - 1] = m["new"]
        open(path, "w").write("\n".join(lines))
        verdict = "?"
        try:
            mod = "client" if m["file"].startswith("client/") else "."
            rc, o = run(["go", "build", "./..."], os.path.join(wt, mod))
            if rc == 0 and mod == "client":
                rc, o = run(["go", "build", "./..."], wt)
            if rc != 0:
                verdict = "nocompile"
            else:
                rc1, o1 = run(["go", "test", "-vet=off", "-count=1", "./pkg/...", "./test/integration/..."], wt)
                rc2, o2 = (0, "")
                if rc1 == 0:
                    rc2, o2 = run(["go", "test", "-vet=off", "-count=1", "./apis/...", "./client/..."], os.path.join(wt, "client"))
                verdict = "killed" if (rc1 or rc2) else "survived"
            if verdict == "survived":
                d = subprocess.run(["git", "diff"], cwd=wt, capture_output=True, text=True).stdout
                m2 = dict(m, patch=d)
                out.write(json.dumps(m2) + "\n")
                out.flush()
        except subprocess.TimeoutExpired:
            verdict = "timeout"
        finally:
            open(path, "w").write(orig)
        log.write("%d %s %s:%d %s\n" % (m["id"], verdict, m["file"], m["line"], m["op"]))
        log.flush()


if __name__ == "__main__":
    if sys.argv[1] == "gen":
        gen()
    elif sys.argv[1] == "test":
        test(int(sys.argv[2]), int(sys.argv[3]))
