#!/bin/bash
# run every claimed quick check under several seeds; print anything that is not OK
cd /verif
for SEED in "$@"; do
  for P in $(python3 -c "import json;print(' '.join(c['property_id'] for c in json.load(open('MANIFEST.json'))['checks']))"); do
    OUT=$(VERIF_SEED=$SEED ./verif.py check $P --tier quick 2>&1 | grep -E "^(VIOLATION|OK|BUILD|HARNESS|Traceback|[A-Za-z]*Error)" | head -3)
    echo "seed=$SEED $P: $(echo "$OUT" | tr '\n' ' ' | cut -c1-160)"
  done
done
git -C /verif checkout -- evidence
