#!/bin/bash
# confirm_seed.sh <ID> [<worktree>] [<tag>] : re-confirm a seeded change in its scratch worktree
#  (1) demo passes without the change, (2) demo fails with it, (3) existing tests pass with it;
# copies patch.diff, the demo and meta.json to /verif/seeded/<tag>/ first.
set -u
ID=$1; WT=${2:-/tmp/seed-$1}; TAG=${3:-$ID}
export GOFLAGS=-mod=mod GOPROXY=off GOSUMDB=off GOTOOLCHAIN=local
cd $WT || exit 2
mkdir -p /verif/seeded/$TAG && cp SEED/patch.diff SEED/meta.json SEED/*_test.go /verif/seeded/$TAG/ || exit 2
S=/verif/seeded/$TAG
DEMO=$(python3 -c "import json;print(json.load(open('$S/meta.json'))['demo_test'])")
DEMOFILE=$(ls $S/*_test.go | head -1)
PKG=${PKG_OVERRIDE:-$(dirname $(git status --short | grep '_test.go' | grep -v SEED | awk '{print $2}' | head -1))}
MOD=.; SUB=$PKG; case $PKG in client/*) MOD=client; SUB=${PKG#client/};; esac
echo "demo=$DEMO pkg=$PKG mod=$MOD"
git reset -q; git checkout -q -- $(git diff --name-only) 2>/dev/null
git diff --quiet || { echo "tree not clean"; git status --short | head; }
cp $DEMOFILE $PKG/
R0=$( (cd $MOD && go test -vet=off -count=1 -run "^$DEMO\$" ./$SUB/ 2>&1 | tail -3) )
echo "--- demo WITHOUT change:"; echo "$R0"
git apply $S/patch.diff || { echo "patch does not apply"; exit 2; }
R1=$( (cd $MOD && go test -vet=off -count=1 -run "^$DEMO\$" ./$SUB/ 2>&1 | grep -v '^=== RUN' | tail -8) )
echo "--- demo WITH change:"; echo "$R1"
mv $PKG/$(basename $DEMOFILE) /tmp/$(basename $DEMOFILE).aside
R2=$( (go test -vet=off -count=1 ./pkg/... 2>&1 | grep -v 'no test files' | tail -3; cd client && go test -vet=off -count=1 ./... 2>&1 | grep -v 'no test files' | tail -2) )
mv /tmp/$(basename $DEMOFILE).aside $PKG/$(basename $DEMOFILE)
echo "--- existing tests WITH change:"; echo "$R2"
echo "$R0" > $S/demo_without_change.txt; echo "$R1" > $S/demo_with_change.txt; echo "$R2" > $S/existing_tests_with_change.txt
