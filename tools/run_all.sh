#!/bin/bash
# run every claimed quick (or $1=thorough) check on the current tree; summary at the end
cd /verif
TIER=${1:-quick}
for P in $(python3 -c "import json;print(' '.join(c['property_id'] for c in json.load(open('MANIFEST.json'))['checks']))"); do
  ./verif.py check $P --tier $TIER 2>/dev/null | grep -E "^(VIOLATION|OK|KNOWN|BUILD|HARNESS)"
done
