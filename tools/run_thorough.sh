#!/bin/bash
# run every claimed thorough check once; print one line per property
cd /verif
for P in $(python3 -c "import json;print(' '.join(c['property_id'] for c in json.load(open('MANIFEST.json'))['checks']))"); do
  if [ -n "$1" ] && ! echo " $* " | grep -q " $P "; then continue; fi
  S=$(date +%s)
  OUT=$(./verif.py check $P --tier thorough 2>&1 | grep -E "^(VIOLATION|KNOWN-FINDING|OK|BUILD|HARNESS|Traceback|[A-Za-z]*Error)" | head -4)
  echo "$P ($(( $(date +%s) - S ))s): $(echo "$OUT" | tr '\n' ' ' | cut -c1-220)"
done
