#!/bin/bash
# try_seed_seeds.sh <seed-dir> <PROP> <verif-seeds...>
D=$1; P=$2; shift 2
cd /verif
git -C /repo apply /verif/seeded/$D/patch.diff || { echo "[$D] patch does not apply"; exit 2; }
for S in "$@"; do
  R=$(VERIF_SEED=$S ./verif.py check $P --tier quick 2>/dev/null | grep -E "^(VIOLATION|OK|BUILD|HARNESS)" | head -1 | cut -c1-110)
  echo "[$D] $P seed=$S $R"
done
git -C /repo checkout -- .
git -C /verif checkout -- evidence
