#!/bin/bash
# seed_matrix.sh <verif-seeds...> : every seeded change x the given VERIF_SEEDs, quick check of its property
cd /verif
for D in $(ls seeded | grep -v harmless); do
  P=${D%%-*}
  git -C /repo apply /verif/seeded/$D/patch.diff || { echo "[$D] patch does not apply"; continue; }
  for S in "$@"; do
    R=$(VERIF_SEED=$S ./verif.py check $P --tier quick 2>/dev/null | grep -E "^(VIOLATION|OK|BUILD|HARNESS)" | head -1 | cut -c1-110)
    echo "[$D] seed=$S $R"
  done
  git -C /repo checkout -- .
done
git -C /verif checkout -- evidence
