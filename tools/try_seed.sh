#!/bin/bash
# try_seed.sh <seed-dir-name> <PROP>... : apply /verif/seeded/<name>/patch.diff to /repo, run the quick checks, undo.
NAME=$1; shift
cd /verif
git -C /repo apply /verif/seeded/$NAME/patch.diff || { echo "patch does not apply"; exit 2; }
for P in "$@"; do
  ./verif.py check $P --tier quick 2>/dev/null | grep -E "^(VIOLATION|OK|KNOWN|BUILD|HARNESS)" | sed "s/^/[$NAME] $P: /"
done
git -C /repo checkout -- .
git -C /verif checkout -- evidence
git -C /repo status --short | grep -v '^??' | head -3
