#!/usr/bin/env python3
"""mut_eval.py <slot> <nslots> — evaluate surviving mutants (build/mut/survivors-*.jsonl) against the quick checks that
look at the mutated file, in a private copy of /verif (/tmp/vm-<slot>) and a private worktree of /repo (/tmp/mut-e<slot>).
Development aid, not part of any registered check.  Results: build/mut/eval-<slot>.jsonl"""
import glob, json, os, re, subprocess, sys

slot, nslots = int(sys.argv[1]), int(sys.argv[2])
VM = "/tmp/vm-%d" % slot
WT = "/tmp/mut-e%d" % slot
OUT = "/verif/build/mut"
CHECKS = {
    "stateful_set_control.go": ["C09", "C15", "C03", "C04", "C12", "C13", "C08"],
    "stateful_set.go": ["C10", "C11", "C16", "C09", "C15"],
    "stateful_set_utils.go": ["C06", "C03", "C07", "C08", "C12", "C15"],
    "stateful_pod_control.go": ["C06", "C09", "C15"],
    "stateful_set_status_updater.go": ["C09", "C12"],
    "controller_history.go": ["C08", "C13", "C18"],
    "controller_ref_manager.go": ["C10", "C11", "C05"],
    "pod.go": ["C05", "C07", "C14", "C12"],
    "helper.go": ["C01", "C19", "C04", "C11"],
    "upgrade.go": ["C17", "C18"],
    "hijack.go": ["C19", "C20"],
    "defaults.go": ["C19"],
}

if not os.path.exists(VM):
    subprocess.run(["rsync", "-a", "--exclude", ".git", "--exclude", "build/cases", "--exclude", "build/tmp", "--exclude", "build/mut",
                    "--exclude", "build/dev", "--exclude", "replays", "--exclude", "build/locks", "/verif/", VM + "/"], check=True)
    for gm in glob.glob(VM + "/harness*/go.mod"):
        s = open(gm).read().replace("=> /repo", "=> " + WT)
        open(gm, "w").write(s)
if not os.path.exists(WT):
    subprocess.run(["git", "-C", "/repo", "worktree", "add", "--detach", WT, "HEAD"], check=True, capture_output=True)

surv = []
for f in sorted(glob.glob(OUT + "/survivors-*.jsonl")):
    surv += [json.loads(l) for l in open(f)]
surv.sort(key=lambda m: m["id"])
want = None
if os.path.exists(OUT + "/sample.json"):
    want = set(json.load(open(OUT + "/sample.json")))
donef = OUT + "/eval-%d.jsonl" % slot
done = set()
for f in glob.glob(OUT + "/eval-*.jsonl"):
    done |= {json.loads(l)["id"] for l in open(f)}
PASS2 = os.environ.get("MUT_PASS2") == "1"      # second pass: the undetected ones against every other check
first = {}
if PASS2:
    for f in glob.glob(OUT + "/eval-*.jsonl"):
        for l in open(f):
            r = json.loads(l)
            if r.get("verdict") == "undetected":
                first[r["id"]] = [c for c, _ in r["runs"]]
    want = set(first)
    done = set()
    for f in glob.glob(OUT + "/eval2-*.jsonl"):
        done |= {json.loads(l)["id"] for l in open(f)}
    donef = OUT + "/eval2-%d.jsonl" % slot
ALL = ["C01", "C03", "C04", "C05", "C06", "C07", "C08", "C09", "C10", "C11", "C12", "C13", "C14", "C15", "C16", "C17", "C18", "C19", "C20", "C02"]
env = dict(os.environ, VERIF_REPO=WT, VERIF_SEED=os.environ.get("VERIF_SEED", "20260930"))
k = -1
for m in surv:
    if want is not None and m["id"] not in want:
        continue
    k += 1
    if k % nslots != slot or m["id"] in done:
        continue
    subprocess.run(["git", "checkout", "-q", "--", "."], cwd=WT)
    p = subprocess.run(["git", "apply"], input=m["patch"], text=True, cwd=WT, capture_output=True)
    if p.returncode != 0:
        res = {"id": m["id"], "verdict": "patch-failed"}
    else:
        res = {"id": m["id"], "file": m["file"], "line": m["line"], "op": m["op"], "old": m["old"].strip(), "new": m["new"].strip(), "verdict": "undetected", "runs": []}
        todo = CHECKS[os.path.basename(m["file"])]
        if PASS2:
            helper_side = m["file"].startswith("client/")
            todo = [c for c in ALL if c not in first[m["id"]] and (helper_side or c not in ("C01", "C17", "C19", "C20"))]
        for c in todo:
            try:
                q = subprocess.run([sys.executable, VM + "/verif.py", "check", c, "--tier", "quick"], cwd=VM, env=env, capture_output=True, text=True, timeout=2400)
                lines = [l for l in q.stdout.splitlines() if re.match(r"^(VIOLATION|OK|BUILD|HARNESS|Traceback)", l)]
                line = lines[0][:200] if lines else (q.stderr[-200:] or "no output")
            except subprocess.TimeoutExpired:
                line = "TIMEOUT"
            res["runs"].append([c, line])
            if line.startswith("VIOLATION") or line.startswith("BUILD") or line.startswith("HARNESS"):
                res["verdict"] = "detected:" + c + (":nfi" if "no-failing-input-found" in line else "") if line.startswith("VIOLATION") else "error:" + c
                break
    open(donef, "a").write(json.dumps(res) + "\n")
subprocess.run(["git", "checkout", "-q", "--", "."], cwd=WT)
