#!/bin/bash
# try_harmless.sh <N> : apply seeded/harmless-<N>/patch.diff to /repo, run every quick check, undo
N=$1
cd /verif
git -C /repo apply /verif/seeded/harmless-$N/patch.diff || { echo "[harmless-$N] patch does not apply"; exit 2; }
for P in $(python3 -c "import json;print(' '.join(c['property_id'] for c in json.load(open('MANIFEST.json'))['checks']))"); do
  OUT=$(./verif.py check $P --tier quick 2>&1 | grep -E "^(VIOLATION|OK|BUILD|HARNESS|Traceback|[A-Za-z]*Error)" | head -3)
  echo "[harmless-$N] $P: $(echo "$OUT" | tr '\n' ' ' | cut -c1-160)"
done
git -C /repo checkout -- .
git -C /verif checkout -- evidence
