(* SlotsProofs.v — lemmas about Slots.v.  The property statements live in C01.v. *)
From ASTS Require Import Base Slots.
From Coq Require Import Sorting.Sorted FinFun.

(* ---------- norm produces an ascending duplicate-free list with the same members ------ *)
Lemma insert_sorted_In x l y : In y (insert_sorted x l) <-> y = x \/ In y l.
Proof.
  induction l as [|a t IH]; cbn [insert_sorted].
  - cbn. intuition.
  - destruct (x <? a) eqn:E1; [cbn; intuition|].
    destruct (x =? a) eqn:E2.
    + apply Z.eqb_eq in E2. subst. cbn. intuition.
    + cbn [In]. rewrite IH. intuition.
Qed.

Lemma insert_sorted_sorted x l : StronglySorted Z.lt l -> StronglySorted Z.lt (insert_sorted x l).
Proof.
  induction 1 as [|a t Hs IH Hall]; cbn [insert_sorted].
  - repeat constructor.
  - rewrite Forall_forall in Hall.
    destruct (x <? a) eqn:E1.
    + apply Z.ltb_lt in E1. constructor; [constructor; [exact Hs | apply Forall_forall; exact Hall]|].
      apply Forall_forall. intros y [<-|Hy]; [exact E1 | apply Hall in Hy; lia].
    + destruct (x =? a) eqn:E2.
      * constructor; [exact Hs | apply Forall_forall; exact Hall].
      * apply Z.ltb_ge in E1. apply Z.eqb_neq in E2.
        constructor; [exact IH|]. apply Forall_forall. intros y Hy.
        apply insert_sorted_In in Hy. destruct Hy as [->|Hy]; [lia | apply Hall; exact Hy].
Qed.

Lemma norm_In l y : In y (norm l) <-> In y l.
Proof.
  induction l as [|a t IH]; cbn [norm fold_right]; [tauto|].
  rewrite insert_sorted_In. fold (norm t). rewrite IH. cbn. intuition.
Qed.

Lemma norm_sorted l : StronglySorted Z.lt (norm l).
Proof.
  induction l as [|a t IH]; cbn [norm fold_right]; [constructor|].
  apply insert_sorted_sorted. exact IH.
Qed.

(* ---------- the range-extension loop ---------------------------------------------------
   Stated without wrap: under the guard cnt + |l| <= max_i32 the int32 counter never wraps. *)
Fixpoint ext (cnt : Z) (l : list Z) : Z * list Z :=
  match l with
  | [] => (cnt, [])
  | s :: t => if (0 <=? s) && (s <? cnt)
              then let '(c, k) := ext (cnt + 1) t in (c, s :: k)
              else ext cnt t
  end.

Lemma extend_ext l : forall cnt, 0 <= cnt -> cnt + Z.of_nat (length l) <= max_i32 ->
  extend cnt l = ext cnt l.
Proof.
  induction l as [|s t IH]; intros cnt H0 Hb; cbn [extend ext]; [reflexivity|].
  cbn [length] in Hb.
  destruct ((0 <=? s) && (s <? cnt)).
  - rewrite wrap32_id.
    + rewrite IH by lia. reflexivity.
    + unfold in_i32, min_i32, max_i32 in *. apply andb_true_iff. split; apply Z.leb_le; lia.
  - apply IH; lia.
Qed.

Lemma ext_ge cnt l : (forall x, In x l -> cnt <= x) -> ext cnt l = (cnt, []).
Proof.
  induction l as [|s t IH]; intros H; cbn [ext]; [reflexivity|].
  assert (Hs : cnt <= s) by (apply H; left; reflexivity).
  destruct (0 <=? s) eqn:E1; destruct (s <? cnt) eqn:E2; cbn [andb];
    try (apply IH; intros x Hx; apply H; right; exact Hx).
  apply Z.ltb_lt in E2. lia.
Qed.

Lemma ext_spec l : StronglySorted Z.lt l -> forall cnt c k, ext cnt l = (c, k) ->
  c = cnt + Z.of_nat (length k)
  /\ (forall s, In s k -> In s l /\ 0 <= s < c)
  /\ (forall s, In s l -> 0 <= s < c -> In s k)
  /\ NoDup k
  /\ StronglySorted Z.lt k.
Proof.
  induction 1 as [|s t Hst IH Hall]; intros cnt c k E; cbn [ext] in E.
  - inversion E; subst. cbn. repeat split; try lia; try contradiction; constructor.
  - rewrite Forall_forall in Hall.
    destruct ((0 <=? s) && (s <? cnt)) eqn:G.
    + apply andb_true_iff in G. destruct G as [G1 G2].
      apply Z.leb_le in G1. apply Z.ltb_lt in G2.
      destruct (ext (cnt + 1) t) as [c' k'] eqn:E'. inversion E; subst c k.
      destruct (IH _ _ _ E') as (Hc & Hk & Hd & Hn & Hso).
      repeat split.
      * cbn [length]. lia.
      * destruct H as [<-|H]; [left; reflexivity | right; apply Hk; exact H].
      * destruct H as [<-|H]; [lia | apply Hk in H; lia].
      * destruct H as [<-|H]; [cbn [length] in *; lia | apply Hk in H; lia].
      * intros x [<-|Hx] Hr; [left; reflexivity | right; apply Hd; assumption].
      * constructor; [|exact Hn]. intros Hin. apply Hk in Hin. destruct Hin as [Hin _].
        apply Hall in Hin. lia.
      * constructor; [exact Hso|]. apply Forall_forall. intros y Hy. apply Hk in Hy.
        destruct Hy as [Hy _]. apply Hall. exact Hy.
    + apply andb_false_iff in G.
      destruct (Z_lt_dec s 0) as [Hneg|Hnn].
      * destruct (IH _ _ _ E) as (Hc & Hk & Hd & Hn & Hso). repeat split; try assumption.
        -- right. apply Hk. exact H.
        -- apply Hk in H; lia.
        -- apply Hk in H; lia.
        -- intros x [<-|Hx] Hr; [lia | apply Hd; assumption].
      * assert (Hge : cnt <= s).
        { destruct G as [G|G]; [apply Z.leb_gt in G; lia | apply Z.ltb_ge in G; exact G]. }
        rewrite ext_ge in E by (intros x Hx; apply Hall in Hx; lia).
        inversion E; subst c k. cbn. repeat split; try lia; try contradiction; try constructor.
        intros x [<-|Hx] Hr; [lia | apply Hall in Hx; lia].
Qed.

(* ---------- counting -------------------------------------------------------------------- *)
Lemma length_remove_in (a : Z) k : NoDup k -> In a k ->
  length k = S (length (remove Z.eq_dec a k)).
Proof.
  induction 1 as [|x k Hx Hn IH]; intros Hin; [contradiction|].
  cbn [remove]. destruct (Z.eq_dec a x) as [->|Hne].
  - cbn [length]. f_equal. symmetry. f_equal. apply notin_remove. exact Hx.
  - destruct Hin as [->|Hin]; [contradiction|]. cbn [length]. f_equal. apply IH. exact Hin.
Qed.

Lemma NoDup_remove_Z (a : Z) k : NoDup k -> NoDup (remove Z.eq_dec a k).
Proof.
  induction 1 as [|x k Hx Hn IHk]; cbn [remove]; [constructor|].
  destruct (Z.eq_dec a x); [exact IHk|]. constructor; [|exact IHk].
  intros H. apply in_remove in H. destruct H; contradiction.
Qed.

Lemma count_filter l : NoDup l -> forall k, NoDup k -> incl k l ->
  (length (filter (fun i => negb (memb i k)) l) + length k = length l)%nat.
Proof.
  induction 1 as [|a l Ha Hl IH]; intros k Hk Hinc.
  - destruct k as [|x k]; [reflexivity|]. exfalso. apply (Hinc x). left; reflexivity.
  - cbn [filter length]. destruct (memb a k) eqn:M; cbn [negb].
    + apply memb_In in M.
      set (k' := remove Z.eq_dec a k).
      assert (Hk' : NoDup k') by (apply NoDup_remove_Z; exact Hk).
      assert (Hinc' : incl k' l).
      { intros x Hx. apply in_remove in Hx. destruct Hx as [Hx Hne].
        destruct (Hinc x Hx) as [E|E]; [congruence | exact E]. }
      rewrite (length_remove_in a k Hk M). fold k'.
      rewrite (filter_ext_in (fun i => negb (memb i k)) (fun i => negb (memb i k')) l).
      * specialize (IH k' Hk' Hinc'). lia.
      * intros x Hx. f_equal. apply eq_true_iff_eq. rewrite !memb_In. unfold k'. split.
        -- intros H. apply in_in_remove; [|exact H]. intros ->. contradiction.
        -- intros H. apply in_remove in H. tauto.
    + assert (Hna : ~ In a k) by (intros H; apply memb_In in H; congruence).
      cbn [length]. rewrite <- (IH k Hk); [lia|].
      intros x Hx. destruct (Hinc x Hx) as [E|E]; [subst; contradiction | exact E].
Qed.

Lemma zrange_NoDup c : NoDup (zrange c).
Proof.
  unfold zrange. apply Injective_map_NoDup; [intros a b; lia | apply seq_NoDup].
Qed.
Lemma zrange_length c : 0 <= c -> Z.of_nat (length (zrange c)) = c.
Proof. intros H. unfold zrange. rewrite map_length, seq_length. lia. Qed.

Lemma zrange_sorted c : StronglySorted Z.lt (zrange c).
Proof.
  unfold zrange. generalize 0%nat as a. induction (Z.to_nat c) as [|n IH]; intros a; cbn [seq map].
  - constructor.
  - constructor; [apply IH|]. apply Forall_forall. intros y Hy.
    apply in_map_iff in Hy. destruct Hy as [m [<- Hm]]. apply in_seq in Hm. lia.
Qed.

Lemma filter_sorted (f : Z -> bool) l : StronglySorted Z.lt l -> StronglySorted Z.lt (filter f l).
Proof.
  induction 1 as [|a t Hs IH Hall]; cbn [filter]; [constructor|].
  destruct (f a); [|exact IH]. constructor; [exact IH|].
  rewrite Forall_forall in *. intros y Hy. apply filter_In in Hy. apply Hall. tauto.
Qed.

(* ---------- characterisation of the desired ordinals ----------------------------------- *)
Definition free (D : list Z) (n : Z) : Prop := 0 <= n /\ ~ In n D.

Record desired_spec (r : Z) (D O : list Z) : Prop := {
  ds_len   : Z.of_nat (length O) = r;
  ds_sorted: StronglySorted Z.lt O;                   (* ascending, hence duplicate-free *)
  ds_free  : forall o, In o O -> free D o;
  ds_least : forall n, free D n -> ~ In n O -> forall o, In o O -> o < n }.

Lemma sorted_NoDup l : StronglySorted Z.lt l -> NoDup l.
Proof.
  induction 1 as [|a t Hs IH Hall]; constructor; [|exact IH].
  intros Hin. rewrite Forall_forall in Hall. apply Hall in Hin. lia.
Qed.

Lemma ordinals_ext_spec r l : 0 <= r -> StronglySorted Z.lt l ->
  desired_spec r l (let '(c, k) := ext r l in ordinals_of c k).
Proof.
  intros Hr Hs. destruct (ext r l) as [c k] eqn:E.
  destruct (ext_spec l Hs _ _ _ E) as (Hc & Hk & Hd & Hn & _).
  assert (Hc0 : 0 <= c) by lia. unfold ordinals_of.
  constructor.
  - pose proof (count_filter (zrange c) (zrange_NoDup c) k Hn) as Hcount.
    assert (Hi : incl k (zrange c)) by (intros x Hx; apply zrange_In; apply Hk; exact Hx).
    specialize (Hcount Hi). pose proof (zrange_length c Hc0). lia.
  - apply filter_sorted. apply zrange_sorted.
  - intros o Ho. apply filter_In in Ho. destruct Ho as [H1 H2]. apply zrange_In in H1.
    split; [lia|]. intros Hin. apply negb_true_iff in H2.
    assert (Hk' : In o k) by (apply Hd; assumption). apply memb_In in Hk'. congruence.
  - intros n [Hn0 Hnl] HnO o Ho. apply filter_In in Ho. destruct Ho as [Ho _]. apply zrange_In in Ho.
    destruct (Z_lt_dec o n); [assumption|]. exfalso. apply HnO. apply filter_In. split.
    + apply zrange_In. lia.
    + apply negb_true_iff. destruct (memb n k) eqn:M; [|reflexivity]. apply memb_In in M.
      apply Hk in M. tauto.
Qed.

(* the model's pod_ordinals (with int32 wrap) under the no-wrap guard *)
Lemma pod_ordinals_spec r D : 0 <= r -> StronglySorted Z.lt D ->
  r + Z.of_nat (length D) <= max_i32 ->
  desired_spec r D (pod_ordinals r D).
Proof.
  intros Hr Hs Hb. unfold pod_ordinals. rewrite extend_ext by assumption.
  apply ordinals_ext_spec; assumption.
Qed.

(* effective range and effective slots *)
Lemma extend_spec r D c k : 0 <= r -> StronglySorted Z.lt D ->
  r + Z.of_nat (length D) <= max_i32 -> extend r D = (c, k) ->
  c = r + Z.of_nat (length k)
  /\ (forall s, In s k <-> In s D /\ 0 <= s < c)
  /\ StronglySorted Z.lt k
  /\ pod_ordinals r D = ordinals_of c k.
Proof.
  intros Hr Hs Hb E. unfold pod_ordinals. rewrite E. rewrite extend_ext in E by assumption.
  destruct (ext_spec D Hs _ _ _ E) as (Hc & Hk & Hd & Hn & Hso).
  repeat split; try assumption.
  - apply Hk. assumption.
  - apply Hk in H. lia.
  - apply Hk in H. lia.
  - intros [H1 H2]. apply Hd; assumption.
Qed.

(* uniqueness: the four clauses determine the list *)
Lemma sorted_ext_eq l1 : forall l2, StronglySorted Z.lt l1 -> StronglySorted Z.lt l2 ->
  (forall x, In x l1 <-> In x l2) -> l1 = l2.
Proof.
  induction l1 as [|a t IH]; intros l2 H1 H2 Heq.
  - destruct l2 as [|b u]; [reflexivity|]. exfalso. apply (Heq b). left; reflexivity.
  - destruct l2 as [|b u]; [exfalso; apply (Heq a); left; reflexivity|].
    inversion H1 as [|? ? Hs1 Ha]; subst. inversion H2 as [|? ? Hs2 Hb]; subst.
    rewrite Forall_forall in Ha, Hb.
    assert (a = b).
    { assert (Hia : In a (b :: u)) by (apply Heq; left; reflexivity).
      assert (Hib : In b (a :: t)) by (apply Heq; left; reflexivity).
      destruct Hia as [->|Hia]; [reflexivity|]. destruct Hib as [->|Hib]; [reflexivity|].
      apply Ha in Hib. apply Hb in Hia. lia. }
    subst b. f_equal. apply IH; try assumption.
    intros x. split; intros Hx.
    + assert (Hx' : In x (a :: u)) by (apply Heq; right; exact Hx).
      destruct Hx' as [<-|Hx']; [apply Ha in Hx; lia | exact Hx'].
    + assert (Hx' : In x (a :: t)) by (apply Heq; right; exact Hx).
      destruct Hx' as [<-|Hx']; [apply Hb in Hx; lia | exact Hx'].
Qed.

Lemma incl_or_witness (l2 l1 : list Z) : incl l2 l1 \/ exists y, In y l2 /\ ~ In y l1.
Proof.
  induction l2 as [|a t IH].
  - left. intros x [].
  - destruct (in_dec Z.eq_dec a l1) as [Ha|Ha].
    + destruct IH as [IH|[y [Hy1 Hy2]]].
      * left. intros x [<-|Hx]; [exact Ha | apply IH; exact Hx].
      * right. exists y. split; [right; exact Hy1 | exact Hy2].
    + right. exists a. split; [left; reflexivity | exact Ha].
Qed.

Lemma desired_spec_sub r D O1 O2 : desired_spec r D O1 -> desired_spec r D O2 ->
  forall x, In x O1 -> In x O2.
Proof.
  intros [L1 S1 F1 M1] [L2 S2 F2 M2] x Hx.
  destruct (in_dec Z.eq_dec x O2) as [Hin|Hnin]; [exact Hin|exfalso].
  assert (Hlt : forall o, In o O2 -> o < x) by (apply M2; [apply F1; exact Hx | exact Hnin]).
  destruct (incl_or_witness O2 O1) as [Hinc|[y [Hy2 Hy1]]].
  - (* O2 ⊆ O1 \ {x}: too short *)
    assert (Hinc' : incl O2 (remove Z.eq_dec x O1)).
    { intros z Hz. apply in_in_remove; [|apply Hinc; exact Hz]. intros ->. contradiction. }
    pose proof (NoDup_incl_length (sorted_NoDup _ S2) Hinc') as Hle.
    pose proof (length_remove_in x O1 (sorted_NoDup _ S1) Hx) as Hrm. lia.
  - assert (x < y) by (apply (M1 y); [apply F2; exact Hy2 | exact Hy1 | exact Hx]).
    apply Hlt in Hy2. lia.
Qed.

Lemma desired_spec_unique r D O1 O2 : desired_spec r D O1 -> desired_spec r D O2 -> O1 = O2.
Proof.
  intros H1 H2. apply sorted_ext_eq; [apply H1 | apply H2|].
  intros x. split; [apply (desired_spec_sub r D O1 O2) | apply (desired_spec_sub r D O2 O1)]; assumption.
Qed.

(* ---------- the greedy reading: the i-th member is the least free number not yet taken ---- *)
Lemma sorted_nth_split (O : list Z) : StronglySorted Z.lt O -> forall i o, nth_error O i = Some o ->
  ~ In o (firstn i O) /\ (forall n, In n O -> ~ In n (firstn i O) -> o <= n).
Proof.
  induction 1 as [|a t Hs IH Hall]; intros i o Hn.
  - destruct i; discriminate.
  - rewrite Forall_forall in Hall. destruct i as [|i]; cbn [nth_error firstn] in *.
    + inversion Hn; subst. split; [intros []|]. intros n [<-|Hin] _; [lia | apply Hall in Hin; lia].
    + destruct (IH _ _ Hn) as [H1 H2]. split.
      * intros [->|Hin]; [|contradiction]. apply nth_error_In in Hn. apply Hall in Hn. lia.
      * intros n [<-|Hin] Hnot; [exfalso; apply Hnot; left; reflexivity|].
        apply H2; [exact Hin|]. intros Hf. apply Hnot. right. exact Hf.
Qed.

Lemma desired_spec_greedy r D O : desired_spec r D O -> forall i o, nth_error O i = Some o ->
  free D o /\ ~ In o (firstn i O)
  /\ (forall n, free D n -> ~ In n (firstn i O) -> o <= n).
Proof.
  intros [L S F M] i o Hn.
  destruct (sorted_nth_split O S i o Hn) as [H1 H2].
  split; [apply F; eapply nth_error_In; exact Hn|]. split; [exact H1|].
  intros n Hfree Hnot. destruct (in_dec Z.eq_dec n O) as [Hin|Hnin].
  - apply H2; assumption.
  - assert (o < n) by (apply (M n Hfree Hnin); eapply nth_error_In; exact Hn). lia.
Qed.

(* ---------- highest / lowest ordinal helpers --------------------------------------------- *)
Lemma fold_max_spec l : forall a, let m := fold_left Z.max l a in
  a <= m /\ (forall x, In x l -> x <= m) /\ (m = a \/ In m l).
Proof.
  induction l as [|x t IH]; intros a; cbn [fold_left].
  - cbn. repeat split; try lia; intros x [];  lia.
  - destruct (Z.max_spec a x) as [[Hlt E]|[Hle E]]; rewrite E.
    + specialize (IH x). cbn zeta in IH. destruct IH as (H1 & H2 & H3). repeat split.
      * lia.
      * intros y [<-|Hy]; [lia | apply H2; exact Hy].
      * destruct H3 as [H3|H3]; [right; left; auto | right; right; exact H3].
    + specialize (IH a). cbn zeta in IH. destruct IH as (H1 & H2 & H3). repeat split.
      * lia.
      * intros y [<-|Hy]; [lia | apply H2; exact Hy].
      * destruct H3 as [H3|H3]; [left; exact H3 | right; right; exact H3].
Qed.

Lemma fold_min_spec l : forall a, let m := fold_left Z.min l a in
  m <= a /\ (forall x, In x l -> m <= x) /\ (m = a \/ In m l).
Proof.
  induction l as [|x t IH]; intros a; cbn [fold_left].
  - cbn. repeat split; try lia; intros x [];  lia.
  - destruct (Z.min_spec a x) as [[Hlt E]|[Hle E]]; rewrite E.
    + specialize (IH a). cbn zeta in IH. destruct IH as (H1 & H2 & H3). repeat split.
      * lia.
      * intros y [<-|Hy]; [lia | apply H2; exact Hy].
      * destruct H3 as [H3|H3]; [left; exact H3 | right; right; exact H3].
    + specialize (IH x). cbn zeta in IH. destruct IH as (H1 & H2 & H3). repeat split.
      * lia.
      * intros y [<-|Hy]; [lia | apply H2; exact Hy].
      * destruct H3 as [H3|H3]; [right; left; auto | right; right; exact H3].
Qed.

Lemma pod_ordinals_bounds r D : 0 <= r -> StronglySorted Z.lt D ->
  r + Z.of_nat (length D) <= max_i32 ->
  forall o, In o (pod_ordinals r D) -> 0 <= o < r + Z.of_nat (length D).
Proof.
  intros Hr Hs Hb o Ho. destruct (extend r D) as [c k] eqn:E.
  destruct (extend_spec r D c k Hr Hs Hb E) as (Hc & Hk & Hso & Hp).
  rewrite Hp in Ho. apply filter_In in Ho. destruct Ho as [Ho _]. apply zrange_In in Ho.
  assert (length k <= length D)%nat.
  { apply NoDup_incl_length; [apply sorted_NoDup; exact Hso|]. intros x Hx. apply Hk in Hx. tauto. }
  lia.
Qed.

Lemma max_ord_spec r D : 0 <= r -> StronglySorted Z.lt D -> r + Z.of_nat (length D) <= max_i32 ->
  (pod_ordinals r D = [] /\ max_ord r D = -1)
  \/ (In (max_ord r D) (pod_ordinals r D) /\ forall o, In o (pod_ordinals r D) -> o <= max_ord r D).
Proof.
  intros Hr Hs Hb. unfold max_ord.
  destruct (fold_max_spec (pod_ordinals r D) (-1)) as (H1 & H2 & H3).
  pose proof (pod_ordinals_bounds r D Hr Hs Hb) as Hbd.
  destruct (pod_ordinals r D) as [|o t]; [left; split; reflexivity|]. right.
  split; [|exact H2]. destruct H3 as [H3|H3]; [|exact H3]. exfalso.
  assert (Ho : In o (o :: t)) by (left; reflexivity).
  specialize (Hbd o Ho). specialize (H2 o Ho). lia.
Qed.

Lemma min_ord_spec r D : 0 <= r -> StronglySorted Z.lt D -> r + Z.of_nat (length D) <= max_i32 ->
  (pod_ordinals r D = [] /\ min_ord r D = max_i32)
  \/ (In (min_ord r D) (pod_ordinals r D) /\ forall o, In o (pod_ordinals r D) -> min_ord r D <= o).
Proof.
  intros Hr Hs Hb. unfold min_ord.
  destruct (fold_min_spec (pod_ordinals r D) max_i32) as (H1 & H2 & H3).
  pose proof (pod_ordinals_bounds r D Hr Hs Hb) as Hbd.
  destruct (pod_ordinals r D) as [|o t]; [left; split; reflexivity|]. right.
  split; [|exact H2]. destruct H3 as [H3|H3]; [|exact H3]. exfalso.
  assert (Ho : In o (o :: t)) by (left; reflexivity).
  specialize (Hbd o Ho). specialize (H2 o Ho). lia.
Qed.

(* ---------- the annotation layer --------------------------------------------------------- *)
Lemma get_slots_sorted a : StronglySorted Z.lt (get_slots a).
Proof.
  unfold get_slots. destruct a as [v|]; [|constructor].
  destruct (parse_slots v); [apply norm_sorted | constructor].
Qed.
