(* C12 — Status tells the truth.  Statements only. *)
From ASTS Require Import Base Slots Names World Reconcile PlanProofs ReconcileProofs StatusProofs CounterProofs ExampleWorld.

(* (1) every status write of every reconcile (any API state, cache, fault oracle): it is written against
   the resourceVersion of the cached set that was reconciled; observedGeneration is the generation of that
   set; updateRevision / collisionCount are the resolved ones; and currentRevision is the resolved current
   revision UNLESS the strategy is RollingUpdate and the counters of this very reconcile say updated =
   replicas = ready — then, and only then, it becomes the update revision. *)
Theorem C12_status_write_fields :
  forall hashes api cache faults o log w' st rv e,
    reconcile hashes api cache faults = (o, log, w') -> In (CUpdateStatus st rv, e) log ->
    exists s cur upd coll claimed po,
      ctx_valid cache (s, cur, upd, coll, claimed, po)
      /\ rv = s_rv s /\ st_obsgen st = s_gen s /\ st_updrev st = ri_name upd /\ st_coll st = Some coll
      /\ (st_currev st = ri_name cur
          \/ (s_strategy s = "RollingUpdate"%string /\ st_updated (po_status po) = st_replicas (po_status po)
              /\ st_ready (po_status po) = st_replicas (po_status po) /\ st_currev st = ri_name upd)).
Proof. exact status_write_fields. Qed.
Print Assumptions C12_status_write_fields.

(* (2) never lower than the stored value: the API applies a status write only against the stored
   resourceVersion; a writer holding a stale copy gets a conflict and nothing changes *)
Theorem C12_stale_writer_conflicts :
  forall st rv (s0 : rstate) r s1 a,
    rs_faults s0 = [] -> w_set (rs_api s0) = Some a -> api_update_status st rv s0 = (r, s1) ->
    (r = Ok tt /\ s_rv a = rv /\ w_set (rs_api s1) = Some (set_status a st (rv + 1)))
    \/ (r = Err EConflict /\ s_rv a <> rv /\ rs_api s1 = rs_api s0).
Proof. exact status_write_precondition. Qed.
Print Assumptions C12_stale_writer_conflicts.

(* (3) the counters of EVERY status write are within bounds, for every API state, informer cache (stale or
   not), fault oracle, any number of revisions in flight, terminating / failed / condemned pods.  Hypothesis:
   the cached pods have a phase (the API server defaults status.phase to Pending when it stores a pod); the
   condemned loop takes a condemned pod out of the revision counters without asking whether it was counted. *)
Theorem C12_counters_within_bounds :
  forall hashes api cache faults o log w' st rv e,
    reconcile hashes api cache faults = (o, log, w') ->
    (forall p, In p (w_pods cache) -> isCreated p = true) ->
    In (CUpdateStatus st rv, e) log ->
    0 <= st_ready st <= st_replicas st /\ 0 <= st_current st <= st_replicas st /\ 0 <= st_updated st <= st_replicas st.
Proof. exact status_write_counters. Qed.
Print Assumptions C12_counters_within_bounds.

(* (4) the completion rule on the counters: currentRevision moves only when updated = replicas = ready *)
Theorem C12_completion_rule : forall s st,
  (st_currev (complete_rolling_update s st) = st_currev st /\ complete_rolling_update s st = st)
  \/ (s_strategy s = "RollingUpdate"%string /\ st_updated st = st_replicas st /\ st_ready st = st_replicas st
      /\ st_currev (complete_rolling_update s st) = st_updrev st
      /\ st_current (complete_rolling_update s st) = st_updated st).
Proof. exact complete_rolling_update_currev. Qed.
Print Assumptions C12_completion_rule.

(* (5) at a fixed point (the plan of the reconcile holds no action) a status that is written is the exact census
   of the pods the set claims: total, Running-and-Ready, counted at the update revision, counted at the
   current revision (or, when the rollout completes in this very write, current := update).  sumf f l is
   the sum of f over l; cc r p = 1 when p is created, not terminating and at revision r, else 0; rr p = 1
   when p is Running and Ready. *)
Theorem C12_census_at_fixed_point :
  forall hashes api cache faults o log w' st rv e,
    reconcile hashes api cache faults = (o, log, w') -> In (CUpdateStatus st rv, e) log ->
    exists s cur upd coll claimed po,
      ctx_valid cache (s, cur, upd, coll, claimed, po)
      /\ (po_acts po = [] ->
          st_replicas st = Z.of_nat (length claimed) /\ st_ready st = sumf rr claimed
          /\ st_updated st = sumf (cc upd) claimed
          /\ (st_current st = sumf (cc cur) claimed
              \/ (st_currev st = ri_name upd /\ st_updated st = st_replicas st /\ st_ready st = st_replicas st
                  /\ st_current st = sumf (cc upd) claimed))).
Proof. exact status_write_census. Qed.
Print Assumptions C12_census_at_fixed_point.

(* non-vacuity of (3): the example world's pods all have a phase, and a status is written *)
Example C12_ex_bounds : forall p, In p ex_healthy3 -> isCreated p = true.
Proof. intros p [<-|[<-|[<-|[]]]]; reflexivity. Qed.

(* (6) the controller never writes anything of the StatefulSet but its status: for every API state, cache and fault
   oracle the stored set after the reconcile is the stored set before, up to status and resourceVersion *)
From ASTS Require Import KeepsSet.
Theorem C12_reconcile_writes_status_only :
  forall hashes api cache faults o log w',
    reconcile hashes api cache faults = (o, log, w') -> spec_of (w_set api) = spec_of (w_set w').
Proof. exact reconcile_keeps_spec. Qed.
Print Assumptions C12_reconcile_writes_status_only.

(* non-vacuity: a scale-in reconcile writes a status with the reconciled generation *)
Example C12_ex :
  exists st rv e, In (CUpdateStatus st rv, e)
                     (ex_log (ex_set 3 (Some "[1]"%string) "Parallel" 1 0 (ex_status 3 "web-h1" "web-h1")) ex_healthy3 [ex_rev "web-h1" 1 1])
                  /\ st_obsgen st = 1 /\ rv = 5 /\ st_replicas st = 4.
Proof. eexists; eexists; eexists. vm_compute. split; [do 6 right; left; reflexivity | repeat split]. Qed.
