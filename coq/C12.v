(* C12 — Status tells the truth.  Statements only. *)
From ASTS Require Import Base Slots Names World Reconcile PlanProofs ReconcileProofs StatusProofs ExampleWorld.

(* (1) every status write of every reconcile (any API state, cache, fault oracle): it is written against
   the resourceVersion of the cached set that was reconciled; observedGeneration is the generation of that
   set; updateRevision / collisionCount are the resolved ones; and currentRevision is the resolved current
   revision UNLESS the strategy is RollingUpdate and the counters of this very reconcile say updated =
   replicas = ready — then, and only then, it becomes the update revision. *)
Theorem C12_status_write_fields :
  forall hashes api cache faults o log w' st rv e,
    reconcile hashes api cache faults = (o, log, w') -> In (CUpdateStatus st rv, e) log ->
    exists s cur upd coll claimed po,
      ctx_valid cache (s, cur, upd, coll, claimed, po)
      /\ rv = s_rv s /\ st_obsgen st = s_gen s /\ st_updrev st = ri_name upd /\ st_coll st = Some coll
      /\ (st_currev st = ri_name cur
          \/ (s_strategy s = "RollingUpdate"%string /\ st_updated (po_status po) = st_replicas (po_status po)
              /\ st_ready (po_status po) = st_replicas (po_status po) /\ st_currev st = ri_name upd)).
Proof. exact status_write_fields. Qed.
Print Assumptions C12_status_write_fields.

(* (2) never lower than the stored value: the API applies a status write only against the stored
   resourceVersion; a writer holding a stale copy gets a conflict and nothing changes *)
Theorem C12_stale_writer_conflicts :
  forall st rv (s0 : rstate) r s1 a,
    rs_faults s0 = [] -> w_set (rs_api s0) = Some a -> api_update_status st rv s0 = (r, s1) ->
    (r = Ok tt /\ s_rv a = rv /\ w_set (rs_api s1) = Some (set_status a st (rv + 1)))
    \/ (r = Err EConflict /\ s_rv a <> rv /\ rs_api s1 = rs_api s0).
Proof. exact status_write_precondition. Qed.
Print Assumptions C12_stale_writer_conflicts.

(* (3) PARTIAL.  Full statement of the counter clause: for every status written,
        0 <= st_ready, st_current, st_updated <= st_replicas,
   and at a quiescent fixed point the four counters are the census of the live pods.  What is proved about
   the counters is (1)'s completion rule; the bounds and the census are NOT proved in Coq: they are decided
   on the implementation by the monitor of props/c12.py on every status write of every generated snapshot,
   fault variant and history, and through the projected correspondence (payload of every status update).
   Missing for a proof: a counting argument pairing every decrement of the three loops with the pod that
   the census counted (disjointness of replaced / condemned / update-deleted pods). *)
Theorem C12_counters_partial : forall s st,
  (st_currev (complete_rolling_update s st) = st_currev st /\ complete_rolling_update s st = st)
  \/ (s_strategy s = "RollingUpdate"%string /\ st_updated st = st_replicas st /\ st_ready st = st_replicas st
      /\ st_currev (complete_rolling_update s st) = st_updrev st
      /\ st_current (complete_rolling_update s st) = st_updated st).
Proof. exact complete_rolling_update_currev. Qed.
Print Assumptions C12_counters_partial.

(* non-vacuity: a scale-in reconcile writes a status with the reconciled generation *)
Example C12_ex :
  exists st rv e, In (CUpdateStatus st rv, e)
                     (ex_log (ex_set 3 (Some "[1]"%string) "Parallel" 1 0 (ex_status 3 "web-h1" "web-h1")) ex_healthy3 [ex_rev "web-h1" 1 1])
                  /\ st_obsgen st = 1 /\ rv = 5 /\ st_replicas st = 4.
Proof. eexists; eexists; eexists. vm_compute. split; [do 6 right; left; reflexivity | repeat split]. Qed.
