(* ConvertProofs.v — lemmas about Convert.v.  The property statements live in C19.v. *)
From ASTS Require Import Base Json Convert.
Open Scope string_scope.
Open Scope Z_scope.

(* ====================================================================================== *)
(* 0. induction on schemas through the field lists                                        *)
(* ====================================================================================== *)
Fixpoint schema_ind' (P : schema -> Prop)
  (Hsc : forall k, P (SScalar k)) (Hop : forall n z, P (SOpaque n z))
  (Hptr : forall s, P s -> P (SPtr s)) (Hsl : forall s, P s -> P (SSlice s))
  (Hmap : forall s, P s -> P (SMap s))
  (Hst : forall fs, Forall (fun f => P (fsch f)) fs -> P (SStruct fs))
  (s : schema) {struct s} : P s :=
  match s with
  | SScalar k => Hsc k
  | SOpaque n z => Hop n z
  | SPtr s' => Hptr s' (schema_ind' P Hsc Hop Hptr Hsl Hmap Hst s')
  | SSlice s' => Hsl s' (schema_ind' P Hsc Hop Hptr Hsl Hmap Hst s')
  | SMap s' => Hmap s' (schema_ind' P Hsc Hop Hptr Hsl Hmap Hst s')
  | SStruct fs =>
      Hst fs ((fix go (fs : list field) : Forall (fun f => P (fsch f)) fs :=
                 match fs with
                 | [] => Forall_nil _
                 | f :: t => Forall_cons f (schema_ind' P Hsc Hop Hptr Hsl Hmap Hst (snd f)) (go t)
                 end) fs)
  end.

(* ====================================================================================== *)
(* 1. the nested fixpoints as Forall                                                      *)
(* ====================================================================================== *)
Definition canon_field (l : jobj) (f : field) : Prop :=
  match jlookup (fname f) l with
  | Some v => canon (fsch f) v /\ (fomit f = true -> is_empty (fsch f) v = false)
  | None => fomit f = true /\ never_empty (fsch f) = false
  end.

Definition agree_field (lx ly : jobj) (f : field) : Prop :=
  match jlookup (fname f) lx, jlookup (fname f) ly with
  | Some a, Some b => agree (fsch f) a b
  | None, None => True
  | _, _ => False
  end.

Definition compat_field (fb : list field) (f : field) : Prop :=
  exists g, flookup (fname f) fb = Some g /\ fomit f = fomit g /\ compat (fsch f) (fsch g) = true.

Lemma conv_struct fs j :
  conv (SStruct fs) j =
  match (match j with JNull => Some [] | JObj l => Some l | _ => None end) with
  | None => None
  | Some l => omap JObj (conv_fields conv fs l)
  end.
Proof.
  cbn [conv]. destruct (match j with JNull => Some [] | JObj l => Some l | _ => None end) as [l|]; [|reflexivity].
  f_equal. induction fs as [|[[n b] s] t IH]; [reflexivity|].
  cbn [conv_fields fname fomit fsch fst snd]. rewrite <- IH. reflexivity.
Qed.

Lemma canon_struct fs j :
  canon (SStruct fs) j <->
  exists l, j = JObj l /\ NoDup (jkeys l)
    /\ (forall k, In k (jkeys l) -> In k (map fname fs))
    /\ Forall (canon_field l) fs.
Proof.
  cbn [canon]. split; intros (l & E & Hnd & Hk & H); exists l; (split; [exact E|]); (split; [exact Hnd|]);
    (split; [exact Hk|]); clear Hk.
  - induction fs as [|[[n b] s] t IH]; [constructor|]. destruct H as [H1 H2].
    constructor; [exact H1 | apply IH; exact H2].
  - induction fs as [|[[n b] s] t IH]; [exact I|]. inversion H as [|? ? H1 H2]; subst.
    split; [exact H1 | apply IH; exact H2].
Qed.

Lemma agree_struct fs x y :
  agree (SStruct fs) x y <->
  exists lx ly, x = JObj lx /\ y = JObj ly /\ Forall (agree_field lx ly) fs.
Proof.
  cbn [agree]. split; intros (lx & ly & Ex & Ey & H); exists lx, ly; (split; [exact Ex|]); (split; [exact Ey|]).
  - induction fs as [|[[n b] s] t IH]; [constructor|]. destruct H as [H1 H2].
    constructor; [exact H1 | apply IH; exact H2].
  - induction fs as [|[[n b] s] t IH]; [exact I|]. inversion H as [|? ? H1 H2]; subst.
    split; [exact H1 | apply IH; exact H2].
Qed.

Lemma nodupb_NoDup l : nodupb l = true <-> NoDup l.
Proof.
  induction l as [|x t IH]; cbn [nodupb]; [split; [constructor | reflexivity]|].
  rewrite andb_true_iff, negb_true_iff, IH. split.
  - intros [H1 H2]. constructor; [|exact H2]. intros Hin.
    assert (existsb (String.eqb x) t = true) by (apply existsb_exists; exists x; split; [exact Hin | apply String.eqb_refl]).
    congruence.
  - intros H. inversion H as [|? ? Hn Ht]; subst. split; [|exact Ht].
    destruct (existsb (String.eqb x) t) eqn:E; [|reflexivity]. exfalso.
    apply existsb_exists in E. destruct E as [y [Hy Ey]]. apply String.eqb_eq in Ey. subst. contradiction.
Qed.

Lemma wf_struct fs :
  wf_schema (SStruct fs) = true <->
  NoDup (map fname fs) /\ Forall (fun f => wf_schema (fsch f) = true) fs.
Proof.
  cbn [wf_schema]. rewrite andb_true_iff, nodupb_NoDup.
  assert (H : (fix go (fs0 : list (string * bool * schema)) : bool :=
                 match fs0 with
                 | [] => true
                 | f :: t => let '(_, s') := f in wf_schema s' && go t
                 end) fs = true <-> Forall (fun f => wf_schema (fsch f) = true) fs).
  { induction fs as [|[[n b] s] t IH]; [split; [constructor | reflexivity]|].
    rewrite andb_true_iff, IH. cbn [fsch snd]. split.
    - intros [H1 H2]. constructor; assumption.
    - intros H. inversion H; subst. split; assumption. }
  rewrite H. reflexivity.
Qed.

Lemma compat_struct fa fb :
  compat (SStruct fa) (SStruct fb) = true <-> Forall (compat_field fb) fa.
Proof.
  cbn [compat]. induction fa as [|[[n b] s] t IH]; [split; [constructor | reflexivity]|].
  rewrite andb_true_iff, IH. cbn [fst snd]. split.
  - intros [H1 H2]. constructor; [|exact H2].
    destruct (flookup n fb) as [g|] eqn:E; [|discriminate]. apply andb_true_iff in H1. destruct H1 as [H1 H3].
    exists g. cbn [fname fomit fsch fst snd] in *. split; [exact E|]. split; [apply eqb_prop; exact H1 | exact H3].
  - intros H. inversion H as [|? ? H1 H2]; subst. split; [|exact H2].
    destruct H1 as (g & E & Ho & Hc). cbn [fname fomit fsch fst snd] in *.
    rewrite E, Ho, Hc, eqb_reflx. reflexivity.
Qed.

Lemma flookup_Some k fs g : flookup k fs = Some g -> In g fs /\ fname g = k.
Proof.
  induction fs as [|f t IH]; cbn [flookup]; [discriminate|].
  destruct (String.eqb_spec k (fname f)) as [->|Hne].
  - intros H; inversion H; subst. split; [left; reflexivity | reflexivity].
  - intros H. destruct (IH H). split; [right; assumption | assumption].
Qed.

Lemma flookup_In fs g : NoDup (map fname fs) -> In g fs -> flookup (fname g) fs = Some g.
Proof.
  induction fs as [|f t IH]; intros Hnd Hin; [destruct Hin|].
  cbn [map] in Hnd. inversion Hnd as [|? ? Hn Ht]; subst. cbn [flookup].
  destruct Hin as [->|Hin]; [rewrite String.eqb_refl; reflexivity|].
  destruct (String.eqb_spec (fname g) (fname f)) as [E|Hne].
  - exfalso. apply Hn. rewrite <- E. apply in_map. exact Hin.
  - apply IH; assumption.
Qed.

Lemma flookup_None k fs : flookup k fs = None <-> ~ In k (map fname fs).
Proof.
  induction fs as [|f t IH]; cbn [flookup map In]; [tauto|].
  destruct (String.eqb_spec k (fname f)) as [->|Hne].
  - split; [discriminate | intros H; exfalso; apply H; left; reflexivity].
  - rewrite IH. split; [intros H [E|E]; [congruence | contradiction] | tauto].
Qed.

(* ====================================================================================== *)
(* 2. conv_fields                                                                         *)
(* ====================================================================================== *)
Lemma conv_fields_ok cv fs l :
  (forall f, In f fs -> exists v, cv (fsch f) (getv (fname f) l) = Some v) ->
  exists out, conv_fields cv fs l = Some out.
Proof.
  induction fs as [|f t IH]; intros H; [eexists; reflexivity|].
  destruct (H f (or_introl eq_refl)) as [v Ev].
  destruct IH as [r Er]; [intros g Hg; apply H; right; exact Hg|].
  cbn [conv_fields]. rewrite Ev, Er. eexists; reflexivity.
Qed.

Lemma conv_fields_keys cv fs l out :
  conv_fields cv fs l = Some out -> forall k, In k (jkeys out) -> In k (map fname fs).
Proof.
  revert out. induction fs as [|f t IH]; intros out; cbn [conv_fields].
  - intros H; inversion H; subst. intros k [].
  - destruct (cv (fsch f) (getv (fname f) l)) as [v|]; [|discriminate].
    destruct (conv_fields cv t l) as [r|]; [|discriminate].
    intros H; inversion H; subst. intros k Hk. cbn [map].
    destruct (fomit f && is_empty (fsch f) v).
    + right. apply (IH r eq_refl). exact Hk.
    + destruct Hk as [<-|Hk]; [left; reflexivity | right; apply (IH r eq_refl); exact Hk].
Qed.

Lemma conv_fields_NoDup cv fs l out :
  NoDup (map fname fs) -> conv_fields cv fs l = Some out -> NoDup (jkeys out).
Proof.
  revert out. induction fs as [|f t IH]; intros out Hnd; cbn [conv_fields].
  - intros H; inversion H; constructor.
  - cbn [map] in Hnd. inversion Hnd as [|? ? Hn Ht]; subst.
    destruct (cv (fsch f) (getv (fname f) l)) as [v|]; [|discriminate].
    destruct (conv_fields cv t l) as [r|] eqn:Er; [|discriminate].
    intros H; inversion H; subst.
    destruct (fomit f && is_empty (fsch f) v); [apply IH; [exact Ht | reflexivity]|].
    unfold jkeys. cbn [map fst]. constructor; [|apply IH; [exact Ht | reflexivity]].
    intros Hin. apply Hn. eapply conv_fields_keys; [exact Er | exact Hin].
Qed.

Lemma conv_fields_lookup cv fs l out :
  NoDup (map fname fs) -> conv_fields cv fs l = Some out ->
  forall f, In f fs -> exists v, cv (fsch f) (getv (fname f) l) = Some v
     /\ jlookup (fname f) out = (if fomit f && is_empty (fsch f) v then None else Some v).
Proof.
  revert out. induction fs as [|f0 t IH]; intros out Hnd; cbn [conv_fields]; [intros _ f []|].
  cbn [map] in Hnd. inversion Hnd as [|? ? Hn Ht]; subst.
  destruct (cv (fsch f0) (getv (fname f0) l)) as [v0|] eqn:E0; [|discriminate].
  destruct (conv_fields cv t l) as [r|] eqn:Er; [|discriminate].
  intros H f Hin; inversion H; subst.
  assert (Hr0 : jlookup (fname f0) r = None).
  { apply jlookup_None_iff. intros Hk. apply Hn. eapply conv_fields_keys; [exact Er | exact Hk]. }
  destruct Hin as [<-|Hin].
  - exists v0. split; [exact E0|].
    destruct (fomit f0 && is_empty (fsch f0) v0); [exact Hr0|].
    cbn [jlookup]. rewrite String.eqb_refl. reflexivity.
  - destruct (IH r Ht eq_refl f Hin) as (v & Ev & Hl). exists v. split; [exact Ev|].
    rewrite <- Hl. destruct (fomit f0 && is_empty (fsch f0) v0); [reflexivity|].
    cbn [jlookup]. destruct (String.eqb_spec (fname f) (fname f0)) as [E|Hne]; [|reflexivity].
    exfalso. apply Hn. rewrite <- E. apply in_map. exact Hin.
Qed.

Lemma is_empty_never s v : is_empty s v = true -> never_empty s = false.
Proof. destruct s; cbn; try reflexivity; intros H; try discriminate; destruct v; discriminate. Qed.

(* the output of a struct conversion is canonical when each converted field is *)
Lemma canon_fields_out fs l out :
  NoDup (map fname fs) -> conv_fields conv fs l = Some out ->
  (forall f v, In f fs -> conv (fsch f) (getv (fname f) l) = Some v -> canon (fsch f) v) ->
  canon (SStruct fs) (JObj out).
Proof.
  intros Hnd Ho Hc. apply canon_struct. exists out. split; [reflexivity|].
  split; [eapply conv_fields_NoDup; eassumption|].
  split; [eapply conv_fields_keys; eassumption|].
  apply Forall_forall. intros f Hf.
  destruct (conv_fields_lookup conv fs l out Hnd Ho f Hf) as (v & Ev & Hl).
  unfold canon_field. rewrite Hl.
  destruct (fomit f && is_empty (fsch f) v) eqn:E.
  - apply andb_true_iff in E. destruct E as [E1 E2]. split; [exact E1|]. apply is_empty_never with v. exact E2.
  - split; [apply Hc; assumption|]. intros Ho'. rewrite Ho' in E. exact E.
Qed.

(* ====================================================================================== *)
(* 3. the zero value                                                                       *)
(* ====================================================================================== *)
Lemma conv_null s : wf_schema s = true ->
  exists z, conv s JNull = Some z /\ canon s z /\ (never_empty s = false -> is_empty s z = true).
Proof.
  induction s as [k|n z|s IH|s IH|s IH|fs IH] using schema_ind'; intros Hwf.
  - exists (zero_scalar k). split; [destruct k; reflexivity|]. split; [|intros _; destruct k; reflexivity].
    destruct k; cbn; try exact I. cbn in Hwf. apply andb_true_iff in Hwf. destruct Hwf as [H1 H2].
    apply Z.leb_le in H1. apply Z.leb_le in H2. lia.
  - exists z. split; [reflexivity|]. split; [cbn; auto | discriminate].
  - exists JNull. split; [reflexivity|]. split; [left; reflexivity | reflexivity].
  - exists JNull. split; [reflexivity|]. split; [left; reflexivity | reflexivity].
  - exists JNull. split; [reflexivity|]. split; [left; reflexivity | reflexivity].
  - apply wf_struct in Hwf. destruct Hwf as [Hnd Hwf]. rewrite Forall_forall in IH, Hwf.
    destruct (conv_fields_ok conv fs []) as [out Ho].
    { intros f Hf. destruct (IH f Hf (Hwf f Hf)) as (z & Ez & _). exists z. exact Ez. }
    exists (JObj out). split; [rewrite conv_struct, Ho; reflexivity|].
    split; [|discriminate].
    eapply canon_fields_out; [exact Hnd | exact Ho|].
    intros f v Hf Ev. destruct (IH f Hf (Hwf f Hf)) as (z & Ez & Hz & _).
    change (getv (fname f) []) with JNull in Ev. congruence.
Qed.

(* ====================================================================================== *)
(* 4. small facts about agree / compat / emptiness                                        *)
(* ====================================================================================== *)
Lemma skind_eqb_eq a b : skind_eqb a b = true -> a = b.
Proof.
  destruct a, b; cbn; try discriminate; try reflexivity.
  intros H. apply andb_true_iff in H. destruct H as [H1 H2].
  apply Z.eqb_eq in H1. apply Z.eqb_eq in H2. subst. reflexivity.
Qed.

Lemma compat_never_empty a b : compat a b = true -> never_empty a = never_empty b.
Proof. destruct a, b; cbn [compat]; try discriminate; reflexivity. Qed.

(* emptiness depends only on the outermost kind, which compatible schemas share *)
Lemma compat_is_empty a b v : compat a b = true -> is_empty a v = is_empty b v.
Proof.
  destruct a, b; cbn [compat]; try discriminate; try reflexivity.
  intros H. apply skind_eqb_eq in H. subst. reflexivity.
Qed.

Lemma agree_null s x y : agree s x y -> (x = JNull <-> y = JNull).
Proof.
  destruct s; cbn [agree].
  - intros ->. tauto.
  - intros ->. tauto.
  - intros [[-> ->]|(H1 & H2 & _)]; tauto.
  - intros [[-> ->]|(lx & ly & -> & -> & _)]; [tauto | split; discriminate].
  - intros [[-> ->]|(lx & ly & -> & -> & _)]; [tauto | split; discriminate].
  - intros (lx & ly & -> & -> & _). split; discriminate.
Qed.

Lemma agree_is_empty s x y : agree s x y -> is_empty s x = is_empty s y.
Proof.
  destruct s; cbn [agree].
  - intros ->. reflexivity.
  - intros ->. reflexivity.
  - intros [[-> ->]|(H1 & H2 & _)]; [reflexivity|]. destruct x, y; try contradiction; reflexivity.
  - intros [[-> ->]|(lx & ly & -> & -> & H)]; [reflexivity|]. destruct H; reflexivity.
  - intros [[-> ->]|(lx & ly & -> & -> & H)]; [reflexivity|]. destruct H; reflexivity.
  - intros (lx & ly & -> & -> & _). reflexivity.
Qed.

Lemma conv_ptr_nonnull s j : j <> JNull -> conv (SPtr s) j = conv s j.
Proof. intros H. destruct j; try reflexivity. contradiction. Qed.

Lemma json_null_dec (j : json) : {j = JNull} + {j <> JNull}.
Proof. destruct j; (left; reflexivity) || (right; discriminate). Qed.

Lemma mapM_Forall2 {A B} (f : A -> option B) (R : B -> A -> Prop) l :
  (forall x, In x l -> exists y, f x = Some y /\ R y x) ->
  exists l', mapM f l = Some l' /\ Forall2 R l' l.
Proof.
  induction l as [|x t IH]; intros H; [exists []; split; [reflexivity | constructor]|].
  destruct (H x (or_introl eq_refl)) as (y & Ey & Hy).
  destruct IH as (r & Er & Hr); [intros z Hz; apply H; right; exact Hz|].
  exists (y :: r). cbn [mapM]. rewrite Ey, Er. split; [reflexivity | constructor; assumption].
Qed.

Lemma json_eqb_eq a : forall b, json_eqb a b = true -> a = b.
Proof.
  induction a as [| | | | |l IH|l IH] using json_ind'; intros b'; destruct b'; cbn [json_eqb]; try discriminate.
  - reflexivity.
  - intros H. apply eqb_prop in H. subst. reflexivity.
  - intros H. apply Z.eqb_eq in H. subst. reflexivity.
  - intros H. apply String.eqb_eq in H. subst. reflexivity.
  - intros H. apply String.eqb_eq in H. subst. reflexivity.
  - intros H. f_equal. revert l0 H. induction IH as [|x t Hx Ht IHt]; intros [|y u]; try discriminate; [reflexivity|].
    intros H. apply andb_true_iff in H. destruct H as [H1 H2]. f_equal; [apply Hx; exact H1 | apply IHt; exact H2].
  - intros H. f_equal. revert l0 H. induction IH as [|x t Hx Ht IHt]; intros [|y u]; try discriminate; [reflexivity|].
    intros H. apply andb_true_iff in H. destruct H as [H1 H2]. apply andb_true_iff in H1. destruct H1 as [H0 H1].
    apply String.eqb_eq in H0. f_equal; [|apply IHt; exact H2].
    destruct x, y; cbn [fst snd] in *. f_equal; [exact H0 | apply Hx; exact H1].
Qed.

Lemma Forall2_split {A B} (P : A -> Prop) (Q : A -> B -> Prop) l' l :
  Forall2 (fun y x => P y /\ Q y x) l' l -> Forall P l' /\ Forall2 Q l' l.
Proof. induction 1 as [|y x l' l [H1 H2] _ [IH1 IH2]]; split; constructor; assumption. Qed.

Lemma conv_scalar_canon k j : canon_scalar k j -> conv_scalar k j = Some j.
Proof.
  destruct k, j; cbn; try contradiction; try reflexivity.
  intros [H1 H2]. apply Z.leb_le in H1. apply Z.leb_le in H2. rewrite H1, H2. reflexivity.
Qed.

Lemma conv_opaque_canon n z j : canon (SOpaque n z) j -> conv (SOpaque n z) j = Some j.
Proof. cbn. intros H. destruct j; try reflexivity. rewrite (H eq_refl). reflexivity. Qed.

(* ====================================================================================== *)
(* 5. down: the sub-schema A applied to a canonical B tree                                *)
(* ====================================================================================== *)
Lemma conv_down A : wf_schema A = true -> forall B j, wf_schema B = true -> compat A B = true ->
  canon B j -> exists j1, conv A j = Some j1 /\ canon A j1 /\ agree A j1 j.
Proof.
  induction A as [k|n z|a IH|a IH|a IH|fa IH] using schema_ind'; intros HwA B j HwB Hc Hj.
  - destruct B as [k2| | | | |]; try discriminate. cbn [compat] in Hc. apply skind_eqb_eq in Hc. subst k2.
    cbn [canon] in Hj. exists j. split; [apply conv_scalar_canon; exact Hj|]. split; [exact Hj | reflexivity].
  - destruct B as [|n2 z2| | | |]; try discriminate. cbn [compat] in Hc. apply andb_true_iff in Hc.
    destruct Hc as [H1 H2]. apply String.eqb_eq in H1. apply json_eqb_eq in H2. subst n2 z2.
    exists j. split; [apply conv_opaque_canon; exact Hj|]. split; [exact Hj | reflexivity].
  - destruct B as [| |b| | |]; try discriminate. cbn [compat] in Hc. cbn [wf_schema] in HwA, HwB.
    destruct (json_null_dec j) as [->|Hn].
    + exists JNull. split; [reflexivity|]. split; [left; reflexivity | left; split; reflexivity].
    + cbn [canon] in Hj. destruct Hj as [Hj|Hj]; [contradiction|].
      destruct (IH HwA b j HwB Hc Hj) as (j1 & E & C & G).
      exists j1. rewrite conv_ptr_nonnull by exact Hn. split; [exact E|]. split; [right; exact C|].
      right. split; [|split; [exact Hn | exact G]]. intros ->. apply Hn. apply (agree_null _ _ _ G). reflexivity.
  - destruct B as [| | |b| |]; try discriminate. cbn [compat] in Hc. cbn [wf_schema] in HwA, HwB.
    cbn [canon] in Hj. destruct Hj as [->|(l & -> & Hl)].
    + exists JNull. split; [reflexivity|]. split; [left; reflexivity | left; split; reflexivity].
    + rewrite Forall_forall in Hl.
      destruct (mapM_Forall2 (conv a) (fun y x => canon a y /\ agree a y x) l) as (l' & E & H2).
      { intros x Hx. destruct (IH HwA b x HwB Hc (Hl x Hx)) as (y & Ey & Cy & Gy). exists y. auto. }
      apply Forall2_split in H2. destruct H2 as [H2 H3].
      exists (JArr l'). cbn [conv]. rewrite E. split; [reflexivity|].
      split; [right; exists l'; split; [reflexivity | exact H2] | right; exists l', l; auto].
  - destruct B as [| | | |b|]; try discriminate. cbn [compat] in Hc. cbn [wf_schema] in HwA, HwB.
    cbn [canon] in Hj. destruct Hj as [->|(l & -> & Hnd & Hl)].
    + exists JNull. split; [reflexivity|]. split; [left; reflexivity | left; split; reflexivity].
    + rewrite Forall_forall in Hl.
      destruct (mapM_Forall2 (fun kv => omap (pair (fst kv)) (conv a (snd kv)))
                  (fun y x => canon a (snd y) /\ (fst y = fst x /\ agree a (snd y) (snd x))) l) as (l' & E & H2).
      { intros x Hx. destruct (IH HwA b (snd x) HwB Hc (Hl x Hx)) as (y & Ey & Cy & Gy).
        exists (fst x, y). rewrite Ey. cbn. auto. }
      apply Forall2_split in H2. destruct H2 as [H2 H3].
      exists (JObj l'). cbn [conv]. rewrite E. split; [reflexivity|]. split.
      * right. exists l'. split; [reflexivity|]. split; [|exact H2].
        assert (Ek : jkeys l' = jkeys l).
        { unfold jkeys. clear - H3. induction H3 as [|y x l' l [H _] _ IH']; [reflexivity|]. cbn [map]. rewrite H, IH'. reflexivity. }
        rewrite Ek. exact Hnd.
      * right. exists l', l. auto.
  - destruct B as [| | | | |fb]; try discriminate.
    apply wf_struct in HwA. destruct HwA as [NdA WfA]. apply wf_struct in HwB. destruct HwB as [NdB WfB].
    apply compat_struct in Hc. apply canon_struct in Hj. destruct Hj as (l & -> & Ndl & Hkl & Hcf).
    rewrite Forall_forall in IH, WfA, WfB, Hc, Hcf.
    assert (Hf : forall f, In f fa -> exists v1, conv (fsch f) (getv (fname f) l) = Some v1 /\ canon (fsch f) v1
                /\ match jlookup (fname f) l with
                   | Some v => agree (fsch f) v1 v /\ (fomit f = true -> is_empty (fsch f) v1 = false)
                   | None => fomit f = true /\ is_empty (fsch f) v1 = true
                   end).
    { intros f Hf. destruct (Hc f Hf) as (g & Eg & Ho & Hcg). destruct (flookup_Some _ _ _ Eg) as [Hg Hn].
      specialize (Hcf g Hg). unfold canon_field in Hcf. rewrite Hn in Hcf. unfold getv.
      destruct (jlookup (fname f) l) as [v|].
      - destruct Hcf as [Cv Hne].
        destruct (IH f Hf (WfA f Hf) (fsch g) v (WfB g Hg) Hcg Cv) as (v1 & E1 & C1 & G1).
        exists v1. split; [exact E1|]. split; [exact C1|]. split; [exact G1|].
        intros Hof. rewrite (agree_is_empty _ _ _ G1), (compat_is_empty _ _ v Hcg). apply Hne. congruence.
      - destruct Hcf as [Hog Hneg]. destruct (conv_null (fsch f) (WfA f Hf)) as (z & Ez & Cz & Hz).
        exists z. split; [exact Ez|]. split; [exact Cz|]. split; [congruence|].
        apply Hz. rewrite (compat_never_empty _ _ Hcg). exact Hneg. }
    destruct (conv_fields_ok conv fa l) as [out Ho].
    { intros f Hf'. destruct (Hf f Hf') as (v1 & E & _). exists v1. exact E. }
    exists (JObj out). split; [rewrite conv_struct, Ho; reflexivity|]. split.
    + eapply canon_fields_out; [exact NdA | exact Ho|]. intros f v Hin Ev.
      destruct (Hf f Hin) as (v1 & E & C & _). congruence.
    + apply agree_struct. exists out, l. split; [reflexivity|]. split; [reflexivity|].
      apply Forall_forall. intros f Hin.
      destruct (conv_fields_lookup conv fa l out NdA Ho f Hin) as (v & Ev & Hl).
      destruct (Hf f Hin) as (v1 & E & C & Hm). assert (v = v1) by congruence. subst v.
      unfold agree_field. rewrite Hl. destruct (jlookup (fname f) l) as [w|].
      * destruct Hm as [G Hne]. destruct (fomit f) eqn:Eo; cbn [andb]; [rewrite (Hne eq_refl)|]; exact G.
      * destruct Hm as [Eo Hem]. rewrite Eo, Hem. exact I.
Qed.

(* ====================================================================================== *)
(* 6. up: the super-schema B applied to a canonical A tree                                *)
(* ====================================================================================== *)
Lemma conv_up A : wf_schema A = true -> forall B j1, wf_schema B = true -> compat A B = true ->
  canon A j1 -> exists j2, conv B j1 = Some j2 /\ canon B j2 /\ agree A j2 j1.
Proof.
  induction A as [k|n z|a IH|a IH|a IH|fa IH] using schema_ind'; intros HwA B j HwB Hc Hj.
  - destruct B as [k2| | | | |]; try discriminate. cbn [compat] in Hc. apply skind_eqb_eq in Hc. subst k2.
    cbn [canon] in Hj. exists j. split; [apply conv_scalar_canon; exact Hj|]. split; [exact Hj | reflexivity].
  - destruct B as [|n2 z2| | | |]; try discriminate. cbn [compat] in Hc. apply andb_true_iff in Hc.
    destruct Hc as [H1 H2]. apply String.eqb_eq in H1. apply json_eqb_eq in H2. subst n2 z2.
    exists j. split; [apply conv_opaque_canon; exact Hj|]. split; [exact Hj | reflexivity].
  - destruct B as [| |b| | |]; try discriminate. cbn [compat] in Hc. cbn [wf_schema] in HwA, HwB.
    destruct (json_null_dec j) as [->|Hn].
    + exists JNull. split; [reflexivity|]. split; [left; reflexivity | left; split; reflexivity].
    + cbn [canon] in Hj. destruct Hj as [Hj|Hj]; [contradiction|].
      destruct (IH HwA b j HwB Hc Hj) as (j2 & E & C & G).
      exists j2. rewrite conv_ptr_nonnull by exact Hn. split; [exact E|]. split; [right; exact C|].
      right. split; [|split; [exact Hn | exact G]]. intros ->. apply Hn. apply (agree_null _ _ _ G). reflexivity.
  - destruct B as [| | |b| |]; try discriminate. cbn [compat] in Hc. cbn [wf_schema] in HwA, HwB.
    cbn [canon] in Hj. destruct Hj as [->|(l & -> & Hl)].
    + exists JNull. split; [reflexivity|]. split; [left; reflexivity | left; split; reflexivity].
    + rewrite Forall_forall in Hl.
      destruct (mapM_Forall2 (conv b) (fun y x => canon b y /\ agree a y x) l) as (l' & E & H2).
      { intros x Hx. destruct (IH HwA b x HwB Hc (Hl x Hx)) as (y & Ey & Cy & Gy). exists y. auto. }
      apply Forall2_split in H2. destruct H2 as [H2 H3].
      exists (JArr l'). cbn [conv]. rewrite E. split; [reflexivity|].
      split; [right; exists l'; split; [reflexivity | exact H2] | right; exists l', l; auto].
  - destruct B as [| | | |b|]; try discriminate. cbn [compat] in Hc. cbn [wf_schema] in HwA, HwB.
    cbn [canon] in Hj. destruct Hj as [->|(l & -> & Hnd & Hl)].
    + exists JNull. split; [reflexivity|]. split; [left; reflexivity | left; split; reflexivity].
    + rewrite Forall_forall in Hl.
      destruct (mapM_Forall2 (fun kv => omap (pair (fst kv)) (conv b (snd kv)))
                  (fun y x => canon b (snd y) /\ (fst y = fst x /\ agree a (snd y) (snd x))) l) as (l' & E & H2).
      { intros x Hx. destruct (IH HwA b (snd x) HwB Hc (Hl x Hx)) as (y & Ey & Cy & Gy).
        exists (fst x, y). rewrite Ey. cbn. auto. }
      apply Forall2_split in H2. destruct H2 as [H2 H3].
      exists (JObj l'). cbn [conv]. rewrite E. split; [reflexivity|]. split.
      * right. exists l'. split; [reflexivity|]. split; [|exact H2].
        assert (Ek : jkeys l' = jkeys l).
        { unfold jkeys. clear - H3. induction H3 as [|y x l' l [H _] _ IH']; [reflexivity|]. cbn [map]. rewrite H, IH'. reflexivity. }
        rewrite Ek. exact Hnd.
      * right. exists l', l. auto.
  - destruct B as [| | | | |fb]; try discriminate.
    apply wf_struct in HwA. destruct HwA as [NdA WfA]. apply wf_struct in HwB. destruct HwB as [NdB WfB].
    apply compat_struct in Hc. apply canon_struct in Hj. destruct Hj as (l1 & -> & Ndl & Hkl & Hcf).
    rewrite Forall_forall in IH, WfA, WfB, Hc, Hcf.
    (* every field of B converts, canonically *)
    assert (Hg : forall g, In g fb -> exists v2, conv (fsch g) (getv (fname g) l1) = Some v2 /\ canon (fsch g) v2).
    { intros g Hg. destruct (in_dec string_dec (fname g) (map fname fa)) as [Hin|Hnin].
      - apply in_map_iff in Hin. destruct Hin as (f & En & Hf). destruct (Hc f Hf) as (g' & Eg & Ho & Hcg).
        rewrite En in Eg. rewrite (flookup_In fb g NdB Hg) in Eg. inversion Eg; subst g'.
        specialize (Hcf f Hf). unfold canon_field in Hcf. rewrite En in Hcf. unfold getv.
        destruct (jlookup (fname g) l1) as [v1|].
        + destruct Hcf as [C1 _].
          destruct (IH f Hf (WfA f Hf) (fsch g) v1 (WfB g Hg) Hcg C1) as (v2 & E2 & C2 & _).
          exists v2. auto.
        + destruct (conv_null (fsch g) (WfB g Hg)) as (z & Ez & Cz & _). exists z. auto.
      - assert (Hnone : jlookup (fname g) l1 = None).
        { apply jlookup_None_iff. intros Hk. apply Hnin. apply Hkl. exact Hk. }
        unfold getv. rewrite Hnone.
        destruct (conv_null (fsch g) (WfB g Hg)) as (z & Ez & Cz & _). exists z. auto. }
    destruct (conv_fields_ok conv fb l1) as [out Ho].
    { intros g Hg'. destruct (Hg g Hg') as (v2 & E & _). exists v2. exact E. }
    exists (JObj out). split; [rewrite conv_struct, Ho; reflexivity|]. split.
    + eapply canon_fields_out; [exact NdB | exact Ho|]. intros g v Hin Ev.
      destruct (Hg g Hin) as (v2 & E & C). congruence.
    + apply agree_struct. exists out, l1. split; [reflexivity|]. split; [reflexivity|].
      apply Forall_forall. intros f Hf.
      destruct (Hc f Hf) as (g & Eg & Hom & Hcg). destruct (flookup_Some _ _ _ Eg) as [Hgin Hn].
      destruct (conv_fields_lookup conv fb l1 out NdB Ho g Hgin) as (v & Ev & Hl).
      specialize (Hcf f Hf). unfold canon_field in Hcf. unfold agree_field.
      rewrite Hn in Ev, Hl. rewrite Hl. unfold getv in Ev.
      destruct (jlookup (fname f) l1) as [v1|].
      * destruct Hcf as [C1 Hne].
        destruct (IH f Hf (WfA f Hf) (fsch g) v1 (WfB g Hgin) Hcg C1) as (v2 & E2 & C2 & G2).
        assert (v = v2) by congruence. subst v.
        assert (Hemp : fomit g && is_empty (fsch g) v2 = false).
        { rewrite <- Hom. destruct (fomit f); [|reflexivity]. cbn [andb].
          rewrite <- (compat_is_empty _ _ v2 Hcg), (agree_is_empty _ _ _ G2). apply Hne. reflexivity. }
        rewrite Hemp. exact G2.
      * destruct Hcf as [Eo Hnev].
        destruct (conv_null (fsch g) (WfB g Hgin)) as (z & Ez & Cz & Hz).
        assert (v = z) by congruence. subst v.
        rewrite <- Hom, Eo, Hz; [exact I|]. rewrite <- (compat_never_empty _ _ Hcg). exact Hnev.
Qed.

(* ====================================================================================== *)
(* 7. agree is transitive                                                                  *)
(* ====================================================================================== *)
Lemma Forall2_trans_in {A} (R : A -> A -> Prop) l1 : forall l2 l3,
  (forall x, In x l1 -> forall y z, R x y -> R y z -> R x z) ->
  Forall2 R l1 l2 -> Forall2 R l2 l3 -> Forall2 R l1 l3.
Proof.
  induction l1 as [|x t IH]; intros l2 l3 Ht H12 H23; inversion H12; subst; inversion H23; subst; constructor.
  - eapply Ht; [left; reflexivity | eassumption | eassumption].
  - eapply IH; [|eassumption|eassumption]. intros x' Hx'. apply Ht. right. exact Hx'.
Qed.

Lemma agree_trans s : forall x y z, agree s x y -> agree s y z -> agree s x z.
Proof.
  induction s as [k|n z0|a IH|a IH|a IH|fs IH] using schema_ind'; intros x y z Hxy Hyz.
  - cbn [agree] in *. congruence.
  - cbn [agree] in *. congruence.
  - cbn [agree] in *. destruct Hxy as [[-> ->]|(H1 & H2 & H3)]; destruct Hyz as [[H4 ->]|(H4 & H5 & H6)];
      try contradiction; try (left; split; reflexivity).
    right. split; [exact H1|]. split; [exact H5|]. eapply IH; eassumption.
  - cbn [agree] in *. destruct Hxy as [[-> ->]|(lx & ly & -> & -> & H)]; destruct Hyz as [[H4 ->]|(ly' & lz & E & -> & H')];
      try discriminate; try (left; split; reflexivity).
    inversion E; subst ly'. right. exists lx, lz. split; [reflexivity|]. split; [reflexivity|].
    eapply Forall2_trans_in; [|exact H|exact H']. intros x _ y z. apply IH.
  - cbn [agree] in *. destruct Hxy as [[-> ->]|(lx & ly & -> & -> & H)]; destruct Hyz as [[H4 ->]|(ly' & lz & E & -> & H')];
      try discriminate; try (left; split; reflexivity).
    inversion E; subst ly'. right. exists lx, lz. split; [reflexivity|]. split; [reflexivity|].
    eapply Forall2_trans_in; [|exact H|exact H']. intros x _ y z [H1 H2] [H3 H4].
    split; [congruence | eapply IH; eassumption].
  - apply agree_struct in Hxy. apply agree_struct in Hyz. apply agree_struct.
    destruct Hxy as (lx & ly & -> & -> & H). destruct Hyz as (ly' & lz & E & -> & H'). inversion E; subst ly'.
    exists lx, lz. split; [reflexivity|]. split; [reflexivity|].
    rewrite Forall_forall in *. intros f Hf. specialize (H f Hf). specialize (H' f Hf). specialize (IH f Hf).
    unfold agree_field in *.
    destruct (jlookup (fname f) lx), (jlookup (fname f) ly), (jlookup (fname f) lz); try contradiction; try exact I.
    eapply IH; eassumption.
Qed.

(* ====================================================================================== *)
(* 8. the round trip                                                                       *)
(* ====================================================================================== *)
Lemma roundtrip A B : wf_schema A = true -> wf_schema B = true -> compat A B = true ->
  forall j, canon B j ->
  exists j1 j2, conv A j = Some j1 /\ conv B j1 = Some j2
    /\ canon A j1 /\ canon B j2 /\ agree A j1 j /\ agree A j2 j.
Proof.
  intros HwA HwB Hc j Hj.
  destruct (conv_down A HwA B j HwB Hc Hj) as (j1 & E1 & C1 & G1).
  destruct (conv_up A HwA B j1 HwB Hc C1) as (j2 & E2 & C2 & G2).
  exists j1, j2. repeat split; try assumption. eapply agree_trans; eassumption.
Qed.

(* ====================================================================================== *)
(* 9. the apiVersion overwrite                                                             *)
(* ====================================================================================== *)
Lemma set_field_twice k v w x : set_field k v (set_field k w x) = set_field k v x.
Proof. destruct x; cbn [set_field]; try reflexivity. rewrite jset_jset. reflexivity. Qed.

Lemma has_api_inv s : has_api s = true ->
  exists fs f, s = SStruct fs /\ flookup api_key fs = Some f /\ fomit f = true /\ fsch f = SScalar KString.
Proof.
  destruct s as [| | | | |fs]; cbn [has_api]; try discriminate.
  destruct (flookup api_key fs) as [[[n b] sc]|] eqn:E; [|discriminate].
  destruct b; [|discriminate]. destruct sc as [[]| | | | |]; try discriminate.
  intros _. exists fs, (n, true, SScalar KString). repeat split. exact E.
Qed.

(* setting a string field of a canonical struct tree to a non-empty string keeps it canonical *)
Lemma canon_set_string fs l k f v :
  NoDup (map fname fs) -> flookup k fs = Some f -> fsch f = SScalar KString -> v <> "" ->
  canon (SStruct fs) (JObj l) -> canon (SStruct fs) (JObj (jset k (JStr v) l)).
Proof.
  intros Hnd Ef Hs Hv Hc. apply canon_struct in Hc. destruct Hc as (l0 & E & Ndl & Hk & Hcf).
  inversion E; subst l0. destruct (flookup_Some _ _ _ Ef) as [Hfin Hfn].
  apply canon_struct. exists (jset k (JStr v) l). split; [reflexivity|].
  split; [apply jset_NoDup; exact Ndl|]. split.
  - intros x Hx. apply jset_keys_in in Hx. destruct Hx as [->|Hx]; [|apply Hk; exact Hx].
    rewrite <- Hfn. apply in_map. exact Hfin.
  - rewrite Forall_forall in *. intros g Hg. specialize (Hcf g Hg). unfold canon_field in *.
    destruct (string_dec (fname g) k) as [Egk|Hne].
    + assert (g = f).
      { rewrite <- Egk in Ef. rewrite (flookup_In fs g Hnd Hg) in Ef. congruence. }
      subst g. rewrite Egk, jlookup_jset_same, Hs. split; [exact I|]. intros _.
      destruct v; [contradiction | reflexivity].
    + rewrite jlookup_jset_other by exact Hne. exact Hcf.
Qed.

(* setting the same value under a scalar field on both sides preserves agreement *)
Lemma agree_set_field fs k v x y :
  (forall f, In f fs -> fname f = k -> agree (fsch f) v v) ->
  agree (SStruct fs) x y -> agree (SStruct fs) (set_field k v x) (set_field k v y).
Proof.
  intros Hv H. apply agree_struct in H. destruct H as (lx & ly & -> & -> & H).
  apply agree_struct. exists (jset k v lx), (jset k v ly). split; [reflexivity|]. split; [reflexivity|].
  rewrite Forall_forall in *. intros f Hf. specialize (H f Hf). unfold agree_field in *.
  destruct (string_dec (fname f) k) as [E|Hne].
  - rewrite E, !jlookup_jset_same. apply Hv; assumption.
  - rewrite !jlookup_jset_other by exact Hne. exact H.
Qed.

Lemma api_field_agree fs f v : NoDup (map fname fs) -> flookup api_key fs = Some f ->
  fsch f = SScalar KString -> forall g, In g fs -> fname g = api_key -> agree (fsch g) v v.
Proof.
  intros Hnd Ef Hs g Hg En. assert (g = f).
  { rewrite <- En in Ef. rewrite (flookup_In fs g Hnd Hg) in Ef. congruence. }
  subst g. rewrite Hs. reflexivity.
Qed.

Lemma canon_struct_obj fs j : canon (SStruct fs) j -> exists l, j = JObj l.
Proof. intros H. apply canon_struct in H. destruct H as (l & E & _). exists l. exact E. Qed.

(* FromBuiltinStatefulSet then ToBuiltinStatefulSet (each followed by the caller's Marshal) *)
Lemma roundtrip_api A B va vb :
  wf_schema A = true -> wf_schema B = true -> compat A B = true ->
  has_api A = true -> has_api B = true -> va <> "" -> vb <> "" ->
  forall j, canon B j ->
  exists j1 j2, convert_to A va j = Some j1 /\ convert_to B vb j1 = Some j2
    /\ canon A j1 /\ canon B j2
    /\ get_field api_key j1 = JStr va /\ get_field api_key j2 = JStr vb
    /\ agree A j2 (set_field api_key (JStr vb) j).
Proof.
  intros HwA HwB Hc HaA HaB Hva Hvb j Hj.
  destruct (has_api_inv A HaA) as (fa & f & -> & Ef & Hof & Hsf).
  destruct (has_api_inv B HaB) as (fb & g & -> & Eg & Hog & Hsg).
  assert (NdA : NoDup (map fname fa)) by (apply wf_struct in HwA; tauto).
  assert (NdB : NoDup (map fname fb)) by (apply wf_struct in HwB; tauto).
  destruct (conv_down (SStruct fa) HwA (SStruct fb) j HwB Hc Hj) as (j1c & E1 & C1 & G1).
  destruct (canon_struct_obj _ _ C1) as [l1 ->].
  set (j1 := JObj (jset api_key (JStr va) l1)).
  assert (C1' : canon (SStruct fa) j1) by (eapply canon_set_string; eassumption).
  destruct (conv_up (SStruct fa) HwA (SStruct fb) j1 HwB Hc C1') as (j2c & E2 & C2 & G2).
  destruct (canon_struct_obj _ _ C2) as [l2 ->].
  exists j1, (JObj (jset api_key (JStr vb) l2)).
  split; [unfold convert_to; rewrite E1; reflexivity|].
  split; [unfold convert_to; rewrite E2; reflexivity|].
  split; [exact C1'|]. split; [eapply canon_set_string; eassumption|].
  split; [cbn [get_field j1]; apply getv_jset_same|].
  split; [cbn [get_field]; apply getv_jset_same|].
  pose proof (api_field_agree fa f (JStr vb) NdA Ef Hsf) as Hv.
  eapply agree_trans.
  - apply (agree_set_field fa api_key (JStr vb) _ _ Hv) in G2. cbn [set_field] in G2. exact G2.
  - unfold j1. cbn [set_field]. rewrite jset_jset.
    exact (agree_set_field fa api_key (JStr vb) (JObj l1) j Hv G1).
Qed.

(* ====================================================================================== *)
(* 10. lists                                                                               *)
(* ====================================================================================== *)
Lemma Forall2_length' {A B} (R : A -> B -> Prop) l1 l2 : Forall2 R l1 l2 -> length l1 = length l2.
Proof. induction 1; cbn; congruence. Qed.

Lemma Forall2_nth {A B} (R : A -> B -> Prop) l1 l2 : Forall2 R l1 l2 ->
  forall i x y, nth_error l1 i = Some x -> nth_error l2 i = Some y -> R x y.
Proof.
  induction 1 as [|a b l1 l2 H _ IH]; intros [|i] x y; cbn; try discriminate.
  - intros E1 E2. inversion E1; inversion E2; subst. exact H.
  - apply IH.
Qed.

(* ToBuiltinStetefulsetList: AL / BL are the two list schemas, A / B their item schemas *)
Lemma list_roundtrip AL BL A vb :
  wf_schema AL = true -> wf_schema BL = true -> compat AL BL = true -> has_api BL = true ->
  (exists fl, AL = SStruct fl /\ flookup items_key fl = Some (items_key, false, SSlice A)) ->
  wf_schema A = true -> has_api A = true -> vb <> "" ->
  forall jl, canon AL jl ->
  exists out, convert_list_to BL vb jl = Some out
    /\ get_field api_key out = JStr vb
    /\ length (items_of out) = length (items_of jl)
    /\ forall i x y, nth_error (items_of out) i = Some x -> nth_error (items_of jl) i = Some y ->
         agree A x (set_field api_key (JStr vb) y) /\ get_field api_key x = JStr vb.
Proof.
  intros HwAL HwBL Hc HaBL (fl & -> & Eit) HwA HaA Hvb jl Hjl.
  destruct (has_api_inv A HaA) as (fa & f & -> & Ef & Hof & Hsf).
  assert (NdA : NoDup (map fname fa)) by (apply wf_struct in HwA; tauto).
  destruct (conv_up (SStruct fl) HwAL BL jl HwBL Hc Hjl) as (outc & E & C & G).
  destruct (has_api_inv BL HaBL) as (fbl & g & -> & _).
  destruct (canon_struct_obj _ _ C) as [lo ->].
  apply agree_struct in G. destruct G as (lx & ly & Ex & -> & G). inversion Ex; subst lx.
  destruct (flookup_Some _ _ _ Eit) as [Hin _].
  rewrite Forall_forall in G. specialize (G _ Hin). unfold agree_field in G. cbn [fname fsch fst snd] in G.
  assert (Hne : items_key <> api_key) by discriminate.
  set (lo1 := jset api_key (JStr vb) lo).
  assert (Elo1 : jlookup items_key lo1 = jlookup items_key lo) by (apply jlookup_jset_other; exact Hne).
  pose proof (api_field_agree fa f (JStr vb) NdA Ef Hsf) as Hv.
  assert (Hio : forall l, items_of (JObj l) = match jlookup items_key l with Some (JArr xs) => xs | _ => [] end).
  { intros l. unfold items_of, get_field, getv. destruct (jlookup items_key l) as [[]|]; reflexivity. }
  assert (Hapi1 : getv api_key lo1 = JStr vb) by (unfold lo1; apply getv_jset_same).
  eexists. split; [unfold convert_list_to; rewrite E; reflexivity|].
  cbn [set_field]. fold lo1. unfold set_items_api. rewrite Elo1, (Hio ly).
  destruct (jlookup items_key lo) as [vo|] eqn:Eo; destruct (jlookup items_key ly) as [vy|] eqn:Ey; try contradiction.
  - cbn [agree] in G. destruct G as [[-> ->]|(xs & ys & -> & -> & F2)].
    + rewrite Hio, Elo1; try rewrite Eo. split; [exact Hapi1|]. split; [reflexivity|]. intros [|i] x y; discriminate.
    + rewrite Hio, jlookup_jset_same. split.
      { cbn [get_field]. rewrite getv_jset_other by (intros H; apply Hne; symmetry; exact H). exact Hapi1. }
      split; [rewrite map_length; eapply Forall2_length'; exact F2|].
      intros i x y Hx Hy. rewrite nth_error_map in Hx.
      destruct (nth_error xs i) as [x0|] eqn:Ex0; [|discriminate]. inversion Hx; subst x.
      pose proof (Forall2_nth _ _ _ F2 i x0 y Ex0 Hy) as Gxy.
      split; [apply agree_set_field; assumption|].
      apply agree_struct in Gxy. destruct Gxy as (l0 & l0' & -> & _). cbn [set_field get_field].
      apply getv_jset_same.
  - rewrite Hio, Elo1; try rewrite Eo. split; [exact Hapi1|]. split; [reflexivity|]. intros [|i] x y; discriminate.
Qed.
