(* ConvergeProofs.v — fixed points of the pod phase (C02): the plan of a settled snapshot is empty exactly
   when the pods are the desired ones, steady, and at the revisions their ordinals call for. *)
From ASTS Require Import Base Slots SlotsProofs Names World Reconcile PlanProofs.

(* a settled snapshot: the kubelet has done its part — no pod is terminating, every pod that is not in a
   terminal phase is Running and Ready *)
Definition settled_pod (p : pod) : bool := steady p || isFailed p || isSucceeded p.
Definition settled (pods : list pod) : Prop :=
  forall p, In p pods -> isTerminating p = false /\ isCreated p = true /\ settled_pod p = true.
(* the fairness premise's exclusion: no pod in a terminal phase outside the desired set *)
Definition no_dead_condemned (cnt : Z) (slots : list Z) (pods : list pod) : Prop :=
  forall p, In p pods -> is_condemned cnt slots (getOrdinal p) = true -> (isFailed p || isSucceeded p) = false.

(* what "converged" means for the pods of a snapshot *)
Record pods_converged (s : sset) (upd : rinfo) (cnt : Z) (slots : list Z) (pods : list pod) : Prop := {
  (* every desired ordinal holds a steady pod with its identity and storage in order, at the update revision
     when the strategy rolls and the ordinal is at or above the partition *)
  pc_present : forall i, in_range cnt slots i = true ->
      exists p, In p pods /\ getOrdinal p = i /\ steady p = true
                /\ (identityMatches s p && storageMatches s p) = true
                /\ (String.eqb (s_strategy s) "OnDelete" = false -> umin_of s <= i -> rev_is p upd = true);
  (* and nothing is left outside the desired set *)
  pc_no_extra : forall p, In p pods -> is_condemned cnt slots (getOrdinal p) = false }.

Lemma steady_rs s cur upd mono i p : steady p = true ->
  rs_go mono p = true /\ rs_pod s cur upd i p = p
  /\ rs_acts s cur upd mono i p = (if identityMatches s p && storageMatches s p then [] else [AUpdate p]).
Proof.
  unfold steady, rs_go, rs_pod, rs_acts. intros H.
  apply andb_true_iff in H. destruct H as [H H4]. apply andb_true_iff in H. destruct H as [H H3].
  apply andb_true_iff in H. destruct H as [H1 H2]. apply negb_true_iff in H1. apply negb_true_iff in H3.
  rewrite H1, H2, H3, H4. cbn [negb andb]. repeat split; reflexivity.
Qed.

(* an empty replica-loop plan over settled entries: every entry is a slot or a steady pod whose identity and
   storage are in order; the loop goes through and leaves the array as it was *)
Lemma rl_acts_nil s cur upd mono : forall l i,
  rl_acts s cur upd mono i l = [] ->
  (forall p, In (Some p) l -> (isTerminating p = false /\ isCreated p = true /\ settled_pod p = true)
                               \/ (isCreated p = false /\ (isFailed p || isSucceeded p) = false)) ->
  (forall p, In (Some p) l -> steady p = true /\ (identityMatches s p && storageMatches s p) = true)
  /\ rl_go mono l = true /\ rl_arr s cur upd mono i l = l.
Proof.
  induction l as [|[p0|] t IH]; intros i Hnil Hall; cbn [rl_acts rl_go rl_arr] in *.
  - split; [intros p []|]. split; reflexivity.
  - apply app_eq_nil in Hnil. destruct Hnil as [Ha Hrest].
    destruct (Hall p0 (or_introl eq_refl)) as [(T & C & S)|(C & F)].
    2:{ exfalso. unfold rs_acts in Ha. rewrite F, C in Ha. discriminate. }
    assert (Hst : steady p0 = true).
    { unfold settled_pod in S. destruct (steady p0) eqn:St; [reflexivity|]. cbn [orb] in S.
      exfalso. unfold rs_acts in Ha. rewrite S in Ha. discriminate. }
    destruct (steady_rs s cur upd mono i p0 Hst) as (G & P & E). rewrite G, P in *. cbn [andb].
    assert (Hid : (identityMatches s p0 && storageMatches s p0) = true).
    { rewrite E in Ha. destruct (identityMatches s p0 && storageMatches s p0); [reflexivity | discriminate]. }
    destruct (IH (i + 1) Hrest) as (H1 & H2 & H3); [intros p Hp; apply Hall; right; exact Hp|].
    split; [|split; [exact H2 | rewrite H3; reflexivity]].
    intros p [Hp|Hp]; [inversion Hp; subst p; split; assumption | apply H1; exact Hp].
  - destruct (IH (i + 1) Hnil) as (H1 & H2 & H3); [intros p Hp; apply Hall; right; exact Hp|].
    split; [|split; [exact H2 | rewrite H3; reflexivity]].
    intros p [Hp|Hp]; [discriminate | apply H1; exact Hp].
Qed.

(* an empty update-loop plan over steady entries: everything at or above umin is at the update revision *)
Lemma ul_acts_nil upd umin : forall l i,
  ul_acts upd umin i l = [] ->
  (forall p, In (Some p) l -> steady p = true) ->
  forall k p, nth_error l k = Some (Some p) -> umin <= i - Z.of_nat k -> rev_is p upd = true.
Proof.
  induction l as [|e t IH]; intros i Hnil Hall k p Hn Hk; [destruct k; discriminate|].
  cbn [ul_acts] in Hnil. destruct (i <? umin) eqn:U.
  - apply Z.ltb_lt in U. lia.
  - destruct e as [q|].
    + assert (Hsq : steady q = true) by (apply Hall; left; reflexivity).
      assert (Tq : isTerminating q = false /\ isHealthy q = true).
      { unfold steady in Hsq. apply andb_true_iff in Hsq. destruct Hsq as [Hsq H4]. apply andb_true_iff in Hsq. destruct Hsq as [Hsq H3].
        apply negb_true_iff in H3. split; [exact H3|]. unfold isHealthy. rewrite H4, H3. reflexivity. }
      destruct Tq as [Tq Hq]. rewrite Tq, Hq in Hnil. cbn [negb andb] in Hnil. rewrite andb_true_r in Hnil.
      destruct (rev_is q upd) eqn:R; cbn [negb] in Hnil; [|discriminate].
      destruct k as [|k]; cbn [nth_error] in Hn.
      * inversion Hn; subst p. exact R.
      * apply (IH (i - 1) Hnil) with (k := k); [intros r Hr; apply Hall; right; exact Hr | exact Hn | lia].
    + destruct k as [|k]; cbn [nth_error] in Hn; [discriminate|].
      apply (IH (i - 1) Hnil) with (k := k); [intros r Hr; apply Hall; right; exact Hr | exact Hn | lia].
Qed.

(* NO STUCK STATE: a settled snapshot (premise: no dead pod outside the desired set) for which the planner
   finds nothing to do has exactly the desired pods, steady, at the revisions their ordinals call for *)
Theorem empty_plan_means_converged s cur upd cnt slots pods :
  0 <= cnt -> s_deleting s = false -> settled pods -> no_dead_condemned cnt slots pods ->
  plan_acts s cur upd cnt slots pods = [] ->
  pods_converged s upd cnt slots pods.
Proof.
  intros Hcnt Hd Hset Hdead Hnil.
  set (replicas := replicas_of s cur upd cnt slots pods).
  set (condemned := condemned_of cnt slots pods).
  set (mono := negb (allowsBurst s)).
  set (fu := first_unhealthy replicas condemned).
  (* entries of replicas[] are observed settled pods or fresh ones *)
  assert (Hent : forall p, In (Some p) replicas -> (isTerminating p = false /\ isCreated p = true /\ settled_pod p = true)
                                                   \/ (isCreated p = false /\ (isFailed p || isSucceeded p) = false)).
  { intros p Hp. apply In_nth_error in Hp. destruct Hp as [k Hk].
    pose proof (replicas_of_kind _ _ _ _ _ _ _ _ Hk) as Hkind.
    inversion Hkind as [| q Hq _ _ | _ _]; subst.
    - left. apply Hset. exact Hq.
    - right. destruct (nvp_fresh s cur upd (Z.of_nat k)) as (C & F1 & F2 & _). rewrite F1, F2. split; [exact C | reflexivity]. }
  unfold plan_acts in Hnil. rewrite Hd in Hnil. fold replicas condemned mono fu in Hnil.
  assert (Ha1 : rl_acts s cur upd mono 0 replicas = []).
  { destruct (negb (rl_go mono replicas)); [exact Hnil|].
    destruct (negb (cl_go mono fu (List.rev condemned))); [apply app_eq_nil in Hnil; tauto|].
    destruct (String.eqb (s_strategy s) "OnDelete"); apply app_eq_nil in Hnil; tauto. }
  destruct (rl_acts_nil s cur upd mono replicas 0 Ha1 Hent) as (Hsteady & Hgo & Harr).
  rewrite Hgo, Ha1 in Hnil. cbn [negb app] in Hnil.
  (* nothing is condemned *)
  assert (Hcond : condemned = []).
  { assert (Ha2 : cl_acts mono fu (List.rev condemned) = []).
    { destruct (negb (cl_go mono fu (List.rev condemned))); [exact Hnil|].
      destruct (String.eqb (s_strategy s) "OnDelete"); [exact Hnil | apply app_eq_nil in Hnil; tauto]. }
    destruct (List.rev condemned) as [|c t] eqn:Er.
    - rewrite <- (rev_involutive condemned), Er. reflexivity.
    - exfalso. assert (Hc : In c condemned) by (apply in_rev; rewrite Er; left; reflexivity).
      apply condemned_of_In in Hc. destruct Hc as [Hc1 Hc2]. destruct (Hset c Hc1) as (T & C & S).
      assert (Hst : steady c = true).
      { unfold settled_pod in S. rewrite <- orb_assoc in S. rewrite (Hdead c Hc1 Hc2) in S. rewrite orb_false_r in S. exact S. }
      assert (Hrr : isRunningAndReady c = true) by (unfold steady in Hst; apply andb_true_iff in Hst; tauto).
      cbn [cl_acts] in Ha2. rewrite T in Ha2. unfold cs_blocks in Ha2. rewrite Hrr in Ha2. cbn [negb andb] in Ha2.
      destruct mono; discriminate. }
  rewrite Hcond in Hnil. cbn [List.rev cl_go cl_acts negb app] in Hnil.
  constructor.
  - intros i Ri. pose proof (in_range_bounds _ _ _ Ri) as [Hb Hs].
    destruct (nth_error replicas (Z.to_nat i)) as [e|] eqn:E.
    2:{ apply nth_error_None in E. unfold replicas in E. rewrite replicas_of_length in E. lia. }
    pose proof (replicas_of_kind _ _ _ _ _ _ _ _ E) as Hk. rewrite Z2Nat.id in Hk by lia.
    inversion Hk as [Hsl | q Hq Ho Hr | Hr Hv]; subst.
    + contradiction.
    + destruct (Hsteady q (nth_error_In _ _ E)) as [Hst Hid].
      exists q. split; [exact Hq|]. split; [reflexivity|]. split; [exact Hst|]. split; [exact Hid|].
      intros Hstr Hu. rewrite Hstr in Hnil. rewrite Harr in Hnil.
      (* position of q in the reversed array *)
      destruct (nth_error_split _ _ E) as (A & B & HL & HA).
      assert (Hlen : length replicas = Z.to_nat cnt) by (unfold replicas; apply replicas_of_length).
      assert (HB : Z.of_nat (length B) = cnt - 1 - getOrdinal q).
      { rewrite HL in Hlen. rewrite app_length in Hlen. cbn [length] in Hlen. lia. }
      apply (ul_acts_nil upd (umin_of s) (List.rev replicas) (cnt - 1) Hnil) with (k := length B).
      * intros r Hr'. apply in_rev in Hr'. apply Hsteady. exact Hr'.
      * rewrite HL, rev_app_distr. cbn [List.rev]. rewrite <- app_assoc. cbn [app].
        rewrite nth_error_app2 by (rewrite rev_length; lia). rewrite rev_length, Nat.sub_diag. reflexivity.
      * lia.
    + exfalso. destruct (Hsteady _ (nth_error_In _ _ E)) as [Hst _]. unfold steady in Hst.
      destruct (nvp_fresh s cur upd i) as (C & _). rewrite C in Hst. rewrite andb_false_r in Hst. discriminate.
  - intros p Hp. destruct (is_condemned cnt slots (getOrdinal p)) eqn:C; [|reflexivity].
    exfalso. assert (Hin : In p condemned) by (apply condemned_of_In; split; assumption). rewrite Hcond in Hin. destruct Hin.
Qed.

(* ------------------------------------------------------------------ the converse: a fixed point ------- *)
Lemma rl_acts_all_steady s cur upd mono : forall l i,
  (forall p, In (Some p) l -> steady p = true /\ (identityMatches s p && storageMatches s p) = true) ->
  rl_acts s cur upd mono i l = [] /\ rl_go mono l = true /\ rl_arr s cur upd mono i l = l.
Proof.
  induction l as [|[p0|] t IH]; intros i Hall; cbn [rl_acts rl_go rl_arr].
  - repeat split.
  - destruct (Hall p0 (or_introl eq_refl)) as [Hst Hid].
    destruct (steady_rs s cur upd mono i p0 Hst) as (G & P & E). rewrite G, P, E, Hid. cbn [andb app].
    destruct (IH (i + 1)) as (H1 & H2 & H3); [intros p Hp; apply Hall; right; exact Hp|].
    rewrite H1, H2, H3. repeat split.
  - destruct (IH (i + 1)) as (H1 & H2 & H3); [intros p Hp; apply Hall; right; exact Hp|].
    rewrite H1, H2, H3. repeat split.
Qed.

Lemma ul_acts_all_passed upd umin : forall l i,
  (forall k e, nth_error l k = Some e -> umin <= i - Z.of_nat k -> passed upd e) -> ul_acts upd umin i l = [].
Proof.
  induction l as [|e t IH]; intros i Hall; cbn [ul_acts]; [reflexivity|].
  destruct (i <? umin) eqn:U; [reflexivity|]. apply Z.ltb_ge in U.
  assert (He : passed upd e) by (apply (Hall 0%nat e eq_refl); cbn; lia).
  assert (Hrest : ul_acts upd umin (i - 1) t = []).
  { apply IH. intros k e' Hn Hk. apply (Hall (S k) e' Hn). lia. }
  destruct e as [p|]; [|exact Hrest]. destruct He as [Hr Hh].
  rewrite Hr, Hh. cbn [negb andb]. exact Hrest.
Qed.

Definition distinct_ordinals (pods : list pod) : Prop :=
  forall p q, In p pods -> In q pods -> 0 <= getOrdinal p -> getOrdinal p = getOrdinal q -> p = q.

Lemma steady_healthy p : steady p = true -> isHealthy p = true.
Proof.
  unfold steady, isHealthy. intros H. apply andb_true_iff in H. destruct H as [H H4]. apply andb_true_iff in H. destruct H as [_ H3].
  rewrite H4, H3. reflexivity.
Qed.

(* FIXED POINT of the pod phase: for converged pods (distinct ordinals) the planner finds nothing to do *)
Theorem converged_means_empty_plan s cur upd cnt slots pods :
  0 <= cnt -> distinct_ordinals pods -> pods_converged s upd cnt slots pods ->
  plan_acts s cur upd cnt slots pods = [].
Proof.
  intros Hcnt Hdist [Hpres Hnox].
  set (replicas := replicas_of s cur upd cnt slots pods).
  (* every entry is a slot or THE steady pod of that ordinal *)
  assert (Hent : forall k e, nth_error replicas k = Some e ->
            match e with
            | None => True
            | Some p => steady p = true /\ (identityMatches s p && storageMatches s p) = true
                        /\ (String.eqb (s_strategy s) "OnDelete" = false -> umin_of s <= Z.of_nat k -> rev_is p upd = true)
            end).
  { intros k e Hk. pose proof (replicas_of_kind _ _ _ _ _ _ _ _ Hk) as Hkind.
    inversion Hkind as [Hsl | q Hq Ho Hr | Hr Hv]; subst; [exact I | |].
    - destruct (Hpres _ Hr) as (p & Hp & Hpo & Hst & Hid & Hup).
      assert (p = q) by (apply Hdist; try assumption; [lia | congruence]). subst p. repeat split; assumption.
    - exfalso. destruct (Hpres _ Hr) as (p & Hp & Hpo & _). apply (Hv p Hp). exact Hpo. }
  assert (Hall : forall p, In (Some p) replicas -> steady p = true /\ (identityMatches s p && storageMatches s p) = true).
  { intros p Hp. apply In_nth_error in Hp. destruct Hp as [k Hk]. destruct (Hent _ _ Hk) as (H1 & H2 & _). split; assumption. }
  assert (Hcond : condemned_of cnt slots pods = []).
  { destruct (condemned_of cnt slots pods) as [|c t] eqn:E; [reflexivity|]. exfalso.
    assert (Hc : In c (condemned_of cnt slots pods)) by (rewrite E; left; reflexivity).
    apply condemned_of_In in Hc. destruct Hc as [Hc1 Hc2]. rewrite (Hnox c Hc1) in Hc2. discriminate. }
  unfold plan_acts. fold replicas. rewrite Hcond. destruct (s_deleting s); [reflexivity|].
  destruct (rl_acts_all_steady s cur upd (negb (allowsBurst s)) replicas 0 Hall) as (H1 & H2 & H3).
  rewrite H1, H2, H3. cbn [negb List.rev cl_go cl_acts app].
  destruct (String.eqb (s_strategy s) "OnDelete") eqn:Hstr; [reflexivity|].
  apply ul_acts_all_passed. intros k e Hn Hk.
  assert (Hlen : length replicas = Z.to_nat cnt) by (unfold replicas; apply replicas_of_length).
  assert (Hklt : (k < length (List.rev replicas))%nat) by (apply nth_error_Some; congruence).
  rewrite rev_length in Hklt.
  (* entry k of the reversed array is entry len-1-k of the array *)
  destruct (nth_error_split _ _ Hn) as (A & B & HL & HA).
  assert (HR : replicas = List.rev B ++ e :: List.rev A).
  { rewrite <- (rev_involutive replicas), HL, rev_app_distr. cbn [List.rev]. rewrite <- app_assoc. reflexivity. }
  assert (Hm : nth_error replicas (length B) = Some e).
  { rewrite HR, nth_error_app2 by (rewrite rev_length; lia). rewrite rev_length, Nat.sub_diag. reflexivity. }
  assert (HBlen : Z.of_nat (length B) = cnt - 1 - Z.of_nat k).
  { apply (f_equal (@length _)) in HL. rewrite rev_length, app_length in HL. cbn [length] in HL. lia. }
  specialize (Hent _ _ Hm). destruct e as [p|]; [|exact I].
  destruct Hent as (Hst & _ & Hup). split; [apply Hup; [reflexivity | lia] | apply steady_healthy; exact Hst].
Qed.

(* ------------------------------------------------------------------ lifted to the reconcile log -------- *)
From ASTS Require Import MonadProofs ReconcileProofs.

Definition pod_level (c : call) : bool :=
  match c with CDeletePod _ | CCreatePod _ _ _ | CUpdatePod _ | CCreateClaim _ => true | _ => false end.

(* once the pods of the reconciled snapshot are converged, a reconcile issues no pod or claim write — for
   every API state and fault oracle *)
Theorem converged_reconcile_leaves_pods_alone hashes api cache faults o log w' :
  reconcile hashes api cache faults = (o, log, w') ->
  (forall s cur upd coll claimed po r cnt slots,
      ctx_valid cache (s, cur, upd, coll, claimed, po) -> s_replicas s = Some r -> extend r (get_slots (s_slots s)) = (cnt, slots) ->
      distinct_ordinals claimed /\ pods_converged s upd cnt slots claimed) ->
  forall c e, In (c, e) log -> pod_level c = false.
Proof.
  intros Hr Hconv c e Hin. destruct (reconcile_ctx hashes _ _ _ _ _ _ Hr) as (oc & Hv & F).
  rewrite Forall_forall in F. specialize (F _ Hin). cbn [fst] in F.
  assert (Hnil : forall s cur upd coll claimed po, oc = Some (s, cur, upd, coll, claimed, po) -> po_acts po = []).
  { intros s cur upd coll claimed po ->. specialize (Hv _ eq_refl).
    destruct (ctx_unfold _ _ _ _ _ _ _ Hv) as (r & cnt & slots & H1 & H2 & H3 & H4).
    destruct (Hconv _ _ _ _ _ _ _ _ _ Hv H1 H2) as [Hd Hc]. rewrite H4. apply converged_means_empty_plan; assumption. }
  destruct c; cbn in *; try reflexivity; exfalso.
  - destruct F as (s & cur & upd & coll & claimed & po & p & Hoc & Ha & _). rewrite (Hnil _ _ _ _ _ _ Hoc) in Ha. destruct Ha.
  - destruct F as (s & cur & upd & coll & claimed & po & p & Hoc & [Ha|Ha]); rewrite (Hnil _ _ _ _ _ _ Hoc) in Ha; destruct Ha.
  - destruct F as (s & cur & upd & coll & claimed & po & p & Hoc & Ha & _). rewrite (Hnil _ _ _ _ _ _ Hoc) in Ha. destruct Ha.
  - destruct F as (s & cur & upd & coll & claimed & po & p & Hoc & Ha). rewrite (Hnil _ _ _ _ _ _ Hoc) in Ha. destruct Ha.
Qed.
