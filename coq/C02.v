(* C02 — Reconciliation converges to exactly the desired pods and then goes quiet.  Statements only. *)
From ASTS Require Import Base Slots Names World Reconcile ReconcileCheck PlanProofs ReconcileProofs ConvergeProofs Env TerminationProofs QuietProofs CounterProofs ConvergedStatus TerminationEnv RoundExec RoundCheck RoundLift RoundChain RoundRevs RoundExample ExampleWorld SortFilter RoundTrunc TruncExample.

(* pods_converged s upd cnt slots pods (ConvergeProofs.v): every desired ordinal holds a pod that is created,
   not failed/succeeded, Running and Ready, not terminating, with identity and storage in order, and — when the
   strategy rolls and the ordinal is at or above the partition — at the update revision; and no pod is outside
   the desired set.   settled pods: no pod terminating, every non-terminal pod Running and Ready (what the
   fairness premise makes true eventually).  no_dead_condemned: the premise's exclusion (no Failed/Succeeded
   pod outside the desired set). *)

(* (1) NO STUCK STATE.  For every snapshot satisfying the premises, if the planner finds nothing to do then the
   pods ARE converged.  Contrapositive: as long as the pods are not converged, every reconcile of a settled
   in-sync snapshot issues at least one pod action — the controller never waits for ever. *)
Theorem C02_empty_plan_means_converged :
  forall s cur upd cnt slots pods,
    0 <= cnt -> s_deleting s = false -> settled pods -> no_dead_condemned cnt slots pods ->
    plan_acts s cur upd cnt slots pods = [] ->
    pods_converged s upd cnt slots pods.
Proof. exact empty_plan_means_converged. Qed.
Print Assumptions C02_empty_plan_means_converged.

(* (2) FIXED POINT.  Converged pods (distinct ordinals) give an empty plan ... *)
Theorem C02_converged_means_empty_plan :
  forall s cur upd cnt slots pods,
    0 <= cnt -> distinct_ordinals pods -> pods_converged s upd cnt slots pods ->
    plan_acts s cur upd cnt slots pods = [].
Proof. exact converged_means_empty_plan. Qed.
Print Assumptions C02_converged_means_empty_plan.

(* ... and then, for every API state, cache and fault oracle, the reconcile issues no pod or claim write at all *)
Theorem C02_converged_reconcile_leaves_pods_alone :
  forall hashes api cache faults o log w',
    reconcile hashes api cache faults = (o, log, w') ->
    (forall s cur upd coll claimed po r cnt slots,
        ctx_valid cache (s, cur, upd, coll, claimed, po) -> s_replicas s = Some r -> extend r (get_slots (s_slots s)) = (cnt, slots) ->
        distinct_ordinals claimed /\ pods_converged s upd cnt slots claimed) ->
    forall c e, In (c, e) log -> pod_level c = false.
Proof. exact converged_reconcile_leaves_pods_alone. Qed.
Print Assumptions C02_converged_reconcile_leaves_pods_alone.

(* (3) TERMINATION of the pod phase.  A ROUND (TerminationProofs.v) is what the fairness premise describes:
   the reconcile's plan takes effect with no failure (a delete removes the pod of that name, an update stores
   the repaired copy, a create adds the pod), terminating pods finish, created pods become Running and Ready,
   the caches catch up.  wf pods: distinct ordinals, settled, no dead pod outside the desired set (the
   premise's exclusion), canonical names, ordinals in int32.  mu pods: per desired ordinal 1 for a missing
   pod, 2 for a failed one, 1 for a broken identity/storage plus 2 for an outdated revision at or above the
   partition; plus 1 per pod outside the desired set.
   (3a) whenever the planner finds something to do, the round strictly decreases mu (and keeps wf): *)
Theorem C02_round_decreases :
  forall s upd cnt slots,
    0 <= cnt <= max_i32 + 1 -> s_deleting s = false -> NoDup (s_claims s) ->
    (forall i, use_current s i = true -> i < umin_of s) ->
    forall cur pods, wf s cnt slots pods ->
      wf s cnt slots (round s upd cnt slots cur pods)
      /\ (plan_acts s cur upd cnt slots pods <> [] -> mu s upd cnt slots (round s upd cnt slots cur pods) < mu s upd cnt slots pods).
Proof.
  intros s upd cnt slots H1 H2 H3 H4 cur pods W. split; [apply round_wf; assumption | apply round_decreases; assumption].
Qed.
Print Assumptions C02_round_decreases.

(* (3b) hence from EVERY well-formed snapshot of every size, whatever current revision each round resolves
   (curs), after at most mu(pods) rounds the pods are converged, the planner then finds nothing to do for any
   current revision, and further rounds change nothing.  The hypothesis on use_current says that the revision
   of a re-created pod does not depend on the stored status; it holds for every defaulted spec
   (C02_defaulted_spec below). *)
Theorem C02_pod_phase_converges :
  forall s upd cnt slots,
    0 <= cnt <= max_i32 + 1 -> s_deleting s = false -> NoDup (s_claims s) ->
    (forall i, use_current s i = true -> i < umin_of s) ->
    forall pods, wf s cnt slots pods -> forall curs : nat -> rinfo,
    exists k, Z.of_nat k <= mu s upd cnt slots pods
      /\ pods_converged s upd cnt slots (run s upd cnt slots curs k pods)
      /\ (forall cur, plan_acts s cur upd cnt slots (run s upd cnt slots curs k pods) = [])
      /\ (forall m, run s upd cnt slots curs (k + m) pods = run s upd cnt slots curs k pods).
Proof. exact rounds_converge. Qed.
Print Assumptions C02_pod_phase_converges.

(* (3b') ... and the status the pod phase computes there says replicas = readyReplicas = spec.replicas (guard:
   no int32 wrap of the range counter; the pods are listed once each, as an API list does). *)
Theorem C02_pod_phase_converges_with_status :
  forall s upd r cnt slots,
    s_replicas s = Some r -> 0 <= r -> r + Z.of_nat (length (get_slots (s_slots s))) <= max_i32 ->
    extend r (get_slots (s_slots s)) = (cnt, slots) ->
    0 <= cnt <= max_i32 + 1 -> s_deleting s = false -> NoDup (s_claims s) ->
    (forall i, use_current s i = true -> i < umin_of s) ->
    forall pods, wf s cnt slots pods -> NoDup pods -> forall curs : nat -> rinfo,
    exists k, Z.of_nat k <= mu s upd cnt slots pods
      /\ pods_converged s upd cnt slots (run s upd cnt slots curs k pods)
      /\ (forall m, run s upd cnt slots curs (k + m) pods = run s upd cnt slots curs k pods)
      /\ (forall cur coll po, plan_pods s cur upd coll (run s upd cnt slots curs k pods) = Some po ->
            po_acts po = [] /\ st_replicas (po_status po) = r /\ st_ready (po_status po) = r).
Proof. exact rounds_converge_with_status. Qed.
Print Assumptions C02_pod_phase_converges_with_status.

(* (3b'') the same for ANY environment: along every sequence of snapshots in which each snapshot is duplicate-free
   and has the members of the round of its predecessor (estep: the order of an API list, or the order in which the
   executor and the kubelet touched the pods, does not matter), a snapshot within the first mu(pods)+1 is
   converged, and every later one is converged with the same members and an empty plan. *)
Theorem C02_pod_phase_converges_any_environment :
  forall s upd cnt slots,
    0 <= cnt <= max_i32 + 1 -> s_deleting s = false -> NoDup (s_claims s) ->
    (forall i, use_current s i = true -> i < umin_of s) ->
    forall (P : nat -> list pod) (curs : nat -> rinfo),
    wf s cnt slots (P O) -> NoDup (P O) ->
    (forall k, estep s upd cnt slots (curs k) (P k) (P (S k))) ->
    exists k, Z.of_nat k <= mu s upd cnt slots (P O)
      /\ forall m, (k <= m)%nat -> pods_converged s upd cnt slots (P m) /\ same_members (P m) (P k)
                                /\ forall cur, plan_acts s cur upd cnt slots (P m) = [].
Proof. exact env_rounds_converge. Qed.
Print Assumptions C02_pod_phase_converges_any_environment.

(* (3d) THE FULL MODEL.  One fair round of the full reconcile + environment model — caches catch up, the reconcile
   (revision phase, claiming, planner, executor, status write, history truncation) runs without injected faults,
   terminating pods finish, the others become Running and Ready (env_round, RoundCheck.v) — leaves a
   duplicate-free pod list with exactly the members of the abstract round, provided the world is REGULAR: the
   cached set is the spec up to its status, no orphan revision to adopt, every pod already claimed, the update
   revision in place and newest (gsr_value).  Static premise: the claim names of the desired ordinals are pairwise
   different (they are <template>-<set>-<ordinal>); claims the cache does not know are created by the round. *)
Theorem C02_full_model_round :
  forall s upd cnt slots,
    0 <= cnt <= max_i32 + 1 -> s_deleting s = false -> NoDup (s_claims s) ->
    (forall i, use_current s i = true -> i < umin_of s) ->
    forall cur hashes w rcur rupd coll r,
    w_set w = Some s -> get_paused (s_pause s) = false -> s_selector s = SelOk ->
    nothing_to_adopt w s = true ->
    forallb (claim_quiet s) (w_pods w) = true -> claim_value s (w_pods w) = w_pods w ->
    gsr_value hashes s (sort_revs (lrevs w s)) = Some (rcur, rupd, coll) ->
    cur = {| ri_name := r_name rcur; ri_tmpl := r_tmpl rcur |} ->
    upd = {| ri_name := r_name rupd; ri_tmpl := r_tmpl rupd |} ->
    s_replicas s = Some r -> extend r (get_slots (s_slots s)) = (cnt, slots) ->
    wf s cnt slots (w_pods w) -> NoDup (w_pods w) ->
    NoDup (flat_map (fun j => map (fun t => claim_name t (s_name s) j) (s_claims s)) (ordinals_of cnt slots)) ->
    let w' := env_round hashes w in
    NoDup (w_pods w') /\ same_members (w_pods w') (round s upd cnt slots cur (w_pods w)).
Proof. exact lift_round. Qed.
Print Assumptions C02_full_model_round.

(* (3e) hence, along the fair rounds of the full model (Wd (k+1) = env_round (Wd k)), as long as every round
   starts from a regular world, the pods of the API state are converged after at most mu rounds and stay so.
   The stored status changes from round to round; nothing the pod phase does depends on it when the spec
   carries a partition (s_rolling s0 <> None, as every defaulted RollingUpdate spec does). *)
Theorem C02_full_model_converges :
  forall hashes s0 upd cnt r slots,
    0 <= cnt <= max_i32 + 1 -> s_deleting s0 = false -> NoDup (s_claims s0) -> s_rolling s0 <> None ->
    get_paused (s_pause s0) = false -> s_selector s0 = SelOk ->
    s_replicas s0 = Some r -> extend r (get_slots (s_slots s0)) = (cnt, slots) ->
    NoDup (flat_map (fun j => map (fun t => claim_name t (s_name s0) j) (s_claims s0)) (ordinals_of cnt slots)) ->
    forall (Wd : nat -> world) (curs : nat -> rinfo),
    (forall k, Wd (S k) = env_round hashes (Wd k)) ->
    (forall k, regular hashes s0 upd cnt slots (Wd k) (curs k)) ->
    wf s0 cnt slots (w_pods (Wd O)) -> NoDup (w_pods (Wd O)) ->
    exists k, Z.of_nat k <= mu s0 upd cnt slots (w_pods (Wd O))
      /\ forall m, (k <= m)%nat ->
           pods_converged s0 upd cnt slots (w_pods (Wd m)) /\ same_members (w_pods (Wd m)) (w_pods (Wd k))
           /\ forall cur, plan_acts s0 cur upd cnt slots (w_pods (Wd m)) = [].
Proof. exact full_model_rounds_converge. Qed.
Print Assumptions C02_full_model_converges.

(* (3f) the same with the per-round hypothesis reduced to the REVISION PHASE (rev_quiet: nothing to adopt, the update
   revision in place and newest): that the stored set keeps its spec, that every pod stays claimed, that the
   pods stay well-formed and duplicate-free are preserved by the rounds themselves
   (KeepsSet.v: a reconcile writes the status of the set only; claims are never removed; members of the round). *)
Theorem C02_full_model_converges_rev_quiet :
  forall hashes s0 upd cnt r slots,
    0 <= cnt <= max_i32 + 1 -> s_deleting s0 = false -> NoDup (s_claims s0) -> s_rolling s0 <> None ->
    get_paused (s_pause s0) = false -> s_selector s0 = SelOk ->
    s_replicas s0 = Some r -> extend r (get_slots (s_slots s0)) = (cnt, slots) ->
    NoDup (flat_map (fun j => map (fun t => claim_name t (s_name s0) j) (s_claims s0)) (ordinals_of cnt slots)) ->
    forall (Wd : nat -> world) (curs : nat -> rinfo),
    (forall k, Wd (S k) = env_round hashes (Wd k)) ->
    (forall k, rev_quiet hashes upd (Wd k) (curs k)) ->
    (exists st rv, w_set (Wd O) = Some (set_status s0 st rv)) ->
    wf s0 cnt slots (w_pods (Wd O)) -> NoDup (w_pods (Wd O)) -> all_claimed s0 (w_pods (Wd O)) ->
    exists k, Z.of_nat k <= mu s0 upd cnt slots (w_pods (Wd O))
      /\ forall m, (k <= m)%nat ->
           pods_converged s0 upd cnt slots (w_pods (Wd m)) /\ same_members (w_pods (Wd m)) (w_pods (Wd k))
           /\ forall cur, plan_acts s0 cur upd cnt slots (w_pods (Wd m)) = [].
Proof. exact full_model_converges_rev_quiet. Qed.
Print Assumptions C02_full_model_converges_rev_quiet.

(* (3g) and with hypotheses on the INITIAL world only (RoundRevs.v): when the revision list is within
   revisionHistoryLimit, a round leaves the revisions as they are and stores the old status or the computed one,
   whose collision count is the one the revision phase used — so the next round's revision phase resolves the same
   update revision without a write.  From a regular initial world the fair rounds of the full model bring the pods
   of the API state to the converged set within mu rounds and keep them there; nothing is assumed about later
   rounds. *)
Theorem C02_full_model_converges_closed :
  forall hashes s0 upd cnt r limit slots,
    0 <= cnt <= max_i32 + 1 -> s_deleting s0 = false -> NoDup (s_claims s0) -> s_rolling s0 <> None ->
    get_paused (s_pause s0) = false -> s_selector s0 = SelOk ->
    s_replicas s0 = Some r -> extend r (get_slots (s_slots s0)) = (cnt, slots) ->
    NoDup (flat_map (fun j => map (fun t => claim_name t (s_name s0) j) (s_claims s0)) (ordinals_of cnt slots)) ->
    s_rhl s0 = Some limit ->
    forall (Wd : nat -> world), (forall k, Wd (S k) = env_round hashes (Wd k)) ->
    forall st0 rv0 rcur0 rupd coll,
    w_set (Wd O) = Some (set_status s0 st0 rv0) ->
    wf s0 cnt slots (w_pods (Wd O)) -> NoDup (w_pods (Wd O)) -> all_claimed s0 (w_pods (Wd O)) ->
    nothing_to_adopt (Wd O) s0 = true ->
    gsr_value hashes (set_status s0 st0 rv0) (sort_revs (lrevs (Wd O) s0)) = Some (rcur0, rupd, coll) ->
    upd = rinfo_of rupd ->
    Z.of_nat (length (sort_revs (lrevs (Wd O) s0))) <= limit ->
    exists k, Z.of_nat k <= mu s0 upd cnt slots (w_pods (Wd O))
      /\ forall m, (k <= m)%nat ->
           pods_converged s0 upd cnt slots (w_pods (Wd m)) /\ same_members (w_pods (Wd m)) (w_pods (Wd k))
           /\ forall cur, plan_acts s0 cur upd cnt slots (w_pods (Wd m)) = [].
Proof. exact full_model_converges_closed. Qed.
Print Assumptions C02_full_model_converges_closed.

(* (3h) ... AND THEN QUIET.  From the round after the plan has become empty, the computed status is the stored one
   (the status written in the converging round is reproduced by the next computation: same census, the current
   revision resolved from the stored currentRevision carries the same name; and a consistent status is left alone),
   so every later world satisfies quietb — by (3c) a reconcile there issues no write at all.  This closes the
   property over the full model for a regular initial world whose revision list is within the limit. *)
Theorem C02_full_model_converges_and_goes_quiet :
  forall hashes s0 upd cnt r limit slots,
    0 <= cnt <= max_i32 + 1 -> s_deleting s0 = false -> NoDup (s_claims s0) -> s_rolling s0 <> None ->
    get_paused (s_pause s0) = false -> s_selector s0 = SelOk ->
    s_replicas s0 = Some r -> extend r (get_slots (s_slots s0)) = (cnt, slots) ->
    NoDup (flat_map (fun j => map (fun t => claim_name t (s_name s0) j) (s_claims s0)) (ordinals_of cnt slots)) ->
    s_rhl s0 = Some limit ->
    forall (Wd : nat -> world), (forall k, Wd (S k) = env_round hashes (Wd k)) ->
    forall st0 rv0 rcur0 rupd coll,
    w_set (Wd O) = Some (set_status s0 st0 rv0) ->
    wf s0 cnt slots (w_pods (Wd O)) -> NoDup (w_pods (Wd O)) -> all_claimed s0 (w_pods (Wd O)) ->
    nothing_to_adopt (Wd O) s0 = true ->
    gsr_value hashes (set_status s0 st0 rv0) (sort_revs (lrevs (Wd O) s0)) = Some (rcur0, rupd, coll) ->
    upd = rinfo_of rupd ->
    Z.of_nat (length (sort_revs (lrevs (Wd O) s0))) <= limit ->
    exists k, Z.of_nat k <= mu s0 upd cnt slots (w_pods (Wd O)) + 1
      /\ forall m, (k <= m)%nat ->
           pods_converged s0 upd cnt slots (w_pods (Wd m)) /\ quietb hashes (Wd m) (Wd m) = true.
Proof. exact full_model_converges_and_goes_quiet. Qed.
Print Assumptions C02_full_model_converges_and_goes_quiet.

(* (3i) ... and the STORED status of those worlds says status.replicas = status.readyReplicas = spec.replicas *)
Theorem C02_full_model_stored_status :
  forall hashes s0 upd cnt r limit slots,
    0 <= cnt <= max_i32 + 1 -> s_deleting s0 = false -> NoDup (s_claims s0) -> s_rolling s0 <> None ->
    get_paused (s_pause s0) = false -> s_selector s0 = SelOk ->
    s_replicas s0 = Some r -> extend r (get_slots (s_slots s0)) = (cnt, slots) ->
    NoDup (flat_map (fun j => map (fun t => claim_name t (s_name s0) j) (s_claims s0)) (ordinals_of cnt slots)) ->
    s_rhl s0 = Some limit ->
    forall (Wd : nat -> world), (forall k, Wd (S k) = env_round hashes (Wd k)) ->
    forall st0 rv0 rcur0 rupd coll,
    w_set (Wd O) = Some (set_status s0 st0 rv0) ->
    wf s0 cnt slots (w_pods (Wd O)) -> NoDup (w_pods (Wd O)) -> all_claimed s0 (w_pods (Wd O)) ->
    nothing_to_adopt (Wd O) s0 = true ->
    gsr_value hashes (set_status s0 st0 rv0) (sort_revs (lrevs (Wd O) s0)) = Some (rcur0, rupd, coll) ->
    upd = rinfo_of rupd ->
    Z.of_nat (length (sort_revs (lrevs (Wd O) s0))) <= limit ->
    0 <= r -> r + Z.of_nat (length (get_slots (s_slots s0))) <= max_i32 ->
    exists k, Z.of_nat k <= mu s0 upd cnt slots (w_pods (Wd O)) + 1
      /\ forall m, (k <= m)%nat ->
           exists s, w_set (Wd m) = Some s /\ st_replicas (s_status s) = r /\ st_ready (s_status s) = r.
Proof. exact full_model_stored_status. Qed.
Print Assumptions C02_full_model_stored_status.

(* (3j) WITHOUT the bound on the revision list (RoundTrunc.v, SortFilter.v).  When the history is longer than
   revisionHistoryLimit, truncateHistory deletes revisions during the rollout and after it.  The deleted names are
   never the current or the update revision; the sorted de-duplicated list of the next revision phase is the old one
   without the deleted names (insertion sort and the name de-duplication commute with a filter by name); and
   getStatefulSetRevisions resolves the same current and update revision on the shorter list.  The one extra premise:
   the update revision carries no NUMERIC hash label (hash_num = None; the labels the controller generates are
   safe-encoded decimal strings: digits 0-5 map to digits, 6-9 to letters, so a label parses as an int32 for roughly one
   template in 400).  Without it EqualRevision is not transitive, the revision that
   made the update revision "equal" can be truncated away, and the next round creates a fresh update revision —
   so the premise is needed for the statement with a fixed update revision, not an artefact of the proof. *)
Theorem C02_full_model_converges_any_history :
  forall hashes s0 upd cnt r slots,
    0 <= cnt <= max_i32 + 1 -> s_deleting s0 = false -> NoDup (s_claims s0) -> s_rolling s0 <> None ->
    get_paused (s_pause s0) = false -> s_selector s0 = SelOk ->
    s_replicas s0 = Some r -> extend r (get_slots (s_slots s0)) = (cnt, slots) ->
    NoDup (flat_map (fun j => map (fun t => claim_name t (s_name s0) j) (s_claims s0)) (ordinals_of cnt slots)) ->
    s_rhl s0 <> None ->
    forall (Wd : nat -> world), (forall k, Wd (S k) = env_round hashes (Wd k)) ->
    forall st0 rv0 rcur0 rupd coll,
    w_set (Wd O) = Some (set_status s0 st0 rv0) ->
    wf s0 cnt slots (w_pods (Wd O)) -> NoDup (w_pods (Wd O)) -> all_claimed s0 (w_pods (Wd O)) ->
    nothing_to_adopt (Wd O) s0 = true ->
    gsr_value hashes (set_status s0 st0 rv0) (sort_revs (lrevs (Wd O) s0)) = Some (rcur0, rupd, coll) ->
    upd = rinfo_of rupd ->
    hash_num rupd = None ->
    exists k, Z.of_nat k <= mu s0 upd cnt slots (w_pods (Wd O))
      /\ forall m, (k <= m)%nat ->
           pods_converged s0 upd cnt slots (w_pods (Wd m)) /\ same_members (w_pods (Wd m)) (w_pods (Wd k))
           /\ forall cur, plan_acts s0 cur upd cnt slots (w_pods (Wd m)) = [].
Proof. exact full_model_converges_any_history. Qed.
Print Assumptions C02_full_model_converges_any_history.

(* (3k) ... AND THEN QUIET, for a history of any length.  Two rounds after the plan has become empty: the first of
   them may still truncate (the old current revision stops being referenced once the status names the update
   revision), the second finds the same live names and nothing left to delete (removing the names of the first n
   entries of a list with distinct names leaves the rest).  Extra premise: revisionHistoryLimit is not negative
   (API validation; with a negative limit the Go code slices history[:len - limit] out of range). *)
Theorem C02_full_model_any_history_goes_quiet :
  forall hashes s0 upd cnt r slots,
    0 <= cnt <= max_i32 + 1 -> s_deleting s0 = false -> NoDup (s_claims s0) -> s_rolling s0 <> None ->
    get_paused (s_pause s0) = false -> s_selector s0 = SelOk ->
    s_replicas s0 = Some r -> extend r (get_slots (s_slots s0)) = (cnt, slots) ->
    NoDup (flat_map (fun j => map (fun t => claim_name t (s_name s0) j) (s_claims s0)) (ordinals_of cnt slots)) ->
    s_rhl s0 <> None ->
    forall (Wd : nat -> world), (forall k, Wd (S k) = env_round hashes (Wd k)) ->
    forall st0 rv0 rcur0 rupd coll,
    w_set (Wd O) = Some (set_status s0 st0 rv0) ->
    wf s0 cnt slots (w_pods (Wd O)) -> NoDup (w_pods (Wd O)) -> all_claimed s0 (w_pods (Wd O)) ->
    nothing_to_adopt (Wd O) s0 = true ->
    gsr_value hashes (set_status s0 st0 rv0) (sort_revs (lrevs (Wd O) s0)) = Some (rcur0, rupd, coll) ->
    upd = rinfo_of rupd ->
    hash_num rupd = None ->
    (forall l, s_rhl s0 = Some l -> 0 <= l) ->
    exists k, Z.of_nat k <= mu s0 upd cnt slots (w_pods (Wd O)) + 2
      /\ forall m, (k <= m)%nat ->
           pods_converged s0 upd cnt slots (w_pods (Wd m))
           /\ quietb hashes (Wd m) (Wd m) = true.
Proof. exact full_model_any_history_goes_quiet. Qed.
Print Assumptions C02_full_model_any_history_goes_quiet.

(* (3l) ... and the stored status, for a history of any length *)
Theorem C02_full_model_any_history_stored_status :
  forall hashes s0 upd cnt r slots,
    0 <= cnt <= max_i32 + 1 -> s_deleting s0 = false -> NoDup (s_claims s0) -> s_rolling s0 <> None ->
    get_paused (s_pause s0) = false -> s_selector s0 = SelOk ->
    s_replicas s0 = Some r -> extend r (get_slots (s_slots s0)) = (cnt, slots) ->
    NoDup (flat_map (fun j => map (fun t => claim_name t (s_name s0) j) (s_claims s0)) (ordinals_of cnt slots)) ->
    s_rhl s0 <> None ->
    forall (Wd : nat -> world), (forall k, Wd (S k) = env_round hashes (Wd k)) ->
    forall st0 rv0 rcur0 rupd coll,
    w_set (Wd O) = Some (set_status s0 st0 rv0) ->
    wf s0 cnt slots (w_pods (Wd O)) -> NoDup (w_pods (Wd O)) -> all_claimed s0 (w_pods (Wd O)) ->
    nothing_to_adopt (Wd O) s0 = true ->
    gsr_value hashes (set_status s0 st0 rv0) (sort_revs (lrevs (Wd O) s0)) = Some (rcur0, rupd, coll) ->
    upd = rinfo_of rupd ->
    hash_num rupd = None ->
    0 <= r -> r + Z.of_nat (length (get_slots (s_slots s0))) <= max_i32 ->
    exists k, Z.of_nat k <= mu s0 upd cnt slots (w_pods (Wd O)) + 1
      /\ forall m, (k <= m)%nat ->
           exists s, w_set (Wd m) = Some s /\ st_replicas (s_status s) = r /\ st_ready (s_status s) = r.
Proof. exact full_model_any_history_stored_status. Qed.
Print Assumptions C02_full_model_any_history_stored_status.

(* non-vacuity of (3j): revisionHistoryLimit 0 and two unreferenced old revisions; the history is truncated after the
   first round and again after the rollout, and the theorem gives convergence within mu = 6 rounds *)
Example C02_ex_any_history :
  (exists k, Z.of_nat k <= 6
    /\ forall m, (k <= m)%nat -> pods_converged ty_set rx_upd 4 [1] (w_pods (ty_W m))
                                /\ forall cur, plan_acts ty_set cur rx_upd 4 [1] (w_pods (ty_W m)) = [])
  /\ map r_name (w_revs (ty_W 0)) = ["web-a"; "web-b"; "web-h1"; "web-h2"]%string
  /\ map r_name (w_revs (ty_W 1)) = ["web-h1"; "web-h2"]%string
  /\ map r_name (w_revs (ty_W 8)) = ["web-h2"]%string.
Proof. split; [exact ty_converges|]. destruct ty_truncates as (A & B & C & _). repeat split; assumption. Qed.
(* the premise on the hash label is needed (TruncExample.v): web-l, label "5", is the update revision only through
   web-e (unparsable label, same template), which nothing refers to; with revisionHistoryLimit 0 the first round
   truncates web-e, and the second round, expecting label "7", finds no equal revision and creates one *)
Example C02_ex_numeric_hash_premise_needed :
  gsr_value nh_hashes nh_set (sort_revs (lrevs nh_w0 nh_set)) = Some (nh_rev "web-l" 2 "5", nh_rev "web-l" 2 "5", 0)
  /\ nothing_to_adopt nh_w0 nh_set = true
  /\ hash_num (nh_rev "web-l" 2 "5") = Some 5
  /\ map r_name (w_revs nh_w1) = ["web-l"]%string
  /\ map r_name (w_revs nh_w2) = ["web-l"; "web-7"]%string.
Proof. exact nh_premise_needed. Qed.
Example C02_ex_any_history_goes_quiet :
  exists k, Z.of_nat k <= 8
    /\ forall m, (k <= m)%nat -> pods_converged ty_set rx_upd 4 [1] (w_pods (ty_W m)) /\ quietb ex_hashes (ty_W m) (ty_W m) = true.
Proof. exact ty_goes_quiet. Qed.

(* non-vacuity of (3e)-(3g): a concrete world whose fair rounds are all regular (RoundExample.v; rx_converges_closed
   instantiates (3g) from the initial world alone): an outdated pod, a pod
   in a delete slot, a failed pod, ordinal 3 vacant; the theorem gives convergence within mu = 6 rounds *)
Example C02_ex_full_model :
  exists k, Z.of_nat k <= 6
    /\ forall m, (k <= m)%nat -> pods_converged rx_set rx_upd 4 [1] (w_pods (rx_W m))
                                /\ forall cur, plan_acts rx_set cur rx_upd 4 [1] (w_pods (rx_W m)) = [].
Proof. exact rx_converges. Qed.
Example C02_ex_full_model_closed :
  exists k, Z.of_nat k <= 6
    /\ forall m, (k <= m)%nat -> pods_converged rx_set rx_upd 4 [1] (w_pods (rx_W m))
                                /\ forall cur, plan_acts rx_set cur rx_upd 4 [1] (w_pods (rx_W m)) = [].
Proof. exact rx_converges_closed. Qed.
Example C02_ex_goes_quiet :
  exists k, Z.of_nat k <= 7
    /\ forall m, (k <= m)%nat -> pods_converged rx_set rx_upd 4 [1] (w_pods (rx_W m)) /\ quietb ex_hashes (rx_W m) (rx_W m) = true.
Proof. exact rx_goes_quiet. Qed.

Theorem C02_defaulted_spec :
  forall s, (String.eqb (s_strategy s) "RollingUpdate" = true -> s_rolling s <> None) ->
  forall i, use_current s i = true -> i < umin_of s.
Proof. exact use_current_defaulted. Qed.
Print Assumptions C02_defaulted_spec.

(* non-vacuity of (3): an outdated pod, a pod in a delete slot and a failed pod, ordinal 3 missing; wf holds,
   mu = 6, and five rounds converge to web-0, web-2, web-3 at the update revision *)
Definition tx_set := ex_set 3 (Some "[1]"%string) "OrderedReady" 2 0 (ex_status 3 "web-h1" "web-h1").
Definition tx_upd := {| ri_name := "web-h2"; ri_tmpl := 2 |}.
Definition tx_pods := [ex_pod 0 "web-h1" "Running" true; ex_pod 1 "web-h1" "Running" true; ex_pod 2 "web-h1" "Failed" false].
Example C02_ex_wf : wf tx_set 4 [1] tx_pods /\ mu tx_set tx_upd 4 [1] tx_pods = 6.
Proof.
  split; [|reflexivity]. constructor.
  - intros p q Hp Hq _ Ho.
    destruct Hp as [<-|[<-|[<-|[]]]]; destruct Hq as [<-|[<-|[<-|[]]]]; try reflexivity; vm_compute in Ho; discriminate.
  - intros p [<-|[<-|[<-|[]]]]; vm_compute; repeat split.
  - intros p [<-|[<-|[<-|[]]]]; vm_compute; intros H; try reflexivity; discriminate.
  - intros p [<-|[<-|[<-|[]]]]; vm_compute; split; discriminate.
  - intros p [<-|[<-|[<-|[]]]]; reflexivity.
Qed.
Example C02_ex_run :
  map (fun p => (p_name p, p_rev p)) (run tx_set tx_upd 4 [1] (fun _ => {| ri_name := "web-h1"; ri_tmpl := 1 |}) 5 tx_pods)
  = [("web-2", "web-h2"); ("web-3", "web-h2"); ("web-0", "web-h2")]%string.
Proof. vm_compute. reflexivity. Qed.

(* (3c) QUIET.  quietb api cache (QuietProofs.v) is decidable: no orphan revision to adopt, every cached pod foreign
   or already claimed, the update revision exists and is the newest of its equals, the plan of the pod phase
   empty (by (2): the claimed pods converged), the stored status equal to the one the pod phase computes, the
   revision history within its limit.  In such a world a reconcile without injected faults succeeds, leaves
   the API state untouched, and its log holds list / get calls only: no write at all. *)
Theorem C02_quiet_world_no_write :
  forall hashes api cache, quietb hashes api cache = true ->
  exists log, reconcile hashes api cache [] = (OOk, log, api) /\ forall c e, In (c, e) log -> is_read c.
Proof. exact quiet_reconcile. Qed.
Print Assumptions C02_quiet_world_no_write.

Example C02_ex_quiet :
  let w := ex_world (ex_set 3 None "Parallel" 1 0 (ex_status 3 "web-h1" "web-h1")) ex_healthy3 [ex_rev "web-h1" 1 1] in
  quietb ex_hashes w w = true.
Proof. vm_compute. reflexivity. Qed.

(* (4) WHAT IS NOT PROVED.  (3h)/(3k) are the property over the full reconcile + environment model for a REGULAR
   initial world (in sync, nothing to adopt, every pod claimed and well-formed, the update revision in place);
   (3j)-(3l) remove the bound on the revision list at the price of one premise on the update revision's hash label.
   Not proved in Coq: the phase BEFORE regularity — the chaotic prefix of a history (faults, lagging caches, adoption
   of orphans, creation of the update revision, pods not yet settled), after which the fair suffix starts from
   whatever world it left.  It is decided on the implementation by props/c02.py on every generated history (chaotic
   prefix of reconciles, kubelet events, partial cache refreshes, transient faults, edits that stop; then the fair
   suffix): the set must be converged, the status must be the census, and the last two reconciles must issue no
   write; the environment model Env.v is compared with the real world after every operation inside coqc, and
   round_check / regularb / quietb are evaluated inside coqc on the worlds of every history at its round boundaries
   and at its end. *)
Theorem C02_converges_partial_example :
  (* a concrete history in the model: scale-in at slot 1 with Parallel converges in two rounds and is then quiet *)
  let s := ex_set 3 (Some "[1]"%string) "Parallel" 1 0 (ex_status 3 "web-h1" "web-h1") in
  let w0 := {| hw_api := ex_world s ex_healthy3 [ex_rev "web-h1" 1 1]; hw_cache := ex_world s ex_healthy3 [ex_rev "web-h1" 1 1] |} in
  let round := [HReconcile []; HKubelet "web-1" KGone; HKubelet "web-3" KSettle; HRefresh] in
  let w2 := hrun ex_hashes w0 (round ++ round) in
  map p_name (w_pods (hw_api w2)) = ["web-0"; "web-2"; "web-3"]%string
  /\ filter pi_write (snd (fst (reconcile ex_hashes (hw_api w2) (hw_cache w2) []))) = [].
Proof. vm_compute. split; reflexivity. Qed.
Print Assumptions C02_converges_partial_example.

(* non-vacuity of (1)/(2): the converged pods of the example satisfy the definition *)
Example C02_ex_progress :
  plan_acts (ex_set 3 None "OrderedReady" 1 0 (ex_status 2 "web-h1" "web-h1")) {| ri_name := "web-h1"; ri_tmpl := 1 |}
            {| ri_name := "web-h1"; ri_tmpl := 1 |} 3 [] [ex_pod 0 "web-h1" "Running" true; ex_pod 1 "web-h1" "Running" true] <> [].
Proof. vm_compute. discriminate. Qed.
