(* C02 — Reconciliation converges to exactly the desired pods and then goes quiet.  Statements only. *)
From ASTS Require Import Base Slots Names World Reconcile ReconcileCheck PlanProofs ReconcileProofs ConvergeProofs Env ExampleWorld.

(* pods_converged s upd cnt slots pods (ConvergeProofs.v): every desired ordinal holds a pod that is created,
   not failed/succeeded, Running and Ready, not terminating, with identity and storage in order, and — when the
   strategy rolls and the ordinal is at or above the partition — at the update revision; and no pod is outside
   the desired set.   settled pods: no pod terminating, every non-terminal pod Running and Ready (what the
   fairness premise makes true eventually).  no_dead_condemned: the premise's exclusion (no Failed/Succeeded
   pod outside the desired set). *)

(* (1) NO STUCK STATE.  For every snapshot satisfying the premises, if the planner finds nothing to do then the
   pods ARE converged.  Contrapositive: as long as the pods are not converged, every reconcile of a settled
   in-sync snapshot issues at least one pod action — the controller never waits for ever. *)
Theorem C02_empty_plan_means_converged :
  forall s cur upd cnt slots pods,
    0 <= cnt -> s_deleting s = false -> settled pods -> no_dead_condemned cnt slots pods ->
    plan_acts s cur upd cnt slots pods = [] ->
    pods_converged s upd cnt slots pods.
Proof. exact empty_plan_means_converged. Qed.
Print Assumptions C02_empty_plan_means_converged.

(* (2) FIXED POINT.  Converged pods (distinct ordinals) give an empty plan ... *)
Theorem C02_converged_means_empty_plan :
  forall s cur upd cnt slots pods,
    0 <= cnt -> distinct_ordinals pods -> pods_converged s upd cnt slots pods ->
    plan_acts s cur upd cnt slots pods = [].
Proof. exact converged_means_empty_plan. Qed.
Print Assumptions C02_converged_means_empty_plan.

(* ... and then, for every API state, cache and fault oracle, the reconcile issues no pod or claim write at all *)
Theorem C02_converged_reconcile_leaves_pods_alone :
  forall hashes api cache faults o log w',
    reconcile hashes api cache faults = (o, log, w') ->
    (forall s cur upd coll claimed po r cnt slots,
        ctx_valid cache (s, cur, upd, coll, claimed, po) -> s_replicas s = Some r -> extend r (get_slots (s_slots s)) = (cnt, slots) ->
        distinct_ordinals claimed /\ pods_converged s upd cnt slots claimed) ->
    forall c e, In (c, e) log -> pod_level c = false.
Proof. exact converged_reconcile_leaves_pods_alone. Qed.
Print Assumptions C02_converged_reconcile_leaves_pods_alone.

(* (3) PARTIAL — what is NOT proved.  Full statement: for every WF world there is n <= bound(world) such that
   n synchronous rounds (caches catch up; reconcile; terminating pods finish, live pods become Ready) reach a
   world that is converged with status.replicas = readyReplicas = spec.replicas, after which a reconcile issues
   no write at all (status and revisions included).  Proved: (1) progress of the pod phase — never stuck — and
   (2) the pod phase is quiet exactly at the converged states; NOT proved: that progress terminates (a
   decreasing measure over rounds), and quietness of the status / revision writes at the fixed point.  Both are
   decided on the implementation by props/c02.py on every generated history (chaotic prefix of reconciles,
   kubelet events, partial cache refreshes, transient faults, edits that stop; then the fair suffix): the set
   must be converged, the status must be the census, and the last two reconciles must issue no write; the
   environment model Env.v is compared with the real world after every operation inside coqc. *)
Theorem C02_converges_partial_example :
  (* a concrete history in the model: scale-in at slot 1 with Parallel converges in two rounds and is then quiet *)
  let s := ex_set 3 (Some "[1]"%string) "Parallel" 1 0 (ex_status 3 "web-h1" "web-h1") in
  let w0 := {| hw_api := ex_world s ex_healthy3 [ex_rev "web-h1" 1 1]; hw_cache := ex_world s ex_healthy3 [ex_rev "web-h1" 1 1] |} in
  let round := [HReconcile []; HKubelet "web-1" KGone; HKubelet "web-3" KSettle; HRefresh] in
  let w2 := hrun ex_hashes w0 (round ++ round) in
  map p_name (w_pods (hw_api w2)) = ["web-0"; "web-2"; "web-3"]%string
  /\ filter pi_write (snd (fst (reconcile ex_hashes (hw_api w2) (hw_cache w2) []))) = [].
Proof. vm_compute. split; reflexivity. Qed.
Print Assumptions C02_converges_partial_example.

(* non-vacuity of (1)/(2): the converged pods of the example satisfy the definition *)
Example C02_ex_progress :
  plan_acts (ex_set 3 None "OrderedReady" 1 0 (ex_status 2 "web-h1" "web-h1")) {| ri_name := "web-h1"; ri_tmpl := 1 |}
            {| ri_name := "web-h1"; ri_tmpl := 1 |} 3 [] [ex_pod 0 "web-h1" "Running" true; ex_pod 1 "web-h1" "Running" true] <> [].
Proof. vm_compute. discriminate. Qed.
