(* Handlers.v — executable model of the informer event handlers of
   pkg/controller/statefulset/stateful_set.go (addPod, updatePod, deletePod,
   getStatefulSetsForPod, resolveControllerRef, enqueueStatefulSet, the three set-informer
   handlers registered in NewStatefulSetController) and of the lister method
   GetPodStatefulSets (client/client/listers/apps/v1/expansion_generated.go), as they are in
   /repo now.  Definitions only; the proofs are in HandlersProofs.v, the statements in C16.v.

   Abstraction.
   - A pod is (namespace, name, labels, controller owner reference, resourceVersion,
     deletionTimestamp set?).  `p_owner` is the result of metav1.GetControllerOf: the first
     owner reference whose Controller flag is true (the harness driver computes it from the
     full ownerReferences list); the fields compared by reflect.DeepEqual in updatePod
     (apiVersion, kind, name, uid, blockOwnerDeletion) are all kept.
   - Labels are an association list without duplicate keys (a Go map).  A nil map and an empty
     map are both []: updatePod's reflect.DeepEqual distinguishes them, but the only code that
     depends on labelChanged then asks the lister about a pod without labels, which yields
     nothing either way.
   - The set lister is the list of sets in the informer's indexer (namespace, name, uid,
     selector); the indexer is keyed by namespace/name, see lister_wf.
   - A selector is nil (labels.Nothing) or a list of requirements; matchLabels k=v is the
     requirement (k In [v]); the empty list is the empty selector (labels.Everything, which
     GetPodStatefulSets skips).  LabelSelectorAsSelector fails for In/NotIn without values,
     Exists/DoesNotExist with values, and an unknown operator; label keys and values are assumed
     to be syntactically valid (not modelled).
   - The result of a handler is the list of keys passed to queue.Add, in program order
     (duplicates included; the queue itself collapses them, see Queue.v).
   No Go statement of these handlers can panic on the modelled inputs: the type assertions
   to a pod pointer in addPod/updatePod are fed pods by the informer, deletePod uses the
   two-result form. *)
From ASTS Require Import Base.

Definition key := string.
Definition labels := list (string * string).

(* ---------- selectors ------------------------------------------------------------------- *)
Inductive sel_op := OpIn | OpNotIn | OpExists | OpDoesNotExist | OpUnknown.
Record sel_req := { rq_key : string; rq_op : sel_op; rq_vals : list string }.
Inductive selector := SelNil | Sel (reqs : list sel_req).

Definition str_mem (x : string) (l : list string) : bool := existsb (String.eqb x) l.

Fixpoint lookup (k : string) (l : labels) : option string :=
  match l with
  | [] => None
  | (k', v) :: t => if String.eqb k k' then Some v else lookup k t
  end.

(* labels.NewRequirement: arity rules per operator *)
Definition req_valid (r : sel_req) : bool :=
  match rq_op r with
  | OpIn | OpNotIn => negb (Nat.eqb (length (rq_vals r)) 0)
  | OpExists | OpDoesNotExist => Nat.eqb (length (rq_vals r)) 0
  | OpUnknown => false
  end.

(* Requirement.Matches *)
Definition req_matches (r : sel_req) (l : labels) : bool :=
  match rq_op r, lookup (rq_key r) l with
  | OpIn, Some v => str_mem v (rq_vals r)
  | OpIn, None => false
  | OpNotIn, Some v => negb (str_mem v (rq_vals r))
  | OpNotIn, None => true
  | OpExists, Some _ => true
  | OpExists, None => false
  | OpDoesNotExist, Some _ => false
  | OpDoesNotExist, None => true
  | OpUnknown, _ => false
  end.

(* metav1.LabelSelectorAsSelector: None = error *)
Inductive csel := CNothing | CEverything | CReqs (rs : list sel_req).
Definition sel_convert (s : selector) : option csel :=
  match s with
  | SelNil => Some CNothing
  | Sel [] => Some CEverything
  | Sel rs => if forallb req_valid rs then Some (CReqs rs) else None
  end.
Definition csel_empty (c : csel) : bool :=
  match c with CEverything => true | CNothing => false | CReqs rs => Nat.eqb (length rs) 0 end.
Definition csel_matches (c : csel) (l : labels) : bool :=
  match c with
  | CNothing => false
  | CEverything => true
  | CReqs rs => forallb (fun r => req_matches r l) rs
  end.

(* ---------- objects --------------------------------------------------------------------- *)
Record owner_ref := { or_api : string; or_kind : string; or_name : string; or_uid : string;
                      or_block : option bool }.
Record pod := { p_ns : string; p_name : string; p_labels : labels; p_owner : option owner_ref;
                p_rv : string; p_deleting : bool }.
Record sset := { s_ns : string; s_name : string; s_uid : string; s_sel : selector }.
Definition lister := list sset.

(* what a delete notification may carry besides a pod *)
Inductive tomb := TombPod (p : pod) | TombNotPod | NotTomb.

Inductive event :=
| EvAdd (p : pod)
| EvUpdate (old cur : pod)
| EvDelete (p : pod)
| EvDeleteTombstone (t : tomb)
| EvSetAdd (s : sset)
| EvSetUpdate (old cur : sset)
| EvSetDelete (s : sset)
| EvSetDeleteTombstone (k : key).     (* cache.DeletedFinalStateUnknown{Key: k} for a set *)

(* controllerKind.Kind *)
Definition controller_kind : string := "StatefulSet".

(* cache.MetaNamespaceKeyFunc *)
Definition set_key (s : sset) : key :=
  if String.eqb (s_ns s) "" then s_name s else String.append (s_ns s) (String.append "/" (s_name s)).

(* ---------- equality of the things updatePod compares with reflect.DeepEqual ------------- *)
Definition opt_bool_eqb (a b : option bool) : bool :=
  match a, b with
  | None, None => true
  | Some x, Some y => Bool.eqb x y
  | _, _ => false
  end.
Definition owner_eqb (a b : owner_ref) : bool :=
  String.eqb (or_api a) (or_api b) && String.eqb (or_kind a) (or_kind b)
  && String.eqb (or_name a) (or_name b) && String.eqb (or_uid a) (or_uid b)
  && opt_bool_eqb (or_block a) (or_block b).
Definition owner_opt_eqb (a b : option owner_ref) : bool :=
  match a, b with
  | None, None => true
  | Some x, Some y => owner_eqb x y
  | _, _ => false
  end.
(* map equality of two association lists without duplicate keys *)
Definition labels_sub (a b : labels) : bool :=
  forallb (fun kv => match lookup (fst kv) b with Some v => String.eqb v (snd kv) | None => false end) a.
Definition labels_eqb (a b : labels) : bool := labels_sub a b && labels_sub b a.

(* ---------- the lister ------------------------------------------------------------------- *)
(* setLister.StatefulSets(ns).Get(name): indexer lookup by key ns/name *)
Definition lister_get (l : lister) (ns name : string) : option sset :=
  find (fun s => String.eqb (s_ns s) ns && String.eqb (s_name s) name) l.

(* GetPodStatefulSets, the loop.  None = the function returned an error (no longer possible in the loop). *)
Fixpoint pod_sets_loop (l : lister) (p : pod) : option (list sset) :=
  match l with
  | [] => Some []
  | s :: t =>
      if negb (String.eqb (s_ns s) (p_ns p)) then pod_sets_loop t p           (* continue *)
      else match sel_convert (s_sel s) with
           | None => pod_sets_loop t p            (* invalid selector: it does not match the pod; continue *)
           | Some c =>
               if csel_empty c || negb (csel_matches c (p_labels p)) then pod_sets_loop t p
               else match pod_sets_loop t p with
                    | None => None
                    | Some r => Some (s :: r)
                    end
           end
  end.

Definition get_pod_statefulsets (l : lister) (p : pod) : option (list sset) :=
  if Nat.eqb (length (p_labels p)) 0 then None              (* "because it has no labels" *)
  else match pod_sets_loop l p with
       | None => None
       | Some [] => None                                     (* "could not find StatefulSet for pod" *)
       | Some r => Some r
       end.

(* getStatefulSetsForPod *)
Definition get_sets_for_pod (l : lister) (p : pod) : list sset :=
  match get_pod_statefulsets l p with
  | None => []
  | Some r => r
  end.

(* resolveControllerRef *)
Definition resolve_controller_ref (l : lister) (ns : string) (r : owner_ref) : option sset :=
  if negb (String.eqb (or_kind r) controller_kind) then None
  else match lister_get l ns (or_name r) with
       | None => None
       | Some s => if negb (String.eqb (s_uid s) (or_uid r)) then None else Some s
       end.

(* enqueueStatefulSet on a set object *)
Definition enqueue (s : sset) : list key := [set_key s].
Definition enqueue_resolved (o : option sset) : list key :=
  match o with Some s => enqueue s | None => [] end.

(* ---------- the pod handlers -------------------------------------------------------------- *)
(* deletePod, after the pod has been extracted from the notification *)
Definition delete_pod (l : lister) (p : pod) : list key :=
  match p_owner p with
  | None => []                                   (* "No controller should care about orphans being deleted" *)
  | Some r => enqueue_resolved (resolve_controller_ref l (p_ns p) r)
  end.

(* deletePod on a notification that is not a pod *)
Definition delete_tomb (l : lister) (t : tomb) : list key :=
  match t with
  | TombPod p => delete_pod l p
  | TombNotPod => []                             (* "tombstone contained object that is not a pod" *)
  | NotTomb => []                                (* "couldn't get object from tombstone" *)
  end.

Definition add_pod (l : lister) (p : pod) : list key :=
  if p_deleting p then delete_pod l p
  else match p_owner p with
       | Some r => enqueue_resolved (resolve_controller_ref l (p_ns p) r)
       | None => map set_key (get_sets_for_pod l p)
       end.

Definition update_pod (l : lister) (old cur : pod) : list key :=
  if String.eqb (p_rv cur) (p_rv old) then []
  else
    let label_changed := negb (labels_eqb (p_labels cur) (p_labels old)) in
    let ref_changed := negb (owner_opt_eqb (p_owner cur) (p_owner old)) in
    (match p_owner old with
     | Some ro => if ref_changed then enqueue_resolved (resolve_controller_ref l (p_ns old) ro) else []
     | None => []
     end)
    ++
    (match p_owner cur with
     | Some rc => enqueue_resolved (resolve_controller_ref l (p_ns cur) rc)
     | None => if label_changed || ref_changed then map set_key (get_sets_for_pod l cur) else []
     end).

(* ---------- all handlers ------------------------------------------------------------------ *)
Definition handle (l : lister) (ev : event) : list key :=
  match ev with
  | EvAdd p => add_pod l p
  | EvUpdate old cur => update_pod l old cur
  | EvDelete p => delete_pod l p
  | EvDeleteTombstone t => delete_tomb l t
  | EvSetAdd s => enqueue s
  | EvSetUpdate _ cur => enqueue cur
  | EvSetDelete s => enqueue s
  | EvSetDeleteTombstone k => [k]                (* DeletionHandlingMetaNamespaceKeyFunc: the tombstone's key *)
  end.

(* ========== the declarative specification, from the text of the property ================== *)
(* "a pod controlled by a set": the controller owner reference names kind StatefulSet and the
   name AND uid of a set of the pod's namespace *)
Definition controls (s : sset) (p : pod) : bool :=
  match p_owner p with
  | None => false
  | Some r => String.eqb (or_kind r) controller_kind && String.eqb (s_ns s) (p_ns p)
              && String.eqb (s_name s) (or_name r) && String.eqb (s_uid s) (or_uid r)
  end.
Definition owners_of (l : lister) (p : pod) : list sset := filter (fun s => controls s p) l.

(* "an unowned pod whose labels match": the pod has labels, the set is in its namespace, and the
   set's selector is well formed, non-empty ("an empty selector matches nothing") and matches *)
Definition sel_selects (s : selector) (lb : labels) : bool :=
  match sel_convert s with
  | None => false
  | Some c => negb (csel_empty c) && csel_matches c lb
  end.
Definition selects (s : sset) (p : pod) : bool :=
  String.eqb (s_ns s) (p_ns p) && negb (Nat.eqb (length (p_labels p)) 0) && sel_selects (s_sel s) (p_labels p).
Definition matching (l : lister) (p : pod) : list sset := filter (fun s => selects s p) l.

Definition is_orphan (p : pod) : bool := match p_owner p with None => true | Some _ => false end.
Definition keys (l : list sset) : list key := map set_key l.

(* what has to be reconciled after the disappearance of p *)
Definition on_gone (l : lister) (p : pod) : list key := keys (owners_of l p).
(* what has to be reconciled after the appearance of p, or after a change that may make p adoptable *)
Definition on_present (l : lister) (p : pod) : list key :=
  if is_orphan p then keys (matching l p) else keys (owners_of l p).

Definition should_enqueue (l : lister) (ev : event) : list key :=
  match ev with
  | EvAdd p => if p_deleting p then on_gone l p else on_present l p
  | EvUpdate old cur =>
      if String.eqb (p_rv cur) (p_rv old) then []                 (* a re-list, not a change *)
      else
        let owner_changed := negb (owner_opt_eqb (p_owner cur) (p_owner old)) in
        let labels_changed := negb (labels_eqb (p_labels cur) (p_labels old)) in
        (if owner_changed then on_gone l old else [])              (* the old owner lost a pod *)
        ++ (if is_orphan cur && negb (labels_changed || owner_changed) then []   (* not a relevant event *)
            else on_present l cur)
  | EvDelete p => on_gone l p
  | EvDeleteTombstone (TombPod p) => on_gone l p
  | EvDeleteTombstone _ => []
  | EvSetAdd s => [set_key s]
  | EvSetUpdate _ cur => [set_key cur]
  | EvSetDelete s => [set_key s]
  | EvSetDeleteTombstone k => [k]
  end.

(* ---------- hypotheses of the theorems ---------------------------------------------------- *)
(* the indexer is keyed by namespace/name *)
Definition lister_wf (l : lister) : Prop := NoDup (map (fun s => (s_ns s, s_name s)) l).
(* every selector of the lister can be converted (LabelSelectorAsSelector succeeds) *)
Definition sel_ok (s : selector) : bool := match sel_convert s with Some _ => true | None => false end.
Definition selectors_ok (l : lister) : Prop := forall s, In s l -> sel_ok (s_sel s) = true.
(* the same, restricted to one namespace: only those are visited by GetPodStatefulSets *)
Definition selectors_ok_in (ns : string) (l : lister) : Prop :=
  forall s, In s l -> s_ns s = ns -> sel_ok (s_sel s) = true.

(* ---------- correspondence record ---------------------------------------------------------- *)
Definition keys_sub (a b : list key) : bool := forallb (fun k => str_mem k b) a.
Definition keys_same (a b : list key) : bool := keys_sub a b && keys_sub b a.
Fixpoint nodup_keys (l : list key) : bool :=
  match l with [] => true | k :: t => negb (str_mem k t) && nodup_keys t end.
(* first occurrences, in order: what the real queue holds after the Adds of one handler call *)
Fixpoint dedup_keys (l : list key) (seen : list key) : list key :=
  match l with
  | [] => []
  | k :: t => if str_mem k seen then dedup_keys t seen else k :: dedup_keys t (k :: seen)
  end.

Fixpoint keys_eqb (a b : list key) : bool :=
  match a, b with
  | [], [] => true
  | x :: s, y :: t => String.eqb x y && keys_eqb s t
  | _, _ => false
  end.
(* the only place where the order of the Adds is not determined by the handler: several sets match an
   orphan (the lister iterates a Go map) *)
Definition multi_match (l : lister) (ev : event) : bool :=
  match ev with
  | EvAdd p | EvUpdate _ p => is_orphan p && Nat.ltb 1 (length (get_sets_for_pod l p))
  | _ => false
  end.

Record handlers_case := { hc_lister : lister; hc_event : event; hc_obs : list key }.
(* observed = keys drained from the real queue, in the order Get returns them (the queue keeps the first
   occurrence of a key).  Compared with the first occurrences of the model's handle AS AN ORDERED LIST,
   except when several sets match an orphan: then as SETS of equal size. *)
Definition handlers_check (c : handlers_case) : bool :=
  let m := dedup_keys (handle (hc_lister c) (hc_event c)) [] in
  if multi_match (hc_lister c) (hc_event c)
  then keys_same m (hc_obs c) && nodup_keys (hc_obs c) && Nat.eqb (length m) (length (hc_obs c))
  else keys_eqb m (hc_obs c).
