(* UpgradeProofs.v — lemmas about the model of helper.Upgrade (Upgrade.v).  The statements of
   property C17 are in C17.v. *)
From ASTS Require Import Base Upgrade.

(* ================= strings, membership ======================================================= *)
Lemma smem_In x l : smem x l = true <-> In x l.
Proof.
  unfold smem. rewrite existsb_exists. split.
  - intros [y [Hy He]]. apply String.eqb_eq in He. subst. exact Hy.
  - intros H. exists x. split; [exact H | apply String.eqb_refl].
Qed.

Lemma smem_false x l : smem x l = false <-> ~ In x l.
Proof.
  split.
  - intros H Hin. apply smem_In in Hin. congruence.
  - intros H. destruct (smem x l) eqn:E; [|reflexivity]. apply smem_In in E. contradiction.
Qed.

(* ================= filters ==================================================================== *)
Lemma filter_all {A} (p : A -> bool) l : (forall x, In x l -> p x = true) -> filter p l = l.
Proof.
  induction l as [|a l IH]; simpl; intros H; [reflexivity|].
  rewrite (H a (or_introl eq_refl)). f_equal. apply IH. intros x Hx. apply H. right. exact Hx.
Qed.

(* ================= label maps ================================================================= *)
Lemma lookup_remove_keys k ks l :
  lookup k (remove_keys ks l) = if smem k ks then None else lookup k l.
Proof.
  unfold remove_keys. induction l as [|[k' v] l IH]; simpl.
  - destruct (smem k ks); reflexivity.
  - destruct (smem k' ks) eqn:Ek'; simpl.
    + rewrite IH. destruct (String.eqb k' k) eqn:E.
      * apply String.eqb_eq in E. subst. rewrite Ek'. reflexivity.
      * reflexivity.
    + destruct (String.eqb k' k) eqn:E.
      * apply String.eqb_eq in E. subst. rewrite Ek'. reflexivity.
      * exact IH.
Qed.

Lemma lookup_set_label k v k' l :
  lookup k' (set_label k v l) = if String.eqb k k' then Some v else lookup k' l.
Proof.
  unfold set_label. simpl. destruct (String.eqb k k') eqn:E; [reflexivity|].
  rewrite lookup_remove_keys. simpl. rewrite String.eqb_sym, E. reflexivity.
Qed.

Lemma relabel_marker n ks ol : lookup marker_key (relabel n ks ol) = Some n.
Proof. unfold relabel. rewrite lookup_set_label, String.eqb_refl. reflexivity. Qed.

Lemma relabel_no_key n ks ol k :
  In k ks -> k <> marker_key -> lookup k (relabel n ks ol) = None.
Proof.
  intros Hin Hne. unfold relabel. rewrite lookup_set_label.
  destruct (String.eqb marker_key k) eqn:E.
  - apply String.eqb_eq in E. congruence.
  - rewrite lookup_remove_keys. apply smem_In in Hin. rewrite Hin. reflexivity.
Qed.

Lemma remove_keys_fixed ks l :
  (forall kv, In kv l -> smem (fst kv) ks = false) -> remove_keys ks l = l.
Proof. intros H. unfold remove_keys. apply filter_all. intros x Hx. rewrite (H x Hx). reflexivity. Qed.

Lemma in_remove_keys kv ks l : In kv (remove_keys ks l) <-> In kv l /\ smem (fst kv) ks = false.
Proof.
  unfold remove_keys. rewrite filter_In. split; intros [H1 H2]; split; auto.
  - destruct (smem (fst kv) ks); [discriminate | reflexivity].
  - rewrite H2. reflexivity.
Qed.

Lemma remove_keys_cons ks k v l :
  remove_keys ks ((k, v) :: l) = if smem k ks then remove_keys ks l else (k, v) :: remove_keys ks l.
Proof. unfold remove_keys. simpl. destruct (smem k ks); reflexivity. Qed.

Lemma smem_self k : smem k [k] = true.
Proof. simpl. rewrite String.eqb_refl. reflexivity. Qed.

(* the loop body is idempotent on a label map: doing it to its own result changes nothing *)
Lemma relabel_idem n ks ol : relabel n ks (Some (relabel n ks ol)) = relabel n ks ol.
Proof.
  unfold relabel, set_label. simpl lab_of.
  set (Y := remove_keys [marker_key] (remove_keys ks (lab_of ol))).
  assert (HX : forall kv, In kv Y -> smem (fst kv) [marker_key] = false /\ smem (fst kv) ks = false).
  { intros kv H. apply in_remove_keys in H. destruct H as [H H1]. apply in_remove_keys in H. tauto. }
  assert (HY : remove_keys [marker_key] (remove_keys ks Y) = Y).
  { rewrite (remove_keys_fixed ks Y); [|intros kv H; apply HX; exact H].
    apply remove_keys_fixed. intros kv H. apply HX. exact H. }
  f_equal. rewrite remove_keys_cons. destruct (smem marker_key ks).
  - exact HY.
  - rewrite remove_keys_cons, smem_self. exact HY.
Qed.

(* ================= one call ==================================================================== *)
(* what a call can do: it is logged with the state it arrives in; either the oracle is silent and
   the reply and the new state are the API server's, or the caller sees an error / dies and the
   state is the old one or the API server's (applied, but the answer was lost) *)
Lemma do_call_inv orc c s r s' : do_call orc c s = (r, s') ->
  s' = logged s c (rs_w s') /\
  ((orc (rs_n s) = None /\ r = Val (fst (api_step c (rs_w s))) /\ rs_w s' = snd (api_step c (rs_w s)))
   \/ (((exists e, r = Val (RErr e)) \/ r = Stop (OKilled (rs_n s)))
       /\ (rs_w s' = rs_w s \/ rs_w s' = snd (api_step c (rs_w s))))).
Proof.
  unfold do_call. destruct (orc (rs_n s)) as [f|] eqn:Eo.
  - destruct f; intros H; inversion H; subst; clear H; (split; [reflexivity|]); right; simpl;
      (split; [first [left; eexists; reflexivity | right; reflexivity] | first [left; reflexivity | right; reflexivity]]).
  - intros H; inversion H; subst; clear H. split; [reflexivity|]. left. simpl. auto.
Qed.

Lemma do_call_no_faults c s :
  do_call no_faults c s = (Val (fst (api_step c (rs_w s))), logged s c (snd (api_step c (rs_w s)))).
Proof. reflexivity. Qed.

(* a non-error reply is the API server's own *)
Lemma do_call_val orc c s rep s' : do_call orc c s = (Val rep, s') ->
  (forall e, rep <> RErr e) ->
  rep = fst (api_step c (rs_w s)) /\ rs_w s' = snd (api_step c (rs_w s)) /\ s' = logged s c (rs_w s').
Proof.
  intros H Hne. apply do_call_inv in H. destruct H as [Hl [[_ [Hr Hw]] | [[[e He] | Hk] _]]].
  - inversion Hr. auto.
  - inversion He. subst. exfalso. apply (Hne e). reflexivity.
  - discriminate.
Qed.

Lemma do_call_not_panic orc c s site s' : do_call orc c s <> (Stop (OPanic site), s').
Proof.
  intros H. apply do_call_inv in H. destruct H as [_ [[_ [Hr _]] | [[[e He] | Hk] _]]]; discriminate.
Qed.

(* ================= runs as sequences of calls ================================================= *)
Inductive star (R : rstate -> rstate -> Prop) : rstate -> rstate -> Prop :=
| star_refl s : star R s s
| star_step s1 s2 s3 : R s1 s2 -> star R s2 s3 -> star R s1 s3.

Lemma star_one (R : rstate -> rstate -> Prop) s s' : R s s' -> star R s s'.
Proof. intros H. eapply star_step; [exact H | apply star_refl]. Qed.

Lemma star_trans R s1 s2 s3 : star R s1 s2 -> star R s2 s3 -> star R s1 s3.
Proof. induction 1; intros; [assumption|]. eapply star_step; eauto. Qed.

Lemma star_mono (R R' : rstate -> rstate -> Prop) s s' :
  (forall a b, R a b -> R' a b) -> star R s s' -> star R' s s'.
Proof. intros H. induction 1; [apply star_refl|]. eapply star_step; eauto. Qed.

(* one step: a call allowed by L in the current API state *)
Definition step (orc : oracle) (L : world -> call -> Prop) (s s' : rstate) : Prop :=
  exists c r, L (rs_w s) c /\ do_call orc c s = (r, s').

(* an invariant of the API state that every allowed call preserves holds along the run, and in
   the state in which each logged call arrived *)
Lemma star_invariant orc (L : world -> call -> Prop) (I : world -> Prop) s s' :
  (forall w c, L w c -> I w -> I (snd (api_step c w))) ->
  star (step orc L) s s' -> I (rs_w s) ->
  I (rs_w s') /\ exists evs, rs_log s' = evs ++ rs_log s
                  /\ Forall (fun e => L (ev_pre e) (ev_call e) /\ I (ev_pre e)) evs.
Proof.
  intros HL. induction 1 as [s | s1 s2 s3 [c [r [Hc Hd]]] _ IH]; intros HI.
  - split; [exact HI|]. exists []. split; [reflexivity | constructor].
  - apply do_call_inv in Hd. destruct Hd as [Hlog Hcase].
    assert (HI2 : I (rs_w s2)).
    { destruct Hcase as [[_ [_ Hw]] | [_ [Hw | Hw]]]; rewrite Hw; auto. }
    destruct (IH HI2) as [HI3 [evs [Hl Hall]]]. split; [exact HI3|].
    exists (evs ++ [{| ev_call := c; ev_pre := rs_w s1 |}]). split.
    + rewrite Hl, Hlog. simpl. rewrite <- app_assoc. reflexivity.
    + apply Forall_app. split; [exact Hall|]. constructor; [|constructor]. simpl. auto.
Qed.

Lemma star_log orc (L : world -> call -> Prop) s s' :
  star (step orc L) s s' ->
  exists evs, rs_log s' = evs ++ rs_log s /\ Forall (fun e => L (ev_pre e) (ev_call e)) evs.
Proof.
  intros H. destruct (star_invariant orc L (fun _ => True) s s' (fun _ _ _ _ => I) H I) as [_ [evs [Hl Hall]]].
  exists evs. split; [exact Hl|]. eapply Forall_impl; [|exact Hall]. simpl. tauto.
Qed.

(* ================= the calls the helper can issue ============================================ *)
(* w0: the API state at the start of the run; w: the state in which the call arrives *)
Definition L_revs (sts : bset) (w0 : world) (w : world) (c : call) : Prop :=
  c = CListRevs (b_selector sts)
  \/ exists s it, b_selector sts = Some s /\ In it (listed sts w0)
       /\ c = CUpdateRev (rv_name it) (relabel (b_name sts) (ml_keys s) (rv_labels it)).
Definition L_asts (sts : bset) (w : world) (c : call) : Prop :=
  c = CGetAsts (b_name sts)
  \/ c = CCreateAsts (b_name sts) (b_meta sts) (b_spec sts) None
  \/ (exists a, w_asts w = Some a /\ c = CUpdateAsts (b_name sts) (a_meta a) (b_spec sts) (a_rv a))
  \/ (exists rv, c = CUpdateStatus (b_name sts) (b_status sts) rv).
Definition L_del (sts : bset) (w : world) (c : call) : Prop := c = CDeleteSts (b_name sts) POrphan.
Definition legit (sts : bset) (w0 w : world) (c : call) : Prop :=
  L_revs sts w0 w c \/ L_asts sts w c \/ L_del sts w c.

Lemma relabel_loop_star orc sts w0 items :
  incl items (listed sts w0) ->
  forall s r s', relabel_loop orc sts items s = (r, s') -> star (step orc (L_revs sts w0)) s s'.
Proof.
  induction items as [|it t IH]; intros Hincl s r s' H; simpl in H.
  - inversion H. apply star_refl.
  - destruct (b_selector sts) as [sel|] eqn:Esel.
    + unfold bind in H.
      destruct (do_call orc (CUpdateRev (rv_name it) (relabel (b_name sts) (ml_keys sel) (rv_labels it))) s)
        as [[rep|o] s1] eqn:Hc.
      * assert (Hstep : step orc (L_revs sts w0) s s1).
        { eexists _, _. split; [|exact Hc]. right. exists sel, it. split; [exact Esel|].
          split; [apply Hincl; left; reflexivity | reflexivity]. }
        destruct rep; try (inversion H; subst; apply star_one; exact Hstep).
        eapply star_step; [exact Hstep|]. eapply IH; [|exact H].
        intros x Hx. apply Hincl. right. exact Hx.
      * inversion H; subst. apply star_one. eexists _, _. split; [|exact Hc].
        right. exists sel, it. split; [exact Esel|]. split; [apply Hincl; left; reflexivity | reflexivity].
    + inversion H. apply star_refl.
Qed.

Lemma list_reply orc sts s rep s1 :
  do_call orc (CListRevs (b_selector sts)) s = (Val rep, s1) ->
  (exists e, rep = RErr e) \/ (rep = RRevs (listed sts (rs_w s)) /\ rs_w s1 = rs_w s).
Proof.
  intros H. apply do_call_inv in H. destruct H as [_ [[_ [Hr Hw]] | [[[e He] | Hk] _]]].
  - right. inversion Hr. split; [reflexivity | exact Hw].
  - left. exists e. inversion He. reflexivity.
  - discriminate.
Qed.

Lemma phase_revs_star orc sts s r s' :
  phase_revs orc sts s = (r, s') -> star (step orc (L_revs sts (rs_w s))) s s'.
Proof.
  unfold phase_revs. unfold bind at 1.
  assert (Hpre : forall m : M unit,
            (m = ret tt \/ exists o, m = stop o) -> forall k : unit -> M unit,
            (forall s r s', k tt s = (r, s') -> star (step orc (L_revs sts (rs_w s))) s s') ->
            forall s r s', (match m s with (Val a, s1) => k a s1 | (Stop o, s1) => (Stop o, s1) end) = (r, s') ->
            star (step orc (L_revs sts (rs_w s))) s s').
  { intros m [-> | [o ->]] k Hk s0 r0 s0' H0; simpl in H0.
    - eapply Hk. exact H0.
    - inversion H0. apply star_refl. }
  apply Hpre.
  - destruct (b_selector sts) as [sel|]; [destruct (selector_valid sel)|]; eauto.
  - clear. intros s r s' H. unfold bind in H.
    destruct (do_call orc (CListRevs (b_selector sts)) s) as [[rep|o] s1] eqn:Hc.
    + assert (Hstep : step orc (L_revs sts (rs_w s)) s s1).
      { eexists _, _. split; [left; reflexivity | exact Hc]. }
      destruct (list_reply _ _ _ _ _ Hc) as [[e ->] | [-> Hw]].
      * inversion H; subst. apply star_one. exact Hstep.
      * eapply star_step; [exact Hstep|].
        eapply relabel_loop_star; [|exact H]. intros x Hx. exact Hx.
    + inversion H; subst. apply star_one. eexists _, _. split; [left; reflexivity | exact Hc].
Qed.

Lemma get_reply orc n s rep s1 :
  do_call orc (CGetAsts n) s = (Val rep, s1) ->
  (exists e, rep = RErr e) \/ (exists a, rep = RAsts a /\ w_asts (rs_w s) = Some a /\ rs_w s1 = rs_w s).
Proof.
  intros H. apply do_call_inv in H. destruct H as [_ [[_ [Hr Hw]] | [[[e He] | Hk] _]]].
  - inversion Hr. simpl in *. destruct (w_asts (rs_w s)) as [a|] eqn:Ea.
    + right. exists a. simpl in Hw. auto.
    + left. eexists. reflexivity.
  - left. exists e. inversion He. reflexivity.
  - discriminate.
Qed.

Lemma second_call_legit orc sts s rep s1 c2 :
  do_call orc (CGetAsts (b_name sts)) s = (Val rep, s1) -> second_call sts rep = inl c2 ->
  L_asts sts (rs_w s1) c2.
Proof.
  intros Hc H2. destruct (get_reply _ _ _ _ _ Hc) as [[e ->] | [a [-> [Ha Hw]]]].
  - destruct e; simpl in H2; inversion H2. right; left. reflexivity.
  - simpl in H2. inversion H2. right; right; left. exists a. rewrite Hw. auto.
Qed.

Lemma finish_asts_star orc sts rep2 s r s' :
  finish_asts orc sts rep2 s = (r, s') -> star (step orc (L_asts sts)) s s'.
Proof.
  unfold finish_asts. intros H.
  destruct rep2 as [l|a2| |e]; try (inversion H; subst; apply star_refl).
  unfold bind in H.
  destruct (do_call orc (CUpdateStatus (b_name sts) (b_status sts) (a_rv a2)) s) as [[rep3|o] s3] eqn:Hc3.
  - assert (Hs3 : step orc (L_asts sts) s s3).
    { eexists _, _. split; [right; right; right; eexists; reflexivity | exact Hc3]. }
    destruct rep3; inversion H; subst; apply star_one; exact Hs3.
  - inversion H; subst. apply star_one. eexists _, _. split; [right; right; right; eexists; reflexivity | exact Hc3].
Qed.

(* the three calls on the advanced side, as a sequence of steps *)
Lemma phase_asts_star orc sts s r s' :
  phase_asts orc sts s = (r, s') -> star (step orc (L_asts sts)) s s'.
Proof.
  unfold phase_asts. unfold bind at 1. intros H.
  destruct (do_call orc (CGetAsts (b_name sts)) s) as [[rep|o] s1] eqn:Hc1.
  2:{ inversion H; subst. apply star_one. eexists _, _. split; [left; reflexivity | exact Hc1]. }
  assert (Hs1 : step orc (L_asts sts) s s1) by (eexists _, _; split; [left; reflexivity | exact Hc1]).
  eapply star_step; [exact Hs1|].
  destruct (second_call sts rep) as [c2|o] eqn:E2.
  2:{ inversion H. apply star_refl. }
  pose proof (second_call_legit _ _ _ _ _ _ Hc1 E2) as HL2.
  unfold bind in H.
  destruct (do_call orc c2 s1) as [[rep2|o] s2] eqn:Hc2.
  2:{ inversion H; subst. apply star_one. eexists _, _. split; [exact HL2 | exact Hc2]. }
  eapply star_step; [eexists _, _; split; [exact HL2 | exact Hc2]|].
  eapply finish_asts_star. exact H.
Qed.

Lemma phase_delete_step orc sts a s r s' :
  phase_delete orc sts a s = (r, s') ->
  exists rep, do_call orc (CDeleteSts (b_name sts) POrphan) s = (rep, s').
Proof.
  unfold phase_delete, bind. intros H.
  destruct (do_call orc (CDeleteSts (b_name sts) POrphan) s) as [[rep|o] s1] eqn:Hc.
  - exists (Val rep). destruct rep as [l|x| |e]; try (inversion H; subst; reflexivity).
    destruct e; inversion H; subst; reflexivity.
  - exists (Stop o). inversion H; subst. reflexivity.
Qed.

(* the whole run is a sequence of allowed calls *)
Lemma star_legit_revs orc sts w0 s s' :
  star (step orc (L_revs sts w0)) s s' -> star (step orc (legit sts w0)) s s'.
Proof. apply star_mono. intros a b [c [r [H1 H2]]]. exists c, r. split; [left; exact H1 | exact H2]. Qed.
Lemma star_legit_asts orc sts w0 s s' :
  star (step orc (L_asts sts)) s s' -> star (step orc (legit sts w0)) s s'.
Proof. apply star_mono. intros a b [c [r [H1 H2]]]. exists c, r. split; [right; left; exact H1 | exact H2]. Qed.

Lemma upgrade_star orc sts s r s' :
  upgrade orc sts s = (r, s') -> star (step orc (legit sts (rs_w s))) s s'.
Proof.
  unfold upgrade. unfold bind at 1. intros H.
  destruct (phase_revs orc sts s) as [[[]|o] s1] eqn:H1.
  2:{ inversion H; subst. apply star_legit_revs. eapply phase_revs_star. exact H1. }
  eapply star_trans; [apply star_legit_revs; eapply phase_revs_star; exact H1|].
  unfold bind in H.
  destruct (phase_asts orc sts s1) as [[a|o] s2] eqn:H2.
  2:{ inversion H; subst. apply star_legit_asts. eapply phase_asts_star. exact H2. }
  eapply star_trans; [apply star_legit_asts; eapply phase_asts_star; exact H2|].
  destruct (phase_delete_step _ _ _ _ _ _ H) as [rep Hd].
  apply star_one. eexists _, _. split; [right; right; reflexivity | exact Hd].
Qed.

Lemma run_invariant orc sts w (I : world -> Prop) :
  (forall w' c, legit sts w w' c -> I w' -> I (snd (api_step c w'))) -> I w ->
  I (rr_world (run orc sts w))
  /\ Forall (fun e => legit sts w (ev_pre e) (ev_call e) /\ I (ev_pre e)) (rr_log (run orc sts w)).
Proof.
  intros HL HI. unfold run.
  destruct (upgrade orc sts (init_state w)) as [[a|o] s'] eqn:H; apply upgrade_star in H; simpl in H;
    destruct (star_invariant orc _ I _ _ HL H HI) as [HI' [evs [Hl Hall]]]; simpl in Hl;
    rewrite app_nil_r in Hl; simpl; rewrite Hl; (split; [exact HI' | apply Forall_rev; exact Hall]).
Qed.

(* ================= what no allowed call touches =============================================== *)
Lemma map_upd_rev_names n lbl l : map rv_name (map (upd_rev n lbl) l) = map rv_name l.
Proof.
  rewrite map_map. apply map_ext. intros r. unfold upd_rev. destruct (String.eqb (rv_name r) n); reflexivity.
Qed.
Lemma map_upd_rev_owners n lbl l : map rv_owner (map (upd_rev n lbl) l) = map rv_owner l.
Proof.
  rewrite map_map. apply map_ext. intros r. unfold upd_rev. destruct (String.eqb (rv_name r) n); reflexivity.
Qed.

Definition frame (w0 w : world) : Prop :=
  w_cascaded w = w_cascaded w0 /\ map rv_name (w_revs w) = map rv_name (w_revs w0)
  /\ map rv_owner (w_revs w) = map rv_owner (w_revs w0).

Lemma legit_frame sts w0 w c : legit sts w0 w c -> frame w (snd (api_step c w)).
Proof.
  unfold frame. intros [[-> | [s [it [_ [_ ->]]]]] | [[-> | [-> | [[a [Ha ->]] | [rv ->]]]] | ->]]; simpl.
  - auto.
  - destruct (has_rev (rv_name it) (w_revs w)); simpl; [|auto].
    rewrite map_upd_rev_names, map_upd_rev_owners. auto.
  - destruct (w_asts w); auto.
  - destruct (w_asts w); simpl; auto.
  - rewrite Ha. rewrite Z.eqb_refl. simpl. auto.
  - destruct (w_asts w) as [cur|]; simpl; [|auto]. destruct (a_rv cur =? rv); simpl; auto.
  - destruct (w_sts w); simpl; auto.
Qed.

Lemma frame_refl w : frame w w.
Proof. unfold frame. auto. Qed.
Lemma frame_trans a b c : frame a b -> frame b c -> frame a c.
Proof. unfold frame. intros [H1 [H2 H3]] [H4 [H5 H6]]. repeat split; congruence. Qed.

(* only the three kinds of object are addressed, each by the set's name or a listed revision's *)
Definition call_ok (sts : bset) (w0 : world) (c : call) : Prop :=
  match c with
  | CListRevs sel => sel = b_selector sts
  | CUpdateRev n _ => In n (listed_names sts w0)
  | CGetAsts n | CCreateAsts n _ _ _ | CUpdateAsts n _ _ _ | CUpdateStatus n _ _ => n = b_name sts
  | CDeleteSts n p => n = b_name sts /\ p = POrphan
  | COther _ _ _ => False
  end.

Lemma legit_call_ok sts w0 w c : legit sts w0 w c -> call_ok sts w0 c.
Proof.
  intros [[-> | [s [it [_ [Hin ->]]]]] | [[-> | [-> | [[a [Ha ->]] | [rv ->]]]] | ->]]; simpl; auto.
  unfold listed_names. apply in_map. exact Hin.
Qed.

(* ================= the relabelling loop on success ============================================ *)
(* what the property asks of a revision of the set when the built-in set is deleted: it carries
   the upgrade marker and none of the selector's matchLabels keys (the marker key itself aside) *)
Definition good (sts : bset) (ol : option labels) : Prop :=
  has_marker sts ol = true
  /\ forall s k, b_selector sts = Some s -> In k (ml_keys s) -> k <> marker_key -> lookup k (lab_of ol) = None.

Lemma relabel_good sts s ol :
  b_selector sts = Some s -> good sts (Some (relabel (b_name sts) (ml_keys s) ol)).
Proof.
  intros Hs. split.
  - unfold has_marker, lab_of. rewrite relabel_marker. apply String.eqb_refl.
  - intros s' k Hs' Hin Hne. rewrite Hs in Hs'. inversion Hs'; subst. unfold lab_of. apply relabel_no_key; assumption.
Qed.

Lemma update_rev_unit orc n lbl s s1 :
  do_call orc (CUpdateRev n lbl) s = (Val RUnit, s1) ->
  w_revs (rs_w s1) = map (upd_rev n lbl) (w_revs (rs_w s)) /\ has_rev n (w_revs (rs_w s)) = true.
Proof.
  intros H. apply do_call_val in H; [|intros e; discriminate].
  destruct H as [Hr [Hw _]]. simpl in Hr, Hw.
  destruct (has_rev n (w_revs (rs_w s))); [|discriminate]. rewrite Hw. simpl. auto.
Qed.

Lemma relabel_loop_val orc sts items : forall D s s',
  (forall rv, In rv (w_revs (rs_w s)) -> In (rv_name rv) D -> good sts (rv_labels rv)) ->
  relabel_loop orc sts items s = (Val tt, s') ->
  forall rv, In rv (w_revs (rs_w s')) -> In (rv_name rv) (D ++ map rv_name items) -> good sts (rv_labels rv).
Proof.
  induction items as [|it t IH]; intros D s s' HD H; simpl in H.
  - inversion H; subst. intros rv Hin HinD. rewrite app_nil_r in HinD. auto.
  - destruct (b_selector sts) as [sel|] eqn:Esel; [|discriminate].
    unfold bind in H.
    destruct (do_call orc (CUpdateRev (rv_name it) (relabel (b_name sts) (ml_keys sel) (rv_labels it))) s)
      as [[rep|o] s1] eqn:Hc; [|discriminate].
    destruct rep; try discriminate.
    destruct (update_rev_unit _ _ _ _ _ Hc) as [Hrevs _].
    intros rv Hin HinD.
    apply (IH (D ++ [rv_name it]) s1 s'); [|exact H|exact Hin|].
    + intros rv1 Hin1 HinD1. rewrite Hrevs in Hin1. apply in_map_iff in Hin1.
      destruct Hin1 as [rv0 [Hupd Hin0]]. unfold upd_rev in Hupd.
      destruct (String.eqb (rv_name rv0) (rv_name it)) eqn:E.
      * subst rv1. simpl. apply relabel_good. exact Esel.
      * subst rv1. apply HD; [exact Hin0|]. apply in_app_or in HinD1. destruct HinD1 as [H1 | [H1 | []]]; [exact H1|].
        apply String.eqb_neq in E. congruence.
    + rewrite <- app_assoc. simpl. exact HinD.
Qed.

Lemma phase_revs_val orc sts s s' :
  phase_revs orc sts s = (Val tt, s') ->
  forall rv, In rv (w_revs (rs_w s')) -> In (rv_name rv) (listed_names sts (rs_w s)) -> good sts (rv_labels rv).
Proof.
  unfold phase_revs. unfold bind at 1. intros H.
  assert (H' : (rep <- do_call orc (CListRevs (b_selector sts));;
                match rep with RRevs items => relabel_loop orc sts items | RErr e => stop (OErr e) | _ => ill_typed end) s
               = (Val tt, s')).
  { destruct (b_selector sts) as [sel|]; [destruct (selector_valid sel)|]; simpl in H; try discriminate; exact H. }
  clear H. unfold bind in H'.
  destruct (do_call orc (CListRevs (b_selector sts)) s) as [[rep|o] s1] eqn:Hc; [|discriminate].
  destruct (list_reply _ _ _ _ _ Hc) as [[e ->] | [-> Hw]]; [discriminate|].
  intros rv Hin Hn. eapply (relabel_loop_val orc sts _ [] s1 s'); [|exact H'|exact Hin|exact Hn].
  intros rv1 _ [].
Qed.

(* ================= the advanced side on success =============================================== *)
Lemma second_reply orc sts c2 s a2 s2 :
  (c2 = CCreateAsts (b_name sts) (b_meta sts) (b_spec sts) None
   \/ exists m rv, c2 = CUpdateAsts (b_name sts) m (b_spec sts) rv) ->
  do_call orc c2 s = (Val (RAsts a2), s2) ->
  w_asts (rs_w s2) = Some a2 /\ a_spec a2 = b_spec sts.
Proof.
  intros Hc2 H. apply do_call_val in H; [|intros e; discriminate].
  destruct H as [Hr [Hw _]]. rewrite Hw. clear Hw.
  destruct Hc2 as [-> | [m [rv ->]]]; simpl in *.
  - destruct (w_asts (rs_w s)); [discriminate|]. simpl in *. inversion Hr; subst. simpl. auto.
  - destruct (w_asts (rs_w s)) as [cur|]; [|discriminate].
    destruct (a_rv cur =? rv); [|discriminate]. simpl in *. inversion Hr; subst. simpl. auto.
Qed.

Lemma finish_asts_val orc sts rep2 s a s' :
  (forall a2, rep2 = RAsts a2 -> w_asts (rs_w s) = Some a2 /\ a_spec a2 = b_spec sts) ->
  finish_asts orc sts rep2 s = (Val a, s') ->
  w_asts (rs_w s') = Some a /\ a_spec a = b_spec sts /\ a_status a = b_status sts.
Proof.
  intros H2 H. unfold finish_asts in H. destruct rep2 as [l|a2| |e]; try discriminate.
  destruct (H2 a2 eq_refl) as [Ha2 Hspec]. unfold bind in H.
  destruct (do_call orc (CUpdateStatus (b_name sts) (b_status sts) (a_rv a2)) s) as [[rep3|o] s3] eqn:Hc3; [|discriminate].
  destruct rep3 as [l|a3| |e]; try discriminate. inversion H; subst. clear H.
  apply do_call_val in Hc3; [|intros e; discriminate]. destruct Hc3 as [Hr [Hw _]].
  rewrite Hw. simpl in *. rewrite Ha2 in *. rewrite Z.eqb_refl in *. simpl in *.
  inversion Hr; subst. simpl. auto.
Qed.

Lemma phase_asts_val orc sts s a s' :
  phase_asts orc sts s = (Val a, s') ->
  w_asts (rs_w s') = Some a /\ a_spec a = b_spec sts /\ a_status a = b_status sts.
Proof.
  unfold phase_asts. unfold bind at 1. intros H.
  destruct (do_call orc (CGetAsts (b_name sts)) s) as [[rep|o] s1] eqn:Hc1; [|discriminate].
  destruct (second_call sts rep) as [c2|o] eqn:E2; [|discriminate].
  assert (Hc2 : c2 = CCreateAsts (b_name sts) (b_meta sts) (b_spec sts) None
                \/ exists m rv, c2 = CUpdateAsts (b_name sts) m (b_spec sts) rv).
  { destruct rep as [l|a0| |e]; simpl in E2; try discriminate.
    - inversion E2. right. eauto.
    - destruct e; inversion E2. left. reflexivity. }
  unfold bind in H.
  destruct (do_call orc c2 s1) as [[rep2|o] s2] eqn:Hd2; [|discriminate].
  eapply finish_asts_val; [|exact H].
  intros a2 ->. eapply second_reply; [exact Hc2 | exact Hd2].
Qed.

(* calls on the advanced side leave the built-in side alone *)
Lemma L_asts_keeps sts w c : L_asts sts w c ->
  w_revs (snd (api_step c w)) = w_revs w /\ w_sts (snd (api_step c w)) = w_sts w
  /\ w_cascaded (snd (api_step c w)) = w_cascaded w.
Proof.
  intros [-> | [-> | [[a [Ha ->]] | [rv ->]]]]; simpl.
  - destruct (w_asts w); auto.
  - destruct (w_asts w); simpl; auto.
  - rewrite Ha, Z.eqb_refl. simpl. auto.
  - destruct (w_asts w) as [cur|]; simpl; [|auto]. destruct (a_rv cur =? rv); simpl; auto.
Qed.

Lemma phase_asts_keeps orc sts s r s' :
  phase_asts orc sts s = (r, s') -> w_revs (rs_w s') = w_revs (rs_w s) /\ w_sts (rs_w s') = w_sts (rs_w s).
Proof.
  intros H. apply phase_asts_star in H.
  destruct (star_invariant orc (L_asts sts)
              (fun w => w_revs w = w_revs (rs_w s) /\ w_sts w = w_sts (rs_w s)) s s') as [HI _]; auto.
  intros w c HL [H1 H2]. destruct (L_asts_keeps _ _ _ HL) as [H3 [H4 _]]. split; congruence.
Qed.

(* ================= the built-in delete: last, Orphan, after the copy and the relabelling ======= *)
Definition at_delete_ok (sts : bset) (w0 pre : world) : Prop :=
  (exists a, w_asts pre = Some a /\ a_spec a = b_spec sts /\ a_status a = b_status sts)
  /\ (forall rv, In rv (w_revs pre) -> In (rv_name rv) (listed_names sts w0) -> good sts (rv_labels rv)).

Lemma L_revs_not_delete sts w0 w c : L_revs sts w0 w c -> is_delete c = false.
Proof. intros [-> | [s [it [_ [_ ->]]]]]; reflexivity. Qed.
Lemma L_asts_not_delete sts w c : L_asts sts w c -> is_delete c = false.
Proof. intros [-> | [-> | [[a [_ ->]] | [rv ->]]]]; reflexivity. Qed.

Lemma upgrade_log_shape orc sts s r s' : upgrade orc sts s = (r, s') ->
  exists evs tail, rs_log s' = tail ++ evs ++ rs_log s
    /\ Forall (fun e => is_delete (ev_call e) = false) evs
    /\ (tail = [] \/ exists pre, tail = [{| ev_call := CDeleteSts (b_name sts) POrphan; ev_pre := pre |}]
                                 /\ at_delete_ok sts (rs_w s) pre).
Proof.
  unfold upgrade. unfold bind at 1. intros H.
  destruct (phase_revs orc sts s) as [[[]|o] s1] eqn:H1.
  2:{ inversion H; subst. apply phase_revs_star, star_log in H1. destruct H1 as [evs [Hl Hall]].
      exists evs, []. split; [exact Hl|]. split; [|left; reflexivity].
      eapply Forall_impl; [|exact Hall]. intros e He. eapply L_revs_not_delete. exact He. }
  pose proof (phase_revs_val _ _ _ _ H1) as Hgood.
  apply phase_revs_star, star_log in H1. destruct H1 as [evs1 [Hl1 Hall1]].
  assert (Hnd1 : Forall (fun e => is_delete (ev_call e) = false) evs1).
  { eapply Forall_impl; [|exact Hall1]. intros e He. eapply L_revs_not_delete. exact He. }
  unfold bind in H.
  destruct (phase_asts orc sts s1) as [[a|o] s2] eqn:H2.
  2:{ inversion H; subst. apply phase_asts_star, star_log in H2. destruct H2 as [evs2 [Hl2 Hall2]].
      exists (evs2 ++ evs1), []. split; [rewrite Hl2, Hl1, app_assoc; reflexivity|]. split; [|left; reflexivity].
      apply Forall_app. split; [|exact Hnd1].
      eapply Forall_impl; [|exact Hall2]. intros e He. eapply L_asts_not_delete. exact He. }
  pose proof (phase_asts_val _ _ _ _ _ H2) as Hasts.
  pose proof (phase_asts_keeps _ _ _ _ _ H2) as [Hrevs _].
  apply phase_asts_star, star_log in H2. destruct H2 as [evs2 [Hl2 Hall2]].
  destruct (phase_delete_step _ _ _ _ _ _ H) as [rep Hd].
  apply do_call_inv in Hd. destruct Hd as [Hlog _].
  exists (evs2 ++ evs1), [{| ev_call := CDeleteSts (b_name sts) POrphan; ev_pre := rs_w s2 |}].
  split; [rewrite Hlog; simpl; rewrite Hl2, Hl1, app_assoc; reflexivity|].
  split.
  - apply Forall_app. split; [|exact Hnd1].
    eapply Forall_impl; [|exact Hall2]. intros e He. eapply L_asts_not_delete. exact He.
  - right. eexists. split; [reflexivity|]. split.
    + exists a. exact Hasts.
    + intros rv Hin Hn. rewrite Hrevs in Hin. apply Hgood; assumption.
Qed.

Lemma split_unique_last {X} (P : X -> Prop) (A : list X) d evs1 e evs2 :
  Forall (fun x => ~ P x) A -> A ++ [d] = evs1 ++ e :: evs2 -> P e -> evs1 = A /\ e = d /\ evs2 = [].
Proof.
  revert evs1. induction A as [|a A IH]; intros evs1 HA Heq HP; simpl in Heq.
  - destruct evs1 as [|x t]; simpl in Heq.
    + inversion Heq. auto.
    + inversion Heq. destruct t; discriminate.
  - inversion HA; subst. destruct evs1 as [|x t]; simpl in Heq.
    + inversion Heq; subst. contradiction.
    + inversion Heq; subst. destruct (IH t H2 H3 HP) as [-> [-> ->]]. auto.
Qed.

Lemma delete_is_last orc sts w0 evs1 e evs2 :
  rr_log (run orc sts w0) = evs1 ++ e :: evs2 -> is_delete (ev_call e) = true ->
  evs2 = [] /\ ev_call e = CDeleteSts (b_name sts) POrphan /\ at_delete_ok sts w0 (ev_pre e)
  /\ Forall (fun e' => is_delete (ev_call e') = false) evs1.
Proof.
  unfold run. intros Hlog Hdel.
  assert (Hshape : exists s' , (exists r, upgrade orc sts (init_state w0) = (r, s')) /\ rev (rs_log s') = evs1 ++ e :: evs2).
  { destruct (upgrade orc sts (init_state w0)) as [[a|o] s'] eqn:H; simpl in Hlog; eauto. }
  destruct Hshape as [s' [[r H] Hl]]. clear Hlog.
  destruct (upgrade_log_shape _ _ _ _ _ H) as [evs [tail [Hs [Hnd Htail]]]].
  simpl in Hs. rewrite app_nil_r in Hs. rewrite Hs, rev_app_distr in Hl.
  assert (Hnd' : Forall (fun x => ~ (is_delete (ev_call x) = true)) (rev evs)).
  { apply Forall_rev. eapply Forall_impl; [|exact Hnd]. simpl. intros x Hx. congruence. }
  destruct Htail as [-> | [pre [-> Hok]]]; simpl in Hl.
  - rewrite app_nil_r in Hl. exfalso.
    assert (Hin : In e (rev evs)) by (rewrite Hl; apply in_or_app; right; left; reflexivity).
    rewrite Forall_forall in Hnd'. exact (Hnd' e Hin Hdel).
  - destruct (split_unique_last (fun x => is_delete (ev_call x) = true) _ _ _ _ _ Hnd' Hl Hdel) as [-> [-> ->]].
    simpl. split; [reflexivity|]. split; [reflexivity|]. split; [exact Hok|].
    apply Forall_rev. exact Hnd.
Qed.

(* ================= no panic ==================================================================== *)
Definition expected_shape (c : call) (rep : reply) : Prop :=
  match c with
  | CListRevs _ => exists l, rep = RRevs l
  | CUpdateRev _ _ | CDeleteSts _ _ | COther _ _ _ => rep = RUnit
  | CGetAsts _ | CCreateAsts _ _ _ _ | CUpdateAsts _ _ _ _ | CUpdateStatus _ _ _ => exists a, rep = RAsts a
  end.

Lemma api_step_shape c w :
  (exists e, fst (api_step c w) = RErr e) \/ expected_shape c (fst (api_step c w)).
Proof.
  destruct c; simpl.
  - right. eauto.
  - destruct (has_rev name (w_revs w)); simpl; eauto.
  - destruct (w_asts w); simpl; eauto.
  - destruct rv; simpl; [eauto|]. destruct (w_asts w); simpl; eauto.
  - destruct (w_asts w) as [cur|]; simpl; [|eauto]. destruct (a_rv cur =? rv); simpl; eauto.
  - destruct (w_asts w) as [cur|]; simpl; [|eauto]. destruct (a_rv cur =? rv); simpl; eauto.
  - destruct (w_sts w); simpl; eauto.
  - right. reflexivity.
Qed.

Lemma call_reply orc c s rep s1 :
  do_call orc c s = (Val rep, s1) -> (exists e, rep = RErr e) \/ expected_shape c rep.
Proof.
  intros H. apply do_call_inv in H. destruct H as [_ [[_ [Hr _]] | [[[e He] | Hk] _]]].
  - inversion Hr. apply api_step_shape.
  - inversion He. eauto.
  - discriminate.
Qed.

Lemma relabel_loop_no_panic orc sts items : b_selector sts <> None ->
  forall s site s', relabel_loop orc sts items s <> (Stop (OPanic site), s').
Proof.
  intros Hsel. induction items as [|it t IH]; intros s site s' H; simpl in H.
  - discriminate.
  - destruct (b_selector sts) as [sel|]; [|congruence]. unfold bind in H.
    destruct (do_call orc (CUpdateRev (rv_name it) (relabel (b_name sts) (ml_keys sel) (rv_labels it))) s)
      as [[rep|o] s1] eqn:Hc.
    + destruct (call_reply _ _ _ _ _ Hc) as [[e ->] | Hs]; [discriminate|].
      simpl in Hs. subst rep. exact (IH _ _ _ H).
    + inversion H; subst. exact (do_call_not_panic _ _ _ _ _ Hc).
Qed.

Lemma phase_revs_no_panic orc sts s site s' : b_selector sts <> None ->
  phase_revs orc sts s <> (Stop (OPanic site), s').
Proof.
  intros Hsel H. unfold phase_revs in H. unfold bind at 1 in H.
  assert (H' : (rep <- do_call orc (CListRevs (b_selector sts));;
                match rep with RRevs items => relabel_loop orc sts items | RErr e => stop (OErr e) | _ => ill_typed end) s
               = (Stop (OPanic site), s')).
  { destruct (b_selector sts) as [sel|]; [destruct (selector_valid sel)|]; simpl in H; try discriminate; exact H. }
  clear H. unfold bind in H'.
  destruct (do_call orc (CListRevs (b_selector sts)) s) as [[rep|o] s1] eqn:Hc.
  - destruct (call_reply _ _ _ _ _ Hc) as [[e ->] | [l ->]]; [discriminate|].
    exact (relabel_loop_no_panic orc sts l Hsel _ _ _ H').
  - inversion H'; subst. exact (do_call_not_panic _ _ _ _ _ Hc).
Qed.

Lemma finish_asts_no_panic orc sts c2 s0 rep2 s site s' :
  (c2 = CCreateAsts (b_name sts) (b_meta sts) (b_spec sts) None
   \/ exists m rv, c2 = CUpdateAsts (b_name sts) m (b_spec sts) rv) ->
  do_call orc c2 s0 = (Val rep2, s) ->
  finish_asts orc sts rep2 s <> (Stop (OPanic site), s').
Proof.
  intros Hc2 Hd H. unfold finish_asts in H.
  assert (Hshape : (exists e, rep2 = RErr e) \/ exists a, rep2 = RAsts a).
  { destruct (call_reply _ _ _ _ _ Hd) as [He | Hs]; [left; exact He|]. right.
    destruct Hc2 as [-> | [m [rv ->]]]; exact Hs. }
  destruct Hshape as [[e ->] | [a2 ->]]; [discriminate|]. unfold bind in H.
  destruct (do_call orc (CUpdateStatus (b_name sts) (b_status sts) (a_rv a2)) s) as [[rep3|o] s3] eqn:Hc3.
  - destruct (call_reply _ _ _ _ _ Hc3) as [[e ->] | [a3 ->]]; discriminate.
  - inversion H; subst. exact (do_call_not_panic _ _ _ _ _ Hc3).
Qed.

Lemma phase_asts_no_panic orc sts s site s' : phase_asts orc sts s <> (Stop (OPanic site), s').
Proof.
  intros H. unfold phase_asts in H. unfold bind at 1 in H.
  destruct (do_call orc (CGetAsts (b_name sts)) s) as [[rep|o] s1] eqn:Hc1.
  2:{ inversion H; subst. exact (do_call_not_panic _ _ _ _ _ Hc1). }
  destruct (call_reply _ _ _ _ _ Hc1) as [[e ->] | [a ->]].
  - destruct e; simpl in H; try discriminate. unfold bind in H.
    destruct (do_call orc (CCreateAsts (b_name sts) (b_meta sts) (b_spec sts) None) s1) as [[rep2|o] s2] eqn:Hc2.
    + eapply finish_asts_no_panic; [left; reflexivity | exact Hc2 | exact H].
    + inversion H; subst. exact (do_call_not_panic _ _ _ _ _ Hc2).
  - simpl in H. unfold bind in H.
    destruct (do_call orc (CUpdateAsts (b_name sts) (a_meta a) (b_spec sts) (a_rv a)) s1) as [[rep2|o] s2] eqn:Hc2.
    + eapply finish_asts_no_panic; [right; eauto | exact Hc2 | exact H].
    + inversion H; subst. exact (do_call_not_panic _ _ _ _ _ Hc2).
Qed.

Lemma phase_delete_no_panic orc sts a s site s' : phase_delete orc sts a s <> (Stop (OPanic site), s').
Proof.
  intros H. unfold phase_delete, bind in H.
  destruct (do_call orc (CDeleteSts (b_name sts) POrphan) s) as [[rep|o] s1] eqn:Hc.
  - destruct (call_reply _ _ _ _ _ Hc) as [[e ->] | Hs].
    + destruct e; discriminate.
    + simpl in Hs. subst. discriminate.
  - inversion H; subst. exact (do_call_not_panic _ _ _ _ _ Hc).
Qed.

Lemma run_no_panic orc sts w site : b_selector sts <> None -> rr_out (run orc sts w) <> OPanic site.
Proof.
  intros Hsel. unfold run.
  destruct (upgrade orc sts (init_state w)) as [[a|o] s'] eqn:H; simpl; [discriminate|].
  intros ->. unfold upgrade in H. unfold bind at 1 in H.
  destruct (phase_revs orc sts (init_state w)) as [[[]|o] s1] eqn:H1.
  2:{ inversion H; subst. exact (phase_revs_no_panic _ _ _ _ _ Hsel H1). }
  unfold bind in H.
  destruct (phase_asts orc sts s1) as [[a|o] s2] eqn:H2.
  2:{ inversion H; subst. exact (phase_asts_no_panic _ _ _ _ _ H2). }
  exact (phase_delete_no_panic _ _ _ _ _ _ H).
Qed.

(* ================= crash-safety: what any number of attempts preserves ======================== *)
Definition names_unique (w : world) : Prop := NoDup (map rv_name (w_revs w)).

Definition relabel_of (sts : bset) (ol : option labels) : option labels :=
  match b_selector sts with
  | Some s => Some (relabel (b_name sts) (ml_keys s) ol)
  | None => ol
  end.

(* a revision after some attempts, against the same revision before the first one: untouched, or
   it matched the selector and has been relabelled *)
Definition rev_rel (sts : bset) (r0 r : revision) : Prop :=
  rv_name r = rv_name r0 /\ rv_owner r = rv_owner r0
  /\ (rv_labels r = rv_labels r0
      \/ (rv_labels r = relabel_of sts (rv_labels r0) /\ list_matches (b_selector sts) (rv_labels r0) = true)).

Definition asts_rel (sts : bset) (a0 a : option aset) : Prop :=
  match a0 with
  | Some x0 => exists x, a = Some x /\ a_meta x = a_meta x0
  | None => a = None \/ exists x, a = Some x /\ a_meta x = b_meta sts
  end.

Definition Inv (sts : bset) (w0 w : world) : Prop :=
  Forall2 (rev_rel sts) (w_revs w0) (w_revs w) /\ asts_rel sts (w_asts w0) (w_asts w)
  /\ w_cascaded w = w_cascaded w0.

Lemma Inv_refl sts w : Inv sts w w.
Proof.
  split; [|split; [|reflexivity]].
  - induction (w_revs w); constructor; [|assumption]. unfold rev_rel. auto.
  - unfold asts_rel. destruct (w_asts w); eauto.
Qed.

Lemma Forall2_in_r {A B} (R : A -> B -> Prop) l0 l b :
  Forall2 R l0 l -> In b l -> exists a, In a l0 /\ R a b.
Proof.
  induction 1; intros Hin; [destruct Hin|]. destruct Hin as [-> | Hin].
  - eexists. split; [left; reflexivity | assumption].
  - destruct (IHForall2 Hin) as [a [Ha HR]]. exists a. split; [right; exact Ha | exact HR].
Qed.

Lemma Forall2_map_r {A B} (R : A -> B -> Prop) (f : B -> B) l0 l :
  Forall2 R l0 l -> (forall a b, In a l0 -> R a b -> R a (f b)) -> Forall2 R l0 (map f l).
Proof.
  induction 1; intros Hf; simpl; constructor.
  - apply Hf; [left; reflexivity | assumption].
  - apply IHForall2. intros a b Ha. apply Hf. right. exact Ha.
Qed.

Lemma NoDup_map_inj {A B} (f : A -> B) l a b :
  NoDup (map f l) -> In a l -> In b l -> f a = f b -> a = b.
Proof.
  induction l as [|x l IH]; simpl; intros Hnd Ha Hb Hf; [destruct Ha|].
  inversion Hnd as [|? ? Hnotin Hnd']; subst.
  destruct Ha as [-> | Ha], Hb as [-> | Hb]; auto.
  - exfalso. apply Hnotin. rewrite Hf. apply in_map. exact Hb.
  - exfalso. apply Hnotin. rewrite <- Hf. apply in_map. exact Ha.
Qed.

Lemma Forall2_names sts l0 l : Forall2 (rev_rel sts) l0 l -> map rv_name l = map rv_name l0.
Proof. induction 1; simpl; [reflexivity|]. destruct H as [Hn _]. rewrite Hn, IHForall2. reflexivity. Qed.

Lemma listed_in sts w it : In it (listed sts w) ->
  In it (w_revs w) /\ list_matches (b_selector sts) (rv_labels it) = true.
Proof. unfold listed. rewrite filter_In. tauto. Qed.

(* the labels an attempt writes to a listed revision are the relabelling of its ORIGINAL labels *)
Lemma listed_item_write sts sel w0 ws it r0 :
  b_selector sts = Some sel -> names_unique w0 -> Inv sts w0 ws ->
  In it (listed sts ws) -> In r0 (w_revs w0) -> rv_name r0 = rv_name it ->
  Some (relabel (b_name sts) (ml_keys sel) (rv_labels it)) = relabel_of sts (rv_labels r0)
  /\ list_matches (b_selector sts) (rv_labels r0) = true.
Proof.
  intros Hsel Hnd [Hrevs _] Hit Hr0 Hname.
  apply listed_in in Hit. destruct Hit as [Hin Hm].
  destruct (Forall2_in_r _ _ _ _ Hrevs Hin) as [r0' [Hr0' [Hn' [_ Hl]]]].
  assert (r0' = r0) by (eapply (NoDup_map_inj rv_name); eauto; congruence). subst r0'.
  unfold relabel_of in *. rewrite Hsel in *.
  destruct Hl as [Hl | [Hl Hm0]].
  - rewrite <- Hl. auto.
  - rewrite Hl. rewrite relabel_idem. auto.
Qed.

Lemma legit_preserves_Inv sts sel w0 ws :
  b_selector sts = Some sel -> names_unique w0 -> Inv sts w0 ws ->
  forall w c, legit sts ws w c -> Inv sts w0 w -> Inv sts w0 (snd (api_step c w)).
Proof.
  intros Hsel Hnd Hws w c HL HI. pose proof HI as [Hrevs [Hasts Hcas]].
  destruct HL as [[-> | [s [it [Hs [Hit ->]]]]] | [[-> | [-> | [[a [Ha ->]] | [rv ->]]]] | ->]]; simpl.
  - exact HI.
  - destruct (has_rev (rv_name it) (w_revs w)); simpl; [|exact HI].
    split; [|split; [exact Hasts | exact Hcas]]. simpl. apply Forall2_map_r; [exact Hrevs|].
    intros r0 r Hr0 [Hn [Ho Hl]]. unfold upd_rev.
    destruct (String.eqb (rv_name r) (rv_name it)) eqn:E; [|split; auto].
    apply String.eqb_eq in E. rewrite Hs in Hsel. inversion Hsel; subst s.
    destruct (listed_item_write sts sel w0 ws it r0 Hs Hnd Hws Hit Hr0) as [Hw Hm]; [congruence|].
    unfold rev_rel. simpl. split; [exact Hn|]. split; [exact Ho|]. right. split; [exact Hw | exact Hm].
  - destruct (w_asts w); simpl; exact HI.
  - destruct (w_asts w) as [cur|] eqn:Ecur; simpl; [exact HI|].
    split; [exact Hrevs|]. split; [|exact Hcas]. simpl. unfold asts_rel in *.
    destruct (w_asts w0) as [x0|].
    + destruct Hasts as [x [Hx _]]. discriminate.
    + right. eexists. split; reflexivity.
  - rewrite Ha, Z.eqb_refl. simpl. split; [exact Hrevs|]. split; [|exact Hcas].
    simpl. unfold asts_rel in *. rewrite Ha in Hasts. destruct (w_asts w0) as [x0|].
    + destruct Hasts as [x [Hx Hm]]. inversion Hx; subst. eexists. split; [reflexivity | exact Hm].
    + destruct Hasts as [Hx | [x [Hx Hm]]]; [discriminate|]. inversion Hx; subst.
      right. eexists. split; [reflexivity | exact Hm].
  - destruct (w_asts w) as [cur|] eqn:Ecur; simpl; [|exact HI].
    destruct (a_rv cur =? rv); simpl; [|exact HI].
    split; [exact Hrevs|]. split; [|exact Hcas].
    simpl. unfold asts_rel in *. destruct (w_asts w0) as [x0|].
    + destruct Hasts as [x [Hx Hm]]. inversion Hx; subst. eexists. split; [reflexivity | exact Hm].
    + destruct Hasts as [Hx | [x [Hx Hm]]]; [discriminate|]. inversion Hx; subst.
      right. eexists. split; [reflexivity | exact Hm].
  - destruct (w_sts w); simpl; [|exact HI]. split; [exact Hrevs|]. split; [exact Hasts | exact Hcas].
Qed.

Lemma run_preserves_Inv orc sts sel w0 ws :
  b_selector sts = Some sel -> names_unique w0 -> Inv sts w0 ws -> Inv sts w0 (rr_world (run orc sts ws)).
Proof.
  intros Hsel Hnd Hws.
  assert (HL : forall w c, legit sts ws w c -> Inv sts w0 w -> Inv sts w0 (snd (api_step c w)))
    by (intros w c HLc HIc; exact (legit_preserves_Inv sts sel w0 ws Hsel Hnd Hws w c HLc HIc)).
  exact (proj1 (run_invariant orc sts ws (Inv sts w0) HL Hws)).
Qed.

Lemma attempts_preserve_Inv sts sel w0 atts : b_selector sts = Some sel -> names_unique w0 ->
  forall ws, Inv sts w0 ws -> Inv sts w0 (run_attempts sts atts ws).
Proof.
  intros Hsel Hnd. induction atts as [|o t IH]; intros ws Hws; simpl; [exact Hws|].
  apply IH. eapply run_preserves_Inv; eauto.
Qed.

(* ================= the uninterrupted run in closed form ======================================= *)
Definition relabel_rev (sts : bset) (r : revision) : revision :=
  if list_matches (b_selector sts) (rv_labels r)
  then {| rv_name := rv_name r; rv_labels := relabel_of sts (rv_labels r); rv_owner := rv_owner r |}
  else r.
Definition clean_asts (sts : bset) (w : world) : aset :=
  match w_asts w with
  | Some a => {| a_meta := a_meta a; a_spec := b_spec sts; a_status := b_status sts; a_rv := a_rv a + 1 + 1 |}
  | None => {| a_meta := b_meta sts; a_spec := b_spec sts; a_status := b_status sts; a_rv := 1 + 1 |}
  end.
Definition clean_final (sts : bset) (w : world) : world :=
  {| w_sts := false; w_revs := map (relabel_rev sts) (w_revs w); w_asts := Some (clean_asts sts w);
     w_cascaded := w_cascaded w |}.

Definition write_item (sts : bset) (sel : selector) (revs : list revision) (it : revision) : list revision :=
  map (upd_rev (rv_name it) (relabel (b_name sts) (ml_keys sel) (rv_labels it))) revs.

Lemma has_rev_upd n m lbl l : has_rev n (map (upd_rev m lbl) l) = has_rev n l.
Proof.
  unfold has_rev. induction l as [|r l IH]; simpl; [reflexivity|]. rewrite IH. f_equal.
  unfold upd_rev. destruct (String.eqb (rv_name r) m); reflexivity.
Qed.

Lemma with_revs_same w : with_revs w (w_revs w) = w.
Proof. destruct w; reflexivity. Qed.

Lemma api_update_rev_has n lbl w : has_rev n (w_revs w) = true ->
  api_step (CUpdateRev n lbl) w = (RUnit, with_revs w (map (upd_rev n lbl) (w_revs w))).
Proof. intros H. simpl. rewrite H. reflexivity. Qed.

Lemma loop_clean sts sel : b_selector sts = Some sel -> forall items s,
  (forall it, In it items -> has_rev (rv_name it) (w_revs (rs_w s)) = true) ->
  exists s', relabel_loop no_faults sts items s = (Val tt, s')
     /\ rs_w s' = with_revs (rs_w s) (fold_left (write_item sts sel) items (w_revs (rs_w s))).
Proof.
  intros Hsel. induction items as [|it t IH]; intros s Hhas; simpl.
  - exists s. split; [reflexivity|]. symmetry. apply with_revs_same.
  - rewrite Hsel. unfold bind. rewrite do_call_no_faults.
    rewrite (api_update_rev_has _ _ _ (Hhas it (or_introl eq_refl))). cbv beta iota delta [fst snd].
    set (s1 := logged s _ _).
    destruct (IH s1) as [s' [Hrun Hw]].
    + intros it' Hin. unfold s1. simpl. rewrite has_rev_upd. apply Hhas. right. exact Hin.
    + exists s'. split; [exact Hrun|]. rewrite Hw. unfold s1. simpl. reflexivity.
Qed.

Definition mark (sts : bset) (sel : selector) (done : list string) (r : revision) : revision :=
  if smem (rv_name r) done
  then {| rv_name := rv_name r; rv_labels := Some (relabel (b_name sts) (ml_keys sel) (rv_labels r)); rv_owner := rv_owner r |}
  else r.

Lemma write_item_mark sts sel revs done it :
  NoDup (map rv_name revs) -> In it revs ->
  write_item sts sel (map (mark sts sel done) revs) it = map (mark sts sel (rv_name it :: done)) revs.
Proof.
  intros Hnd Hit. unfold write_item. rewrite map_map. apply map_ext_in. intros r Hr.
  unfold upd_rev, mark. simpl smem.
  assert (Hname : rv_name (if smem (rv_name r) done
                           then {| rv_name := rv_name r;
                                   rv_labels := Some (relabel (b_name sts) (ml_keys sel) (rv_labels r));
                                   rv_owner := rv_owner r |} else r) = rv_name r)
    by (destruct (smem (rv_name r) done); reflexivity).
  rewrite Hname. destruct (String.eqb (rv_name r) (rv_name it)) eqn:E; simpl.
  - apply String.eqb_eq in E.
    assert (r = it) by (eapply (NoDup_map_inj rv_name); eauto). subst r.
    destruct (smem (rv_name it) done); reflexivity.
  - reflexivity.
Qed.

Lemma fold_write sts sel revs : NoDup (map rv_name revs) -> forall items done, incl items revs ->
  exists done', (forall n, In n done' <-> In n done \/ In n (map rv_name items))
    /\ fold_left (write_item sts sel) items (map (mark sts sel done) revs) = map (mark sts sel done') revs.
Proof.
  intros Hnd. induction items as [|it t IH]; intros done Hincl; simpl.
  - exists done. split; [intros n; tauto | reflexivity].
  - rewrite write_item_mark; [|exact Hnd|apply Hincl; left; reflexivity].
    destruct (IH (rv_name it :: done)) as [done' [Hiff Hfold]]; [intros x Hx; apply Hincl; right; exact Hx|].
    exists done'. split; [|exact Hfold]. intros n. rewrite Hiff. simpl. tauto.
Qed.

Lemma mark_nil sts sel revs : map (mark sts sel []) revs = revs.
Proof. rewrite <- (map_id revs) at 2. apply map_ext. intros r. reflexivity. Qed.

Lemma clean_revs sts sel revs : b_selector sts = Some sel -> NoDup (map rv_name revs) ->
  fold_left (write_item sts sel) (filter (fun r => list_matches (b_selector sts) (rv_labels r)) revs) revs
  = map (relabel_rev sts) revs.
Proof.
  intros Hsel Hnd.
  destruct (fold_write sts sel revs Hnd (filter (fun r => list_matches (b_selector sts) (rv_labels r)) revs) [])
    as [done' [Hiff Hfold]].
  { intros x Hx. apply filter_In in Hx. tauto. }
  rewrite mark_nil in Hfold. rewrite Hfold. apply map_ext_in. intros r Hr.
  unfold mark, relabel_rev, relabel_of. rewrite Hsel.
  destruct (list_matches (Some sel) (rv_labels r)) eqn:Em.
  - assert (Hin : smem (rv_name r) done' = true).
    { apply smem_In. apply Hiff. right. apply in_map. apply filter_In. split; [exact Hr|]. rewrite Hsel. exact Em. }
    rewrite Hin. reflexivity.
  - assert (Hout : smem (rv_name r) done' = false).
    { apply smem_false. intros Hin. apply Hiff in Hin. destruct Hin as [[] | Hin].
      apply in_map_iff in Hin. destruct Hin as [r' [Hn Hr']]. apply filter_In in Hr'. destruct Hr' as [Hr' Hm].
      assert (r' = r) by (eapply (NoDup_map_inj rv_name); eauto). subst r'.
      rewrite Hsel in Hm. congruence. }
    rewrite Hout. reflexivity.
Qed.

Lemma listed_has_rev sts w it : In it (listed sts w) -> has_rev (rv_name it) (w_revs w) = true.
Proof.
  intros H. apply listed_in in H. destruct H as [H _]. unfold has_rev. apply existsb_exists.
  exists it. split; [exact H | apply String.eqb_refl].
Qed.

Lemma phase_revs_clean sts sel w :
  b_selector sts = Some sel -> selector_valid sel = true -> names_unique w ->
  exists s1, phase_revs no_faults sts (init_state w) = (Val tt, s1)
             /\ rs_w s1 = with_revs w (map (relabel_rev sts) (w_revs w)).
Proof.
  intros Hsel Hval Hnd.
  unfold phase_revs. rewrite Hsel, Hval. unfold bind at 1. unfold ret at 1. cbv beta iota.
  unfold bind. rewrite do_call_no_faults.
  change (api_step (CListRevs (Some sel)) (rs_w (init_state w)))
    with (RRevs (filter (fun r => list_matches (Some sel) (rv_labels r)) (w_revs w)), w).
  cbv beta iota delta [fst snd].
  set (s0 := logged (init_state w) _ _).
  destruct (loop_clean sts sel Hsel (listed sts w) s0) as [s1 [Hrun Hw]].
  { intros it Hit. unfold s0. simpl. apply listed_has_rev with (sts := sts). exact Hit. }
  exists s1. unfold listed in Hrun. rewrite Hsel in Hrun. split; [exact Hrun|].
  rewrite Hw. unfold s0. simpl. f_equal.
  rewrite <- (clean_revs sts sel (w_revs w) Hsel Hnd). unfold listed. rewrite Hsel. reflexivity.
Qed.

Lemma phase_asts_clean sts s :
  exists s', phase_asts no_faults sts s = (Val (clean_asts sts (rs_w s)), s')
             /\ rs_w s' = with_asts (rs_w s) (Some (clean_asts sts (rs_w s))).
Proof.
  destruct s as [w l n]. destruct w as [st revs [a|] cas]; unfold phase_asts, bind, clean_asts; simpl.
  - eexists. rewrite Z.eqb_refl. simpl. unfold bind. simpl. rewrite Z.eqb_refl. simpl. split; reflexivity.
  - eexists. unfold bind. simpl. split; reflexivity.
Qed.

Lemma phase_delete_clean sts a s :
  exists s', phase_delete no_faults sts a s = (Val a, s')
             /\ rs_w s' = {| w_sts := false; w_revs := w_revs (rs_w s); w_asts := w_asts (rs_w s);
                             w_cascaded := w_cascaded (rs_w s) |}.
Proof.
  destruct s as [w l n]. destruct w as [[|] revs oa cas]; unfold phase_delete, bind; simpl;
    eexists; split; reflexivity.
Qed.

(* an uninterrupted run on any API state with unique revision names succeeds and ends in clean_final *)
Lemma clean_run sts sel w :
  b_selector sts = Some sel -> selector_valid sel = true -> names_unique w ->
  rr_out (run no_faults sts w) = OOk (clean_asts sts w) /\ rr_world (run no_faults sts w) = clean_final sts w.
Proof.
  intros Hsel Hval Hnd.
  destruct (phase_revs_clean sts sel w Hsel Hval Hnd) as [s1 [H1 Hw1]].
  destruct (phase_asts_clean sts s1) as [s2 [H2 Hw2]].
  destruct (phase_delete_clean sts (clean_asts sts (rs_w s1)) s2) as [s3 [H3 Hw3]].
  assert (Hup : upgrade no_faults sts (init_state w) = (Val (clean_asts sts (rs_w s1)), s3)).
  { unfold upgrade. unfold bind at 1. rewrite H1. unfold bind. rewrite H2. exact H3. }
  unfold run. rewrite Hup. simpl.
  assert (Hc : clean_asts sts (rs_w s1) = clean_asts sts w) by (rewrite Hw1; reflexivity).
  split; [rewrite Hc; reflexivity|].
  rewrite Hw3, Hw2, Hc, Hw1. reflexivity.
Qed.

(* ================= crash-safety and idempotence ================================================ *)
Lemma Inv_names_unique sts w0 w : Inv sts w0 w -> names_unique w0 -> names_unique w.
Proof. intros [H _] Hnd. unfold names_unique in *. rewrite (Forall2_names _ _ _ H). exact Hnd. Qed.

Lemma relabel_rev_rel sts sel r0 r :
  b_selector sts = Some sel -> rev_rel sts r0 r -> relabel_rev sts r = relabel_rev sts r0.
Proof.
  intros Hsel. destruct r0 as [n0 l0 o0], r as [n l o]. unfold rev_rel. simpl.
  intros [-> [-> [-> | [-> Hm]]]]; [reflexivity|].
  unfold relabel_rev. simpl. rewrite Hm. unfold relabel_of. rewrite Hsel.
  destruct (list_matches (Some sel) (Some (relabel (b_name sts) (ml_keys sel) l0))).
  - rewrite relabel_idem. reflexivity.
  - reflexivity.
Qed.

Lemma clean_final_proj sts sel w0 w :
  b_selector sts = Some sel -> Inv sts w0 w -> proj (clean_final sts w) = proj (clean_final sts w0).
Proof.
  intros Hsel [Hrevs [Hasts Hcas]]. unfold proj, clean_final. simpl. f_equal.
  - induction Hrevs; simpl; [reflexivity|]. f_equal; [|assumption]. eapply relabel_rev_rel; eauto.
  - f_equal. unfold clean_asts, view_of, asts_rel in *.
    destruct (w_asts w0) as [x0|].
    + destruct Hasts as [x [-> Hm]]. simpl. rewrite Hm. reflexivity.
    + destruct Hasts as [-> | [x [-> Hm]]]; simpl; [reflexivity|]. rewrite Hm. reflexivity.
  - exact Hcas.
Qed.

Lemma crash_safe sts sel w0 atts :
  b_selector sts = Some sel -> selector_valid sel = true -> names_unique w0 ->
  rr_out (run no_faults sts (run_attempts sts atts w0)) = OOk (clean_asts sts (run_attempts sts atts w0))
  /\ proj (rr_world (run no_faults sts (run_attempts sts atts w0))) = proj (rr_world (run no_faults sts w0))
  /\ w_sts (rr_world (run no_faults sts (run_attempts sts atts w0))) = false
  /\ view_of (clean_asts sts (run_attempts sts atts w0)) = view_of (clean_asts sts w0).
Proof.
  intros Hsel Hval Hnd.
  pose proof (attempts_preserve_Inv sts sel w0 atts Hsel Hnd w0 (Inv_refl sts w0)) as HI.
  pose proof (Inv_names_unique _ _ _ HI Hnd) as Hnd1.
  destruct (clean_run sts sel _ Hsel Hval Hnd1) as [Ho1 Hw1].
  destruct (clean_run sts sel _ Hsel Hval Hnd) as [Ho0 Hw0].
  pose proof (clean_final_proj sts sel w0 _ Hsel HI) as Hp.
  split; [exact Ho1|]. rewrite Hw1, Hw0. split; [exact Hp|]. split; [reflexivity|].
  unfold proj, clean_final in Hp. simpl in Hp. inversion Hp. unfold view_of. congruence.
Qed.

(* ================= does a relabelled revision still match the built-in selector? =============== *)
Lemma good_unmatched sts sel ol :
  b_selector sts = Some sel -> (exists k v, In (k, v) (sel_labels sel) /\ k <> marker_key) ->
  good sts ol -> list_matches (b_selector sts) ol = false.
Proof.
  intros Hsel [k [v [Hin Hne]]] [_ Hkeys]. rewrite Hsel. unfold list_matches, sel_matches.
  destruct (forallb (fun kv => eq_matches (fst kv) (snd kv) (lab_of ol)) (sel_labels sel)) eqn:E; [|reflexivity].
  exfalso. rewrite forallb_forall in E. specialize (E (k, v) Hin). simpl in E.
  unfold eq_matches in E. rewrite (Hkeys sel k Hsel) in E; [discriminate| |exact Hne].
  unfold ml_keys. change k with (fst (k, v)). apply in_map. exact Hin.
Qed.

Lemma clean_final_unmatched sts sel w r :
  b_selector sts = Some sel -> (exists k v, In (k, v) (sel_labels sel) /\ k <> marker_key) ->
  names_unique w -> In r (w_revs (clean_final sts w)) -> In (rv_name r) (listed_names sts w) ->
  list_matches (b_selector sts) (rv_labels r) = false.
Proof.
  intros Hsel Hml Hnd Hin Hn. simpl in Hin. apply in_map_iff in Hin. destruct Hin as [r0 [<- Hr0]].
  assert (Hname : rv_name (relabel_rev sts r0) = rv_name r0).
  { unfold relabel_rev. destruct (list_matches (b_selector sts) (rv_labels r0)); reflexivity. }
  rewrite Hname in Hn. unfold listed_names in Hn. apply in_map_iff in Hn. destruct Hn as [r1 [Hn1 Hr1]].
  apply listed_in in Hr1. destruct Hr1 as [Hr1 Hm1].
  assert (r1 = r0) by (eapply (NoDup_map_inj rv_name); eauto). subst r1.
  unfold relabel_rev. rewrite Hm1. simpl. unfold relabel_of. rewrite Hsel.
  rewrite <- Hsel. apply (good_unmatched sts sel); [exact Hsel | exact Hml | apply relabel_good; exact Hsel].
Qed.

(* ================= which objects are addressed; what survives ================================== *)
Lemma run_calls_ok orc sts w e : In e (rr_log (run orc sts w)) ->
  call_ok sts w (ev_call e) /\ call_resource (ev_call e) <> ROtherResource.
Proof.
  intros Hin.
  destruct (run_invariant orc sts w (fun _ => True)) as [_ Hall]; [auto | exact I|].
  rewrite Forall_forall in Hall. destruct (Hall e Hin) as [HL _].
  apply legit_call_ok in HL. split; [exact HL|].
  destruct (ev_call e); simpl in HL |- *; try (intros Heq; discriminate Heq). destruct HL.
Qed.

Lemma run_frame orc sts w : frame w (rr_world (run orc sts w)).
Proof.
  destruct (run_invariant orc sts w (frame w)) as [H _]; [|apply frame_refl|exact H].
  intros w' c HL HF. eapply frame_trans; [exact HF|]. eapply legit_frame. exact HL.
Qed.


Lemma unmatched_at_delete orc sts sel w evs1 e evs2 :
  b_selector sts = Some sel -> (exists k v, In (k, v) (sel_labels sel) /\ k <> marker_key) ->
  rr_log (run orc sts w) = evs1 ++ e :: evs2 -> is_delete (ev_call e) = true ->
  forall rv, In rv (w_revs (ev_pre e)) -> In (rv_name rv) (listed_names sts w) ->
  list_matches (b_selector sts) (rv_labels rv) = false.
Proof.
  intros Hsel Hml Hlog Hdel rv Hin Hn.
  destruct (delete_is_last orc sts w evs1 e evs2 Hlog Hdel) as [_ [_ [[_ Hgood] _]]].
  exact (good_unmatched sts sel (rv_labels rv) Hsel Hml (Hgood rv Hin Hn)).
Qed.

Lemma plain_selector_unmatched sts sel w r a :
  b_selector sts = Some sel -> sel_exprs sel = [] -> sel_labels sel <> [] -> ~ In marker_key (ml_keys sel) ->
  names_unique w ->
  rr_out (run no_faults sts w) = OOk a ->
  In r (w_revs (rr_world (run no_faults sts w))) -> In (rv_name r) (listed_names sts w) ->
  list_matches (b_selector sts) (rv_labels r) = false.
Proof.
  intros Hsel Hex Hml Hmk Hnd _ Hin Hn.
  assert (Hval : selector_valid sel = true) by (unfold selector_valid; rewrite Hex; reflexivity).
  destruct (clean_run sts sel w Hsel Hval Hnd) as [_ Hw]. rewrite Hw in Hin.
  apply (clean_final_unmatched sts sel w r Hsel); auto.
  destruct (sel_labels sel) as [|[k v] t] eqn:E; [congruence|]. exists k, v. split; [left; reflexivity|].
  intros ->. apply Hmk. unfold ml_keys. rewrite E. left. reflexivity.
Qed.
