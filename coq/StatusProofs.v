(* StatusProofs.v — what a reconcile writes into the status (C12): the fields that are not counters. *)
From ASTS Require Import Base Slots Names World Reconcile MonadProofs PlanProofs ReconcileProofs.

Definition same_meta (a b : status) : Prop :=
  st_currev a = st_currev b /\ st_updrev a = st_updrev b /\ st_obsgen a = st_obsgen b /\ st_coll a = st_coll b.
Lemma same_meta_refl a : same_meta a a. Proof. repeat split. Qed.
Lemma same_meta_trans a b c : same_meta a b -> same_meta b c -> same_meta a c.
Proof. intros (A1 & A2 & A3 & A4) (B1 & B2 & B3 & B4). repeat split; congruence. Qed.
Lemma same_meta_add st a b c : same_meta (st_add st a b c) st. Proof. repeat split. Qed.
Lemma same_meta_census cur upd st p : same_meta (census1 cur upd st p) st. Proof. repeat split. Qed.

Lemma census_fold_meta cur upd : forall pods st, same_meta (fold_left (census1 cur upd) pods st) st.
Proof.
  induction pods as [|p t IH]; intros st; cbn [fold_left]; [apply same_meta_refl|].
  eapply same_meta_trans; [apply IH | apply same_meta_census].
Qed.

Lemma rstep_meta s cur upd mono i p0 st a st' go p :
  rstep s cur upd mono i p0 st = (a, st', go, p) -> same_meta st' st.
Proof.
  unfold rstep. destruct (isFailed p0 || isSucceeded p0).
  - intros H. inversion H; subst. destruct (negb (isTerminating p0)); repeat split.
  - destruct (negb (isCreated p0)); [intros H; inversion H; subst; repeat split|].
    destruct (isTerminating p0 && mono); [intros H; inversion H; subst; apply same_meta_refl|].
    destruct (negb (isRunningAndReady p0) && mono); [intros H; inversion H; subst; apply same_meta_refl|].
    destruct (identityMatches s p0 && storageMatches s p0); intros H; inversion H; subst; apply same_meta_refl.
Qed.

Lemma rloop_meta s cur upd mono : forall l i st a st' go arr,
  rloop s cur upd mono i l st = (a, st', go, arr) -> same_meta st' st.
Proof.
  induction l as [|[p0|] t IH]; intros i st a st' go arr H; cbn [rloop] in H.
  - inversion H; subst. apply same_meta_refl.
  - destruct (rstep s cur upd mono i p0 st) as [[[a1 st1] go1] p] eqn:E.
    pose proof (rstep_meta _ _ _ _ _ _ _ _ _ _ _ E) as M1.
    destruct go1.
    + destruct (rloop s cur upd mono (i + 1) t st1) as [[[a2 st2] go2] arr2] eqn:E2.
      inversion H; subst. eapply same_meta_trans; [eapply IH; exact E2 | exact M1].
    + inversion H; subst. exact M1.
  - destruct (rloop s cur upd mono (i + 1) t st) as [[[a2 st2] go2] arr2] eqn:E2.
    inversion H; subst. eapply IH; exact E2.
Qed.

Lemma cloop_meta cur upd mono fu : forall l st a st' go, cloop cur upd mono fu l st = (a, st', go) -> same_meta st' st.
Proof.
  induction l as [|p t IH]; intros st a st' go H; cbn [cloop] in H.
  - inversion H; subst. apply same_meta_refl.
  - destruct (isTerminating p).
    + destruct mono; [inversion H; subst; apply same_meta_refl | eapply IH; exact H].
    + destruct (negb (isRunningAndReady p) && mono && negb (same_pod p fu)); [inversion H; subst; apply same_meta_refl|].
      destruct mono; [inversion H; subst; repeat split|].
      destruct (cloop cur upd false fu t _) as [[a2 st2] go2] eqn:E2. inversion H; subst.
      eapply same_meta_trans; [eapply IH; exact E2 | repeat split].
Qed.

Lemma uloop_meta cur upd umin : forall l i st a st', uloop cur upd umin i l st = (a, st') -> same_meta st' st.
Proof.
  induction l as [|e t IH]; intros i st a st' H; cbn [uloop] in H.
  - inversion H; subst. apply same_meta_refl.
  - destruct (i <? umin); [inversion H; subst; apply same_meta_refl|].
    destruct e as [p|]; [|eapply IH; exact H].
    destruct (negb (rev_is p upd) && negb (isTerminating p)); [inversion H; subst; repeat split|].
    destruct (negb (isHealthy p)); [inversion H; subst; apply same_meta_refl | eapply IH; exact H].
Qed.

(* the non-counter fields of the planned status *)
Lemma plan_status_meta s cur upd coll pods po :
  plan_pods s cur upd coll pods = Some po ->
  st_currev (po_status po) = ri_name cur /\ st_updrev (po_status po) = ri_name upd
  /\ st_obsgen (po_status po) = s_gen s /\ st_coll (po_status po) = Some coll.
Proof.
  unfold plan_pods. destruct (s_replicas s) as [r|]; [|discriminate].
  destruct (extend r (get_slots (s_slots s))) as [cnt slots].
  destruct (cnt <? 0); [discriminate|].
  set (st0 := fold_left (census1 cur upd) pods (init_status s cur upd coll)).
  assert (M0 : same_meta st0 (init_status s cur upd coll)) by apply census_fold_meta.
  assert (Hfin : forall st, same_meta st st0 ->
            st_currev st = ri_name cur /\ st_updrev st = ri_name upd /\ st_obsgen st = s_gen s /\ st_coll st = Some coll).
  { intros st M. destruct (same_meta_trans _ _ _ M M0) as (A & B & C & D). repeat split; assumption. }
  destruct (s_deleting s); [intros H; inversion H; subst; apply Hfin; apply same_meta_refl|].
  match goal with |- context [rloop ?a ?b ?c ?d ?e ?f ?g] => destruct (rloop a b c d e f g) as [[[a1 st1] go1] arr] eqn:E1 end.
  pose proof (rloop_meta _ _ _ _ _ _ _ _ _ _ _ E1) as M1.
  destruct go1; cbn [negb]; [|intros H; inversion H; subst; apply Hfin; exact M1].
  match goal with |- context [cloop ?a ?b ?c ?d ?e ?f] => destruct (cloop a b c d e f) as [[a2 st2] go2] eqn:E2 end.
  pose proof (cloop_meta _ _ _ _ _ _ _ _ _ E2) as M2.
  assert (M12 : same_meta st2 st0) by (eapply same_meta_trans; eassumption).
  destruct go2; cbn [negb]; [|intros H; inversion H; subst; apply Hfin; exact M12].
  destruct (String.eqb (s_strategy s) "OnDelete"); [intros H; inversion H; subst; apply Hfin; exact M12|].
  match goal with |- context [uloop ?a ?b ?c ?d ?e ?f] => destruct (uloop a b c d e f) as [a3 st3] eqn:E3 end.
  pose proof (uloop_meta _ _ _ _ _ _ _ _ E3) as M3.
  intros H; inversion H; subst. apply Hfin. eapply same_meta_trans; eassumption.
Qed.

(* completeRollingUpdate: the current revision changes only when the strategy is RollingUpdate and the
   counters say every pod is at the update revision and Ready, and then to the update revision *)
Lemma complete_rolling_update_currev s st :
  (st_currev (complete_rolling_update s st) = st_currev st /\ complete_rolling_update s st = st)
  \/ (s_strategy s = "RollingUpdate"%string /\ st_updated st = st_replicas st /\ st_ready st = st_replicas st
      /\ st_currev (complete_rolling_update s st) = st_updrev st
      /\ st_current (complete_rolling_update s st) = st_updated st).
Proof.
  unfold complete_rolling_update.
  destruct (String.eqb (s_strategy s) "RollingUpdate") eqn:E1; cbn [andb]; [|left; split; reflexivity].
  destruct (st_updated st =? st_replicas st) eqn:E2; cbn [andb]; [|left; split; reflexivity].
  destruct (st_ready st =? st_replicas st) eqn:E3; [|left; split; reflexivity].
  right. apply String.eqb_eq in E1. apply Z.eqb_eq in E2. apply Z.eqb_eq in E3. repeat split; auto.
Qed.

(* every status write of every reconcile *)
Theorem status_write_fields hashes api cache faults o log w' st rv e :
  reconcile hashes api cache faults = (o, log, w') -> In (CUpdateStatus st rv, e) log ->
  exists s cur upd coll claimed po,
    ctx_valid cache (s, cur, upd, coll, claimed, po)
    /\ rv = s_rv s                                   (* written against the version that was reconciled *)
    /\ st_obsgen st = s_gen s                        (* the generation that was reconciled *)
    /\ st_updrev st = ri_name upd
    /\ st_coll st = Some coll
    /\ (st_currev st = ri_name cur
        \/ (s_strategy s = "RollingUpdate"%string /\ st_updated (po_status po) = st_replicas (po_status po)
            /\ st_ready (po_status po) = st_replicas (po_status po) /\ st_currev st = ri_name upd)).
Proof.
  intros Hr Hin. destruct (reconcile_ctx hashes _ _ _ _ _ _ Hr) as (oc & Hv & F).
  rewrite Forall_forall in F. specialize (F _ Hin). cbn in F.
  destruct F as (s & cur & upd & coll & claimed & po & -> & Hst & Hrv).
  specialize (Hv _ eq_refl). pose proof Hv as (_ & _ & Hp).
  destruct (plan_status_meta _ _ _ _ _ _ Hp) as (M1 & M2 & M3 & M4).
  exists s, cur, upd, coll, claimed, po. split; [exact Hv|]. split; [exact Hrv|].
  subst st. unfold complete_rolling_update.
  destruct (String.eqb (s_strategy s) "RollingUpdate" && (st_updated (po_status po) =? st_replicas (po_status po))
            && (st_ready (po_status po) =? st_replicas (po_status po))) eqn:E; cbn.
  - apply andb_true_iff in E. destruct E as [E E3]. apply andb_true_iff in E. destruct E as [E1 E2].
    apply String.eqb_eq in E1. apply Z.eqb_eq in E2. apply Z.eqb_eq in E3.
    split; [exact M3|]. split; [exact M2|]. split; [exact M4|]. right. repeat split; auto.
  - split; [exact M3|]. split; [exact M2|]. split; [exact M4|]. left. exact M1.
Qed.

(* the API side accepts a status write only against the stored resourceVersion: a stale writer conflicts *)
Theorem status_write_precondition st rv (s0 : rstate) r s1 a :
  rs_faults s0 = [] -> w_set (rs_api s0) = Some a ->
  api_update_status st rv s0 = (r, s1) ->
  (r = Ok tt /\ s_rv a = rv /\ w_set (rs_api s1) = Some (set_status a st (rv + 1)))
  \/ (r = Err EConflict /\ s_rv a <> rv /\ rs_api s1 = rs_api s0).
Proof.
  intros Hf Ha. unfold api_update_status, call_api. rewrite Hf. cbn [take_fault]. rewrite Ha.
  destruct (s_rv a =? rv) eqn:E; intros H; inversion H; subst; cbn.
  - left. apply Z.eqb_eq in E. repeat split; auto.
  - right. apply Z.eqb_neq in E. repeat split; auto.
Qed.
