(* C15 — No admitted object can crash the controller.  Statements only. *)
From ASTS Require Import Base Slots Names World Reconcile PanicProofs ExampleWorld.

(* admitted s (PanicProofs.v): what manifests/crd.v1.yaml enforces and the model can see — replicas present
   and >= 0, revisionHistoryLimit present (both defaulted by the CRD) — plus the visible no-wrap guard
   replicas + |slots| <= MaxInt32.  Everything else is free: policy and strategy strings, rollingUpdate
   absent / {} / any partition incl. negative, annotations arbitrary (malformed, out of range). *)
Theorem C15_reconcile_never_panics :
  forall hashes api cache faults o log w',
    (forall s, w_set cache = Some s -> admitted s) ->
    reconcile hashes api cache faults = (o, log, w') -> o <> OPanic.
Proof. exact reconcile_never_panics. Qed.
Print Assumptions C15_reconcile_never_panics.

(* the guard is needed: a nil replicas pointer (not admitted by the CRD) is a modelled panic *)
Example C15_nil_replicas_panics :
  let s := ex_set 3 None "OrderedReady" 1 0 (ex_status 3 "web-h1" "web-h1") in
  let s' := {| s_name := s_name s; s_uid := s_uid s; s_gen := s_gen s; s_deleting := false; s_slots := None; s_pause := None;
               s_replicas := None; s_selector := SelOk; s_policy := s_policy s; s_strategy := s_strategy s;
               s_rolling := s_rolling s; s_tmpl := 1; s_claims := []; s_service := "svc"; s_rhl := Some 10;
               s_status := s_status s; s_rv := 5 |} in
  fst (fst (reconcile ex_hashes (ex_world s' [] [ex_rev "web-h1" 1 1]) (ex_world s' [] [ex_rev "web-h1" 1 1]) [])) = OPanic.
Proof. vm_compute. reflexivity. Qed.

(* non-vacuity: an admitted set with an absent partition and a negative partition reconciles normally *)
Example C15_admitted_odd_sets :
  let s := ex_set 3 (Some "[-1, 99999999999]"%string) "Weird" 2 (-1) (ex_status 3 "web-h1" "web-h1") in
  admitted s /\ fst (fst (reconcile ex_hashes (ex_world s ex_healthy3 [ex_rev "web-h1" 1 1]) (ex_world s ex_healthy3 [ex_rev "web-h1" 1 1]) [])) = OOk.
Proof.
  split; [|vm_compute; reflexivity]. exists 3. repeat split; try discriminate; vm_compute; discriminate.
Qed.
