(* C10 — The controller touches only what it owns; adoption needs a fresh confirmation.
   Statements only. *)
From ASTS Require Import Base Slots Names World Reconcile MonadProofs PlanProofs ReconcileProofs RevisionProofs OwnershipProofs ExampleWorld.

(* (1) which pods are treated as part of the set: the claimed list handed to the control loop contains only
   cached pods whose labels match, whose name parses to this set's name, and that are controlled by this
   set's UID or are orphans that are not terminating while the set is not being deleted (and were adopted) *)
Theorem C10_members :
  forall cache s cur upd coll claimed po,
    ctx_valid cache (s, cur, upd, coll, claimed, po) ->
    forall p, In p claimed ->
      In p (w_pods cache) /\ p_match p = true /\ isMemberOf s p = true
      /\ (owner_uid_is s (p_owner p) = true \/ (p_owner p = None /\ p_term p = false /\ s_deleting s = false)).
Proof. intros cache s cur upd coll claimed po (_ & H & _). exact H. Qed.
Print Assumptions C10_members.

(* (2) pod ownership patches, for every API state / cache / oracle: an adoption patch targets an unowned,
   matching, non-terminating member pod of a set that is not being deleted; a release patch (owner reference
   removal, never a delete) targets a pod controlled by this UID that no longer matches *)
Theorem C10_pod_patches :
  forall hashes api cache faults o log w' n adopt e,
    reconcile hashes api cache faults = (o, log, w') -> In (CPatchPod n adopt, e) log ->
    exists s p, w_set cache = Some s /\ In p (w_pods cache) /\ p_name p = n /\ s_deleting s = false
      /\ (if adopt then p_owner p = None /\ p_match p = true /\ isMemberOf s p = true /\ p_term p = false
          else owner_uid_is s (p_owner p) = true /\ (p_match p && isMemberOf s p) = false).
Proof. exact reconcile_pod_patches. Qed.
Print Assumptions C10_pod_patches.

(* (3) adoption needs a fresh confirmation: in the log of every reconcile, every pod adoption patch and
   every ControllerRevision adoption patch is preceded by a live GET of the set that succeeded *)
Theorem C10_pod_adoption_after_fresh_get :
  forall hashes api cache faults o log w',
    reconcile hashes api cache faults = (o, log, w') ->
    forall pre n e post, log = pre ++ (CPatchPod n true, e) :: post -> In (CGetSet, None) pre.
Proof. exact reconcile_pod_adoption_after_fresh_get. Qed.
Print Assumptions C10_pod_adoption_after_fresh_get.

Theorem C10_revision_adoption_after_fresh_get :
  forall hashes api cache faults o log w',
    reconcile hashes api cache faults = (o, log, w') ->
    forall pre n e post, log = pre ++ (CPatchRev n, e) :: post -> In (CGetSet, None) pre.
Proof. exact reconcile_rev_adoption_after_fresh_get. Qed.
Print Assumptions C10_revision_adoption_after_fresh_get.

(* ... and what the confirmation checks: CanAdopt answers yes only when that GET returned a set with the
   same UID and no deletion timestamp; it asks at most once per reconcile (the answer is memoised) *)
Theorem C10_confirmation_content :
  forall s memo st r st',
    can_adopt s memo st = (r, st') ->
    (memo <> None /\ st' = st /\ r = Ok (match memo with Some b => b | None => false end, memo))
    \/ (memo = None /\ exists e ok, rs_log st' = (CGetSet, e) :: rs_log st /\ r = Ok (ok, Some ok)
          /\ (ok = true -> e = None /\ exists f, w_set (rs_api st) = Some f /\ s_uid f = s_uid s /\ s_deleting f = false)).
Proof. exact can_adopt_spec. Qed.
Print Assumptions C10_confirmation_content.

(* (4) pods: every planned delete targets a claimed pod or a pod created in this very reconcile — pods of
   other owners (never claimed, by (1)) are not deleted *)
Theorem C10_deletes_target_claimed_pods :
  forall s cur upd cnt slots pods p,
    0 <= cnt -> In (ADelete p) (plan_acts s cur upd cnt slots pods) ->
    In p pods \/ exists i, p = new_versioned_pod s cur upd i.
Proof. exact delete_targets. Qed.
Print Assumptions C10_deletes_target_claimed_pods.

(* (5) ControllerRevisions: what is listed — and hence counted, relabelled, adopted, renumbered or trimmed
   (C13) — carries this set's labels or marker and is an orphan or controlled by this UID; revisions
   controlled by anybody else are not listed *)
Theorem C10_only_own_or_orphan_revisions_are_listed :
  forall (L : call -> Prop) s, (forall m, L (CListRevs m)) -> mspec L (revs_ok s) (list_revisions s).
Proof. exact mspec_list_revisions. Qed.
Print Assumptions C10_only_own_or_orphan_revisions_are_listed.

(* (6) the set itself is written only through its status: the call type of the model has a single
   constructor on StatefulSets (CUpdateStatus); the correspondence fails on any other write the real
   controller would issue.  (7) "objects read from caches are left unmodified" has no meaning in a
   functional model; it is decided on the implementation by deep comparison of every informer object
   before and after each reconcile (monitor). *)

(* non-vacuity: an orphan matching pod is adopted after a GET; a foreign-owned pod is ignored *)
Example C10_ex :
  let orphan := {| p_name := "web-0"; p_match := true; p_owner := None; p_phase := "Running"; p_ready := true; p_term := false;
                   p_rev := "web-h1"; p_namelabel := Some "web-0"%string; p_vols := p_vols (ex_pod 0 "web-h1" "Running" true); p_tmpl := 1 |} in
  let foreign := {| p_name := "web-1"; p_match := true; p_owner := Some {| o_kind := "StatefulSet"; o_name := "web"; o_uid := "u0" |};
                    p_phase := "Running"; p_ready := true; p_term := false; p_rev := "web-h1"; p_namelabel := Some "web-1"%string;
                    p_vols := p_vols (ex_pod 1 "web-h1" "Running" true); p_tmpl := 1 |} in
  firstn 6 (map (fun e => shape_of (fst e))
                (ex_log (ex_set 2 None "OrderedReady" 1 0 (ex_status 2 "web-h1" "web-h1")) [orphan; foreign] [ex_rev "web-h1" 1 1]))
  = ["list controllerrevisions selector"; "list controllerrevisions marker"; "get statefulsets"; "patch pods web-0";
     "list controllerrevisions selector"; "list controllerrevisions marker"]%string.
Proof. vm_compute. reflexivity. Qed.
