(* Base.v — shared definitions for the advanced-statefulset model. Definitions only
   (plus elementary lemmas); no property theorem lives here. *)
From Coq Require Export String Ascii.
From Coq Require Export List ZArith Lia Bool.
Export ListNotations.
Open Scope Z_scope.

(* int32 *)
Definition min_i32 : Z := -2147483648.
Definition max_i32 : Z := 2147483647.
Definition in_i32 (z : Z) : bool := (min_i32 <=? z) && (z <=? max_i32).
(* two's-complement wrap of an int32 result *)
Definition wrap32 (z : Z) : Z := (z + 2147483648) mod 4294967296 - 2147483648.

Definition memb (x : Z) (l : list Z) : bool := existsb (Z.eqb x) l.
Definition zrange (c : Z) : list Z := map Z.of_nat (seq 0 (Z.to_nat c)).

Lemma memb_In x l : memb x l = true <-> In x l.
Proof.
  unfold memb. rewrite existsb_exists. split.
  - intros [y [Hy He]]. apply Z.eqb_eq in He. subst. exact Hy.
  - intros H. exists x. split; [exact H | apply Z.eqb_refl].
Qed.

Lemma memb_false x l : memb x l = false <-> ~ In x l.
Proof.
  split.
  - intros H Hin. apply memb_In in Hin. congruence.
  - intros H. destruct (memb x l) eqn:E; [|reflexivity]. apply memb_In in E. contradiction.
Qed.

Lemma zrange_In c x : In x (zrange c) <-> 0 <= x < c.
Proof.
  unfold zrange. rewrite in_map_iff. split.
  - intros [n [<- Hn]]. apply in_seq in Hn. lia.
  - intros H. exists (Z.to_nat x). split; [lia | apply in_seq; lia].
Qed.

Lemma wrap32_id z : in_i32 z = true -> wrap32 z = z.
Proof.
  unfold in_i32, wrap32, min_i32, max_i32. intros H.
  apply andb_true_iff in H. destruct H as [H1 H2].
  apply Z.leb_le in H1. apply Z.leb_le in H2.
  rewrite Z.mod_small; lia.
Qed.

(* strings as lists of character codes, for cases written by the harness driver *)
Definition str_of_codes (l : list nat) : string :=
  fold_right (fun n s => String (ascii_of_nat n) s) EmptyString l.

(* decimal printing of integers (strconv.Itoa / %d) *)
Definition digit_char (d : Z) : ascii := ascii_of_nat (48 + Z.to_nat d).
Fixpoint dec_pos_fuel (fuel : nat) (n : Z) (acc : string) : string :=
  match fuel with
  | O => acc
  | S f => let acc' := String (digit_char (n mod 10)) acc in
           if n <? 10 then acc' else dec_pos_fuel f (n / 10) acc'
  end.
(* 20 digits are enough for every int64; callers only print int32/int64 values *)
Definition dec_nonneg (n : Z) : string := dec_pos_fuel 20 n EmptyString.
Definition dec (z : Z) : string :=
  if z <? 0 then String "-"%char (dec_nonneg (- z)) else dec_nonneg z.

(* indices (0-based) of the cases on which a boolean check fails; used by the
   correspondence files the driver writes *)
Fixpoint mismatches_from {A} (f : A -> bool) (l : list A) (i : nat) : list nat :=
  match l with
  | [] => []
  | x :: t => if f x then mismatches_from f t (S i) else i :: mismatches_from f t (S i)
  end.
Definition mismatches {A} (f : A -> bool) (l : list A) : list nat := mismatches_from f l 0%nat.
