(* HandlersProofs.v — lemmas about the handler model of Handlers.v: the handlers enqueue exactly
   what the declarative specification should_enqueue demands.  Statements used by C16.v. *)
From ASTS Require Import Base Handlers.

(* ---------- small facts ------------------------------------------------------------------- *)
Lemma str_mem_In x l : str_mem x l = true <-> In x l.
Proof.
  unfold str_mem. rewrite existsb_exists. split.
  - intros [y [Hy He]]. apply String.eqb_eq in He. subst. exact Hy.
  - intros H. exists x. split; [exact H | apply String.eqb_refl].
Qed.

Lemma keys_In k l : In k (keys l) <-> exists s, In s l /\ k = set_key s.
Proof.
  unfold keys. rewrite in_map_iff. split; intros [s [A B]]; exists s; split; auto.
Qed.

(* ---------- the lister ------------------------------------------------------------------- *)
Lemma lister_get_sound l ns n s :
  lister_get l ns n = Some s -> In s l /\ s_ns s = ns /\ s_name s = n.
Proof.
  unfold lister_get. intros H. apply find_some in H. destruct H as [Hin Hb].
  apply andb_true_iff in Hb. destruct Hb as [H1 H2].
  apply String.eqb_eq in H1. apply String.eqb_eq in H2. auto.
Qed.

Lemma lister_get_complete l s :
  lister_wf l -> In s l -> lister_get l (s_ns s) (s_name s) = Some s.
Proof.
  unfold lister_wf, lister_get. induction l as [|a t IH]; intros Hwf Hin; [destruct Hin|].
  simpl in Hwf. inversion Hwf as [|x y Hnotin Hnd]; subst.
  simpl. destruct Hin as [->|Hin].
  - rewrite !String.eqb_refl. reflexivity.
  - destruct (String.eqb (s_ns a) (s_ns s) && String.eqb (s_name a) (s_name s)) eqn:E.
    + exfalso. apply andb_true_iff in E. destruct E as [E1 E2].
      apply String.eqb_eq in E1. apply String.eqb_eq in E2.
      apply Hnotin. apply in_map_iff. exists s. split; [|exact Hin]. rewrite E1, E2. reflexivity.
    + apply IH; assumption.
Qed.

(* ---------- resolveControllerRef ---------------------------------------------------------- *)
Definition ref_names (r : owner_ref) (ns : string) (s : sset) : Prop :=
  or_kind r = controller_kind /\ s_ns s = ns /\ s_name s = or_name r /\ s_uid s = or_uid r.

Lemma resolve_sound l ns r s :
  resolve_controller_ref l ns r = Some s -> In s l /\ ref_names r ns s.
Proof.
  unfold resolve_controller_ref, ref_names. intros H.
  destruct (String.eqb (or_kind r) controller_kind) eqn:Ek; simpl in H; [|discriminate].
  destruct (lister_get l ns (or_name r)) as [s'|] eqn:Eg; [|discriminate].
  destruct (String.eqb (s_uid s') (or_uid r)) eqn:Eu; simpl in H; [|discriminate].
  inversion H; subst s'. apply lister_get_sound in Eg. destruct Eg as [A [B C]].
  apply String.eqb_eq in Ek. apply String.eqb_eq in Eu. auto.
Qed.

Lemma resolve_complete l ns r s :
  lister_wf l -> In s l -> ref_names r ns s -> resolve_controller_ref l ns r = Some s.
Proof.
  unfold resolve_controller_ref, ref_names. intros Hwf Hin [Hk [Hns [Hn Hu]]].
  rewrite Hk, String.eqb_refl. simpl.
  rewrite <- Hns, <- Hn. rewrite (lister_get_complete l s Hwf Hin).
  rewrite Hu, String.eqb_refl. reflexivity.
Qed.

Lemma controls_spec s p :
  controls s p = true <-> exists r, p_owner p = Some r /\ ref_names r (p_ns p) s.
Proof.
  unfold controls, ref_names. destruct (p_owner p) as [r|].
  - rewrite !andb_true_iff, !String.eqb_eq. split.
    + intros [[[A B] C] D]. exists r. auto.
    + intros [r' [E [A [B [C D]]]]]. inversion E; subst r'. auto.
  - split; [discriminate|]. intros [r [E _]]. discriminate.
Qed.

Lemma owners_of_In l p s : In s (owners_of l p) <-> In s l /\ controls s p = true.
Proof. unfold owners_of. apply filter_In. Qed.

Lemma owners_of_orphan l p : p_owner p = None -> owners_of l p = [].
Proof.
  intros H. unfold owners_of. induction l as [|a t IH]; [reflexivity|].
  simpl. unfold controls at 1. rewrite H. exact IH.
Qed.

(* the keys enqueued after resolving the controller reference of p are the keys of owners_of *)
Lemma resolved_sound l p r k :
  p_owner p = Some r -> In k (enqueue_resolved (resolve_controller_ref l (p_ns p) r)) -> In k (on_gone l p).
Proof.
  intros Ho H. destruct (resolve_controller_ref l (p_ns p) r) as [s|] eqn:E; simpl in H; [|destruct H].
  destruct H as [<-|[]]. apply resolve_sound in E. destruct E as [Hin Hn].
  unfold on_gone. apply keys_In. exists s. split; [|reflexivity].
  apply owners_of_In. split; [exact Hin|]. apply controls_spec. exists r. auto.
Qed.

Lemma resolved_complete l p r k :
  lister_wf l -> p_owner p = Some r -> In k (on_gone l p) ->
  In k (enqueue_resolved (resolve_controller_ref l (p_ns p) r)).
Proof.
  intros Hwf Ho H. unfold on_gone in H. apply keys_In in H. destruct H as [s [Hs ->]].
  apply owners_of_In in Hs. destruct Hs as [Hin Hc]. apply controls_spec in Hc.
  destruct Hc as [r' [E Hn]]. rewrite Ho in E. inversion E; subst r'.
  rewrite (resolve_complete l (p_ns p) r s Hwf Hin Hn). simpl. auto.
Qed.

(* at most one key comes out of a controller reference *)
Lemma resolved_length l ns r : (length (enqueue_resolved (resolve_controller_ref l ns r)) <= 1)%nat.
Proof. destruct (resolve_controller_ref l ns r); simpl; lia. Qed.

(* ---------- GetPodStatefulSets -------------------------------------------------------------- *)
Definition loop_keep (p : pod) (s : sset) : bool :=
  String.eqb (s_ns s) (p_ns p) && sel_selects (s_sel s) (p_labels p).

Lemma loop_eq l p : pod_sets_loop l p = Some (filter (loop_keep p) l).
Proof.
  induction l as [|a t IH]; simpl; [reflexivity|].
  unfold loop_keep at 1. unfold sel_selects.
  destruct (String.eqb (s_ns a) (p_ns p)); simpl; [|exact IH].
  destruct (sel_convert (s_sel a)) as [c|]; [|exact IH].
  destruct (csel_empty c); simpl; [exact IH|].
  destruct (csel_matches c (p_labels p)); simpl; [|exact IH].
  rewrite IH. reflexivity.
Qed.

Lemma loop_sound l p : forall r, pod_sets_loop l p = Some r -> r = filter (loop_keep p) l.
Proof. intros r H. rewrite loop_eq in H. inversion H. reflexivity. Qed.


Lemma matching_filter l p :
  matching l p = if Nat.eqb (length (p_labels p)) 0 then [] else filter (loop_keep p) l.
Proof.
  unfold matching. destruct (Nat.eqb (length (p_labels p)) 0) eqn:E.
  - induction l as [|a t IH]; [reflexivity|]. simpl. unfold selects at 1. rewrite E.
    rewrite andb_false_r. simpl. exact IH.
  - apply filter_ext. intros s. unfold selects, loop_keep. rewrite E. simpl.
    rewrite andb_true_r. reflexivity.
Qed.

Lemma get_sets_sound l p s : In s (get_sets_for_pod l p) -> In s (matching l p).
Proof.
  unfold get_sets_for_pod, get_pod_statefulsets. rewrite matching_filter.
  destruct (Nat.eqb (length (p_labels p)) 0); [intros []|].
  destruct (pod_sets_loop l p) as [r|] eqn:E; [|intros []].
  apply loop_sound in E. subst r.
  destruct (filter (loop_keep p) l) eqn:F; [intros []|]. intros H; exact H.
Qed.

Lemma get_sets_complete l p : get_sets_for_pod l p = matching l p.
Proof.
  unfold get_sets_for_pod, get_pod_statefulsets. rewrite matching_filter.
  destruct (Nat.eqb (length (p_labels p)) 0); [reflexivity|].
  rewrite (loop_eq l p).
  destruct (filter (loop_keep p) l); reflexivity.
Qed.


(* ---------- per handler ---------------------------------------------------------------------- *)
Lemma delete_pod_sound l p k : In k (delete_pod l p) -> In k (on_gone l p).
Proof.
  unfold delete_pod. destruct (p_owner p) as [r|] eqn:E; [|intros []].
  apply resolved_sound. exact E.
Qed.

Lemma delete_pod_complete l p k : lister_wf l -> In k (on_gone l p) -> In k (delete_pod l p).
Proof.
  intros Hwf H. unfold delete_pod. destruct (p_owner p) as [r|] eqn:E.
  - apply resolved_complete; assumption.
  - unfold on_gone in H. rewrite (owners_of_orphan l p E) in H. destruct H.
Qed.

Lemma present_sound l p k :
  In k (match p_owner p with
        | Some r => enqueue_resolved (resolve_controller_ref l (p_ns p) r)
        | None => map set_key (get_sets_for_pod l p)
        end) -> In k (on_present l p).
Proof.
  unfold on_present, is_orphan. destruct (p_owner p) as [r|] eqn:E.
  - intros H. exact (resolved_sound l p r k E H).
  - intros H. apply in_map_iff in H. destruct H as [s [<- Hs]].
    apply keys_In. exists s. split; [apply get_sets_sound; exact Hs | reflexivity].
Qed.

Lemma present_complete l p k :
  lister_wf l -> In k (on_present l p) ->
  In k (match p_owner p with
        | Some r => enqueue_resolved (resolve_controller_ref l (p_ns p) r)
        | None => map set_key (get_sets_for_pod l p)
        end).
Proof.
  intros Hwf. unfold on_present, is_orphan. destruct (p_owner p) as [r|] eqn:E.
  - intros H. exact (resolved_complete l p r k Hwf E H).
  - intros H. rewrite (get_sets_complete l p). exact H.
Qed.

(* ---------- soundness: nothing outside the specification is enqueued (no hypothesis) -------- *)
Lemma handle_sound l ev k : In k (handle l ev) -> In k (should_enqueue l ev).
Proof.
  destruct ev as [p|old cur|p|t|s|so sc|s|k0]; simpl; try (intros H; exact H).
  - (* add *)
    unfold add_pod. destruct (p_deleting p).
    + apply delete_pod_sound.
    + apply present_sound.
  - (* update *)
    unfold update_pod. destruct (String.eqb (p_rv cur) (p_rv old)); [intros []|].
    set (lc := negb (labels_eqb (p_labels cur) (p_labels old))).
    set (oc := negb (owner_opt_eqb (p_owner cur) (p_owner old))).
    clearbody lc oc.
    intros H. apply in_app_or in H. apply in_or_app. destruct H as [H|H].
    + left. destruct oc.
      * destruct (p_owner old) as [ro|] eqn:Eo; [|destruct H].
        exact (resolved_sound l old ro k Eo H).
      * destruct (p_owner old); destruct H.
    + right. assert (Hp := present_sound l cur k). unfold is_orphan.
      destruct (p_owner cur) as [rc|] eqn:Ec.
      * simpl. exact (Hp H).
      * destruct (lc || oc); simpl; [exact (Hp H) | destruct H].
  - (* delete *) apply delete_pod_sound.
  - (* tombstone *) destruct t as [p| |]; simpl; try (intros []). apply delete_pod_sound.
Qed.

Lemma handle_complete l ev k :
  lister_wf l -> In k (should_enqueue l ev) -> In k (handle l ev).
Proof.
  intros Hwf. destruct ev as [p|old cur|p|t|s|so sc|s|k0]; simpl; try (intros H; exact H).
  - (* add *)
    unfold add_pod. destruct (p_deleting p).
    + apply delete_pod_complete. exact Hwf.
    + destruct (p_owner p) as [r|] eqn:E.
      * intros H. unfold on_present, is_orphan in H. rewrite E in H.
        exact (resolved_complete l p r k Hwf E H).
      * intros H. assert (Hc := present_complete l p k Hwf H).
        rewrite E in Hc. exact Hc.
  - (* update *)
    unfold update_pod. destruct (String.eqb (p_rv cur) (p_rv old)); [intros []|].
    set (lc := negb (labels_eqb (p_labels cur) (p_labels old))).
    set (oc := negb (owner_opt_eqb (p_owner cur) (p_owner old))).
    clearbody lc oc.
    intros H. apply in_app_or in H. apply in_or_app. destruct H as [H|H].
    + left. destruct oc; [|destruct H].
      destruct (p_owner old) as [ro|] eqn:Eo.
      * exact (resolved_complete l old ro k Hwf Eo H).
      * unfold on_gone in H. rewrite (owners_of_orphan l old Eo) in H. destruct H.
    + right. unfold is_orphan in H. destruct (p_owner cur) as [rc|] eqn:Ec.
      * simpl in H. unfold on_present, is_orphan in H. rewrite Ec in H.
        exact (resolved_complete l cur rc k Hwf Ec H).
      * destruct (lc || oc); simpl in H; [|destruct H].
        assert (Hc := present_complete l cur k Hwf H). rewrite Ec in Hc. exact Hc.
  - (* delete *) apply delete_pod_complete. exact Hwf.
  - (* tombstone *) destruct t as [p| |]; simpl; try (intros []). apply delete_pod_complete. exact Hwf.
Qed.

Theorem handle_equiv l ev :
  lister_wf l -> forall k, In k (handle l ev) <-> In k (should_enqueue l ev).
Proof.
  intros Hwf k. split; [apply handle_sound | apply handle_complete; exact Hwf].
Qed.

(* ---------- corollaries in the words of the property ---------------------------------------- *)
Lemma no_members_nil {A} (l : list A) : (forall x, ~ In x l) -> l = [].
Proof. destruct l as [|a t]; [reflexivity|]. intros H. exfalso. apply (H a). left. reflexivity. Qed.

(* s is the set the controller reference of p points to: kind, namespace, name AND uid *)
Definition owner_resolves (l : lister) (p : pod) (s : sset) : Prop :=
  In s l /\ exists r, p_owner p = Some r /\ or_kind r = controller_kind
                      /\ s_ns s = p_ns p /\ s_name s = or_name r /\ s_uid s = or_uid r.

Lemma on_gone_spec l p k : In k (on_gone l p) <-> exists s, owner_resolves l p s /\ k = set_key s.
Proof.
  unfold on_gone, owner_resolves. rewrite keys_In. split.
  - intros [s [Hs ->]]. apply owners_of_In in Hs. destruct Hs as [Hin Hc].
    apply controls_spec in Hc. destruct Hc as [r [E [A [B [C D]]]]].
    exists s. split; [|reflexivity]. split; [exact Hin|]. exists r. auto.
  - intros [s [[Hin [r [E [A [B [C D]]]]]] ->]]. exists s. split; [|reflexivity].
    apply owners_of_In. split; [exact Hin|]. apply controls_spec. exists r. unfold ref_names. auto.
Qed.

(* the events that report something about pod p without a change of its owner *)
Inductive about (p : pod) : event -> Prop :=
| about_add : about p (EvAdd p)
| about_delete : about p (EvDelete p)
| about_tombstone : about p (EvDeleteTombstone (TombPod p))
| about_update : forall old, String.eqb (p_rv p) (p_rv old) = false ->
                 owner_opt_eqb (p_owner p) (p_owner old) = true -> about p (EvUpdate old p).

Lemma should_about_controlled l p ev :
  p_owner p <> None -> about p ev -> should_enqueue l ev = on_gone l p.
Proof.
  intros Hno Hab. assert (Ho : is_orphan p = false).
  { unfold is_orphan. destruct (p_owner p); [reflexivity | congruence]. }
  destruct Hab as [| | |old Hrv Hsame]; simpl.
  - unfold on_present. rewrite Ho. destruct (p_deleting p); reflexivity.
  - reflexivity.
  - reflexivity.
  - rewrite Hrv, Hsame, Ho. simpl. unfold on_present. rewrite Ho. reflexivity.
Qed.

Theorem controlled_event l p ev :
  lister_wf l -> p_owner p <> None -> about p ev ->
  forall k, In k (handle l ev) <-> exists s, owner_resolves l p s /\ k = set_key s.
Proof.
  intros Hwf Hno Hab k.
  rewrite (handle_equiv l ev Hwf k).
  rewrite (should_about_controlled l p ev Hno Hab). apply on_gone_spec.
Qed.

Lemma handle_about_length l p ev : p_owner p <> None -> about p ev -> (length (handle l ev) <= 1)%nat.
Proof.
  intros Hno Hab. destruct (p_owner p) as [r|] eqn:E; [|congruence].
  destruct Hab as [| | |old Hrv Hsame]; simpl.
  - unfold add_pod, delete_pod. rewrite E. destruct (p_deleting p); apply resolved_length.
  - unfold delete_pod. rewrite E. apply resolved_length.
  - unfold delete_pod. rewrite E. apply resolved_length.
  - unfold update_pod. rewrite Hrv, Hsame, E. simpl.
    destruct (p_owner old); simpl; apply resolved_length.
Qed.

(* the owner reference does not resolve: wrong kind, no such name, or another uid *)
Theorem unresolved_nothing l p ev :
  p_owner p <> None -> about p ev -> (forall s, ~ owner_resolves l p s) -> handle l ev = [].
Proof.
  intros Hno Hab Hnone. apply no_members_nil. intros k Hk.
  apply handle_sound in Hk. rewrite (should_about_controlled l p ev Hno Hab) in Hk.
  apply on_gone_spec in Hk. destruct Hk as [s [Hs _]]. exact (Hnone s Hs).
Qed.

(* owner change: exactly the old owner's set, then the new owner's set *)
Theorem owner_change_both l old cur so sc :
  lister_wf l -> String.eqb (p_rv cur) (p_rv old) = false ->
  owner_opt_eqb (p_owner cur) (p_owner old) = false ->
  owner_resolves l old so -> owner_resolves l cur sc ->
  handle l (EvUpdate old cur) = [set_key so; set_key sc].
Proof.
  intros Hwf Hrv Hch [Hino [ro [Eo [Ko [No [Mo Uo]]]]]] [Hinc [rc [Ec [Kc [Nc [Mc Uc]]]]]].
  simpl. unfold update_pod. rewrite Hrv, Hch, Eo, Ec. simpl.
  rewrite (resolve_complete l (p_ns old) ro so Hwf Hino); [|unfold ref_names; auto].
  rewrite (resolve_complete l (p_ns cur) rc sc Hwf Hinc); [|unfold ref_names; auto].
  reflexivity.
Qed.

Theorem owner_change_general l old cur :
  lister_wf l ->
  String.eqb (p_rv cur) (p_rv old) = false ->
  owner_opt_eqb (p_owner cur) (p_owner old) = false ->
  forall k, In k (handle l (EvUpdate old cur)) <->
            (exists s, owner_resolves l old s /\ k = set_key s)
            \/ (if is_orphan cur then exists s, In s l /\ selects s cur = true /\ k = set_key s
                else exists s, owner_resolves l cur s /\ k = set_key s).
Proof.
  intros Hwf Hrv Hch k.
  rewrite (handle_equiv l (EvUpdate old cur) Hwf k).
  simpl. rewrite Hrv, Hch. simpl. rewrite orb_true_r, andb_false_r. simpl.
  rewrite in_app_iff, on_gone_spec. unfold on_present.
  destruct (is_orphan cur).
  - rewrite keys_In. unfold matching. split; (intros [H|H]; [left; exact H | right]).
    + destruct H as [s [Hs ->]]. apply filter_In in Hs. exists s. tauto.
    + destruct H as [s [A [B ->]]]. exists s. split; [apply filter_In; tauto | reflexivity].
  - fold (on_gone l cur). rewrite on_gone_spec. tauto.
Qed.

(* orphans *)
Theorem orphan_add l p :
  p_owner p = None -> p_deleting p = false ->
  handle l (EvAdd p) = keys (matching l p).
Proof.
  intros Ho Hd. simpl. unfold add_pod. rewrite Hd, Ho. rewrite (get_sets_complete l p). reflexivity.
Qed.

Theorem orphan_update_labels l old cur :
  p_owner old = None -> p_owner cur = None ->
  String.eqb (p_rv cur) (p_rv old) = false -> labels_eqb (p_labels cur) (p_labels old) = false ->
  handle l (EvUpdate old cur) = keys (matching l cur).
Proof.
  intros Eo Ec Hrv Hl. simpl. unfold update_pod. rewrite Hrv, Hl, Eo, Ec. simpl.
  rewrite (get_sets_complete l cur). reflexivity.
Qed.

Lemma matching_In l p s : In s (matching l p) <-> In s l /\ selects s p = true.
Proof. unfold matching. apply filter_In. Qed.

Lemma selects_spec s p :
  selects s p = true <->
  s_ns s = p_ns p /\ p_labels p <> [] /\
  exists c, sel_convert (s_sel s) = Some c /\ csel_empty c = false /\ csel_matches c (p_labels p) = true.
Proof.
  unfold selects, sel_selects. rewrite !andb_true_iff, String.eqb_eq, negb_true_iff. split.
  - intros [[A B] C]. split; [exact A|]. split.
    { destruct (p_labels p); [discriminate B | discriminate]. }
    destruct (sel_convert (s_sel s)) as [c|]; [|discriminate].
    apply andb_true_iff in C. destruct C as [C1 C2]. apply negb_true_iff in C1. exists c. auto.
  - intros [A [B [c [C1 [C2 C3]]]]]. split; [split; [exact A|]|].
    { destruct (p_labels p); [congruence | reflexivity]. }
    rewrite C1, C2, C3. reflexivity.
Qed.

(* equal resourceVersion *)
Theorem same_rv_nothing l old cur : p_rv cur = p_rv old -> handle l (EvUpdate old cur) = [].
Proof. intros H. simpl. unfold update_pod. rewrite H, String.eqb_refl. reflexivity. Qed.

(* reading notes of the property, as facts about the code *)
Theorem orphan_delete_nothing l p : p_owner p = None ->
  handle l (EvDelete p) = [] /\ handle l (EvDeleteTombstone (TombPod p)) = []
  /\ (p_deleting p = true -> handle l (EvAdd p) = []).
Proof.
  intros H. simpl. unfold add_pod, delete_pod. rewrite H. repeat split. intros ->. reflexivity.
Qed.

Theorem orphan_update_unchanged_nothing l old cur :
  p_owner old = None -> p_owner cur = None -> labels_eqb (p_labels cur) (p_labels old) = true ->
  handle l (EvUpdate old cur) = [].
Proof.
  intros Eo Ec Hl. simpl. unfold update_pod. rewrite Eo, Ec, Hl. simpl.
  destruct (String.eqb (p_rv cur) (p_rv old)); reflexivity.
Qed.

(* pods unrelated to any set *)
Definition unrelated (l : lister) (p : pod) : Prop :=
  forall s, In s l -> controls s p = false /\ selects s p = false.

Lemma unrelated_lists l p : unrelated l p -> owners_of l p = [] /\ matching l p = [].
Proof.
  intros H. split; apply no_members_nil; intros s Hs; apply filter_In in Hs; destruct Hs as [Hin Hb];
    destruct (H s Hin) as [A B]; congruence.
Qed.

(* the pods an event talks about; None for set events *)
Definition pods_of (ev : event) : option (list pod) :=
  match ev with
  | EvAdd p | EvDelete p | EvDeleteTombstone (TombPod p) => Some [p]
  | EvUpdate old cur => Some [old; cur]
  | EvDeleteTombstone _ => Some []
  | _ => None
  end.

Theorem unrelated_nothing l ev ps :
  pods_of ev = Some ps -> (forall p, In p ps -> unrelated l p) -> handle l ev = [].
Proof.
  intros Hps Hun. apply no_members_nil. intros k Hk. apply handle_sound in Hk.
  assert (G : forall p, unrelated l p -> on_gone l p = [] /\ on_present l p = []).
  { intros p Hp. destruct (unrelated_lists l p Hp) as [A B]. unfold on_gone, on_present.
    rewrite A, B. destruct (is_orphan p); auto. }
  destruct ev as [p|old cur|p|t|s|so sc|s|k0]; simpl in Hps; try discriminate.
  - inversion Hps; subst ps. destruct (G p) as [A B]; [apply Hun; left; reflexivity|].
    simpl in Hk. rewrite A, B in Hk. destruct (p_deleting p); destruct Hk.
  - inversion Hps; subst ps.
    destruct (G old) as [A _]; [apply Hun; left; reflexivity|].
    destruct (G cur) as [_ B]; [apply Hun; right; left; reflexivity|].
    simpl in Hk. rewrite A, B in Hk.
    destruct (String.eqb (p_rv cur) (p_rv old)); [destruct Hk|].
    apply in_app_or in Hk. destruct Hk as [Hk|Hk].
    + destruct (negb (owner_opt_eqb (p_owner cur) (p_owner old))); destruct Hk.
    + destruct (is_orphan cur && _); destruct Hk.
  - inversion Hps; subst ps. destruct (G p) as [A B]; [apply Hun; left; reflexivity|].
    simpl in Hk. rewrite A in Hk. destruct Hk.
  - destruct t as [p| |]; simpl in Hk; try destruct Hk.
    inversion Hps; subst ps. destruct (G p) as [A B]; [apply Hun; left; reflexivity|].
    rewrite A in Hk. destruct Hk.
Qed.

(* set events *)
Theorem set_events l s old k :
  handle l (EvSetAdd s) = [set_key s] /\ handle l (EvSetUpdate old s) = [set_key s]
  /\ handle l (EvSetDelete s) = [set_key s] /\ handle l (EvSetDeleteTombstone k) = [k].
Proof. repeat split. Qed.

(* malformed delete notifications *)
Theorem malformed_delete_nothing l :
  handle l (EvDeleteTombstone TombNotPod) = [] /\ handle l (EvDeleteTombstone NotTomb) = [].
Proof. split; reflexivity. Qed.

(* a valid tombstone is handled like the delete it stands for; an add of a terminating pod too *)
Theorem tombstone_as_delete l p :
  handle l (EvDeleteTombstone (TombPod p)) = handle l (EvDelete p)
  /\ (p_deleting p = true -> handle l (EvAdd p) = handle l (EvDelete p)).
Proof. split; [reflexivity|]. intros H. simpl. unfold add_pod. rewrite H. reflexivity. Qed.

(* ---------- a set with an unconvertible selector is skipped; it hides nobody ------------------ *)
Definition bad_lister : lister :=
  [ {| s_ns := "ns1"; s_name := "a"; s_uid := "ua";
       s_sel := Sel [ {| rq_key := "app"; rq_op := OpIn; rq_vals := [] |} ] |};
    {| s_ns := "ns1"; s_name := "b"; s_uid := "ub";
       s_sel := Sel [ {| rq_key := "app"; rq_op := OpIn; rq_vals := ["b"%string] |} ] |} ].
Definition bad_pod : pod :=
  {| p_ns := "ns1"; p_name := "b-0"; p_labels := [("app"%string, "b"%string)]; p_owner := None;
     p_rv := "1"; p_deleting := false |}.

Lemma bad_lister_wf : lister_wf bad_lister.
Proof.
  unfold lister_wf, bad_lister. simpl. constructor.
  - simpl. intros [H|[]]. inversion H.
  - constructor; [intros [] | constructor].
Qed.

Theorem invalid_selector_skipped : handle bad_lister (EvAdd bad_pod) = ["ns1/b"%string].
Proof. vm_compute. reflexivity. Qed.
