(* Names.v -- pod / claim names and the parent-and-ordinal parser of stateful_set_utils.go
   (statefulPodRegex: greedy any-prefix, a dash, a non-empty digit run anchored at the end;
   strconv.ParseInt base 10 size 32).  Definitions only. *)
From ASTS Require Import Base Slots.

Definition sappend := String.append.
Infix "+++" := String.append (right associativity, at level 60).

Definition pod_name (set_name : string) (ord : Z) : string := set_name +++ "-" +++ dec ord.
Definition claim_name (tmpl_name set_name : string) (ord : Z) : string :=
  tmpl_name +++ "-" +++ set_name +++ "-" +++ dec ord.

(* The regex is anchored at the end only and its first group is greedy, so the split is at
   the LAST dash that is followed by a non-empty run of digits reaching the end of the string.
   Names never contain newlines, so every character is matched by the dot. *)
Fixpoint all_digits (s : string) : bool :=
  match s with
  | EmptyString => true
  | String c t => is_digit c && all_digits t
  end.

(* scan from the left, remembering the last position where the suffix after '-' is a non-empty
   digit run; returns (parent, digits) *)
Fixpoint split_last_dash (s : string) (acc : string) (best : option (string * string)) : option (string * string) :=
  match s with
  | EmptyString => best
  | String c t =>
      let best' := if Ascii.eqb c "-"%char && negb (String.eqb t "") && all_digits t
                   then Some (acc, t) else best in
      split_last_dash t (acc +++ String c EmptyString) best'
  end.

Fixpoint digits_val (s : string) (acc : Z) : Z :=
  match s with
  | EmptyString => acc
  | String c t => digits_val t (acc * 10 + digit_val c)
  end.

(* getParentNameAndOrdinal: empty parent and -1 when the regex does not match; ordinal -1 when
   the digit run does not fit an int32 *)
Definition parse_name (name : string) : string * Z :=
  match split_last_dash name "" None with
  | None => (EmptyString, -1)
  | Some (parent, ds) =>
      (* ParseInt on more than 10 digits overflows; avoid building huge numbers needlessly *)
      let v := digits_val ds 0 in
      if v <=? max_i32 then (parent, v) else (parent, -1)
  end.

Definition parent_of (name : string) : string := fst (parse_name name).
Definition ordinal_of (name : string) : Z := snd (parse_name name).

(* correspondence record for the `names` harness command *)
Record names_case := { nc_pod : string; nc_set : string; nc_ord : Z; nc_claim : string;
                       nc_parent : string; nc_ordinal : Z; nc_pod_name : string; nc_claim_name : string }.
Definition names_check (c : names_case) : bool :=
  let '(p, o) := parse_name (nc_pod c) in
  String.eqb p (nc_parent c) && (o =? nc_ordinal c)
  && String.eqb (pod_name (nc_set c) (nc_ord c)) (nc_pod_name c)
  && String.eqb (claim_name (nc_claim c) (nc_set c) (nc_ord c)) (nc_claim_name c).
