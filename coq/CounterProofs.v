(* CounterProofs.v — the counters of every status the pod phase computes are within bounds (C12 i):
   0 <= readyReplicas, currentReplicas, updatedReplicas <= replicas.  Accounting argument: every decrement of
   the three loops is paired with a pod that the census (or a creation in this reconcile) counted. *)
From ASTS Require Import Base Slots SlotsProofs Names World Reconcile PlanProofs.

(* ---------------------------------------------------------------- sums ---------------------------- *)
Fixpoint sumf (f : pod -> Z) (l : list pod) : Z := match l with [] => 0 | p :: t => f p + sumf f t end.
Fixpoint sumo (f : pod -> Z) (l : list (option pod)) : Z :=
  match l with [] => 0 | Some p :: t => f p + sumo f t | None :: t => sumo f t end.

Lemma sumf_app f a b : sumf f (a ++ b) = sumf f a + sumf f b.
Proof. induction a as [|x t IH]; cbn [app sumf ]; [lia|]. idtac. rewrite IH. lia. Qed.
Lemma sumf_nonneg f l : (forall p, 0 <= f p) -> 0 <= sumf f l.
Proof. intros H. induction l as [|x t IH]; cbn [sumf]; [lia|]. idtac. specialize (H x). lia. Qed.
Lemma sumo_nonneg f l : (forall p, 0 <= f p) -> 0 <= sumo f l.
Proof. intros H. induction l as [|[x|] t IH]; cbn [sumo]; idtac; try lia. specialize (H x). lia. Qed.
Lemma sumf_le f g l : (forall p, f p <= g p) -> sumf f l <= sumf g l.
Proof. intros H. induction l as [|x t IH]; cbn [sumf]; [lia|]. idtac. specialize (H x). lia. Qed.
Lemma sumo_le f g l : (forall p, f p <= g p) -> sumo f l <= sumo g l.
Proof. intros H. induction l as [|[x|] t IH]; cbn [sumo]; idtac; try lia. specialize (H x). lia. Qed.
Lemma sumf_insert_asc f p l : sumf f (insert_asc p l) = f p + sumf f l.
Proof.
  induction l as [|a t IH]; cbn [insert_asc sumf ]; [lia|]. idtac.
  destruct (getOrdinal p <? getOrdinal a); cbn [sumf]; idtac; [lia | rewrite IH; lia].
Qed.
Lemma sumf_sort_asc f l : sumf f (sort_asc l) = sumf f l.
Proof.
  unfold sort_asc. assert (G : forall l acc, sumf f (fold_left (fun a p => insert_asc p a) l acc) = sumf f l + sumf f acc).
  { induction l0 as [|a t IH]; intros acc; cbn [fold_left]; [cbn; lia|]. rewrite IH, sumf_insert_asc. cbn [sumf]. idtac. lia. }
  rewrite G. cbn. lia.
Qed.
Lemma sumf_rev f l : sumf f (List.rev l) = sumf f l.
Proof. induction l as [|a t IH]; cbn [List.rev]; [reflexivity|]. rewrite sumf_app, IH. cbn [sumf]. idtac. lia. Qed.

(* the array: replacing an entry can only lose a non-negative contribution *)
Lemma sumo_set_nth f p : (forall q, 0 <= f q) -> forall arr n, sumo f (set_nth n (Some p) arr) <= sumo f arr + f p.
Proof.
  intros Hf. induction arr as [|e t IH]; intros n; destruct n as [|n]; cbn [set_nth sumo ]; idtac.
  - specialize (Hf p). lia.
  - specialize (Hf p). lia.
  - destruct e as [q|]; [specialize (Hf q)|]; lia.
  - idtac. specialize (IH n). destruct e; lia.
Qed.

(* partition pass: what sits in the array plus what is condemned is a sub-collection of the pods *)
Lemma place_sum f cnt slots : (forall q, 0 <= f q) -> forall pods arr,
  sumo f (fold_left (place cnt slots) pods arr) + sumf f (filter (fun p => is_condemned cnt slots (getOrdinal p)) pods)
  <= sumo f arr + sumf f pods.
Proof.
  intros Hf. induction pods as [|p t IH]; intros arr; cbn [fold_left filter sumf ]; [lia|]. idtac.
  specialize (IH (place cnt slots arr p)). unfold place in *.
  destruct (in_range cnt slots (getOrdinal p)) eqn:R.
  - assert (is_condemned cnt slots (getOrdinal p) = false) by (unfold is_condemned; rewrite R; reflexivity).
    rewrite H. pose proof (sumo_set_nth f p Hf arr (Z.to_nat (getOrdinal p))). lia.
  - destruct (is_condemned cnt slots (getOrdinal p)); cbn [sumf]; idtac;
      specialize (Hf p); lia.
Qed.
Lemma sumo_repeat_none f n : sumo f (repeat None n) = 0.
Proof. induction n; cbn [repeat sumo ]; auto. Qed.

(* filling vacancies adds only fresh pods *)
Lemma sumo_fill f s cur upd slots : (forall i, f (new_versioned_pod s cur upd i) = 0) ->
  forall arr o, sumo f (fill s cur upd slots o arr) = sumo f arr.
Proof.
  intros Hf. induction arr as [|e t IH]; intros o; cbn [fill sumo ]; [reflexivity|].
  idtac. rewrite IH.
  destruct e as [p|]; [reflexivity|]. destruct (memb o slots); [reflexivity | rewrite Hf; lia].
Qed.

(* ---------------------------------------------------------------- the counting functions ---------- *)
Definition counted (p : pod) : bool := isCreated p && negb (isTerminating p).
Definition cc (r : rinfo) (p : pod) : Z := b2z (counted p && rev_is p r).
Definition kap (p : pod) : Z := b2z (isCreated p).
Definition rr (p : pod) : Z := b2z (isRunningAndReady p).
Definition rv (r : rinfo) (p : pod) : Z := b2z (rev_is p r).
(* what an entry of the array is worth after the replica loop handled it *)
Definition ww (r : rinfo) (q : pod) : Z := if isCreated q then cc r q else rv r q.

Lemma b2z_range b : 0 <= b2z b <= 1. Proof. destruct b; cbn; lia. Qed.
Lemma cc_range r p : 0 <= cc r p <= kap p.
Proof. unfold cc, kap, counted. destruct (isCreated p), (isTerminating p), (rev_is p r); cbn; lia. Qed.
Lemma cc_fresh s cur upd i r : cc r (new_versioned_pod s cur upd i) = 0 /\ kap (new_versioned_pod s cur upd i) = 0
                                 /\ rr (new_versioned_pod s cur upd i) = 0.
Proof. destruct (nvp_fresh s cur upd i) as (C & _ & _ & _ & R). unfold cc, kap, rr, counted. rewrite C, R. repeat split. Qed.

(* the census *)
Lemma census_sums cur upd : forall pods st,
  let st' := fold_left (census1 cur upd) pods st in
  st_replicas st' = st_replicas st + Z.of_nat (length pods)
  /\ st_ready st' = st_ready st + sumf rr pods
  /\ st_current st' = st_current st + sumf (cc cur) pods
  /\ st_updated st' = st_updated st + sumf (cc upd) pods.
Proof.
  induction pods as [|p t IH]; intros st; cbn [fold_left]; [cbn; repeat split; lia|].
  destruct (IH (census1 cur upd st p)) as (H1 & H2 & H3 & H4). cbn zeta. rewrite H1, H2, H3, H4.
  cbn [census1 st_replicas st_ready st_current st_updated length sumf ].
  idtac. unfold rr, cc, counted. rewrite Nat2Z.inj_succ. repeat split; lia.
Qed.

(* ---------------------------------------------------------------- the replica loop ------------------ *)
Lemma failed_created p : (isFailed p || isSucceeded p) = true -> isCreated p = true.
Proof.
  unfold isFailed, isSucceeded, isCreated. intros H. apply orb_true_iff in H.
  destruct H as [H|H]; apply String.eqb_eq in H; rewrite H; reflexivity.
Qed.

Definition numsome (l : list (option pod)) : Z := sumo (fun _ => 1) l.

(* one step: exact effect on the counters, in terms of what the entry was worth before (cc, kap) and is worth after (ww) *)
Lemma rstep_counts s cur upd mono i p0 st a st' go p :
  rstep s cur upd mono i p0 st = (a, st', go, p) ->
  st_ready st' = st_ready st
  /\ st_replicas st' = st_replicas st + 1 - kap p0
  /\ st_current st' = st_current st - cc cur p0 + ww cur p
  /\ st_updated st' = st_updated st - cc upd p0 + ww upd p.
Proof.
  unfold rstep. destruct (isFailed p0 || isSucceeded p0) eqn:F.
  - pose proof (failed_created p0 F) as C. intros H. inversion H; subst. clear H.
    destruct (nvp_fresh s cur upd i) as (Cf & _).
    unfold ww, cc, kap, counted, rv. rewrite C, Cf.
    destruct (isTerminating p0); cbn [negb andb st_add st_ready st_replicas st_current st_updated b2z]; repeat split; lia.
  - destruct (isCreated p0) eqn:C; cbn [negb].
    + assert (Hsame : forall x, x = (a, st', go, p) -> x = (fst (fst (fst x)), st, snd (fst x), p0) -> st' = st /\ p = p0).
      { intros x E1 E2. rewrite E1 in E2. inversion E2; subst. split; reflexivity. }
      intros H.
      assert (Heq : st' = st /\ p = p0).
      { destruct (isTerminating p0 && mono); [inversion H; subst; split; reflexivity|].
        destruct (negb (isRunningAndReady p0) && mono); [inversion H; subst; split; reflexivity|].
        destruct (identityMatches s p0 && storageMatches s p0); inversion H; subst; split; reflexivity. }
      destruct Heq as [-> ->]. unfold ww, kap. rewrite C. cbn [b2z]. repeat split; lia.
    + intros H. inversion H; subst. clear H. unfold ww, cc, kap, counted, rv. rewrite C.
      cbn [andb st_add st_ready st_replicas st_current st_updated b2z]. repeat split; lia.
Qed.

Lemma ww_range r q : 0 <= ww r q <= 1.
Proof. unfold ww, cc, rv. destruct (isCreated q); apply b2z_range. Qed.

Ltac csplit := repeat match goal with |- _ /\ _ => split end.

(* the whole loop *)
Lemma rloop_counts s cur upd mono : forall l i st a st' go arr,
  rloop s cur upd mono i l st = (a, st', go, arr) ->
  st_ready st' = st_ready st
  /\ st_replicas st <= st_replicas st'
  (* lower bounds *)
  /\ st_current st - sumo (cc cur) l <= st_current st' /\ st_updated st - sumo (cc upd) l <= st_updated st'
  (* upper bounds *)
  /\ st_current st' - st_replicas st' <= st_current st - st_replicas st + sumo (fun p => kap p - cc cur p) l
  /\ st_updated st' - st_replicas st' <= st_updated st - st_replicas st + sumo (fun p => kap p - cc upd p) l
  (* exact when the loop went through *)
  /\ (go = true -> st_current st' = st_current st - sumo (cc cur) l + sumo (ww cur) arr
                  /\ st_updated st' = st_updated st - sumo (cc upd) l + sumo (ww upd) arr).
Proof.
  induction l as [|[p0|] t IH]; intros i st a st' go arr H; cbn [rloop] in H.
  - inversion H; subst. cbn [sumo]. csplit; try lia.
  - destruct (rstep s cur upd mono i p0 st) as [[[a1 st1] go1] p] eqn:E.
    destruct (rstep_counts _ _ _ _ _ _ _ _ _ _ _ E) as (R1 & R2 & R3 & R4).
    pose proof (cc_range cur p0) as Hc. pose proof (cc_range upd p0) as Hu.
    pose proof (ww_range cur p) as Wc. pose proof (ww_range upd p) as Wu.
    assert (Hk : 0 <= kap p0 <= 1) by (unfold kap; apply b2z_range).
    pose proof (sumo_nonneg (cc cur) t (fun q => proj1 (cc_range cur q))) as Sc.
    pose proof (sumo_nonneg (cc upd) t (fun q => proj1 (cc_range upd q))) as Su.
    assert (Skc : 0 <= sumo (fun q => kap q - cc cur q) t) by (apply sumo_nonneg; intros q; pose proof (cc_range cur q); lia).
    assert (Sku : 0 <= sumo (fun q => kap q - cc upd q) t) by (apply sumo_nonneg; intros q; pose proof (cc_range upd q); lia).
    destruct go1.
    + destruct (rloop s cur upd mono (i + 1) t st1) as [[[a2 st2] go2] arr2] eqn:E2.
      destruct (IH _ _ _ _ _ _ E2) as (I1 & I2 & I3 & I4 & I5 & I6 & I7). inversion H; subst. clear H.
      cbn [sumo]. csplit; try lia.
      intros Hg. destruct (I7 Hg) as [J1 J2]. split; lia.
    + inversion H; subst. clear H. cbn [sumo]. csplit; try lia; intros Hg; discriminate.
  - destruct (rloop s cur upd mono (i + 1) t st) as [[[a2 st2] go2] arr2] eqn:E2.
    destruct (IH _ _ _ _ _ _ E2) as (I1 & I2 & I3 & I4 & I5 & I6 & I7). inversion H; subst. clear H.
    cbn [sumo]. csplit; try lia; intros Hg; destruct (I7 Hg) as [J1 J2]; split; lia.
Qed.

(* ---------------------------------------------------------------- condemned and update loops ------- *)
Definition dd (r : rinfo) (p : pod) : Z := b2z (negb (isTerminating p) && rev_is p r).

Lemma cloop_counts cur upd mono fu : forall l st a st' go,
  cloop cur upd mono fu l st = (a, st', go) ->
  st_ready st' = st_ready st /\ st_replicas st' = st_replicas st
  /\ st_current st - sumf (dd cur) l <= st_current st' <= st_current st
  /\ st_updated st - sumf (dd upd) l <= st_updated st' <= st_updated st.
Proof.
  induction l as [|p t IH]; intros st a st' go H; cbn [cloop] in H.
  - inversion H; subst. cbn [sumf]. repeat split; lia.
  - pose proof (sumf_nonneg (dd cur) t (fun q => proj1 (b2z_range _))) as Sc.
    pose proof (sumf_nonneg (dd upd) t (fun q => proj1 (b2z_range _))) as Su.
    assert (Dc : 0 <= dd cur p <= 1) by apply b2z_range. assert (Du : 0 <= dd upd p <= 1) by apply b2z_range.
    cbn [sumf]. destruct (isTerminating p) eqn:T.
    + destruct mono; [inversion H; subst; repeat split; lia|].
      destruct (IH _ _ _ _ H) as (I1 & I2 & I3 & I4). repeat split; lia.
    + destruct (negb (isRunningAndReady p) && mono && negb (same_pod p fu)); [inversion H; subst; repeat split; lia|].
      assert (Ec : dd cur p = b2z (rev_is p cur)) by (unfold dd; rewrite T; reflexivity).
      assert (Eu : dd upd p = b2z (rev_is p upd)) by (unfold dd; rewrite T; reflexivity).
      destruct mono.
      * inversion H; subst. cbn [st_add st_ready st_replicas st_current st_updated]. repeat split; lia.
      * destruct (cloop cur upd false fu t _) as [[a2 st2] go2] eqn:E2. inversion H; subst.
        destruct (IH _ _ _ _ E2) as (I1 & I2 & I3 & I4). cbn [st_add st_ready st_replicas st_current st_updated] in *.
        repeat split; lia.
Qed.

Lemma uloop_counts cur upd umin : forall l i st a st',
  uloop cur upd umin i l st = (a, st') ->
  st_ready st' = st_ready st /\ st_replicas st' = st_replicas st /\ st_updated st' = st_updated st
  /\ (st_current st' = st_current st
      \/ exists q, In (Some q) l /\ isTerminating q = false /\ st_current st' = st_current st - rv cur q).
Proof.
  induction l as [|e t IH]; intros i st a st' H; cbn [uloop] in H.
  - inversion H; subst. repeat split; auto.
  - destruct (i <? umin); [inversion H; subst; repeat split; auto|].
    destruct e as [p|].
    + destruct (negb (rev_is p upd) && negb (isTerminating p)) eqn:D.
      * inversion H; subst. apply andb_true_iff in D. destruct D as [_ D]. apply negb_true_iff in D.
        cbn [st_add st_ready st_replicas st_current st_updated]. repeat split; try lia.
        right. exists p. split; [left; reflexivity|]. split; [exact D|]. unfold rv. lia.
      * destruct (negb (isHealthy p)); [inversion H; subst; repeat split; auto|].
        destruct (IH _ _ _ _ H) as (I1 & I2 & I3 & I4). repeat split; auto.
        destruct I4 as [I4|(q & Hq & Tq & Eq)]; [left; exact I4 | right; exists q; split; [right; exact Hq | split; assumption]].
    + destruct (IH _ _ _ _ H) as (I1 & I2 & I3 & I4). repeat split; auto.
      destruct I4 as [I4|(q & Hq & Tq & Eq)]; [left; exact I4 | right; exists q; split; [right; exact Hq | split; assumption]].
Qed.

(* ---------------------------------------------------------------- the whole plan ------------------- *)
Definition counters_ok (st : status) : Prop :=
  0 <= st_ready st <= st_replicas st /\ 0 <= st_current st <= st_replicas st /\ 0 <= st_updated st <= st_replicas st.

Lemma sumf_le_in f g l : (forall p, In p l -> f p <= g p) -> sumf f l <= sumf g l.
Proof.
  induction l as [|x t IH]; intros H; cbn [sumf]; [lia|].
  pose proof (H x (or_introl eq_refl)). assert (sumf f t <= sumf g t) by (apply IH; intros p Hp; apply H; right; exact Hp). lia.
Qed.
Lemma sumf_le_len f l : (forall p, f p <= 1) -> sumf f l <= Z.of_nat (length l).
Proof. intros H. induction l as [|x t IH]; cbn [sumf length]; [lia|]. specialize (H x). lia. Qed.
Lemma sumf_plus f g l : sumf (fun p => f p + g p) l = sumf f l + sumf g l.
Proof. induction l as [|x t IH]; cbn [sumf]; [lia|]. rewrite IH. lia. Qed.
Lemma sumo_member f l q : (forall p, 0 <= f p) -> In (Some q) l -> f q <= sumo f l.
Proof.
  intros Hf. induction l as [|e t IH]; intros Hin; [destruct Hin|].
  pose proof (sumo_nonneg f t Hf) as St. destruct Hin as [->|Hin]; cbn [sumo].
  - lia.
  - specialize (IH Hin). destruct e as [x|]; [specialize (Hf x)|]; lia.
Qed.
Lemma ww_not_terminating r q : isTerminating q = false -> ww r q = rv r q.
Proof. intros T. unfold ww, cc, counted, rv. rewrite T. destruct (isCreated q); reflexivity. Qed.
Lemma dd_created r p : isCreated p = true -> dd r p = cc r p.
Proof. intros C. unfold dd, cc, counted. rewrite C. reflexivity. Qed.

(* C12 (i), planner level: for EVERY set, revisions and list of pods (several revisions in flight, terminating,
   failed, condemned, duplicate and out-of-range ordinals included) the status the pod phase computes is
   within bounds.  The only hypothesis is the API server's own guarantee that a stored pod has a phase
   (it defaults status.phase to Pending on create): the condemned loop takes a condemned pod out of the
   revision counters without asking whether the census counted it. *)
Theorem plan_counters s cur upd coll pods po :
  plan_pods s cur upd coll pods = Some po ->
  (forall p, In p pods -> isCreated p = true) ->
  counters_ok (po_status po).
Proof.
  unfold plan_pods. destruct (s_replicas s) as [r|]; [|discriminate].
  destruct (extend r (get_slots (s_slots s))) as [cnt slots]. destruct (cnt <? 0); [discriminate|].
  set (F := filter (fun p => is_condemned cnt slots (getOrdinal p)) pods).
  set (arr0 := fold_left (place cnt slots) pods (repeat None (Z.to_nat cnt))).
  set (st0 := fold_left (census1 cur upd) pods (init_status s cur upd coll)).
  set (replicas := fill s cur upd slots 0 arr0).
  intros H Hcr.
  (* the census *)
  destruct (census_sums cur upd pods (init_status s cur upd coll)) as (N1 & N2 & N3 & N4).
  fold st0 in N1, N2, N3, N4. cbn [init_status st_replicas st_ready st_current st_updated] in N1, N2, N3, N4.
  pose proof (sumf_nonneg rr pods (fun q => proj1 (b2z_range _))) as Rr0.
  pose proof (sumf_le_len rr pods (fun q => proj2 (b2z_range _))) as Rr1.
  assert (PL : forall rx, sumo (cc rx) arr0 + sumf (cc rx) F <= sumf (cc rx) pods).
  { intros rx. pose proof (place_sum (cc rx) cnt slots (fun q => proj1 (cc_range rx q)) pods (repeat None (Z.to_nat cnt))) as Hp.
    rewrite sumo_repeat_none in Hp. exact Hp. }
  assert (PK : forall rx, sumo (fun p => kap p - cc rx p) arr0 + sumf (cc rx) pods <= Z.of_nat (length pods)).
  { intros rx. pose proof (place_sum (fun p => kap p - cc rx p) cnt slots) as Hp.
    specialize (Hp (fun q => ltac:(pose proof (cc_range rx q); lia)) pods (repeat None (Z.to_nat cnt))).
    rewrite sumo_repeat_none in Hp. fold arr0 F in Hp.
    assert (0 <= sumf (fun p => kap p - cc rx p) F) by (apply sumf_nonneg; intros q; pose proof (cc_range rx q); lia).
    pose proof (sumf_plus (fun p => kap p - cc rx p) (cc rx) pods) as Hs. cbv beta in Hs.
    assert (Hk : sumf (fun p => kap p - cc rx p + cc rx p) pods <= Z.of_nat (length pods)).
    { apply sumf_le_len. intros q. pose proof (b2z_range (isCreated q)). unfold kap. lia. }
    lia. }
  assert (FC : forall rx, sumo (cc rx) replicas = sumo (cc rx) arr0).
  { intros rx. apply sumo_fill. intros i. apply (cc_fresh s cur upd i rx). }
  assert (FK : forall rx, sumo (fun p => kap p - cc rx p) replicas = sumo (fun p => kap p - cc rx p) arr0).
  { intros rx. apply sumo_fill. intros i. destruct (cc_fresh s cur upd i rx) as (A & B & _). lia. }
  assert (Fnn : forall rx, 0 <= sumf (cc rx) F) by (intros rx; apply sumf_nonneg; intros q; apply cc_range).
  assert (Ann : forall rx, 0 <= sumo (cc rx) arr0) by (intros rx; apply sumo_nonneg; intros q; apply cc_range).
  assert (Knn : forall rx, 0 <= sumo (fun p => kap p - cc rx p) arr0).
  { intros rx. apply sumo_nonneg. intros q. pose proof (cc_range rx q). lia. }
  pose proof (PL cur) as PLc. pose proof (PL upd) as PLu. pose proof (PK cur) as PKc. pose proof (PK upd) as PKu.
  pose proof (Fnn cur) as Fc. pose proof (Fnn upd) as Fu. pose proof (Ann cur) as Ac. pose proof (Ann upd) as Au.
  pose proof (Knn cur) as Kc. pose proof (Knn upd) as Ku.
  assert (OK0 : counters_ok st0) by (unfold counters_ok; lia).
  destruct (s_deleting s); [inversion H; subst; exact OK0|].
  (* the replica loop *)
  destruct (rloop s cur upd (negb (allowsBurst s)) 0 replicas st0) as [[[a1 st1] go1] replicas'] eqn:E1.
  destruct (rloop_counts _ _ _ _ _ _ _ _ _ _ _ E1) as (L1 & L2 & L3 & L4 & L5 & L6 & L7).
  rewrite (FC cur) in L3. rewrite (FC upd) in L4. rewrite (FK cur) in L5. rewrite (FK upd) in L6.
  assert (OK1 : counters_ok st1) by (unfold counters_ok; lia).
  destruct go1; cbn [negb] in H; [|inversion H; subst; exact OK1].
  destruct (L7 eq_refl) as [X1 X2]. rewrite (FC cur) in X1. rewrite (FC upd) in X2.
  pose proof (sumo_nonneg (ww cur) replicas' (fun q => proj1 (ww_range cur q))) as Wc.
  pose proof (sumo_nonneg (ww upd) replicas' (fun q => proj1 (ww_range upd q))) as Wu.
  (* the condemned loop *)
  destruct (cloop cur upd (negb (allowsBurst s)) (first_unhealthy replicas (sort_asc F)) (List.rev (sort_asc F)) st1)
    as [[a2 st2] go2] eqn:E2.
  destruct (cloop_counts _ _ _ _ _ _ _ _ _ E2) as (M1 & M2 & M3 & M4).
  rewrite sumf_rev, sumf_sort_asc in M3, M4.
  assert (DF : forall rx, sumf (dd rx) F <= sumf (cc rx) F).
  { intros rx. apply sumf_le_in. intros p Hp. apply filter_In in Hp. destruct Hp as [Hp _].
    rewrite (dd_created rx p (Hcr p Hp)). lia. }
  pose proof (DF cur) as DFc. pose proof (DF upd) as DFu.
  assert (OK2 : counters_ok st2 /\ sumo (ww cur) replicas' <= st_current st2) by (unfold counters_ok; split; lia).
  destruct OK2 as [OK2 W2].
  destruct go2; cbn [negb] in H; [|inversion H; subst; exact OK2].
  destruct (String.eqb (s_strategy s) "OnDelete"); [inversion H; subst; exact OK2|].
  (* the update loop *)
  match type of H with context [uloop cur upd ?um ?i0 ?l0 st2] => destruct (uloop cur upd um i0 l0 st2) as [a3 st3] eqn:E3 end.
  destruct (uloop_counts _ _ _ _ _ _ _ _ E3) as (U1 & U2 & U3 & U4).
  inversion H; subst. cbn [po_status]. unfold counters_ok in *.
  destruct U4 as [U4|(q & Hq & Tq & Eq)]; [lia|].
  apply in_rev in Hq. pose proof (sumo_member (ww cur) replicas' q (fun x => proj1 (ww_range cur x)) Hq) as Hm.
  rewrite (ww_not_terminating cur q Tq) in Hm. pose proof (b2z_range (rev_is q cur)). unfold rv in *. lia.
Qed.

(* completeRollingUpdate keeps the bounds (current := updated) *)
Lemma complete_counters s st : counters_ok st -> counters_ok (complete_rolling_update s st).
Proof.
  unfold complete_rolling_update, counters_ok.
  destruct (String.eqb (s_strategy s) "RollingUpdate" && (st_updated st =? st_replicas st) && (st_ready st =? st_replicas st));
    cbn [st_ready st_replicas st_current st_updated]; lia.
Qed.

(* ---------------------------------------------------------------- every status write ---------------- *)
From ASTS Require Import MonadProofs ReconcileProofs StatusProofs.

(* C12 (i): for every API state, informer cache (stale or not) and fault oracle, every status the reconcile
   writes has 0 <= ready, current, updated <= replicas — provided the cached pods have a phase. *)
Theorem status_write_counters hashes api cache faults o log w' st rv e :
  reconcile hashes api cache faults = (o, log, w') ->
  (forall p, In p (w_pods cache) -> isCreated p = true) ->
  In (CUpdateStatus st rv, e) log -> counters_ok st.
Proof.
  intros Hr Hph Hin. destruct (reconcile_ctx hashes _ _ _ _ _ _ Hr) as (oc & Hv & F).
  rewrite Forall_forall in F. specialize (F _ Hin). cbn in F.
  destruct F as (s & cur & upd & coll & claimed & po & -> & Hst & Hrv).
  specialize (Hv _ eq_refl). destruct Hv as (_ & Hc & Hp). subst st.
  apply complete_counters. apply (plan_counters _ _ _ _ _ _ Hp).
  intros p Hp'. apply Hph. apply (Hc p Hp').
Qed.

(* ---------------------------------------------------------------- the census at a fixed point ------- *)
Lemma rstep_quiet s cur upd mono i p0 st st' go p : rstep s cur upd mono i p0 st = ([], st', go, p) -> st' = st.
Proof.
  unfold rstep. destruct (isFailed p0 || isSucceeded p0); [discriminate|].
  destruct (negb (isCreated p0)); [discriminate|].
  destruct (isTerminating p0 && mono); [intros H; inversion H; reflexivity|].
  destruct (negb (isRunningAndReady p0) && mono); [intros H; inversion H; reflexivity|].
  destruct (identityMatches s p0 && storageMatches s p0); intros H; inversion H; reflexivity.
Qed.
Lemma rloop_quiet s cur upd mono : forall l i st st' go arr, rloop s cur upd mono i l st = ([], st', go, arr) -> st' = st.
Proof.
  induction l as [|[p0|] t IH]; intros i st st' go arr H; cbn [rloop] in H.
  - inversion H; reflexivity.
  - destruct (rstep s cur upd mono i p0 st) as [[[a1 st1] go1] p] eqn:E. destruct go1.
    + destruct (rloop s cur upd mono (i + 1) t st1) as [[[a2 st2] go2] arr2] eqn:E2. inversion H; subst.
      match goal with Ha : a1 ++ a2 = [] |- _ => apply app_eq_nil in Ha; destruct Ha as [-> ->] end.
      rewrite (IH _ _ _ _ _ E2). apply (rstep_quiet _ _ _ _ _ _ _ _ _ _ E).
    + inversion H; subst. apply (rstep_quiet _ _ _ _ _ _ _ _ _ _ E).
  - destruct (rloop s cur upd mono (i + 1) t st) as [[[a2 st2] go2] arr2] eqn:E2. inversion H; subst. apply (IH _ _ _ _ _ E2).
Qed.
Lemma cloop_quiet cur upd mono fu : forall l st st' go, cloop cur upd mono fu l st = ([], st', go) -> st' = st.
Proof.
  induction l as [|p t IH]; intros st st' go H; cbn [cloop] in H; [inversion H; reflexivity|].
  destruct (isTerminating p).
  - destruct mono; [inversion H; reflexivity | apply (IH _ _ _ H)].
  - destruct (negb (isRunningAndReady p) && mono && negb (same_pod p fu)); [inversion H; reflexivity|].
    destruct mono; [discriminate|]. destruct (cloop cur upd false fu t _) as [[a2 st2] go2]. discriminate.
Qed.
Lemma uloop_quiet cur upd umin : forall l i st st', uloop cur upd umin i l st = ([], st') -> st' = st.
Proof.
  induction l as [|e t IH]; intros i st st' H; cbn [uloop] in H; [inversion H; reflexivity|].
  destruct (i <? umin); [inversion H; reflexivity|]. destruct e as [p|]; [|apply (IH _ _ _ H)].
  destruct (negb (rev_is p upd) && negb (isTerminating p)); [discriminate|].
  destruct (negb (isHealthy p)); [inversion H; reflexivity | apply (IH _ _ _ H)].
Qed.

(* C12 (iii), planner level: a plan without actions reports exactly the census of the pods it was given:
   total, Running-and-Ready, counted (created, not terminating) at the current and at the update revision *)
Theorem plan_census s cur upd coll pods po :
  plan_pods s cur upd coll pods = Some po -> po_acts po = [] ->
  st_replicas (po_status po) = Z.of_nat (length pods)
  /\ st_ready (po_status po) = sumf rr pods
  /\ st_current (po_status po) = sumf (cc cur) pods
  /\ st_updated (po_status po) = sumf (cc upd) pods.
Proof.
  intros H Ha.
  assert (E : po_status po = fold_left (census1 cur upd) pods (init_status s cur upd coll)).
  { revert H Ha. unfold plan_pods. destruct (s_replicas s) as [r|]; [|discriminate].
    destruct (extend r (get_slots (s_slots s))) as [cnt slots]. destruct (cnt <? 0); [discriminate|].
    destruct (s_deleting s); [intros H; inversion H; reflexivity|].
    match goal with |- context [rloop s cur upd ?m 0 ?l ?st0] => destruct (rloop s cur upd m 0 l st0) as [[[a1 st1] go1] replicas'] eqn:E1 end.
    destruct go1; cbn [negb].
    2:{ intros H Ha. inversion H; subst. cbn [po_acts po_status] in *. subst a1. apply (rloop_quiet _ _ _ _ _ _ _ _ _ _ E1). }
    match goal with |- context [cloop cur upd ?m ?fu ?l st1] => destruct (cloop cur upd m fu l st1) as [[a2 st2] go2] eqn:E2 end.
    assert (Q2 : a1 ++ a2 = [] -> st2 = fold_left (census1 cur upd) pods (init_status s cur upd coll)).
    { intros Hn. apply app_eq_nil in Hn. destruct Hn as [-> ->].
      rewrite (cloop_quiet _ _ _ _ _ _ _ _ E2). apply (rloop_quiet _ _ _ _ _ _ _ _ _ _ E1). }
    destruct go2; cbn [negb]; [|intros H Ha; inversion H; subst; apply Q2; exact Ha].
    destruct (String.eqb (s_strategy s) "OnDelete"); [intros H Ha; inversion H; subst; apply Q2; exact Ha|].
    match goal with |- context [uloop cur upd ?um ?i0 ?l0 st2] => destruct (uloop cur upd um i0 l0 st2) as [a3 st3] eqn:E3 end.
    intros H Ha. inversion H; subst. cbn [po_acts po_status] in *.
    apply app_eq_nil in Ha. destruct Ha as [-> Ha]. apply app_eq_nil in Ha. destruct Ha as [-> ->].
    rewrite (uloop_quiet _ _ _ _ _ _ _ E3). apply Q2. reflexivity. }
  rewrite E. destruct (census_sums cur upd pods (init_status s cur upd coll)) as (N1 & N2 & N3 & N4).
  cbn [init_status st_replicas st_ready st_current st_updated] in N1, N2, N3, N4.
  repeat split; lia.
Qed.

(* lifted: a reconcile whose plan holds no action writes (if it writes) the census of the pods it claimed *)
Theorem status_write_census hashes api cache faults o log w' st rv e :
  reconcile hashes api cache faults = (o, log, w') -> In (CUpdateStatus st rv, e) log ->
  exists s cur upd coll claimed po,
    ctx_valid cache (s, cur, upd, coll, claimed, po)
    /\ (po_acts po = [] ->
        st_replicas st = Z.of_nat (length claimed) /\ st_ready st = sumf rr claimed
        /\ st_updated st = sumf (cc upd) claimed
        /\ (st_current st = sumf (cc cur) claimed
            \/ (st_currev st = ri_name upd /\ st_updated st = st_replicas st /\ st_ready st = st_replicas st
                /\ st_current st = sumf (cc upd) claimed))).
Proof.
  intros Hr Hin. destruct (reconcile_ctx hashes _ _ _ _ _ _ Hr) as (oc & Hv & F).
  rewrite Forall_forall in F. specialize (F _ Hin). cbn in F.
  destruct F as (s & cur & upd & coll & claimed & po & -> & Hst & Hrv).
  specialize (Hv _ eq_refl). exists s, cur, upd, coll, claimed, po. split; [exact Hv|].
  destruct Hv as (_ & _ & Hp). intros Ha. destruct (plan_census _ _ _ _ _ _ Hp Ha) as (N1 & N2 & N3 & N4).
  destruct (StatusProofs.plan_status_meta _ _ _ _ _ _ Hp) as (M1 & M2 & M3 & M4).
  subst st. unfold complete_rolling_update.
  destruct (String.eqb (s_strategy s) "RollingUpdate" && (st_updated (po_status po) =? st_replicas (po_status po))
            && (st_ready (po_status po) =? st_replicas (po_status po))) eqn:E;
    cbn [st_replicas st_ready st_current st_updated st_currev].
  - apply andb_true_iff in E. destruct E as [E E3]. apply andb_true_iff in E. destruct E as [E1 E2].
    apply Z.eqb_eq in E2. apply Z.eqb_eq in E3.
    split; [exact N1|]. split; [exact N2|]. split; [exact N4|]. right. repeat split; auto; lia.
  - split; [exact N1|]. split; [exact N2|]. split; [exact N4|]. left. exact N3.
Qed.
