(* Queue.v — the rate-limiting work queue of client-go (k8s.io/client-go/util/workqueue: Type,
   delayingType, rateLimitingType with DefaultControllerRateLimiter) as its documented CONTRACT,
   and processNextWorkItem of pkg/controller/statefulset/stateful_set.go on top of it.
   Definitions only; proofs in QueueProofs.v, statements in C16.v.

   MODELLED, NOT VERIFIED: the queue is library code; this file states what the controller relies
   on, and the `worker` correspondence run of the C16 check compares it with the real queue on
   every run.
     state      queue (FIFO order), dirty set, processing set, per-key failure count
     Add k      no-op if k is dirty; otherwise k becomes dirty and, unless it is being processed,
                is appended to the queue
     Get        head of the queue; it leaves the queue and the dirty set and enters processing
                (on an empty queue the real Get blocks: modelled as None, no step)
     Done k     k leaves processing; if it was marked dirty meanwhile it is appended to the queue
     AddRateLimited k   failures(k)+1 and Add k.  SIMPLIFICATION: the real queue performs the Add
                after the backoff delay 5ms*2^failures (max 1000s; a 10/s bucket on top); the
                model re-adds at once.  Nothing in the property depends on the delay being
                positive, only on the re-add happening.
     Forget k   failures(k) := 0
     NumRequeues k = failures(k)
   ShutDown is not modelled (processNextWorkItem then returns false without touching anything). *)
From ASTS Require Import Base Handlers.

Record wq := { q_queue : list key; q_dirty : list key; q_processing : list key;
               q_failures : list (key * nat) }.
Definition q_empty : wq := {| q_queue := []; q_dirty := []; q_processing := []; q_failures := [] |}.

Definition set_insert (k : key) (s : list key) : list key := if str_mem k s then s else k :: s.
Definition set_delete (k : key) (s : list key) : list key := filter (fun x => negb (String.eqb k x)) s.

Fixpoint fail_get (k : key) (f : list (key * nat)) : nat :=
  match f with
  | [] => O
  | (k', n) :: t => if String.eqb k k' then n else fail_get k t
  end.
Definition fail_del (k : key) (f : list (key * nat)) : list (key * nat) :=
  filter (fun kv => negb (String.eqb k (fst kv))) f.
Definition fail_incr (k : key) (f : list (key * nat)) : list (key * nat) :=
  (k, S (fail_get k f)) :: fail_del k f.

Definition q_add (k : key) (q : wq) : wq :=
  if str_mem k (q_dirty q) then q
  else if str_mem k (q_processing q)
       then {| q_queue := q_queue q; q_dirty := set_insert k (q_dirty q);
               q_processing := q_processing q; q_failures := q_failures q |}
       else {| q_queue := q_queue q ++ [k]; q_dirty := set_insert k (q_dirty q);
               q_processing := q_processing q; q_failures := q_failures q |}.

Definition q_get (q : wq) : option (key * wq) :=
  match q_queue q with
  | [] => None
  | k :: t => Some (k, {| q_queue := t; q_dirty := set_delete k (q_dirty q);
                          q_processing := set_insert k (q_processing q); q_failures := q_failures q |})
  end.

Definition q_done (k : key) (q : wq) : wq :=
  let proc := set_delete k (q_processing q) in
  if str_mem k (q_dirty q)
  then {| q_queue := q_queue q ++ [k]; q_dirty := q_dirty q; q_processing := proc; q_failures := q_failures q |}
  else {| q_queue := q_queue q; q_dirty := q_dirty q; q_processing := proc; q_failures := q_failures q |}.

Definition q_num_requeues (k : key) (q : wq) : nat := fail_get k (q_failures q).

Definition q_forget (k : key) (q : wq) : wq :=
  {| q_queue := q_queue q; q_dirty := q_dirty q; q_processing := q_processing q;
     q_failures := fail_del k (q_failures q) |}.

Definition q_add_rate_limited (k : key) (q : wq) : wq :=
  q_add k {| q_queue := q_queue q; q_dirty := q_dirty q; q_processing := q_processing q;
             q_failures := fail_incr k (q_failures q) |}.

(* processNextWorkItem; sync k = true iff ssc.sync(key) returned nil.
     key, quit := queue.Get(); defer queue.Done(key)
     if err := sync(key); err != nil  then queue.AddRateLimited(key)  else queue.Forget(key)
   None = Get blocks (empty queue). *)
Definition process_next (sync : key -> bool) (q : wq) : option wq :=
  match q_get q with
  | None => None
  | Some (k, q1) =>
      let q2 := if sync k then q_forget k q1 else q_add_rate_limited k q1 in
      Some (q_done k q2)
  end.

(* ---------- a worker run on one key -------------------------------------------------------- *)
(* one reconcile of k with the given outcome.  An informer event re-enqueues the key first
   (no effect when the key is waiting in the queue already, as after a failure). *)
Definition step (k : key) (ok : bool) (q : wq) : wq :=
  let q0 := q_add k q in
  match process_next (fun _ => ok) q0 with
  | Some q' => q'
  | None => q0
  end.
Definition run (k : key) (outcomes : list bool) (q : wq) : wq :=
  fold_left (fun q ok => step k ok q) outcomes q.
(* number of failures since the last success *)
Definition trailing_failures (outcomes : list bool) (n0 : nat) : nat :=
  fold_left (fun n (ok : bool) => if ok then O else S n) outcomes n0.

(* well-formed queue states *)
Definition wq_wf (q : wq) : Prop :=
  NoDup (q_queue q) /\ NoDup (q_dirty q) /\ NoDup (q_processing q)
  /\ (forall k, In k (q_queue q) -> In k (q_dirty q))
  /\ (forall k, In k (q_queue q) -> ~ In k (q_processing q))
  /\ (forall k, In k (q_dirty q) -> In k (q_queue q) \/ In k (q_processing q)).

(* ---------- correspondence record ---------------------------------------------------------- *)
(* one step of the harness command `worker`: requested outcome of sync for our key; whether a
   bystander key (whose sync always succeeds) is enqueued behind ours and processed right after.
   Observed after the step (and after the backoff has elapsed): NumRequeues(key), queue length,
   key in the queue again. *)
Record worker_obs := { wo_requeues : Z; wo_len : Z; wo_back : bool }.
Fixpoint worker_model (k other : key) (steps : list (bool * bool)) (q : wq) : list worker_obs :=
  match steps with
  | [] => []
  | (ok, by_) :: t =>
      let sync := fun x => if String.eqb x k then ok else true in
      let q0 := if str_mem k (q_queue q) then q else q_add k q in
      let q1 := if by_ then q_add other q0 else q0 in
      let q2 := match process_next sync q1 with Some q' => q' | None => q1 end in
      let q3 := if by_ then match process_next sync q2 with Some q' => q' | None => q2 end else q2 in
      {| wo_requeues := Z.of_nat (q_num_requeues k q3); wo_len := Z.of_nat (length (q_queue q3));
         wo_back := str_mem k (q_queue q3) |} :: worker_model k other t q3
  end.
Definition worker_obs_eqb (a b : worker_obs) : bool :=
  (wo_requeues a =? wo_requeues b) && (wo_len a =? wo_len b) && Bool.eqb (wo_back a) (wo_back b).
Fixpoint obs_list_eqb (a b : list worker_obs) : bool :=
  match a, b with
  | [], [] => true
  | x :: s, y :: t => worker_obs_eqb x y && obs_list_eqb s t
  | _, _ => false
  end.
Record worker_case := { wc_key : key; wc_other : key; wc_steps : list (bool * bool); wc_obs : list worker_obs }.
Definition worker_check (c : worker_case) : bool :=
  obs_list_eqb (worker_model (wc_key c) (wc_other c) (wc_steps c) (q_add (wc_key c) q_empty)) (wc_obs c).
