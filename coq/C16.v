(* C16 — No lost wake-ups: every relevant event gets the right set reconciled.
   Statements only; every proof is `exact <lemma>` into HandlersProofs.v / QueueProofs.v.

   handle l ev          (Handlers.v)  the keys the real handlers pass to queue.Add, in program order,
                                      for lister contents l and informer event ev
   should_enqueue l ev  (Handlers.v)  the declarative specification, from the text of the property
   lister_wf l          the lister holds at most one set per namespace/name (it is an indexer keyed so)
   owner_resolves l p s (HandlersProofs.v)  s is in l, in p's namespace, and p's controller reference has
                                      kind StatefulSet and the name AND uid of s
   selects s p          s is in p's namespace, p has labels, the selector of s is well formed, non-empty
                                      and matches them
   The queue (Queue.v) is the documented contract of client-go's rate-limiting work queue, validated
   against the real queue by the `worker` correspondence of the check; process_next mirrors
   processNextWorkItem. *)
From ASTS Require Import Base Handlers HandlersProofs Queue QueueProofs.

(* ===== A. handlers = specification, for all event shapes and any number of sets ================ *)

(* (1) no key outside the specification is ever enqueued — no hypothesis at all *)
Theorem C16_nothing_outside_spec : forall l ev k, In k (handle l ev) -> In k (should_enqueue l ev).
Proof. exact handle_sound. Qed.
Print Assumptions C16_nothing_outside_spec.

(* (2) same members, for every event *)
Theorem C16_handlers_meet_spec : forall l ev, lister_wf l ->
  forall k, In k (handle l ev) <-> In k (should_enqueue l ev).
Proof. exact handle_equiv. Qed.
Print Assumptions C16_handlers_meet_spec.

(* (3) a set whose selector cannot be converted (the CRD schema does not validate selectors) is skipped by
   GetPodStatefulSets and hides nobody: sets ns1/a with selector (app In []) and ns1/b with app=b; orphan
   pod ns1/b-0 labelled app=b is added; ns1/b is enqueued.  (Before the repair of the lister this was the
   refuted clause C16_orphan_wakeup_blocked_by_invalid_selector_refuted.) *)
Theorem C16_invalid_selector_hides_nobody : handle bad_lister (EvAdd bad_pod) = ["ns1/b"%string].
Proof. exact invalid_selector_skipped. Qed.
Print Assumptions C16_invalid_selector_hides_nobody.

(* ===== B. the clauses of the property ============================================================ *)

(* (4) creation, update (owner unchanged), deletion, late deletion through a tombstone, and the add of an
   already terminating pod: the result is the set the controller reference resolves to — in the lister
   with that name AND uid, kind StatefulSet — and nothing else; at most one key *)
Theorem C16_controlled_pod_event : forall l p ev, lister_wf l -> p_owner p <> None -> about p ev ->
  forall k, In k (handle l ev) <-> exists s, owner_resolves l p s /\ k = set_key s.
Proof. exact controlled_event. Qed.
Print Assumptions C16_controlled_pod_event.

Theorem C16_controlled_pod_event_one_key : forall l p ev, p_owner p <> None -> about p ev ->
  (length (handle l ev) <= 1)%nat.
Proof. exact handle_about_length. Qed.
Print Assumptions C16_controlled_pod_event_one_key.

(* (5) stale uid, other kind, unknown name: nothing *)
Theorem C16_unresolved_owner_nothing : forall l p ev, p_owner p <> None -> about p ev ->
  (forall s, ~ owner_resolves l p s) -> handle l ev = [].
Proof. exact unresolved_nothing. Qed.
Print Assumptions C16_unresolved_owner_nothing.

(* (6) the controlling owner changes: the old owner's set, then the new owner's set *)
Theorem C16_owner_change_old_and_new : forall l old cur so sc, lister_wf l ->
  String.eqb (p_rv cur) (p_rv old) = false -> owner_opt_eqb (p_owner cur) (p_owner old) = false ->
  owner_resolves l old so -> owner_resolves l cur sc ->
  handle l (EvUpdate old cur) = [set_key so; set_key sc].
Proof. exact owner_change_both. Qed.
Print Assumptions C16_owner_change_old_and_new.

(* (6') in general (either side may be unresolved or absent; a released pod wakes the matching sets) *)
Theorem C16_owner_change_general : forall l old cur, lister_wf l ->
  String.eqb (p_rv cur) (p_rv old) = false -> owner_opt_eqb (p_owner cur) (p_owner old) = false ->
  forall k, In k (handle l (EvUpdate old cur)) <->
            (exists s, owner_resolves l old s /\ k = set_key s)
            \/ (if is_orphan cur then exists s, In s l /\ selects s cur = true /\ k = set_key s
                else exists s, owner_resolves l cur s /\ k = set_key s).
Proof. exact owner_change_general. Qed.
Print Assumptions C16_owner_change_general.

(* (7) an unowned pod appears: exactly the matching sets (in lister order) *)
Theorem C16_orphan_add : forall l p, p_owner p = None -> p_deleting p = false ->
  handle l (EvAdd p) = keys (matching l p).
Proof. exact orphan_add. Qed.
Print Assumptions C16_orphan_add.

(* (8) an unowned pod's labels change: exactly the sets matching the new labels *)
Theorem C16_orphan_update_changed_labels : forall l old cur,
  p_owner old = None -> p_owner cur = None -> String.eqb (p_rv cur) (p_rv old) = false ->
  labels_eqb (p_labels cur) (p_labels old) = false ->
  handle l (EvUpdate old cur) = keys (matching l cur).
Proof. exact orphan_update_labels. Qed.
Print Assumptions C16_orphan_update_changed_labels.

(* what "matching" means *)
Theorem C16_matching_meaning : forall l p s, In s (matching l p) <-> In s l /\ selects s p = true.
Proof. exact matching_In. Qed.
Print Assumptions C16_matching_meaning.

Theorem C16_selects_meaning : forall s p, selects s p = true <->
  s_ns s = p_ns p /\ p_labels p <> [] /\
  exists c, sel_convert (s_sel s) = Some c /\ csel_empty c = false /\ csel_matches c (p_labels p) = true.
Proof. exact selects_spec. Qed.
Print Assumptions C16_selects_meaning.

(* (9) equal resourceVersion: nothing *)
Theorem C16_same_resource_version_nothing : forall l old cur, p_rv cur = p_rv old ->
  handle l (EvUpdate old cur) = [].
Proof. exact same_rv_nothing. Qed.
Print Assumptions C16_same_resource_version_nothing.

(* (10) pods unrelated to any set (not controlled by one, not selected by one) enqueue nothing, whatever
   the event; malformed delete notifications enqueue nothing *)
Theorem C16_unrelated_nothing : forall l ev ps, pods_of ev = Some ps ->
  (forall p, In p ps -> unrelated l p) -> handle l ev = [].
Proof. exact unrelated_nothing. Qed.
Print Assumptions C16_unrelated_nothing.

Theorem C16_malformed_delete_nothing : forall l,
  handle l (EvDeleteTombstone TombNotPod) = [] /\ handle l (EvDeleteTombstone NotTomb) = [].
Proof. exact malformed_delete_nothing. Qed.
Print Assumptions C16_malformed_delete_nothing.

(* (11) any change to a set enqueues it (add, update, delete, delete learned through a tombstone) *)
Theorem C16_set_events : forall l s old k,
  handle l (EvSetAdd s) = [set_key s] /\ handle l (EvSetUpdate old s) = [set_key s]
  /\ handle l (EvSetDelete s) = [set_key s] /\ handle l (EvSetDeleteTombstone k) = [k].
Proof. exact set_events. Qed.
Print Assumptions C16_set_events.

(* (12) a valid tombstone is the delete it stands for; the add of a terminating pod is a delete *)
Theorem C16_tombstone_is_delete : forall l p,
  handle l (EvDeleteTombstone (TombPod p)) = handle l (EvDelete p)
  /\ (p_deleting p = true -> handle l (EvAdd p) = handle l (EvDelete p)).
Proof. exact tombstone_as_delete. Qed.
Print Assumptions C16_tombstone_is_delete.

(* (13) the two reading notes, as facts: an orphan's deletion and an orphan update that changes neither
   labels nor owner enqueue nothing (and the specification does not ask for anything there) *)
Theorem C16_orphan_delete_nothing : forall l p, p_owner p = None ->
  handle l (EvDelete p) = [] /\ handle l (EvDeleteTombstone (TombPod p)) = []
  /\ (p_deleting p = true -> handle l (EvAdd p) = []).
Proof. exact orphan_delete_nothing. Qed.
Print Assumptions C16_orphan_delete_nothing.

Theorem C16_orphan_update_unchanged_nothing : forall l old cur,
  p_owner old = None -> p_owner cur = None -> labels_eqb (p_labels cur) (p_labels old) = true ->
  handle l (EvUpdate old cur) = [].
Proof. exact orphan_update_unchanged_nothing. Qed.
Print Assumptions C16_orphan_update_unchanged_nothing.

(* ===== C. the worker ============================================================================== *)

(* (14) the queue invariant (no duplicates; queued => dirty; queued and processing disjoint; dirty =>
   queued or being processed) is kept by every operation *)
Theorem C16_queue_invariant : wq_wf q_empty
  /\ (forall k q, wq_wf q -> wq_wf (q_add k q))
  /\ (forall q k q', wq_wf q -> q_get q = Some (k, q') -> wq_wf q')
  /\ (forall k q, wq_wf q -> In k (q_processing q) -> wq_wf (q_done k q))
  /\ (forall k q, wq_wf q -> wq_wf (q_forget k q))
  /\ (forall k q, wq_wf q -> wq_wf (q_add_rate_limited k q)).
Proof. exact queue_invariant. Qed.
Print Assumptions C16_queue_invariant.

(* (15) one processNextWorkItem on ANY well-formed queue whose head is k (other keys may be queued,
   dirty or being processed by other workers): Done is always called — k is not left in processing
   and processing is otherwise untouched; a failed reconcile puts k back and counts one more failure;
   a successful one clears the count; other keys are not affected *)
Theorem C16_process_next : forall sync q k t, wq_wf q -> q_queue q = k :: t ->
  exists q', process_next sync q = Some q' /\ wq_wf q'
    /\ q_processing q' = q_processing q /\ ~ In k (q_processing q')
    /\ (sync k = false -> In k (q_queue q') /\ q_num_requeues k q' = S (q_num_requeues k q))
    /\ (sync k = true -> ~ In k (q_queue q') /\ q_num_requeues k q' = O)
    /\ (forall k', k' <> k -> q_num_requeues k' q' = q_num_requeues k' q
                              /\ (In k' (q_queue q') <-> In k' (q_queue q))).
Proof. exact process_next_spec. Qed.
Print Assumptions C16_process_next.

(* (16) every list of outcomes, starting from a queue that contains the key: the state stays well
   formed, nothing is left in processing, NumRequeues = number of failures since the last success *)
Theorem C16_worker_run : forall k outcomes,
  let q := run k outcomes (q_add k q_empty) in
  wq_wf q /\ q_processing q = [] /\ q_num_requeues k q = trailing_failures outcomes O.
Proof. exact worker_run. Qed.
Print Assumptions C16_worker_run.

(* (17) after each failing reconcile the key is queued again with NumRequeues one higher; after each
   successful one NumRequeues is 0 (and the queue is empty until the next event) *)
Theorem C16_worker_each_step : forall k pre ok,
  let q1 := run k pre (q_add k q_empty) in
  let q2 := run k (pre ++ [ok]) (q_add k q_empty) in
  q_processing q2 = []
  /\ (ok = false -> In k (q_queue q2) /\ q_num_requeues k q2 = S (q_num_requeues k q1))
  /\ (ok = true -> q_queue q2 = [] /\ q_num_requeues k q2 = O).
Proof. exact worker_each_step. Qed.
Print Assumptions C16_worker_each_step.

(* (18) handlers + queue: whatever the state of the queue (the key may be being reconciled right now),
   every key a handler enqueues ends up dirty and either queued or in processing — and a key that is
   dirty when its reconcile finishes is queued by Done.  So the wake-up is never dropped. *)
Theorem C16_enqueued_not_lost : forall ks k q, wq_wf q -> In k ks ->
  let q' := enqueue_all ks q in
  wq_wf q' /\ In k (q_dirty q') /\ (In k (q_queue q') \/ In k (q_processing q')).
Proof. exact enqueued_not_lost. Qed.
Print Assumptions C16_enqueued_not_lost.

Theorem C16_done_requeues_dirty : forall k q, In k (q_dirty q) -> In k (q_queue (q_done k q)).
Proof. exact done_requeues_dirty. Qed.
Print Assumptions C16_done_requeues_dirty.

(* ===== non-vacuity ================================================================================ *)
Local Open Scope string_scope.
Definition ml (k v : string) : selector := Sel [ {| rq_key := k; rq_op := OpIn; rq_vals := [v] |} ].
Definition ex_lister : lister :=
  [ {| s_ns := "ns1"; s_name := "a"; s_uid := "ua"; s_sel := ml "app" "a" |};
    {| s_ns := "ns1"; s_name := "b"; s_uid := "ub"; s_sel := ml "tier" "x" |};
    {| s_ns := "ns2"; s_name := "a"; s_uid := "ua2"; s_sel := ml "app" "a" |};
    {| s_ns := "ns1"; s_name := "e"; s_uid := "ue"; s_sel := Sel [] |};
    {| s_ns := "ns1"; s_name := "n"; s_uid := "un"; s_sel := SelNil |} ].
Definition ref (kind name uid : string) : option owner_ref :=
  Some {| or_api := "apps.pingcap.com/v1"; or_kind := kind; or_name := name; or_uid := uid; or_block := Some true |}.
Definition mkpod (lb : labels) (o : option owner_ref) (rv : string) (del : bool) : pod :=
  {| p_ns := "ns1"; p_name := "a-0"; p_labels := lb; p_owner := o; p_rv := rv; p_deleting := del |}.

(* the hypotheses hold of a lister with five sets, two namespaces, empty and nil selectors *)
Example C16_ex_hyps : lister_wf ex_lister.
Proof.
  unfold lister_wf, ex_lister. simpl.
  repeat (constructor; [simpl; intuition discriminate|]). constructor.
Qed.

(* controlled pod, right uid / stale uid / other kind / same name in another namespace *)
Example C16_ex_controlled :
  handle ex_lister (EvAdd (mkpod [("app","a")] (ref "StatefulSet" "a" "ua") "1" false)) = ["ns1/a"]
  /\ handle ex_lister (EvDelete (mkpod [] (ref "StatefulSet" "a" "ua") "1" false)) = ["ns1/a"]
  /\ handle ex_lister (EvDeleteTombstone (TombPod (mkpod [] (ref "StatefulSet" "a" "ua") "1" true))) = ["ns1/a"]
  /\ handle ex_lister (EvAdd (mkpod [("app","a")] (ref "StatefulSet" "a" "stale") "1" false)) = []
  /\ handle ex_lister (EvAdd (mkpod [("app","a")] (ref "ReplicaSet" "a" "ua") "1" false)) = []
  /\ handle ex_lister (EvAdd (mkpod [("app","a")] (ref "StatefulSet" "a" "ua2") "1" false)) = [].
Proof. vm_compute. repeat split. Qed.

(* owner change a -> b; release a -> orphan whose labels match b; orphan matching two sets; no labels;
   equal resourceVersion; orphan update without change; set events *)
Example C16_ex_updates :
  handle ex_lister (EvUpdate (mkpod [("app","a")] (ref "StatefulSet" "a" "ua") "1" false)
                             (mkpod [("app","a")] (ref "StatefulSet" "b" "ub") "2" false)) = ["ns1/a"; "ns1/b"]
  /\ handle ex_lister (EvUpdate (mkpod [("tier","x")] (ref "StatefulSet" "a" "ua") "1" false)
                                (mkpod [("tier","x")] None "2" false)) = ["ns1/a"; "ns1/b"]
  /\ handle ex_lister (EvAdd (mkpod [("app","a"); ("tier","x")] None "1" false)) = ["ns1/a"; "ns1/b"]
  /\ handle ex_lister (EvAdd (mkpod [] None "1" false)) = []
  /\ handle ex_lister (EvUpdate (mkpod [("app","a")] (ref "StatefulSet" "a" "ua") "7" false)
                                (mkpod [("app","a")] (ref "StatefulSet" "b" "ub") "7" false)) = []
  /\ handle ex_lister (EvUpdate (mkpod [("app","a")] None "1" false) (mkpod [("app","a")] None "2" false)) = []
  /\ handle ex_lister (EvUpdate (mkpod [("app","z")] None "1" false) (mkpod [("app","a")] None "2" false)) = ["ns1/a"]
  /\ handle ex_lister (EvSetDelete {| s_ns := "ns9"; s_name := "gone"; s_uid := "u"; s_sel := SelNil |}) = ["ns9/gone"].
Proof. vm_compute. repeat split. Qed.

(* hypotheses of (4), (6), (10) are satisfiable *)
Example C16_ex_about :
  let p := mkpod [("app","a")] (ref "StatefulSet" "a" "ua") "2" false in
  p_owner p <> None /\ about p (EvUpdate (mkpod [] (ref "StatefulSet" "a" "ua") "1" false) p)
  /\ (exists s, owner_resolves ex_lister p s)
  /\ unrelated ex_lister (mkpod [("app","z")] (ref "Deployment" "a" "ua") "1" false).
Proof.
  simpl. split; [discriminate|]. split; [apply about_update; reflexivity|]. split.
  - eexists. split; [left; reflexivity|]. eexists. split; [reflexivity|]. repeat split.
  - intros s Hs. simpl in Hs. repeat (destruct Hs as [<-|Hs]; [split; reflexivity|]). destruct Hs.
Qed.

(* the worker: fail, fail, succeed, fail *)
Example C16_ex_worker :
  let k := "ns1/web" in
  q_num_requeues k (run k [false; false] (q_add k q_empty)) = 2%nat
  /\ q_queue (run k [false; false] (q_add k q_empty)) = [k]
  /\ q_num_requeues k (run k [false; false; true] (q_add k q_empty)) = 0%nat
  /\ q_queue (run k [false; false; true] (q_add k q_empty)) = []
  /\ q_num_requeues k (run k [false; false; true; false] (q_add k q_empty)) = 1%nat
  /\ trailing_failures [false; false; true; false] O = 1%nat.
Proof. vm_compute. repeat split. Qed.

(* an event for a key that is being reconciled: it is marked dirty, not queued twice, and Done queues it *)
Example C16_ex_event_during_reconcile :
  let k := "ns1/web" in
  match q_get (q_add k q_empty) with
  | Some (k', q1) =>
      let q2 := q_add k q1 in
      k' = k /\ q_queue q2 = [] /\ q_dirty q2 = [k] /\ q_processing q2 = [k]
      /\ q_queue (q_done k (q_forget k q2)) = [k]
  | None => False
  end.
Proof. vm_compute. repeat split. Qed.
