(* RoundLift.v — the pods the full reconcile model and the kubelet leave after a fair round have the members of
   the abstract round of TerminationProofs.v (C02, lifting step).  Part 1: the actions of the plan, ordinal by
   ordinal. *)
From ASTS Require Import Base Slots SlotsProofs Names NamesProofs World Reconcile ReconcileCheck MonadProofs PlanProofs
                         ConvergeProofs PodControlProofs Env QuietProofs TerminationProofs TerminationEnv RoundExec RoundCheck.

Definition act_ord (a : act) : Z := match a with ADelete p | AUpdate p | ACreate p => getOrdinal p end.
Definition acts_at (j : Z) (acts : list act) : list act := filter (fun a => act_ord a =? j) acts.

Lemma acts_at_app j a b : acts_at j (a ++ b) = acts_at j a ++ acts_at j b.
Proof. unfold acts_at. apply filter_app. Qed.
Lemma acts_at_all j l : (forall a, In a l -> act_ord a = j) -> acts_at j l = l.
Proof.
  induction l as [|x t IH]; intros H; cbn [acts_at filter]; [reflexivity|].
  rewrite (H x (or_introl eq_refl)), Z.eqb_refl. f_equal. apply IH. intros a Ha. apply H. right. exact Ha.
Qed.
Lemma acts_at_none j l : (forall a, In a l -> act_ord a <> j) -> acts_at j l = [].
Proof.
  induction l as [|x t IH]; intros H; cbn [acts_at filter]; [reflexivity|].
  destruct (Z.eqb_spec (act_ord x) j) as [E|_]; [exfalso; apply (H x (or_introl eq_refl) E)|].
  apply IH. intros a Ha. apply H. right. exact Ha.
Qed.
Lemma acts_at_In j l a : In a (acts_at j l) <-> In a l /\ act_ord a = j.
Proof. unfold acts_at. rewrite filter_In, Z.eqb_eq. reflexivity. Qed.

(* ---------------------------------------------------------------- any outcome, final API state --------- *)
Definition hk {A} (P : world -> Prop) (m : M A) (Post : world -> Prop) : Prop :=
  forall st, P (rs_api st) -> rs_faults st = [] -> forall r st', m st = (r, st') -> Post (rs_api st').
Lemma hk_bind_hoare {A B} (P : world -> Prop) (m : M A) (f : A -> M B) (Q : A -> world -> Prop) (Post : world -> Prop) :
  hoare P m Q -> (forall v, hk (Q v) (f v) Post) -> hk P (bind m f) Post.
Proof.
  intros Hm Hf st HP Hfl r st' E. destruct (Hm st HP Hfl) as (v & s1 & E1 & F1 & Q1).
  unfold bind in E. rewrite E1 in E. apply (Hf v s1 Q1 F1 r st' E).
Qed.
Lemma hk_keeps {A} (Rel : world -> world -> Prop) (P : world -> Prop) (m : M A) (Post : world -> Prop) :
  keeps Rel m -> (forall w w', P w -> Rel w w' -> Post w') -> hk P m Post.
Proof. intros Hk Hp st HP _ r st' E. apply (Hp _ _ HP). apply (Hk _ _ _ E). Qed.
Lemma reads_hoare {A} w (m : M A) v : reads w m v -> hoare (fun x => x = w) m (fun r x => r = v /\ x = w).
Proof. intros Hr st HP Hf. destruct (Hr st HP Hf) as (s1 & E & W1 & F & _). exists v, s1. repeat split; assumption. Qed.

Definition same_pods (a b : world) : Prop := w_pods a = w_pods b.
Lemma same_pods_refl a : same_pods a a. Proof. reflexivity. Qed.
Lemma same_pods_trans a b c : same_pods a b -> same_pods b c -> same_pods a c.
Proof. unfold same_pods. congruence. Qed.

Lemma keeps_pods_status_retry s st : forall fuel last, keeps same_pods (update_status_retry fuel s st last).
Proof.
  induction fuel as [|f IH]; intros last; cbn [update_status_retry].
  - apply (keeps_fail _ same_pods_refl).
  - apply (keeps_bind _ same_pods_trans).
    + apply keeps_try. unfold api_update_status. apply (keeps_call _ same_pods_refl). intros w x w' E.
      destruct (w_set w) as [a|]; [|inversion E; reflexivity].
      destruct (s_rv a =? s_rv s); inversion E; reflexivity.
    + intros [u|e]; [apply (keeps_ret _ same_pods_refl)|]. destruct (is_conflict e); [apply IH | apply (keeps_fail _ same_pods_refl)].
Qed.
Lemma keeps_pods_set_status s st : keeps same_pods (update_set_status s st).
Proof.
  unfold update_set_status. destruct (inconsistent_status s (complete_rolling_update s st));
    [apply keeps_pods_status_retry | apply (keeps_ret _ same_pods_refl)].
Qed.
Lemma keeps_pods_truncate s pods revs cur upd : keeps same_pods (truncate_history s pods revs cur upd).
Proof.
  unfold truncate_history. destruct (s_rhl s) as [limit|]; [|apply (keeps_panic _ same_pods_refl)]. cbv zeta.
  match goal with |- context [if ?c then _ else _] => destruct c end; [apply (keeps_ret _ same_pods_refl)|].
  apply (keeps_forM _ same_pods_refl same_pods_trans). intros r. unfold api_delete_rev.
  apply (keeps_call _ same_pods_refl). intros w x w' E. destruct (find_rev (r_name r) (w_revs w)); inversion E; reflexivity.
Qed.

Section Lift.
Variable s : sset.
Variable upd : rinfo.
Variable cnt : Z.
Variable slots : list Z.
Hypothesis Hcnt : 0 <= cnt <= max_i32 + 1.
Hypothesis Hdel : s_deleting s = false.
Hypothesis Hclaims : NoDup (s_claims s).
Hypothesis Huc : forall i, use_current s i = true -> i < umin_of s.
Variable cur : rinfo.

Local Notation nvp := (new_versioned_pod s cur upd).
Local Notation rdy := (fun f => ready_of f).

Lemma nvp_ord i : 0 <= i <= max_i32 -> getOrdinal (nvp i) = i.
Proof. apply (nvp_ordinal s upd Hclaims Huc cur). Qed.

(* ---------------------------------------------------------------- the replica loop, ordinal by ordinal *)
Definition entry_cond (i : Z) (l : list (option pod)) : Prop :=
  forall k p0, nth_error l k = Some (Some p0) -> getOrdinal p0 = i + Z.of_nat k.

Lemma rs_acts_ord mono idx p0 : getOrdinal p0 = idx -> 0 <= idx <= max_i32 ->
  forall a, In a (rs_acts s cur upd mono idx p0) -> act_ord a = idx.
Proof.
  intros Ho Hi a Ha.
  destruct (rs_acts_cases _ _ _ _ _ _ _ Ha) as [(-> & _)|[(-> & _)|[(-> & _)|(-> & _)]]]; cbn [act_ord]; try exact Ho.
  apply nvp_ord. exact Hi.
Qed.

Lemma rl_acts_ord mono : forall l i, 0 <= i -> i + Z.of_nat (length l) <= max_i32 + 1 -> entry_cond i l ->
  forall a, In a (rl_acts s cur upd mono i l) -> i <= act_ord a.
Proof.
  intros l i Hi Hb Hent a Ha.
  destruct (rl_acts_split _ _ _ _ _ _ _ Ha) as (k & p0 & pre & post & Hn & _ & Hin & _).
  assert (Hk : (k < length l)%nat) by (apply nth_error_Some; congruence).
  rewrite (rs_acts_ord mono (i + Z.of_nat k) p0 (Hent _ _ Hn) ltac:(lia) a Hin). lia.
Qed.

Lemma rl_at mono j : forall l i, 0 <= i -> i + Z.of_nat (length l) <= max_i32 + 1 -> entry_cond i l ->
  acts_at j (rl_acts s cur upd mono i l) = []
  \/ (i <= j /\ exists p0, nth_error l (Z.to_nat (j - i)) = Some (Some p0)
                        /\ acts_at j (rl_acts s cur upd mono i l) = rs_acts s cur upd mono j p0).
Proof.
  induction l as [|[p0|] t IH]; intros i Hi Hb Hent; cbn [rl_acts length] in *.
  - left. reflexivity.
  - assert (Hent' : entry_cond (i + 1) t).
    { intros k q Hk. replace (i + 1 + Z.of_nat k) with (i + Z.of_nat (S k)) by lia. apply (Hent (S k)). exact Hk. }
    assert (Ho : getOrdinal p0 = i) by (rewrite (Hent O p0 eq_refl); lia).
    rewrite acts_at_app.
    set (rest := if rs_go mono p0 then rl_acts s cur upd mono (i + 1) t else []).
    assert (Hrest_ge : forall a, In a rest -> i + 1 <= act_ord a).
    { unfold rest. destruct (rs_go mono p0); [|intros a []]. apply rl_acts_ord; [lia | lia | exact Hent']. }
    destruct (Z.eq_dec j i) as [->|Hne].
    + right. split; [lia|]. exists p0. rewrite Z.sub_diag. split; [reflexivity|].
      rewrite (acts_at_all i (rs_acts s cur upd mono i p0)) by (apply rs_acts_ord; [exact Ho | lia]).
      rewrite (acts_at_none i rest) by (intros a Ha; specialize (Hrest_ge a Ha); lia). apply app_nil_r.
    + rewrite (acts_at_none j (rs_acts s cur upd mono i p0)).
      2:{ intros a Ha. rewrite (rs_acts_ord mono i p0 Ho ltac:(lia) a Ha). lia. }
      cbn [app]. unfold rest. destruct (rs_go mono p0); [|left; reflexivity].
      destruct (IH (i + 1) ltac:(lia) ltac:(lia) Hent') as [E|(Hij & q & Hq & E)]; [left; exact E|].
      right. split; [lia|]. exists q. split; [|exact E].
      replace (Z.to_nat (j - i)) with (S (Z.to_nat (j - (i + 1)))) by lia. exact Hq.
  - assert (Hent' : entry_cond (i + 1) t).
    { intros k q Hk. replace (i + 1 + Z.of_nat k) with (i + Z.of_nat (S k)) by lia. apply (Hent (S k)). exact Hk. }
    destruct (IH (i + 1) ltac:(lia) ltac:(lia) Hent') as [E|(Hij & q & Hq & E)]; [left; exact E|].
    right. split; [lia|]. exists q. split; [|exact E].
    replace (Z.to_nat (j - i)) with (S (Z.to_nat (j - (i + 1)))) by lia. exact Hq.
Qed.

(* under rl_go the array after the loop holds the processed entries only: none of them is in a terminal phase *)
Lemma rl_arr_go mono : forall l i q, rl_go mono l = true -> In (Some q) (rl_arr s cur upd mono i l) ->
  (isFailed q || isSucceeded q) = false.
Proof.
  induction l as [|[p0|] t IH]; intros i q Hgo Hin; cbn [rl_go rl_arr] in *.
  - destruct Hin.
  - apply andb_true_iff in Hgo. destruct Hgo as [G1 G2]. rewrite G1 in Hin. destruct Hin as [Hin|Hin].
    + inversion Hin; subst q. unfold rs_pod. destruct (isFailed p0 || isSucceeded p0) eqn:F; [|exact F].
      destruct (nvp_fresh s cur upd i) as (_ & F1 & F2 & _). rewrite F1, F2. reflexivity.
    + apply (IH (i + 1) q G2 Hin).
  - destruct Hin as [Hin|Hin]; [discriminate | apply (IH (i + 1) q Hgo Hin)].
Qed.


(* ---------------------------------------------------------------- one plan ---------------------------- *)
Section OnePlan.
Variable pods : list pod.
Hypothesis W : wf s cnt slots pods.
Let acts := plan_acts s cur upd cnt slots pods.
Let replicas := replicas_of s cur upd cnt slots pods.
Let mono := negb (allowsBurst s).


(* the facts of TerminationProofs.v about this plan, with the section hypotheses supplied *)
Lemma Kdel q : In (ADelete q) acts ->
  In q pods /\ (is_cond cnt slots q = true \/ (in_range cnt slots (getOrdinal q) = true /\ 2 <= wt s upd (getOrdinal q) (Some q))).
Proof. intros H. eapply plan_delete_cases; eassumption. Qed.
Lemma Kupd p : In (AUpdate p) acts ->
  In p pods /\ in_range cnt slots (getOrdinal p) = true /\ (isFailed p || isSucceeded p) = false
  /\ (identityMatches s p && storageMatches s p) = false.
Proof. intros H. eapply plan_update_justified; eassumption. Qed.
Lemma Kcre f : In (ACreate f) acts ->
  exists i, in_range cnt slots i = true /\ f = nvp i
    /\ (at_ord i pods = None \/ exists p0, In p0 pods /\ getOrdinal p0 = i /\ In (ADelete p0) acts).
Proof. intros H. eapply plan_create_cases; eassumption. Qed.
Lemma Rwf : wf s cnt slots (round s upd cnt slots cur pods).
Proof. eapply round_wf; eassumption. Qed.
Lemma Rdy i : 0 <= i <= max_i32 ->
  let q := ready_of (nvp i) in
  getOrdinal q = i /\ p_name q = pod_name (s_name s) i /\ steady q = true /\ isTerminating q = false
  /\ isCreated q = true /\ (isFailed q || isSucceeded q) = false
  /\ (identityMatches s q && storageMatches s q) = true /\ outdated s upd i q = false.
Proof. intros H. eapply ready_nvp; eassumption. Qed.

Lemma in_range_max j : in_range cnt slots j = true -> 0 <= j <= max_i32.
Proof. intros H. apply in_range_bounds in H. lia. Qed.

(* the entry of the array at a desired ordinal *)
Lemma entry_at j : in_range cnt slots j = true ->
  nth_error replicas (Z.to_nat j) = Some (Some (match at_ord j pods with Some p => p | None => nvp j end)).
Proof.
  intros R. pose proof (in_range_bounds _ _ _ R) as [Hj Hs].
  assert (Hlt : (Z.to_nat j < length replicas)%nat) by (unfold replicas; rewrite replicas_of_length; lia).
  destruct (nth_error replicas (Z.to_nat j)) as [e|] eqn:E; [|apply nth_error_None in E; lia].
  pose proof (replicas_of_kind _ _ _ _ _ _ _ _ E) as Hk. rewrite Z2Nat.id in Hk by lia.
  inversion Hk as [Hsl | q Hq Ho Hr | Hr Hv]; subst.
  - contradiction.
  - rewrite (at_ord_unique _ pods q (wf_dist _ _ _ _ W) Hq eq_refl (proj1 Hj)). reflexivity.
  - destruct (at_ord j pods) as [p|] eqn:A; [|reflexivity]. exfalso.
    destruct (at_ord_Some _ _ _ A) as [Hp Hpo]. apply (Hv p Hp Hpo).
Qed.

Lemma replicas_entry_cond : entry_cond 0 replicas.
Proof.
  intros k p0 Hk. pose proof (replicas_of_kind _ _ _ _ _ _ _ _ Hk) as Hkind. rewrite Z.add_0_l.
  assert (Hlt : (k < length replicas)%nat) by (apply nth_error_Some; congruence).
  unfold replicas in Hlt. rewrite replicas_of_length in Hlt.
  inversion Hkind as [Hsl | q Hq Ho Hr | Hr Hv]; subst; [exact Ho | apply nvp_ord; lia].
Qed.

(* the array after the replica loop still holds pods of desired ordinals only *)
Lemma array_in_range q : In (Some q) (rl_arr s cur upd mono 0 replicas) -> in_range cnt slots (getOrdinal q) = true.
Proof.
  intros Hin. apply In_nth_error in Hin. destruct Hin as [k Hk].
  pose proof (rl_arr_nth s cur upd mono replicas 0 k) as H. rewrite Hk in H. destruct H as (p0 & Hp0 & Hq).
  pose proof (replicas_of_kind _ _ _ _ _ _ _ _ Hp0) as Hkind.
  assert (Hlt : (k < length replicas)%nat) by (apply nth_error_Some; congruence).
  unfold replicas in Hlt. rewrite replicas_of_length in Hlt.
  assert (Hr : in_range cnt slots (Z.of_nat k) = true /\ getOrdinal p0 = Z.of_nat k).
  { inversion Hkind as [Hsl | x Hx Ho Hr | Hr Hv]; subst; split; try assumption. apply nvp_ord. lia. }
  destruct Hr as [Hr Ho].
  assert (Hoq : getOrdinal q = Z.of_nat k).
  { destruct Hq as [-> | ->]; [exact Ho|]. unfold rs_pod. rewrite Z.add_0_l.
    destruct (isFailed p0 || isSucceeded p0); [apply nvp_ord; lia | exact Ho]. }
  rewrite Hoq. exact Hr.
Qed.

(* the three parts of the plan *)
Lemma plan_parts : exists a2 a3,
  acts = rl_acts s cur upd mono 0 replicas ++ a2 ++ a3
  /\ (forall a, In a a2 -> exists c, a = ADelete c /\ In c pods /\ is_condemned cnt slots (getOrdinal c) = true)
  /\ (a3 = [] \/ exists q, a3 = [ADelete q] /\ (isFailed q || isSucceeded q) = false
                            /\ in_range cnt slots (getOrdinal q) = true).
Proof.
  destruct (plan_acts_struct s cur upd cnt slots pods Hdel) as (a2 & a3 & Heq & H2 & H3). cbn zeta in *.
  exists a2, a3. split; [exact Heq|]. split.
  - destruct H2 as [->|(_ & ->)]; [intros a []|]. intros a Ha. destruct (cl_acts_in _ _ _ _ Ha) as (c & E & Hc & _).
    apply in_rev in Hc. apply condemned_of_In in Hc. exists c. tauto.
  - destruct H3 as [->|(G1 & _ & _ & ->)]; [left; reflexivity|].
    match goal with |- context [ul_acts upd ?um ?i0 ?l0] => destruct (ul_acts_spec upd um l0 i0) as [E|(pre & q & post & E1 & E2 & _)] end.
    + left. exact E.
    + right. exists q. split; [exact E2|].
      assert (Hq : In (Some q) (rl_arr s cur upd mono 0 replicas)).
      { apply in_rev. unfold replicas, mono. rewrite E1. apply in_or_app. right. left. reflexivity. }
      split; [apply (rl_arr_go mono replicas 0 q G1 Hq)|]. apply array_in_range. exact Hq.
Qed.

(* what the plan holds for one ordinal, given the pod the snapshot has there *)
Inductive shape (j : Z) : option pod -> list act -> Prop :=
| Sh_none st : shape j st []
| Sh_create : in_range cnt slots j = true -> shape j None [ACreate (nvp j)]
| Sh_replace p : in_range cnt slots j = true -> (isFailed p || isSucceeded p) = true ->
    shape j (Some p) [ADelete p; ACreate (nvp j)]
| Sh_live p (u d : bool) : in_range cnt slots j = true -> (isFailed p || isSucceeded p) = false ->
    (u = true -> (identityMatches s p && storageMatches s p) = false) ->
    shape j (Some p) ((if u then [AUpdate p] else []) ++ (if d then [ADelete p] else []))
| Sh_condemned p k : is_condemned cnt slots j = true -> (isFailed p || isSucceeded p) = false ->
    shape j (Some p) (repeat (ADelete p) k).

Lemma all_same_repeat {A} (x : A) l : (forall y, In y l -> y = x) -> l = repeat x (length l).
Proof.
  induction l as [|y t IH]; intros H; cbn [repeat length]; [reflexivity|].
  rewrite (H y (or_introl eq_refl)). f_equal. apply IH. intros z Hz. apply H. right. exact Hz.
Qed.

Lemma plan_shape j : 0 <= j -> shape j (at_ord j pods) (acts_at j acts).
Proof.
  intros Hj0. destruct plan_parts as (a2 & a3 & Heq & H2 & H3).
  rewrite Heq, !acts_at_app.
  (* deletes of the plan at ordinal j are deletes of THE pod of that ordinal *)
  assert (Hdel_at : forall q, In (ADelete q) acts -> getOrdinal q = j -> at_ord j pods = Some q).
  { intros q Hq Ho. destruct (Kdel q Hq) as [Hqp _].
    apply at_ord_unique; [apply (wf_dist _ _ _ _ W) | exact Hqp | exact Ho | exact Hj0]. }
  assert (Hin2 : forall a, In a a2 -> In a acts) by (intros a Ha; rewrite Heq; apply in_or_app; right; apply in_or_app; left; exact Ha).
  assert (Hin3 : forall a, In a a3 -> In a acts) by (intros a Ha; rewrite Heq; apply in_or_app; right; apply in_or_app; right; exact Ha).
  destruct (in_range cnt slots j) eqn:R.
  - (* a desired ordinal: nothing from the condemned loop *)
    assert (E2 : acts_at j a2 = []).
    { apply acts_at_none. intros a Ha Ho. destruct (H2 a Ha) as (c & -> & Hc & Hcc). cbn [act_ord] in Ho.
      rewrite Ho in Hcc. unfold is_condemned in Hcc. rewrite R in Hcc. discriminate. }
    rewrite E2. cbn [app].
    pose proof (entry_at j R) as Hent. pose proof (in_range_max j R) as Hjm.
    destruct (rl_at mono j replicas 0 ltac:(lia) ltac:(unfold replicas; rewrite replicas_of_length; lia) replicas_entry_cond)
      as [E1|(_ & p0 & Hp0 & E1)].
    + (* the replica loop holds nothing for j *)
      rewrite E1. cbn [app].
      destruct H3 as [->|(q & -> & Fq & Rq)]; [constructor|].
      cbn [acts_at filter act_ord]. destruct (Z.eqb_spec (getOrdinal q) j) as [Ho|_]; [|constructor].
      rewrite (Hdel_at q (Hin3 _ (or_introl eq_refl)) Ho).
      apply (Sh_live j q false true R Fq). intros; discriminate.
    + rewrite Z.sub_0_r in Hp0. rewrite Hent in Hp0. inversion Hp0; subst p0. clear Hp0. rewrite E1.
      destruct (at_ord j pods) as [p|] eqn:A.
      * destruct (at_ord_Some _ _ _ A) as [Hp Hpo].
        destruct (wf_settled _ _ _ _ W p Hp) as (T & C & S).
        unfold rs_acts. destruct (isFailed p || isSucceeded p) eqn:F.
        -- (* replaced; the update loop cannot name it *)
           assert (E3 : acts_at j a3 = []).
           { destruct H3 as [->|(q & -> & Fq & Rq)]; [reflexivity|]. cbn [acts_at filter act_ord].
             destruct (Z.eqb_spec (getOrdinal q) j) as [Ho|_]; [|reflexivity]. exfalso.
             pose proof (Hdel_at q (Hin3 _ (or_introl eq_refl)) Ho) as Hq. inversion Hq; subst q. congruence. }
           rewrite E3, app_nil_r. apply Sh_replace; assumption.
        -- rewrite C. cbn [negb]. unfold settled_pod in S.
           assert (St : steady p = true).
           { apply orb_false_iff in F. destruct F as [F1 F2]. rewrite F1, F2 in S. destruct (steady p); [reflexivity | discriminate]. }
           unfold steady in St. apply andb_true_iff in St. destruct St as [St R4]. rewrite T, R4. cbn [andb negb].
           assert (E3 : acts_at j a3 = [] \/ acts_at j a3 = [ADelete p]).
           { destruct H3 as [->|(q & -> & Fq & Rq)]; [left; reflexivity|]. cbn [acts_at filter act_ord].
             destruct (Z.eqb_spec (getOrdinal q) j) as [Ho|_]; [|left; reflexivity]. right.
             pose proof (Hdel_at q (Hin3 _ (or_introl eq_refl)) Ho) as Hq. inversion Hq; subst q. reflexivity. }
           destruct (identityMatches s p && storageMatches s p) eqn:M.
           ++ destruct E3 as [-> | ->]; [apply (Sh_live j p false false R F) | apply (Sh_live j p false true R F)]; intros; discriminate.
           ++ destruct E3 as [-> | ->]; [apply (Sh_live j p true false R F) | apply (Sh_live j p true true R F)]; intros; exact M.
      * (* vacant: the fresh pod is created, nothing else *)
        assert (E3 : acts_at j a3 = []).
        { destruct H3 as [->|(q & -> & Fq & Rq)]; [reflexivity|]. cbn [acts_at filter act_ord].
          destruct (Z.eqb_spec (getOrdinal q) j) as [Ho|_]; [|reflexivity]. exfalso.
          pose proof (Hdel_at q (Hin3 _ (or_introl eq_refl)) Ho) as Hq. discriminate. }
        rewrite E3, app_nil_r. unfold rs_acts. destruct (nvp_fresh s cur upd j) as (C & F1 & F2 & _).
        rewrite F1, F2, C. cbn [orb negb]. apply Sh_create. exact R.
  - (* not a desired ordinal: the replica loop and the update loop hold nothing for j *)
    assert (E1 : acts_at j (rl_acts s cur upd mono 0 replicas) = []).
    { destruct (rl_at mono j replicas 0 ltac:(lia) ltac:(unfold replicas; rewrite replicas_of_length; lia) replicas_entry_cond)
        as [E1|(_ & p0 & Hp0 & _)]; [exact E1|]. exfalso. rewrite Z.sub_0_r in Hp0.
      pose proof (replicas_of_kind _ _ _ _ _ _ _ _ Hp0) as Hk.
      assert (Hlt : (Z.to_nat j < length replicas)%nat) by (apply nth_error_Some; congruence).
      rewrite Z2Nat.id in Hk by lia. inversion Hk; congruence. }
    assert (E3 : acts_at j a3 = []).
    { destruct H3 as [->|(q & -> & Fq & Rq)]; [reflexivity|]. cbn [acts_at filter act_ord].
      destruct (Z.eqb_spec (getOrdinal q) j) as [Ho|_]; [|reflexivity]. exfalso.
      rewrite Ho in Rq. congruence. }
    rewrite E1, E3, app_nil_r. cbn [app].
    destruct (at_ord j pods) as [p|] eqn:A.
    + destruct (at_ord_Some _ _ _ A) as [Hp Hpo].
      assert (Hall : forall a, In a (acts_at j a2) -> a = ADelete p).
      { intros a Ha. apply acts_at_In in Ha. destruct Ha as [Ha Ho]. destruct (H2 a Ha) as (c & -> & Hc & _).
        cbn [act_ord] in Ho. f_equal. apply (wf_dist _ _ _ _ W); try assumption; [apply (wf_ord _ _ _ _ W c Hc) | congruence]. }
      rewrite (all_same_repeat (ADelete p) _ Hall).
      destruct (is_condemned cnt slots j) eqn:C.
      * apply Sh_condemned; [exact C|]. apply (wf_nodead _ _ _ _ W p Hp). rewrite Hpo. exact C.
      * (* neither desired nor condemned: nothing is planned for it *)
        assert (E2 : acts_at j a2 = []).
        { apply acts_at_none. intros a Ha Ho. destruct (H2 a Ha) as (c & -> & Hc & Hcc). cbn [act_ord] in Ho. congruence. }
        rewrite E2. constructor.
    + assert (E2 : acts_at j a2 = []).
      { apply acts_at_none. intros a Ha Ho. destruct (H2 a Ha) as (c & -> & Hc & _). cbn [act_ord] in Ho.
        apply (at_ord_None _ _ A c Hc Ho). }
      rewrite E2. constructor.
Qed.


(* ---------------------------------------------------------------- names and ordinals ------------------ *)
Lemma nvp_name i : p_name (nvp i) = pod_name (s_name s) i.
Proof. unfold new_versioned_pod. destruct (use_current s i); reflexivity. Qed.

Lemma act_name_ord a : In a acts -> act_name s a = pod_name (s_name s) (act_ord a) /\ 0 <= act_ord a <= max_i32.
Proof.
  intros Ha. destruct a as [f|q|p]; cbn [act_name act_ord].
  - destruct (Kcre f Ha) as (i & R & -> & _). pose proof (in_range_max i R) as Hi. rewrite nvp_ord by exact Hi.
    split; [apply nvp_name | exact Hi].
  - destruct (Kdel q Ha) as [Hq _]. split; [apply (wf_name _ _ _ _ W q Hq) | apply (wf_ord _ _ _ _ W q Hq)].
  - destruct (Kupd p Ha) as [Hp _]. rewrite (fixpod_name s p (wf_name _ _ _ _ W p Hp)).
    split; [apply (wf_name _ _ _ _ W p Hp) | apply (wf_ord _ _ _ _ W p Hp)].
Qed.

Lemma acts_for_at j l : 0 <= j <= max_i32 -> (forall a, In a l -> In a acts) ->
  acts_for s (pod_name (s_name s) j) l = acts_at j l.
Proof.
  intros Hj Hsub. unfold acts_for, acts_at. apply filter_ext_in. intros a Ha.
  destruct (act_name_ord a (Hsub a Ha)) as [-> Ho].
  destruct (Z.eqb_spec (act_ord a) j) as [->|N]; [apply String.eqb_refl|].
  apply String.eqb_neq. intros E. apply N. symmetry. apply (pod_name_injective (s_name s)); assumption.
Qed.

Lemma wf_look_at_ord L j : wf s cnt slots L -> 0 <= j <= max_i32 -> look (pod_name (s_name s) j) L = at_ord j L.
Proof.
  intros WL Hj.
  assert (Hord : forall q, p_name q = pod_name (s_name s) j -> getOrdinal q = j).
  { intros q E. unfold getOrdinal, ordinal_of. rewrite E, (parse_pod_name _ _ Hj). reflexivity. }
  destruct (at_ord j L) as [p|] eqn:A.
  - destruct (at_ord_Some _ _ _ A) as [Hp Hpo].
    destruct (look (pod_name (s_name s) j) L) as [q|] eqn:E.
    + destruct (look_In _ _ _ E) as [Hq Hqn]. f_equal. apply (wf_dist _ _ _ _ WL); try assumption.
      * apply (wf_ord _ _ _ _ WL q Hq).
      * rewrite (Hord q Hqn). symmetry. exact Hpo.
    + exfalso. apply (look_None _ _ E p Hp). rewrite (wf_name _ _ _ _ WL p Hp), Hpo. reflexivity.
  - destruct (look (pod_name (s_name s) j) L) as [q|] eqn:E; [|reflexivity]. exfalso.
    destruct (look_In _ _ _ E) as [Hq Hqn]. apply (at_ord_None _ _ A q Hq). apply Hord. exact Hqn.
Qed.

Lemma wf_names_nodup L : wf s cnt slots L -> NoDup L -> NoDup (map p_name L).
Proof.
  intros WL Hnd. apply NoDup_map_inj_on; [exact Hnd|]. intros x y Hx Hy E.
  apply (wf_dist _ _ _ _ WL); try assumption; [apply (wf_ord _ _ _ _ WL x Hx) | unfold getOrdinal; rewrite E; reflexivity].
Qed.

(* ---------------------------------------------------------------- the abstract round, ordinal by ordinal *)
Local Notation g := (fun p => if updated acts p then fixpod s p else p).
Local Notation rnd := (round s upd cnt slots cur pods).

Lemma g_ord' p : In p pods -> getOrdinal (g p) = getOrdinal p.
Proof.
  intros Hp. cbv beta. destruct (updated acts p); [|reflexivity].
  unfold getOrdinal. rewrite (fixpod_name s p (wf_name _ _ _ _ W p Hp)). reflexivity.
Qed.

Lemma round_kept j p : 0 <= j -> at_ord j pods = Some p -> deleted acts p = false -> at_ord j rnd = Some (g p).
Proof.
  intros Hj A D. destruct (at_ord_Some _ _ _ A) as [Hp Hpo].
  apply at_ord_unique; [apply (wf_dist _ _ _ _ Rwf) | | rewrite (g_ord' p Hp); exact Hpo | exact Hj].
  eapply kept_in_round; eassumption.
Qed.
Lemma round_created j : 0 <= j <= max_i32 -> In (ACreate (nvp j)) acts -> at_ord j rnd = Some (ready_of (nvp j)).
Proof.
  intros Hj Ha. destruct (Rdy j Hj) as (O & _).
  apply at_ord_unique; [apply (wf_dist _ _ _ _ Rwf) | | exact O | lia].
  eapply created_in_round; eassumption.
Qed.
Lemma round_vacant j : (forall p, at_ord j pods = Some p -> deleted acts p = true) -> ~ In (ACreate (nvp j)) acts -> at_ord j rnd = None.
Proof.
  intros Hd Hc. destruct (at_ord j rnd) as [x|] eqn:E; [|reflexivity]. exfalso.
  destruct (at_ord_Some _ _ _ E) as [Hx Hxo].
  assert (Hm : (exists p, In p pods /\ deleted acts p = false /\ x = g p)
               \/ (exists i, in_range cnt slots i = true /\ x = ready_of (nvp i) /\ In (ACreate (nvp i)) acts
                             /\ (at_ord i pods = None \/ exists p0, In p0 pods /\ getOrdinal p0 = i /\ In (ADelete p0) acts))).
  { eapply round_members; eassumption. }
  destruct Hm as [(p & Hp & Hk & ->)|(i & R & -> & Ha & _)].
  - rewrite (g_ord' p Hp) in Hxo.
    rewrite (Hd p (at_ord_unique j pods p (wf_dist _ _ _ _ W) Hp Hxo ltac:(pose proof (wf_ord _ _ _ _ W p Hp); lia))) in Hk. discriminate.
  - destruct (Rdy i (in_range_max i R)) as (O & _). assert (i = j) by congruence. subst i. contradiction.
Qed.

(* ---------------------------------------------------------------- the two rounds agree, ordinal by ordinal *)
Lemma settle1_steady p : steady p = true -> settle1 p = p.
Proof.
  intros H. unfold steady in H. apply andb_true_iff in H. destruct H as [H H4]. apply andb_true_iff in H. destruct H as [H H3].
  apply andb_true_iff in H. destruct H as [H1 H2]. apply negb_true_iff in H1. apply negb_true_iff in H3.
  unfold isRunningAndReady in H4. apply andb_true_iff in H4. destruct H4 as [Hph Hrd]. apply String.eqb_eq in Hph.
  unfold settle1. unfold isTerminating in H3. rewrite H3. apply orb_false_iff in H1. destruct H1 as [F1 F2]. rewrite F1, F2. cbn [orb].
  destruct p. cbn in *. subst. reflexivity.
Qed.
Lemma settle1_terminal p : (isFailed p || isSucceeded p) = true -> settle1 p = p.
Proof. intros H. unfold settle1. rewrite <- orb_assoc, H, orb_true_r. reflexivity. Qed.
Lemma settle1_settled p : isTerminating p = false -> settled_pod p = true -> post (Some p) = Some p.
Proof.
  intros T S. unfold post. unfold isTerminating in T. rewrite T. f_equal. unfold settled_pod in S.
  destruct (steady p) eqn:St; [apply settle1_steady; exact St|]. cbn [orb] in S. apply settle1_terminal. exact S.
Qed.
Lemma post_pend_nvp j : post (Some (pend (nvp j))) = Some (ready_of (nvp j)).
Proof.
  destruct (nvp_fresh s cur upd j) as (C & F1 & F2 & T & _). unfold pend. rewrite C. unfold post.
  unfold isTerminating in T. cbn [set_phase_pod p_term]. rewrite T. f_equal. unfold settle1. cbn [set_phase_pod p_term]. rewrite T.
  unfold isFailed, isSucceeded. cbn [set_phase_pod p_phase orb String.eqb]. reflexivity.
Qed.

Lemma fold_deletes p : forall k q, (isFailed q || isSucceeded q) = false -> (0 < k)%nat ->
  fold_left (step1 s) (repeat (ADelete p) k) (Some q) = Some (set_term_pod q).
Proof.
  induction k as [|k IH]; intros q F Hk; [lia|]. cbn [repeat fold_left step1]. rewrite F.
  destruct k as [|k]; [reflexivity|]. rewrite IH; [reflexivity | exact F | lia].
Qed.

Theorem rounds_agree_at j : 0 <= j <= max_i32 ->
  post (fold_left (step1 s) (acts_at j acts) (at_ord j pods)) = at_ord j rnd.
Proof.
  intros Hj. pose proof (plan_shape j (proj1 Hj)) as Sh.
  assert (Hin : forall a, In a (acts_at j acts) -> In a acts) by (intros a Ha; apply acts_at_In in Ha; tauto).
  assert (Hat : forall a, In a acts -> act_ord a = j -> In a (acts_at j acts)) by (intros a H1 H2; apply acts_at_In; tauto).
  inversion Sh as [st E1 E2 | R E1 E2 | p R F E1 E2 | p u d R F Hu E1 E2 | p k C F E1 E2].
  - (* nothing planned for j *)
    cbn [fold_left]. destruct (at_ord j pods) as [p|] eqn:A.
    + destruct (at_ord_Some _ _ _ A) as [Hp Hpo]. destruct (wf_settled _ _ _ _ W p Hp) as (T & _ & S).
      rewrite (settle1_settled p T S).
      assert (D : deleted acts p = false).
      { destruct (deleted acts p) eqn:D; [|reflexivity]. exfalso.
        assert (Hd : In (ADelete p) acts) by (eapply deleted_elim; eassumption).
        specialize (Hat _ Hd Hpo). rewrite <- E2 in Hat. destruct Hat. }
      rewrite (round_kept j p (proj1 Hj) A D). cbv beta.
      destruct (updated acts p) eqn:U; [|reflexivity]. exfalso.
      assert (Hd : In (AUpdate p) acts) by (eapply updated_elim; eassumption).
      specialize (Hat _ Hd Hpo). rewrite <- E2 in Hat. destruct Hat.
    + cbn [post]. symmetry. apply round_vacant; [intros p Hp; congruence|].
      intros Hc. assert (Ho : act_ord (ACreate (nvp j)) = j) by (cbn [act_ord]; apply nvp_ord; exact Hj).
      specialize (Hat _ Hc Ho). rewrite <- E2 in Hat. destruct Hat.
  - (* vacant: created *)
    cbn [fold_left step1]. rewrite post_pend_nvp. symmetry. apply (round_created j Hj). apply Hin. rewrite <- E2. left. reflexivity.
  - (* failed: replaced *)
    cbn [fold_left step1]. rewrite F. rewrite post_pend_nvp. symmetry. apply (round_created j Hj). apply Hin. rewrite <- E2. right. left. reflexivity.
  - (* live: repaired and / or deleted for update *)
    symmetry in E1. destruct (at_ord_Some _ _ _ E1) as [Hp Hpo]. destruct (wf_settled _ _ _ _ W p Hp) as (T & _ & S).
    assert (St : steady p = true).
    { unfold settled_pod in S. apply orb_false_iff in F. destruct F as [F1 F2]. rewrite F1, F2 in S. destruct (steady p); [reflexivity | discriminate]. }
    assert (Hupd : updated acts p = u).
    { destruct u.
      - apply updated_intro. apply Hin. rewrite <- E2. left. reflexivity.
      - destruct (updated acts p) eqn:U; [|reflexivity]. exfalso.
        assert (Hd : In (AUpdate p) acts) by (eapply updated_elim; eassumption).
        specialize (Hat _ Hd Hpo). rewrite <- E2 in Hat. cbn [app] in Hat. destruct d; cbn in Hat; [destruct Hat as [Hx|[]]; discriminate | destruct Hat]. }
    destruct d.
    + (* deleted *)
      assert (Hd : In (ADelete p) acts) by (apply Hin; rewrite <- E2; apply in_or_app; right; left; reflexivity).
      assert (L : post (fold_left (step1 s) ((if u then [AUpdate p] else []) ++ [ADelete p]) (Some p)) = None).
      { destruct u; cbn [app fold_left step1].
        - destruct (fixpod_preds s p) as (A1 & A2 & _). rewrite A1, A2, F. reflexivity.
        - rewrite F. reflexivity. }
      rewrite L. symmetry. apply round_vacant.
      * intros q Hq. rewrite E1 in Hq. inversion Hq; subst q. apply deleted_intro. exact Hd.
      * intros Hc. assert (Ho : act_ord (ACreate (nvp j)) = j) by (cbn [act_ord]; apply nvp_ord; exact Hj).
        specialize (Hat _ Hc Ho). rewrite <- E2 in Hat. apply in_app_or in Hat.
        destruct Hat as [Hx|Hx]; [destruct u; [destruct Hx as [Hx|[]]; discriminate | destruct Hx] | destruct Hx as [Hx|[]]; discriminate].
    + assert (D : deleted acts p = false).
      { destruct (deleted acts p) eqn:D; [|reflexivity]. exfalso.
        assert (Hd : In (ADelete p) acts) by (eapply deleted_elim; eassumption).
        specialize (Hat _ Hd Hpo). rewrite <- E2 in Hat. rewrite app_nil_r in Hat.
        destruct u; [destruct Hat as [Hx|[]]; discriminate | destruct Hat]. }
      rewrite (round_kept j p (proj1 Hj) E1 D). cbv beta. rewrite Hupd. rewrite app_nil_r.
      destruct u; cbn [fold_left step1].
      * destruct (fixpod_preds s p) as (_ & _ & _ & A4 & _ & A6 & A7 & _).
        apply settle1_settled; [rewrite A4; exact T | rewrite A7; exact S].
      * apply settle1_settled; assumption.
  - (* outside the desired set *)
    symmetry in E1. destruct (at_ord_Some _ _ _ E1) as [Hp Hpo]. destruct (wf_settled _ _ _ _ W p Hp) as (T & _ & S).
    destruct k as [|k].
    + cbn [repeat fold_left]. rewrite (settle1_settled p T S).
      assert (D : deleted acts p = false).
      { destruct (deleted acts p) eqn:D; [|reflexivity]. exfalso.
        assert (Hd : In (ADelete p) acts) by (eapply deleted_elim; eassumption).
        specialize (Hat _ Hd Hpo). rewrite <- E2 in Hat. destruct Hat. }
      rewrite (round_kept j p (proj1 Hj) E1 D). cbv beta.
      destruct (updated acts p) eqn:U; [|reflexivity]. exfalso.
      assert (Hd : In (AUpdate p) acts) by (eapply updated_elim; eassumption).
      specialize (Hat _ Hd Hpo). rewrite <- E2 in Hat. destruct Hat.
    + rewrite (fold_deletes p (Datatypes.S k) p F ltac:(lia)). cbn [post set_term_pod p_term]. symmetry. apply round_vacant.
      * intros q Hq. rewrite E1 in Hq. inversion Hq; subst q. apply deleted_intro. apply Hin. rewrite <- E2. left. reflexivity.
      * intros Hc. assert (Ho : act_ord (ACreate (nvp j)) = j) by (cbn [act_ord]; apply nvp_ord; exact Hj).
        specialize (Hat _ Hc Ho). rewrite <- E2 in Hat. apply repeat_spec in Hat. discriminate.
Qed.


(* ---------------------------------------------------------------- every action of the plan succeeds ---- *)
Definition pre_ok (st : option pod) (a : act) : Prop :=
  match a with ACreate _ => st = None | _ => st <> None end.

Lemma fold_deletes_some p : forall k q, (isFailed q || isSucceeded q) = false ->
  fold_left (step1 s) (repeat (ADelete p) k) (Some q) <> None.
Proof.
  intros k q F. destruct k as [|k]; [cbn; discriminate|]. rewrite (fold_deletes p (Datatypes.S k) q F ltac:(lia)). discriminate.
Qed.

Lemma repeat_split {A} (x : A) : forall k X a Y, repeat x k = X ++ a :: Y -> a = x /\ exists k', X = repeat x k'.
Proof.
  induction k as [|k IH]; intros X a Y E; cbn [repeat] in E; [destruct X; discriminate|].
  destruct X as [|y X]; cbn [app] in E; inversion E; subst.
  - split; [reflexivity | exists O; reflexivity].
  - destruct (IH _ _ _ H1) as [Ha (k' & ->)]. split; [exact Ha | exists (Datatypes.S k'); reflexivity].
Qed.

Lemma shape_splits j st l : shape j st l -> forall X a Y, l = X ++ a :: Y -> pre_ok (fold_left (step1 s) X st) a.
Proof.
  intros Sh X a Y E. destruct Sh as [st' | R | p R F | p u d R F Hu | p k C F].
  - destruct X; discriminate.
  - destruct X as [|x X]; cbn [app] in E; inversion E; subst; [reflexivity | destruct X; discriminate].
  - destruct X as [|x X]; cbn [app] in E; inversion E; subst; [cbn; discriminate|].
    destruct X as [|y X]; cbn [app] in *; inversion H1; subst; [cbn [fold_left step1 pre_ok]; rewrite F; reflexivity | destruct X; discriminate].
  - destruct u, d; cbn [app] in E.
    + destruct X as [|x X]; cbn [app] in E; inversion E; subst; [cbn; discriminate|].
      destruct X as [|y X]; cbn [app] in *; inversion H1; subst; [cbn; discriminate | destruct X; discriminate].
    + destruct X as [|x X]; cbn [app] in E; inversion E; subst; [cbn; discriminate | destruct X; discriminate].
    + destruct X as [|x X]; cbn [app] in E; inversion E; subst; [cbn; discriminate | destruct X; discriminate].
    + destruct X; discriminate.
  - destruct (repeat_split _ _ _ _ _ E) as [-> (k' & ->)]. cbn [pre_ok]. apply fold_deletes_some. exact F.
Qed.

(* in a split of what the plan holds for one ordinal, nothing before a create / update creates claims for it *)
Definition makes_claims (a : act) : bool := match a with ADelete _ => false | _ => true end.
Lemma shape_first_claims j st l : shape j st l -> forall X a Y, l = X ++ a :: Y -> makes_claims a = true ->
  forall x, In x X -> makes_claims x = false.
Proof.
  intros Sh X a Y E Ha x Hx. destruct Sh as [st' | R | p R F | p u d R F Hu | p k C F].
  - destruct X; discriminate.
  - destruct X as [|y X]; [destruct Hx|]. cbn [app] in E. inversion E. destruct X; discriminate.
  - destruct X as [|y X]; [destruct Hx|]. cbn [app] in E. inversion E; subst.
    destruct X as [|z X]; [destruct Hx as [<-|[]]; reflexivity|]. cbn [app] in *. inversion H1. destruct X; discriminate.
  - destruct u, d; cbn [app] in E.
    + destruct X as [|y X]; [destruct Hx|]. cbn [app] in E. inversion E; subst.
      destruct X as [|z X]; [cbn [app] in H1; inversion H1; subst; discriminate|]. cbn [app] in H1. inversion H1. destruct X; discriminate.
    + destruct X as [|y X]; [destruct Hx|]. cbn [app] in E. inversion E. destruct X; discriminate.
    + destruct X as [|y X]; [destruct Hx|]. cbn [app] in E. inversion E. destruct X; discriminate.
    + destruct X; discriminate.
  - destruct (repeat_split _ _ _ _ _ E) as [-> _]. discriminate.
Qed.

Lemma nodup_app_disj {A} (a b : list A) : NoDup (a ++ b) -> forall x, In x a -> In x b -> False.
Proof.
  induction a as [|y t IH]; intros H x Ha Hb; [destruct Ha|]. cbn [app] in H. inversion H; subst.
  destruct Ha as [->|Ha]; [match goal with Hn : ~ In _ _ |- _ => apply Hn end; apply in_or_app; right; exact Hb | apply (IH ltac:(assumption) x Ha Hb)].
Qed.
Lemma nodup_app_parts {A} (a b : list A) : NoDup (a ++ b) -> NoDup a /\ NoDup b.
Proof.
  induction a as [|y t IH]; intros H; cbn [app] in H; [split; [constructor | exact H]|].
  inversion H; subst. destruct (IH ltac:(assumption)) as [P1 P2]. split; [|exact P2].
  constructor; [|exact P1]. intros Hin. match goal with Hn : ~ In _ _ |- _ => apply Hn end. apply in_or_app. left. exact Hin.
Qed.
Lemma nodup_flat_map_in {A B} (f : A -> list B) l x : NoDup (flat_map f l) -> In x l -> NoDup (f x).
Proof.
  induction l as [|y t IH]; intros H Hx; [destruct Hx|]. cbn [flat_map] in H.
  destruct (nodup_app_parts _ _ H) as [H1 H2]. destruct Hx as [->|Hx]; [exact H1 | apply IH; [exact H2 | exact Hx]].
Qed.
Lemma nodup_flat_map_disj {A B} (f : A -> list B) l x y b :
  NoDup (flat_map f l) -> In x l -> In y l -> x <> y -> In b (f x) -> In b (f y) -> False.
Proof.
  induction l as [|z t IH]; intros H Hx Hy Hne Hbx Hby; [destruct Hx|]. cbn [flat_map] in H.
  destruct Hx as [->|Hx]; destruct Hy as [->|Hy].
  - contradiction.
  - apply (nodup_app_disj _ _ H b Hbx). apply in_flat_map. exists y. split; assumption.
  - apply (nodup_app_disj _ _ H b Hby). apply in_flat_map. exists x. split; assumption.
  - apply IH; try assumption. apply (nodup_app_parts _ _ H).
Qed.

Section Exec.
Variable cache : world.
(* the claim names of the desired ordinals are pairwise different (they are <template>-<set>-<ordinal>) *)
Hypothesis Hnames : NoDup (flat_map (fun j => map (fun t => claim_name t (s_name s) j) (s_claims s)) (ordinals_of cnt slots)).

Lemma missing_sub j n : In n (missing s cache j) -> In n (map (fun t => claim_name t (s_name s) j) (s_claims s)) /\ ~ In n (w_claims cache).
Proof.
  unfold missing, missing_of. intros H. apply filter_In in H. destruct H as [H1 H2]. split; [exact H1|].
  intros Hin. apply negb_true_iff in H2. rewrite (proj2 (RevisionProofs.smemb_In _ _) Hin) in H2. discriminate.
Qed.

Lemma all_ok_intro : forall l L C,
  (forall A a B, l = A ++ a :: B -> okact s cache (fold_left (exec1 s) A L) (fold_left (exec1c s cache) A C) a) -> all_ok s cache L C l.
Proof.
  induction l as [|a t IH]; intros L C H; cbn [all_ok]; [exact I|]. split.
  - apply (H [] a t eq_refl).
  - apply IH. intros A b B E. apply (H (a :: A) b B). rewrite E. reflexivity.
Qed.

Lemma claim_ord_act a : In a acts -> forall j', claim_ord s a = Some j' -> j' = act_ord a /\ in_range cnt slots j' = true.
Proof.
  intros Ha j' Hj. destruct a as [f|q|p]; cbn [claim_ord act_ord] in *; [| discriminate |].
  - inversion Hj; subst j'. split; [reflexivity|]. destruct (Kcre f Ha) as (i & R & -> & _).
    rewrite nvp_ord by (apply in_range_max; exact R). exact R.
  - inversion Hj; subst j'. destruct (Kupd p Ha) as (Hp & R & _).
    assert (Hoo : getOrdinal (fixpod s p) = getOrdinal p) by (unfold getOrdinal; rewrite (fixpod_name s p (wf_name _ _ _ _ W p Hp)); reflexivity).
    rewrite Hoo. split; [reflexivity | exact R].
Qed.

Lemma plan_all_ok : all_ok s cache pods (w_claims cache) acts.
Proof.
  apply all_ok_intro. intros A a B E.
  assert (Ha : In a acts) by (rewrite E; apply in_or_app; right; left; reflexivity).
  assert (HA : forall x, In x A -> In x acts) by (intros x Hx; rewrite E; apply in_or_app; left; exact Hx).
  destruct (act_name_ord a Ha) as [Hn Ho]. set (j := act_ord a) in *.
  (* the pod of that name, at that moment *)
  assert (Hlook : look (act_name s a) (fold_left (exec1 s) A pods) = fold_left (step1 s) (acts_at j A) (at_ord j pods)).
  { rewrite look_fold, life_acts_for, Hn, (acts_for_at j A Ho HA), (wf_look_at_ord pods j W Ho). reflexivity. }
  assert (Hsplit : acts_at j acts = acts_at j A ++ a :: acts_at j B).
  { rewrite E, acts_at_app. cbn [acts_at filter]. fold (acts_at j B). fold j. rewrite Z.eqb_refl. reflexivity. }
  pose proof (shape_splits j _ _ (plan_shape j (proj1 Ho)) _ _ _ Hsplit) as Hpre.
  (* the claims of that ordinal are still to be created: nothing before this action made claims for it *)
  assert (Hfresh : makes_claims a = true -> in_range cnt slots j = true -> claims_fresh s cache (fold_left (exec1c s cache) A (w_claims cache)) j).
  { intros Hmk R. split.
    - unfold missing, missing_of. apply NoDup_filter.
      apply (nodup_flat_map_in (fun j0 => map (fun t => claim_name t (s_name s) j0) (s_claims s)) (ordinals_of cnt slots) j Hnames).
      apply in_range_iff_desired. exact R.
    - intros n Hn' Hin. destruct (missing_sub j n Hn') as [Hnj Hnc].
      destruct (exec1c_in s cache A _ n Hin) as [Hc|(a' & j' & Ha' & Hj' & Hm)]; [contradiction|].
      destruct (claim_ord_act a' (HA a' Ha') j' Hj') as [Ej' Rj'].
      destruct (Z.eq_dec j' j) as [Ejj|Nj].
      + (* an earlier claim-making action at the same ordinal: excluded by the shape *)
        assert (Hin' : In a' (acts_at j A)) by (apply acts_at_In; split; [exact Ha' | congruence]).
        pose proof (shape_first_claims j _ _ (plan_shape j (proj1 Ho)) _ _ _ Hsplit Hmk a' Hin') as Hno.
        destruct a'; cbn in Hno, Hj'; discriminate.
      + destruct (missing_sub j' n Hm) as [Hnj' _].
        apply (nodup_flat_map_disj (fun j0 => map (fun t => claim_name t (s_name s) j0) (s_claims s)) (ordinals_of cnt slots) j' j n Hnames);
          try assumption; apply in_range_iff_desired; assumption. }
  destruct a as [f|q|p]; cbn [okact pre_ok act_name] in *.
  - split; [rewrite Hlook; exact Hpre|]. destruct (Kcre f Ha) as (i & R & -> & _).
    assert (Hi : getOrdinal (nvp i) = i) by (apply nvp_ord; apply in_range_max; exact R).
    rewrite Hi. unfold j in Hfresh. cbn [act_ord] in Hfresh. rewrite Hi in Hfresh. apply Hfresh; [reflexivity | exact R].
  - rewrite Hlook. exact Hpre.
  - destruct (Kupd p Ha) as (Hp & R & _ & M). split; [rewrite Hlook; exact Hpre|]. split; [exact M|].
    assert (Hoo : getOrdinal (fixpod s p) = getOrdinal p) by (unfold getOrdinal; rewrite (fixpod_name s p (wf_name _ _ _ _ W p Hp)); reflexivity).
    rewrite Hoo. unfold j in Hfresh. cbn [act_ord] in Hfresh. apply Hfresh; [reflexivity | exact R].
Qed.

End Exec.

End OnePlan.

(* ---------------------------------------------------------------- the whole round --------------------- *)
Section Assembly.
Variable hashes : list ((Z * Z) * string).
Variable w : world.
Variables (rcur rupd : rev) (coll r : Z).
Hypothesis Hset : w_set w = Some s.
Hypothesis Hpause : get_paused (s_pause s) = false.
Hypothesis Hsel : s_selector s = SelOk.
Hypothesis Hadopt : nothing_to_adopt w s = true.
Hypothesis Hclaimq : forallb (claim_quiet s) (w_pods w) = true.
Hypothesis Hclaimv : claim_value s (w_pods w) = w_pods w.
Hypothesis Hgsr : gsr_value hashes s (sort_revs (lrevs w s)) = Some (rcur, rupd, coll).
Hypothesis Hcur : cur = {| ri_name := r_name rcur; ri_tmpl := r_tmpl rcur |}.
Hypothesis Hupd : upd = {| ri_name := r_name rupd; ri_tmpl := r_tmpl rupd |}.
Hypothesis Hrep : s_replicas s = Some r.
Hypothesis Hext : extend r (get_slots (s_slots s)) = (cnt, slots).
Hypothesis W : wf s cnt slots (w_pods w).
Hypothesis Hnd : NoDup (w_pods w).
Hypothesis Hnames : NoDup (flat_map (fun j => map (fun t => claim_name t (s_name s) j) (s_claims s)) (ordinals_of cnt slots)).

Let pods := w_pods w.
Let acts := plan_acts s cur upd cnt slots pods.
Let cache := {| w_set := w_set w; w_pods := w_pods w; w_revs := []; w_claims := w_claims w |}.

Lemma plan_some : exists po, plan_pods s cur upd coll pods = Some po /\ po_acts po = acts.
Proof.
  assert (E : exists po, plan_pods s cur upd coll pods = Some po).
  { unfold plan_pods. rewrite Hrep, Hext. replace (cnt <? 0) with false by (symmetry; apply Z.ltb_ge; lia).
    rewrite Hdel.
    destruct (rloop _ _ _ _ _ _ _) as [[[a1 st1] go1] rep']. destruct (negb go1); [eexists; reflexivity|].
    destruct (cloop _ _ _ _ _ _) as [[a2 st2] go2]. destruct (negb go2); [eexists; reflexivity|].
    destruct (String.eqb (s_strategy s) "OnDelete"); [eexists; reflexivity|].
    destruct (uloop _ _ _ _ _ _) as [a3 st3]. eexists; reflexivity. }
  destruct E as [po E]. exists po. split; [exact E|].
  destruct (plan_pods_acts _ _ _ _ _ _ E) as (r' & cnt' & slots' & H1 & H2 & _ & H4).
  rewrite Hrep in H1. inversion H1; subst r'. rewrite Hext in H2. inversion H2; subst. exact H4.
Qed.

Lemma sync_pods : hk (fun x => x = w) (sync hashes cache) (fun x => w_pods x = fold_left (exec1 s) acts pods).
Proof.
  unfold sync. cbn [cache w_set]. rewrite Hset, Hpause, Hsel.
  eapply hk_bind_hoare; [apply reads_hoare; apply reads_adopt; exact Hadopt|]. intros u. cbv beta.
  eapply hk_bind_hoare.
  { eapply hoare_conseq; [| |apply (reads_hoare w); apply (reads_claim_pods w s (w_pods w) None false Hclaimq)].
    - intros x [_ Hx]. exact Hx.
    - intros v x Hx. exact Hx. }
  intros x. cbv beta.
  intros st [Hx HP] Hf. subst x. cbn [fst snd]. rewrite Hclaimv. revert st HP Hf.
  change (hk (fun x => x = w) (update_stateful_set hashes s cache (w_pods w)) (fun x => w_pods x = fold_left (exec1 s) acts pods)).
  unfold update_stateful_set.
  eapply hk_bind_hoare; [apply reads_hoare; apply reads_list_revisions|]. intros revs0. cbv beta.
  intros st [Hr HP] Hf. subst revs0. revert st HP Hf.
  match goal with |- forall st, _ -> _ -> forall r0 st', ?m st = _ -> _ => change (hk (fun x => x = w) m (fun x => w_pods x = fold_left (exec1 s) acts pods)) end.
  eapply hk_bind_hoare; [apply reads_hoare; apply (reads_gsr hashes w s _ _ Hgsr)|]. intros y. cbv beta.
  intros st [Hy HP] Hf. subst y. cbv beta iota zeta. rewrite <- Hcur, <- Hupd.
  destruct plan_some as (po & Hpo & Hacts). fold pods. rewrite Hpo, Hacts. revert st HP Hf.
  match goal with |- forall st, _ -> _ -> forall r0 st', ?m st = _ -> _ => change (hk (fun x => x = w) m (fun x => w_pods x = fold_left (exec1 s) acts pods)) end.
  eapply hk_bind_hoare.
  { apply (exec_acts_ok s cache acts w). apply (plan_all_ok pods W cache Hnames). }
  intros u'. cbv beta.
  apply (hk_keeps same_pods).
  - apply (keeps_bind _ same_pods_trans); [apply keeps_pods_set_status | intros _; apply keeps_pods_truncate].
  - intros a b -> Hab. unfold same_pods in Hab. rewrite <- Hab. reflexivity.
Qed.


(* a fault-free reconcile of a regular world applies EVERY action of its plan, in order, and nothing else touches
   the pods: the pods of the API state afterwards are the plan folded over the pods before *)
Lemma reconcile_applies_plan o lg w1 :
  reconcile hashes w cache [] = (o, lg, w1) -> w_pods w1 = fold_left (exec1 s) acts pods.
Proof.
  intros Er. unfold reconcile in Er.
  destruct (sync hashes cache {| rs_api := w; rs_log := []; rs_n := 0; rs_faults := [] |}) as [r0 st'] eqn:Es.
  inversion Er as [[Eo El Ew]]. exact (sync_pods {| rs_api := w; rs_log := []; rs_n := 0; rs_faults := [] |} eq_refl eq_refl r0 st' Es).
Qed.

Lemma all_ok_names_nodup : forall l L C, all_ok s cache L C l -> NoDup (map p_name L) -> NoDup (map p_name (fold_left (exec1 s) l L)).
Proof.
  induction l as [|a t IH]; intros L C Hok Hn; cbn [fold_left all_ok] in *; [exact Hn|].
  destruct Hok as [H1 H2]. apply (IH _ (exec1c s cache C a)); [exact H2|]. apply exec1_nodup; [exact Hn|].
  intros f ->. cbn [okact] in H1. tauto.
Qed.

(* THE LIFTING STEP: one fair round of the full model (caches catch up, reconcile without faults, terminating
   pods finish, the others become Running and Ready) leaves a duplicate-free pod list with exactly the members
   of the abstract round *)
Theorem lift_round :
  let w' := env_round hashes w in
  NoDup (w_pods w') /\ same_members (w_pods w') (round s upd cnt slots cur pods).
Proof.
  cbv zeta. unfold env_round. cbn [hrun hstep fst hw_api hw_cache].
  fold cache.
  destruct (reconcile hashes w cache []) as [[o lg] w1] eqn:Er. cbn [fst hw_api].
  (* the pods after the reconcile *)
  pose proof (reconcile_applies_plan _ _ _ Er) as Hp1.
  set (names := map p_name (w_pods w1)).
  set (wf_ := fold_left (fun a m => kubelet a m KSettle) names (fold_left (fun a m => kubelet a m KGone) names w1)).
  assert (Hok : all_ok s cache pods (w_claims cache) acts) by (apply (plan_all_ok pods W cache Hnames)).
  assert (Hn0 : NoDup (map p_name pods)) by (apply wf_names_nodup; assumption).
  assert (Hn1 : NoDup (map p_name (w_pods w1))) by (rewrite Hp1; apply (all_ok_names_nodup acts pods (w_claims cache)); assumption).
  assert (Hnf : NoDup (map p_name (w_pods wf_))).
  { unfold wf_. apply kubelet_fold_nodup; [right; reflexivity|]. apply kubelet_fold_nodup; [left; reflexivity | exact Hn1]. }
  assert (Hlook : forall n, look n (w_pods wf_) = post (fold_left (step1 s) (acts_for s n acts) (look n pods))).
  { intros n. unfold wf_, names. rewrite look_settled, Hp1, look_fold, life_acts_for. reflexivity. }
  assert (Hcanon : forall j, 0 <= j <= max_i32 -> look (pod_name (s_name s) j) (w_pods wf_) = at_ord j (round s upd cnt slots cur pods)).
  { intros j Hj. rewrite Hlook, (acts_for_at pods W j acts Hj (fun a H => H)), (wf_look_at_ord pods j W Hj).
    apply (rounds_agree_at pods W j Hj). }
  split.
  - apply (NoDup_map_inv p_name). exact Hnf.
  - intros q. split; intros Hq.
    + pose proof (look_unique _ Hnf q Hq) as Hl.
      assert (Hc : exists j, 0 <= j <= max_i32 /\ p_name q = pod_name (s_name s) j).
      { rewrite Hlook in Hl. destruct (look (p_name q) pods) as [p|] eqn:Lp.
        - destruct (look_In _ _ _ Lp) as [Hp Hpn]. exists (getOrdinal p). split; [apply (wf_ord _ _ _ _ W p Hp)|].
          rewrite <- Hpn. apply (wf_name _ _ _ _ W p Hp).
        - destruct (acts_for s (p_name q) acts) as [|a t] eqn:Ea; [cbn in Hl; discriminate|].
          assert (Ha : In a (acts_for s (p_name q) acts)) by (rewrite Ea; left; reflexivity).
          unfold acts_for in Ha. apply filter_In in Ha. destruct Ha as [Ha Hm]. apply String.eqb_eq in Hm.
          destruct (act_name_ord pods W a Ha) as [Hn Ho]. exists (act_ord a). split; [exact Ho | rewrite Hm; exact Hn]. }
      destruct Hc as (j & Hj & Hn). rewrite Hn, (Hcanon j Hj) in Hl. apply at_ord_Some in Hl. tauto.
    + pose proof (Rwf pods W) as Wr.
      pose proof (wf_ord _ _ _ _ Wr q Hq) as Ho. pose proof (wf_name _ _ _ _ Wr q Hq) as Hn.
      pose proof (at_ord_unique _ _ q (wf_dist _ _ _ _ Wr) Hq eq_refl (proj1 Ho)) as Ha.
      rewrite <- (Hcanon _ Ho), <- Hn in Ha. apply look_In in Ha. tauto.
Qed.

End Assembly.
End Lift.
