(* MonadProofs.v — a small program logic for the state/error monad of World.v: which calls a
   program may append to the log (for every fault oracle and every API state), and what it
   returns.  Used to lift facts about the planner to the whole reconcile. *)
From ASTS Require Import Base Slots Names World.

Definition log_ext (L : call -> Prop) (st st' : rstate) : Prop :=
  exists new, rs_log st' = new ++ rs_log st /\ Forall (fun e => L (fst e)) new.

(* mspec L Q m: whatever the state (API contents, oracle), m only appends calls satisfying L,
   and a value it returns satisfies Q *)
Definition mspec {A} (L : call -> Prop) (Q : A -> Prop) (m : M A) : Prop :=
  forall st r st', m st = (r, st') -> log_ext L st st' /\ (forall a, r = Ok a -> Q a).

Lemma log_ext_refl (L : call -> Prop) st : log_ext L st st.
Proof. exists []. split; [reflexivity | constructor]. Qed.
Lemma log_ext_trans (L : call -> Prop) a b c : log_ext L a b -> log_ext L b c -> log_ext L a c.
Proof.
  intros (n1 & E1 & F1) (n2 & E2 & F2). exists (n2 ++ n1). split.
  - rewrite E2, E1, app_assoc. reflexivity.
  - apply Forall_app. split; assumption.
Qed.

Lemma mspec_ret {A} (L : call -> Prop) (Q : A -> Prop) a : Q a -> mspec L Q (ret a).
Proof. intros H st r st' E. inversion E; subst. split; [apply log_ext_refl|]. intros b Hb. inversion Hb; subst. exact H. Qed.
Lemma mspec_fail {A} (L : call -> Prop) (Q : A -> Prop) e : mspec L Q (fail e).
Proof. intros st r st' E. inversion E; subst. split; [apply log_ext_refl|]. intros b Hb. discriminate. Qed.
Lemma mspec_panic {A} (L : call -> Prop) (Q : A -> Prop) p : mspec L Q (panic p).
Proof. intros st r st' E. inversion E; subst. split; [apply log_ext_refl|]. intros b Hb. discriminate. Qed.
Lemma mspec_fuel {A} (L : call -> Prop) (Q : A -> Prop) : mspec L Q (@out_of_fuel A).
Proof. intros st r st' E. inversion E; subst. split; [apply log_ext_refl|]. intros b Hb. discriminate. Qed.

Lemma mspec_bind {A B} (L : call -> Prop) (Q : A -> Prop) (R : B -> Prop) (m : M A) (f : A -> M B) :
  mspec L Q m -> (forall a, Q a -> mspec L R (f a)) -> mspec L R (bind m f).
Proof.
  intros Hm Hf st r st' E. unfold bind in E. destruct (m st) as [ra s1] eqn:Em.
  destruct (Hm _ _ _ Em) as [Hl Hq].
  destruct ra as [a| e | p |].
  - destruct (Hf a (Hq a eq_refl) _ _ _ E) as [Hl2 Hq2]. split; [eapply log_ext_trans; eassumption | exact Hq2].
  - inversion E; subst. split; [exact Hl | intros b Hb; discriminate].
  - inversion E; subst. split; [exact Hl | intros b Hb; discriminate].
  - inversion E; subst. split; [exact Hl | intros b Hb; discriminate].
Qed.

Lemma mspec_weaken {A} (L L' : call -> Prop) (Q Q' : A -> Prop) m :
  (forall c, L c -> L' c) -> (forall a, Q a -> Q' a) -> mspec L Q m -> mspec L' Q' m.
Proof.
  intros HL HQ Hm st r st' E. destruct (Hm _ _ _ E) as [(new & E1 & F) Hq]. split.
  - exists new. split; [exact E1|]. eapply Forall_impl; [|exact F]. intros e. apply HL.
  - intros a Ha. apply HQ. apply Hq. exact Ha.
Qed.

Lemma mspec_try {A} (L : call -> Prop) (Q : A -> Prop) (m : M A) :
  mspec L Q m -> mspec L (fun x => match x with inl a => Q a | inr _ => True end) (try m).
Proof.
  intros Hm st r st' E. unfold try in E. destruct (m st) as [ra s1] eqn:Em.
  destruct (Hm _ _ _ Em) as [Hl Hq].
  destruct ra; inversion E; subst; (split; [exact Hl|]); intros b Hb; inversion Hb; subst; auto.
Qed.

Lemma mspec_call {A} (L : call -> Prop) (Q : A -> Prop) (c : call) (apply : world -> (A + errkind) * world) :
  L c -> (forall w a w', apply w = (inl a, w') -> Q a) -> mspec L Q (call_api c apply).
Proof.
  intros Hc Hq st r st' E. unfold call_api in E.
  destruct (take_fault (rs_n st) c (rs_faults st)) as [fo fs'].
  assert (Hone : forall x, log_ext L st {| rs_api := x; rs_log := (c, None) :: rs_log st; rs_n := S (rs_n st); rs_faults := fs' |}).
  { intros x. exists [(c, None)]. split; [reflexivity | constructor; [exact Hc | constructor]]. }
  assert (Herr : forall x e, log_ext L st {| rs_api := x; rs_log := (c, Some e) :: rs_log st; rs_n := S (rs_n st); rs_faults := fs' |}).
  { intros x e. exists [(c, Some e)]. split; [reflexivity | constructor; [exact Hc | constructor]]. }
  destruct fo as [f|].
  - destruct f; try (inversion E; subst; split; [apply Herr | intros a Ha; discriminate]).
    destruct (apply (rs_api st)) as [x w']. inversion E; subst. split; [apply Herr | intros a Ha; discriminate].
  - destruct (apply (rs_api st)) as [[a|e] w'] eqn:Ea; inversion E; subst.
    + split; [apply Hone|]. intros b Hb. inversion Hb; subst. eapply Hq. exact Ea.
    + split; [apply Herr | intros b Hb; discriminate].
Qed.

Lemma mspec_forM {A} (L : call -> Prop) (l : list A) (f : A -> M unit) :
  (forall x, In x l -> mspec L (fun _ => True) (f x)) -> mspec L (fun _ => True) (forM l f).
Proof.
  induction l as [|x t IH]; intros H; cbn [forM].
  - apply mspec_ret. exact I.
  - eapply mspec_bind; [apply H; left; reflexivity|]. intros _ _. apply IH. intros y Hy. apply H. right. exact Hy.
Qed.

(* the log of a run that starts from the empty log *)
Lemma mspec_run {A} (L : call -> Prop) (Q : A -> Prop) (m : M A) api faults r st' :
  mspec L Q m -> m {| rs_api := api; rs_log := []; rs_n := 0; rs_faults := faults |} = (r, st') ->
  Forall (fun e => L (fst e)) (rs_log st').
Proof.
  intros Hm E. destruct (Hm _ _ _ E) as [(new & E1 & F) _]. cbn in E1. rewrite app_nil_r in E1. rewrite E1. exact F.
Qed.

(* ---- log-only specifications ---- *)
Definition emits {A} (L : call -> Prop) (m : M A) : Prop := mspec L (fun _ => True) m.

Lemma emits_of_mspec {A} (L : call -> Prop) (Q : A -> Prop) m : mspec L Q m -> emits L m.
Proof. apply mspec_weaken; auto. Qed.
Lemma emits_ret {A} (L : call -> Prop) (a : A) : emits L (ret a).
Proof. apply mspec_ret. exact I. Qed.
Lemma emits_bind {A B} (L : call -> Prop) (m : M A) (f : A -> M B) :
  emits L m -> (forall a, emits L (f a)) -> emits L (bind m f).
Proof. intros Hm Hf. eapply mspec_bind; [exact Hm|]. intros a _. apply Hf. Qed.
Lemma emits_try {A} (L : call -> Prop) (m : M A) : emits L m -> emits L (try m).
Proof. intros Hm. eapply mspec_weaken; [| |apply mspec_try; exact Hm]; auto. Qed.
Lemma emits_call {A} (L : call -> Prop) (c : call) (apply : world -> (A + errkind) * world) :
  L c -> emits L (call_api c apply).
Proof. intros Hc. apply mspec_call; auto. Qed.
Lemma emits_forM {A} (L : call -> Prop) (l : list A) (f : A -> M unit) :
  (forall x, In x l -> emits L (f x)) -> emits L (forM l f).
Proof. apply mspec_forM. Qed.
Lemma emits_weaken {A} (L L' : call -> Prop) (m : M A) : (forall c, L c -> L' c) -> emits L m -> emits L' m.
Proof. intros H. apply mspec_weaken; auto. Qed.

(* structural automation: peel binds, tries, rets, matches and ifs; leaves the side conditions on
   the individual calls *)
Ltac msimp :=
  repeat first
    [ apply emits_ret
    | apply mspec_fail | apply mspec_panic | apply mspec_fuel
    | apply emits_bind; [|intros ?]
    | apply emits_try
    | apply emits_call
    | match goal with
      | |- emits _ (match ?x with _ => _ end) => destruct x
      | |- emits _ (if ?x then _ else _) => destruct x
      | |- emits _ (let '(_, _) := ?x in _) => destruct x
      end ].

Lemma bind_inv {A B} (m : M A) (f : A -> M B) st r st' :
  bind m f st = (r, st') ->
  (exists a s1, m st = (Ok a, s1) /\ f a s1 = (r, st'))
  \/ (m st = (match r with Ok _ => OutOfFuel | Err e => Err e | Panic p => Panic p | OutOfFuel => OutOfFuel end, st')
      /\ (forall b, r <> Ok b)).
Proof.
  unfold bind. destruct (m st) as [ra s1]. destruct ra as [a|e|p|]; intros H.
  - left. exists a, s1. split; [reflexivity | exact H].
  - right. inversion H; subst. split; [reflexivity | intros b Hb; discriminate].
  - right. inversion H; subst. split; [reflexivity | intros b Hb; discriminate].
  - right. inversion H; subst. split; [reflexivity | intros b Hb; discriminate].
Qed.

Lemma emits_run {A} (L : call -> Prop) (m : M A) st r st' : emits L m -> m st = (r, st') -> log_ext L st st'.
Proof. intros Hm E. destruct (Hm _ _ _ E) as [H _]. exact H. Qed.
Lemma log_ext_weaken (L L' : call -> Prop) st st' : (forall c, L c -> L' c) -> log_ext L st st' -> log_ext L' st st'.
Proof. intros H (new & E & F). exists new. split; [exact E|]. eapply Forall_impl; [|exact F]. intros e. apply H. Qed.

(* ---- absence of panics ---- *)
Definition np {A} (m : M A) : Prop := forall st r st', m st = (r, st') -> forall p, r <> Panic p.
Lemma np_ret {A} (a : A) : np (ret a).
Proof. intros st r st' E p. inversion E; subst. discriminate. Qed.
Lemma np_fail {A} e : np (@fail A e).
Proof. intros st r st' E p. inversion E; subst. discriminate. Qed.
Lemma np_fuel {A} : np (@out_of_fuel A).
Proof. intros st r st' E p. inversion E; subst. discriminate. Qed.
Lemma np_bind {A B} (m : M A) (f : A -> M B) : np m -> (forall a, np (f a)) -> np (bind m f).
Proof.
  intros Hm Hf st r st' E p. unfold bind in E. destruct (m st) as [ra s1] eqn:Em.
  destruct ra as [a|e|q|].
  - eapply Hf; exact E.
  - inversion E; subst. discriminate.
  - exfalso. eapply Hm; [exact Em | reflexivity].
  - inversion E; subst. discriminate.
Qed.
Lemma np_try {A} (m : M A) : np m -> np (try m).
Proof.
  intros Hm st r st' E p. unfold try in E. destruct (m st) as [ra s1] eqn:Em.
  destruct ra as [a|e|q|]; inversion E; subst; try discriminate.
  exfalso. eapply Hm; [exact Em | reflexivity].
Qed.
Lemma np_call {A} (c : call) (apply : world -> (A + errkind) * world) : np (call_api c apply).
Proof.
  intros st r st' E p. unfold call_api in E.
  destruct (take_fault (rs_n st) c (rs_faults st)) as [fo fs'].
  destruct fo as [f|].
  - destruct f; try (inversion E; subst; discriminate).
    destruct (apply (rs_api st)) as [x w']. inversion E; subst. discriminate.
  - destruct (apply (rs_api st)) as [[a|e] w']; inversion E; subst; discriminate.
Qed.
Lemma np_forM {A} (l : list A) (f : A -> M unit) : (forall x, np (f x)) -> np (forM l f).
Proof.
  intros H. induction l as [|x t IH]; cbn [forM]; [apply np_ret|]. apply np_bind; [apply H | intros _; exact IH].
Qed.

Ltac npsimp :=
  repeat first
    [ apply np_ret | apply np_fail | apply np_fuel | apply np_call
    | apply np_bind; [|intros ?]
    | apply np_try
    | apply np_forM; intros ?
    | match goal with
      | |- np (match ?x with _ => _ end) => destruct x
      | |- np (if ?x then _ else _) => destruct x
      | |- np (let '(_, _) := ?x in _) => destruct x
      end ].

(* ---- relations between the API state before and after ---- *)
Definition keeps {A} (R : world -> world -> Prop) (m : M A) : Prop :=
  forall st r st', m st = (r, st') -> R (rs_api st) (rs_api st').
Section Keeps.
Variable R : world -> world -> Prop.
Hypothesis Rrefl : forall w, R w w.
Hypothesis Rtrans : forall a b c, R a b -> R b c -> R a c.
Lemma keeps_ret {A} (a : A) : keeps R (ret a).
Proof. intros st r st' E. inversion E; subst. apply Rrefl. Qed.
Lemma keeps_fail {A} e : keeps R (@fail A e).
Proof. intros st r st' E. inversion E; subst. apply Rrefl. Qed.
Lemma keeps_panic {A} p : keeps R (@panic A p).
Proof. intros st r st' E. inversion E; subst. apply Rrefl. Qed.
Lemma keeps_fuel {A} : keeps R (@out_of_fuel A).
Proof. intros st r st' E. inversion E; subst. apply Rrefl. Qed.
Lemma keeps_bind {A B} (m : M A) (f : A -> M B) : keeps R m -> (forall a, keeps R (f a)) -> keeps R (bind m f).
Proof.
  intros Hm Hf st r st' E. unfold bind in E. destruct (m st) as [ra s1] eqn:Em. pose proof (Hm _ _ _ Em) as H1.
  destruct ra as [a|e|p|]; try (inversion E; subst; exact H1).
  eapply Rtrans; [exact H1 | eapply Hf; exact E].
Qed.
Lemma keeps_try {A} (m : M A) : keeps R m -> keeps R (try m).
Proof.
  intros Hm st r st' E. unfold try in E. destruct (m st) as [ra s1] eqn:Em. pose proof (Hm _ _ _ Em) as H1.
  destruct ra; inversion E; subst; exact H1.
Qed.
Lemma keeps_call {A} (c : call) (apply : world -> (A + errkind) * world) :
  (forall w x w', apply w = (x, w') -> R w w') -> keeps R (call_api c apply).
Proof.
  intros Ha st r st' E. unfold call_api in E. destruct (take_fault _ _ _) as [fo fs'].
  destruct fo as [f|].
  - destruct f; try (inversion E; subst; apply Rrefl).
    destruct (apply (rs_api st)) as [x w'] eqn:Ea. inversion E; subst. cbn. eapply Ha. exact Ea.
  - destruct (apply (rs_api st)) as [[a|e] w'] eqn:Ea; inversion E; subst; cbn; eapply Ha; exact Ea.
Qed.
Lemma keeps_forM {A} (l : list A) (f : A -> M unit) : (forall x, keeps R (f x)) -> keeps R (forM l f).
Proof.
  intros H. induction l as [|x t IH]; cbn [forM]; [apply keeps_ret|]. apply keeps_bind; [apply H | intros _; exact IH].
Qed.
End Keeps.

Ltac kpsimp Rr Rt :=
  repeat first
    [ apply (keeps_ret _ Rr) | apply (keeps_fail _ Rr) | apply (keeps_panic _ Rr) | apply (keeps_fuel _ Rr)
    | apply (keeps_bind _ Rt); [|intros ?]
    | apply keeps_try
    | apply (keeps_forM _ Rr Rt); intros ?
    | match goal with
      | |- keeps _ (match ?x with _ => _ end) => destruct x
      | |- keeps _ (if ?x then _ else _) => destruct x
      | |- keeps _ (let '(_, _) := ?x in _) => destruct x
      end ].
