(* ReconcileProofs.v — lifting of the planner facts to the whole reconcile (sync), for every
   API state, informer cache and fault oracle.  Statements of the properties are in C*.v. *)
From ASTS Require Import Base Slots SlotsProofs Names World Reconcile MonadProofs PlanProofs.

(* which cached pods the claim phase hands to the control loop *)
Definition claimed_ok (s : sset) (cache : world) (claimed : list pod) : Prop :=
  forall p, In p claimed ->
    In p (w_pods cache) /\ p_match p = true /\ isMemberOf s p = true
    /\ (owner_uid_is s (p_owner p) = true
        \/ (p_owner p = None /\ p_term p = false /\ s_deleting s = false)).

(* the context of the pod phase of one reconcile: the set, the resolved current / update revisions,
   the collision count, the claimed pods and what the planner made of them *)
Definition pctx := (sset * rinfo * rinfo * Z * list pod * plan_out)%type.
Definition ctx_valid (cache : world) (c : pctx) : Prop :=
  let '(s, cur, upd, coll, claimed, po) := c in
  w_set cache = Some s /\ claimed_ok s cache claimed /\ plan_pods s cur upd coll claimed = Some po.

(* justification of every call a reconcile may issue, relative to ONE context for the whole reconcile
   (None: the pod phase was not reached) *)
Definition call_in (cache : world) (oc : option pctx) (c : call) : Prop :=
  match c with
  | CDeletePod n =>
      exists s cur upd coll claimed po p, oc = Some (s, cur, upd, coll, claimed, po)
        /\ In (ADelete p) (po_acts po) /\ p_name p = n
  | CCreatePod n r t =>
      exists s cur upd coll claimed po p, oc = Some (s, cur, upd, coll, claimed, po)
        /\ In (ACreate p) (po_acts po) /\ p_name p = n /\ p_rev p = r /\ p_tmpl p = t
  | CUpdatePod n =>
      exists s cur upd coll claimed po p, oc = Some (s, cur, upd, coll, claimed, po) /\ In (AUpdate p) (po_acts po)
  | CCreateClaim n =>
      exists s cur upd coll claimed po p, oc = Some (s, cur, upd, coll, claimed, po)
        /\ (In (ACreate p) (po_acts po) \/ In (AUpdate p) (po_acts po))
  | CPatchPod n adopt =>
      exists s p, w_set cache = Some s /\ In p (w_pods cache) /\ p_name p = n /\ s_deleting s = false
        /\ (if adopt then p_owner p = None /\ p_match p = true /\ isMemberOf s p = true /\ p_term p = false
            else owner_uid_is s (p_owner p) = true /\ (p_match p && isMemberOf s p) = false)
  | CUpdateStatus st rv =>
      exists s cur upd coll claimed po, oc = Some (s, cur, upd, coll, claimed, po)
        /\ st = complete_rolling_update s (po_status po) /\ rv = s_rv s
  | CPatchRev n =>                                  (* adoption of a revision: never for a set being deleted *)
      exists s, w_set cache = Some s /\ s_deleting s = false
  | _ => True
  end.

(* calls of the claim phase *)
Definition claim_call (cache : world) (c : call) : Prop :=
  match c with
  | CGetSet => True
  | CPatchPod _ _ => call_in cache None c
  | _ => False
  end.
Lemma claim_call_in cache oc c : claim_call cache c -> call_in cache oc c.
Proof. destruct c; cbn; try tauto. Qed.

Definition is_rev_or_read (c : call) : Prop :=
  match c with
  | CListRevs _ | CGetSet | CGetRev _ | CUpdateRev _ _ _ | CCreateRev _ _ _ | CDeleteRev _ => True
  | _ => False
  end.
(* calls of the revision-adoption phase *)
Definition adopt_call (cache : world) (c : call) : Prop :=
  match c with
  | CListRevs _ => True
  | CGetSet | CUpdateRev _ _ _ | CPatchRev _ => exists s, w_set cache = Some s /\ s_deleting s = false
  | _ => False
  end.
Lemma rev_or_read_ok cache oc c : is_rev_or_read c -> call_in cache oc c.
Proof. destruct c; cbn; tauto. Qed.
Lemma adopt_call_ok cache oc c : adopt_call cache c -> call_in cache oc c.
Proof. destruct c; cbn; tauto. Qed.

(* calls of revision listing / resolution: no delete, no adoption *)
Definition resolve_call (c : call) : Prop :=
  match c with
  | CListRevs _ | CGetRev _ | CUpdateRev _ _ _ | CCreateRev _ _ _ => True
  | _ => False
  end.
Lemma resolve_is_rev_or_read c : resolve_call c -> is_rev_or_read c.
Proof. destruct c; cbn; tauto. Qed.

Section Lift.
Variable hashes : list ((Z * Z) * string).

Lemma emits_list_revisions_r s : emits resolve_call (list_revisions s).
Proof. unfold list_revisions, api_list_revs. msimp; exact I. Qed.
Lemma emits_list_revisions s : emits is_rev_or_read (list_revisions s).
Proof. eapply emits_weaken; [apply resolve_is_rev_or_read | apply emits_list_revisions_r]. Qed.

Lemma emits_sync_all : forall l, emits is_rev_or_read (sync_all l).
Proof.
  induction l as [|r t IH]; cbn [sync_all]; msimp; try exact I; try apply IH.
Qed.

Lemma emits_list_revisions_adopt cache s : emits (adopt_call cache) (list_revisions s).
Proof. unfold list_revisions, api_list_revs. msimp; exact I. Qed.

Lemma emits_sync_all_adopt cache s : w_set cache = Some s -> s_deleting s = false ->
  forall l, emits (adopt_call cache) (sync_all l).
Proof.
  intros Hs Hd. induction l as [|r t IH]; cbn [sync_all]; msimp; try apply IH; cbn; exists s; split; assumption.
Qed.

Lemma emits_adopt cache s : w_set cache = Some s -> emits (adopt_call cache) (adopt_orphan_revisions s).
Proof.
  intros Hs. unfold adopt_orphan_revisions.
  apply emits_bind; [apply emits_list_revisions_adopt|]. intros revs.
  destruct (s_deleting s) eqn:Hd; [rewrite andb_false_r; apply emits_ret|].
  assert (Hok : exists s0, w_set cache = Some s0 /\ s_deleting s0 = false) by (exists s; split; assumption).
  destruct (existsb _ revs); cbn [andb negb]; [|apply emits_ret].
  unfold api_get_set. msimp; try exact Hok.
  all: try apply (emits_sync_all_adopt cache s Hs Hd).
  all: apply emits_forM; intros r _; unfold api_adopt_rev; msimp; exact Hok.
Qed.

Lemma emits_update_controller_revision : forall fuel clone n last,
  emits resolve_call (update_controller_revision fuel clone n last).
Proof.
  induction fuel as [|f IH]; intros clone n last; cbn [update_controller_revision]; [apply mspec_fail|].
  destruct (r_revision clone =? n); [apply emits_ret|].
  unfold api_put_rev, api_get_rev. msimp; try exact I; try apply IH.
Qed.

Lemma emits_create_controller_revision : forall fuel s r coll,
  emits resolve_call (create_controller_revision hashes fuel s r coll).
Proof.
  induction fuel as [|f IH]; intros s r coll; cbn [create_controller_revision]; [apply mspec_fuel|].
  destruct (hash_of hashes (r_tmpl r) coll); [|apply mspec_fuel].
  unfold api_create_rev, api_get_rev. msimp; try exact I; try apply IH.
Qed.

Lemma emits_get_set_revisions_r s revs : emits resolve_call (get_set_revisions hashes s revs).
Proof.
  unfold get_set_revisions. destruct (hash_of hashes (s_tmpl s) _); [|apply mspec_fuel].
  apply emits_bind.
  - destruct (last_opt (filter _ revs)); [destruct (last_opt revs)|].
    + destruct (equal_revision _ _); [apply emits_ret|].
      apply emits_bind; [apply emits_update_controller_revision | intros u; apply emits_ret].
    + apply emits_create_controller_revision.
    + apply emits_create_controller_revision.
  - intros [upd coll]. apply emits_ret.
Qed.

Lemma emits_get_set_revisions s revs : emits is_rev_or_read (get_set_revisions hashes s revs).
Proof. eapply emits_weaken; [apply resolve_is_rev_or_read | apply emits_get_set_revisions_r]. Qed.

Lemma emits_truncate s pods revs cur upd : emits is_rev_or_read (truncate_history s pods revs cur upd).
Proof.
  unfold truncate_history. destruct (s_rhl s); [|apply mspec_panic].
  destruct (_ <=? _); [apply emits_ret|]. apply emits_forM. intros r _. unfold api_delete_rev. msimp. exact I.
Qed.

(* ---- pod control ---- *)
Lemma emits_create_claims (L : call -> Prop) s cache ord : forall ts failed,
  (forall t, In t ts -> L (CCreateClaim (claim_name t (s_name s) ord))) ->
  emits L (create_claims s cache ord ts failed).
Proof.
  induction ts as [|t rest IH]; intros failed H; cbn [create_claims]; [apply emits_ret|].
  assert (Hrest : forall u, In u rest -> L (CCreateClaim (claim_name u (s_name s) ord)))
    by (intros u Hu; apply H; right; exact Hu).
  assert (Ht : L (CCreateClaim (claim_name t (s_name s) ord))) by (apply H; left; reflexivity).
  destruct (smemb _ _); [apply IH; exact Hrest|].
  msimp; try exact Ht; apply IH; exact Hrest.
Qed.

Lemma emits_create_pvcs (L : call -> Prop) s cache p :
  (forall t, In t (s_claims s) -> L (CCreateClaim (claim_name t (s_name s) (getOrdinal p)))) ->
  emits L (create_pvcs s cache p).
Proof.
  intros H. unfold create_pvcs. apply emits_bind; [apply emits_create_claims; exact H|].
  intros failed. destruct failed; [apply mspec_fail | apply emits_ret].
Qed.

Lemma emits_update_stateful_pod (L : call -> Prop) s cache :
  (forall n, L (CUpdatePod n)) -> (forall n, L (CCreateClaim n)) ->
  forall fuel p last, emits L (update_stateful_pod fuel s cache p last).
Proof.
  intros HU HC. induction fuel as [|f IH]; intros p last; cbn [update_stateful_pod]; [apply mspec_fail|].
  apply emits_bind.
  - destruct (storageMatches _ _); [apply emits_ret | apply emits_create_pvcs; intros t _; apply HC].
  - intros _. destruct (_ && _); [apply emits_ret|].
    unfold api_update_pod. msimp; try apply HU; try apply IH.
Qed.

(* ---- ClaimPods ---- *)
Lemma claimed_ok_nil s cache : claimed_ok s cache [].
Proof. intros p []. Qed.
Lemma claimed_ok_cons s cache p l :
  In p (w_pods cache) -> p_match p = true -> isMemberOf s p = true ->
  (owner_uid_is s (p_owner p) = true \/ (p_owner p = None /\ p_term p = false /\ s_deleting s = false)) ->
  claimed_ok s cache l -> claimed_ok s cache (p :: l).
Proof. intros H1 H2 H3 H4 Hl q [<-|Hq]; [repeat split; assumption | apply Hl; exact Hq]. Qed.

Lemma mspec_can_adopt s cache memo :
  mspec (claim_call cache) (fun _ => True) (can_adopt s memo).
Proof.
  unfold can_adopt. destruct memo; [apply mspec_ret; exact I|].
  unfold api_get_set. apply emits_bind; [apply emits_try; apply emits_call; exact I|].
  intros g. apply emits_ret.
Qed.

Lemma mspec_claim_pods s cache : w_set cache = Some s ->
  forall pods memo failed, incl pods (w_pods cache) ->
  mspec (claim_call cache) (fun x => claimed_ok s cache (fst x)) (claim_pods s pods memo failed).
Proof.
  intros Hs. induction pods as [|p t IH]; intros memo failed Hinc; cbn [claim_pods].
  - apply mspec_ret. apply claimed_ok_nil.
  - assert (Hp : In p (w_pods cache)) by (apply Hinc; left; reflexivity).
    assert (Ht : incl t (w_pods cache)) by (intros q Hq; apply Hinc; right; exact Hq).
    destruct (p_owner p) as [o|] eqn:Ho.
    + destruct (owner_uid_is s (Some o)) eqn:Hu; cbn [negb]; [|apply IH; exact Ht].
      destruct (p_match p && isMemberOf s p) eqn:Hm.
      * apply andb_true_iff in Hm. destruct Hm as [Hm1 Hm2].
        eapply mspec_bind; [apply IH; exact Ht|]. intros x Hx. apply mspec_ret. cbn [fst].
        apply claimed_ok_cons; auto. left. rewrite Ho. exact Hu.
      * destruct (s_deleting s) eqn:Hd; [apply IH; exact Ht|].
        eapply mspec_bind.
        -- apply mspec_try. unfold api_patch_pod. apply (mspec_call _ (fun _ => True)); [|auto].
           cbn. exists s, p. repeat split; auto. rewrite Ho. exact Hu.
        -- intros r _. destruct r as [u|e]; [apply IH; exact Ht|]. destruct e; apply IH; exact Ht.
    + destruct (s_deleting s) eqn:Hd; cbn [orb]; [apply IH; exact Ht|].
      destruct (p_match p && isMemberOf s p) eqn:Hm; cbn [negb]; [|apply IH; exact Ht].
      apply andb_true_iff in Hm. destruct Hm as [Hm1 Hm2].
      destruct (p_term p) eqn:Htm; [apply IH; exact Ht|].
      eapply mspec_bind; [apply mspec_can_adopt|]. intros [ok memo'] _.
      destruct ok; cbn [negb]; [|apply IH; exact Ht].
      eapply mspec_bind.
      * apply mspec_try. unfold api_patch_pod. apply (mspec_call _ (fun _ => True)); [|auto].
        cbn. exists s, p. repeat split; auto.
      * intros r _. destruct r as [u|e].
        -- eapply mspec_bind; [apply IH; exact Ht|]. intros x Hx. apply mspec_ret. cbn [fst].
           apply claimed_ok_cons; auto.
        -- destruct e; apply IH; exact Ht.
Qed.

(* ---- the pod phase: every call comes from a planned action ---- *)
Lemma emits_exec_act (L : call -> Prop) s cache a :
  (forall p, a = ACreate p \/ a = AUpdate p -> forall n, L (CCreateClaim n)) ->
  (forall p, a = AUpdate p -> forall n, L (CUpdatePod n)) ->
  (forall p, a = ADelete p -> L (CDeletePod (p_name p))) ->
  (forall p, a = ACreate p -> L (CCreatePod (p_name p) (p_rev p) (p_tmpl p))) ->
  emits L (exec_act s cache a).
Proof.
  intros HC HU HD HCr. destruct a as [p|p|p]; cbn [exec_act].
  - unfold create_stateful_pod. apply emits_bind; [apply emits_create_pvcs; intros t _; apply (HC p); left; reflexivity|].
    intros _. unfold api_create_pod. apply emits_call. apply HCr. reflexivity.
  - unfold api_delete_pod. apply emits_call. apply HD. reflexivity.
  - apply emits_update_stateful_pod; [apply (HU p); reflexivity | apply (HC p); right; reflexivity].
Qed.

Lemma emits_update_status_retry (L : call -> Prop) s st : L (CUpdateStatus st (s_rv s)) ->
  forall fuel last, emits L (update_status_retry fuel s st last).
Proof.
  intros H. induction fuel as [|f IH]; intros last; cbn [update_status_retry]; [apply mspec_fail|].
  unfold api_update_status. msimp; try exact H; apply IH.
Qed.

Lemma update_stateful_set_ctx s cache pods st r st' :
  w_set cache = Some s -> claimed_ok s cache pods ->
  update_stateful_set hashes s cache pods st = (r, st') ->
  exists oc, (forall c, oc = Some c -> ctx_valid cache c) /\ log_ext (call_in cache oc) st st'.
Proof.
  intros Hs Hcl E. unfold update_stateful_set in E.
  apply bind_inv in E. destruct E as [(revs0 & s1 & E1 & E)|[E1 _]].
  2:{ exists None. split; [intros c Hc; discriminate|].
      eapply log_ext_weaken; [apply rev_or_read_ok | eapply emits_run; [apply emits_list_revisions | exact E1]]. }
  assert (L1 : forall oc, log_ext (call_in cache oc) st s1).
  { intros oc. eapply log_ext_weaken; [apply rev_or_read_ok | eapply emits_run; [apply emits_list_revisions | exact E1]]. }
  apply bind_inv in E. destruct E as [([[cur upd] coll] & s2 & E2 & E)|[E2 _]].
  2:{ exists None. split; [intros c Hc; discriminate|]. eapply log_ext_trans; [apply L1|].
      eapply log_ext_weaken; [apply rev_or_read_ok | eapply emits_run; [apply emits_get_set_revisions | exact E2]]. }
  assert (L2 : forall oc, log_ext (call_in cache oc) s1 s2).
  { intros oc. eapply log_ext_weaken; [apply rev_or_read_ok | eapply emits_run; [apply emits_get_set_revisions | exact E2]]. }
  destruct (plan_pods s _ _ coll pods) as [po|] eqn:Hplan.
  2:{ exists None. split; [intros c Hc; discriminate|]. inversion E; subst.
      eapply log_ext_trans; [apply L1 | apply L2]. }
  set (ci := {| ri_name := r_name cur; ri_tmpl := r_tmpl cur |}) in *.
  set (ui := {| ri_name := r_name upd; ri_tmpl := r_tmpl upd |}) in *.
  exists (Some (s, ci, ui, coll, pods, po)). split.
  { intros c Hc. inversion Hc; subst c. unfold ctx_valid. split; [exact Hs | split; [exact Hcl | exact Hplan]]. }
  eapply log_ext_trans; [apply L1|]. eapply log_ext_trans; [apply L2|].
  eapply emits_run; [|exact E].
  apply emits_bind; [|intros _; apply emits_bind; [|intros _]].
  - apply emits_forM. intros a Ha. apply emits_exec_act.
    + intros p [->| ->] n; cbn; exists s, ci, ui, coll, pods, po, p; (split; [reflexivity|]); [left | right]; exact Ha.
    + intros p -> n. cbn. exists s, ci, ui, coll, pods, po, p. split; [reflexivity | exact Ha].
    + intros p ->. cbn. exists s, ci, ui, coll, pods, po, p. repeat split; auto.
    + intros p ->. cbn. exists s, ci, ui, coll, pods, po, p. repeat split; auto.
  - unfold update_set_status. destruct (inconsistent_status _ _); [|apply emits_ret].
    apply emits_update_status_retry. cbn. exists s, ci, ui, coll, pods, po. repeat split; reflexivity.
  - eapply emits_weaken; [apply rev_or_read_ok | apply emits_truncate].
Qed.

(* ---- the whole reconcile ---- *)
Theorem sync_ctx cache st r st' :
  sync hashes cache st = (r, st') ->
  exists oc, (forall c, oc = Some c -> ctx_valid cache c) /\ log_ext (call_in cache oc) st st'.
Proof.
  intros E. unfold sync in E.
  assert (Hnone : forall s0, log_ext (call_in cache None) s0 s0 /\ (forall c : pctx, None = Some c -> ctx_valid cache c)).
  { intros s0. split; [apply log_ext_refl | intros c Hc; discriminate]. }
  destruct (w_set cache) as [s|] eqn:Hs.
  2:{ inversion E; subst. exists None. split; apply (Hnone st'). }
  destruct (get_paused (s_pause s)).
  { inversion E; subst. exists None. split; apply (Hnone st'). }
  destruct (s_selector s).
  2:{ inversion E; subst. exists None. split; apply (Hnone st'). }
  apply bind_inv in E. destruct E as [(u & s1 & E1 & E)|[E1 _]].
  2:{ exists None. split; [intros c Hc; discriminate|].
      eapply log_ext_weaken; [apply adopt_call_ok | eapply emits_run; [apply (emits_adopt cache s Hs) | exact E1]]. }
  assert (L1 : forall oc, log_ext (call_in cache oc) st s1).
  { intros oc. eapply log_ext_weaken; [apply adopt_call_ok | eapply emits_run; [apply (emits_adopt cache s Hs) | exact E1]]. }
  apply bind_inv in E. destruct E as [(x & s2 & E2 & E)|[E2 _]].
  2:{ exists None. split; [intros c Hc; discriminate|]. eapply log_ext_trans; [apply L1|].
      eapply log_ext_weaken; [apply claim_call_in|].
      destruct (mspec_claim_pods s cache Hs (w_pods cache) None false (incl_refl _) _ _ _ E2) as [H _]. exact H. }
  destruct (mspec_claim_pods s cache Hs (w_pods cache) None false (incl_refl _) _ _ _ E2) as [L2 Hx].
  specialize (Hx x eq_refl).
  destruct (snd x).
  { inversion E; subst. exists None. split; [intros c Hc; discriminate|].
    eapply log_ext_trans; [apply L1|]. eapply log_ext_weaken; [apply claim_call_in | exact L2]. }
  destruct (update_stateful_set_ctx s cache (fst x) _ _ _ Hs Hx E) as (oc & Hv & L3).
  exists oc. split; [exact Hv|].
  eapply log_ext_trans; [apply L1|]. eapply log_ext_trans; [|exact L3].
  eapply log_ext_weaken; [apply claim_call_in | exact L2].
Qed.

Theorem reconcile_ctx api cache faults o log w' :
  reconcile hashes api cache faults = (o, log, w') ->
  exists oc, (forall c, oc = Some c -> ctx_valid cache c) /\ Forall (fun e => call_in cache oc (fst e)) log.
Proof.
  unfold reconcile. destruct (sync hashes cache _) as [r st] eqn:E. intros H. inversion H; subst.
  destruct (sync_ctx _ _ _ _ E) as (oc & Hv & (new & E1 & F)). exists oc. split; [exact Hv|].
  cbn in E1. rewrite app_nil_r in E1. rewrite E1. apply Forall_rev. exact F.
Qed.

(* a paused set: no call at all, success *)
Theorem reconcile_paused api cache faults s :
  w_set cache = Some s -> get_paused (s_pause s) = true ->
  reconcile hashes api cache faults = (OOk, [], api).
Proof. intros Hs Hp. unfold reconcile, sync. rewrite Hs, Hp. reflexivity. Qed.

End Lift.

(* ------------------------------------------------------------------ facts about a valid context --- *)
Lemma ctx_unfold cache s cur upd coll claimed po :
  ctx_valid cache (s, cur, upd, coll, claimed, po) ->
  exists r cnt slots, s_replicas s = Some r /\ extend r (get_slots (s_slots s)) = (cnt, slots) /\ 0 <= cnt
                      /\ po_acts po = plan_acts s cur upd cnt slots claimed.
Proof. intros (_ & _ & Hp). apply (plan_pods_acts _ _ _ _ _ _ Hp). Qed.

Lemma ctx_delete_reason cache s cur upd coll claimed po p :
  ctx_valid cache (s, cur, upd, coll, claimed, po) -> In (ADelete p) (po_acts po) ->
  exists r cnt slots, s_replicas s = Some r /\ extend r (get_slots (s_slots s)) = (cnt, slots)
                      /\ delete_reason s cur upd cnt slots claimed (po_acts po) p.
Proof.
  intros Hv Hin. destruct (ctx_unfold _ _ _ _ _ _ _ Hv) as (r & cnt & slots & H1 & H2 & H3 & H4).
  exists r, cnt, slots. repeat split; auto. rewrite H4 in *. apply plan_delete_justified; assumption.
Qed.

Lemma ctx_create_reason cache s cur upd coll claimed po p :
  ctx_valid cache (s, cur, upd, coll, claimed, po) -> (forall q, In q (w_pods cache) -> isCreated q = true) ->
  In (ACreate p) (po_acts po) ->
  s_deleting s = false /\
  exists r cnt slots i, s_replicas s = Some r /\ extend r (get_slots (s_slots s)) = (cnt, slots)
    /\ 0 <= i /\ in_range cnt slots i = true /\ p = new_versioned_pod s cur upd i
    /\ ((forall q, In q claimed -> getOrdinal q <> i)
        \/ exists p0 pre post, In p0 claimed /\ getOrdinal p0 = i /\ (isFailed p0 || isSucceeded p0) = true
                               /\ po_acts po = pre ++ ADelete p0 :: ACreate p :: post).
Proof.
  intros Hv Hcr Hin. destruct (ctx_unfold _ _ _ _ _ _ _ Hv) as (r & cnt & slots & H1 & H2 & H3 & H4).
  destruct Hv as (_ & Hcl & _). rewrite H4 in *.
  assert (Hcr' : forall q, In q claimed -> isCreated q = true) by (intros q Hq; apply Hcr; apply (Hcl q Hq)).
  destruct (plan_create_justified _ _ _ _ _ _ _ Hcr' Hin) as (Hd & i & Hi & Hr & Hp & Hcase).
  split; [exact Hd|]. exists r, cnt, slots, i. repeat split; auto.
Qed.

Lemma ctx_ordered cache s cur upd coll claimed po :
  ctx_valid cache (s, cur, upd, coll, claimed, po) -> allowsBurst s = false ->
  exists r cnt slots, s_replicas s = Some r /\ extend r (get_slots (s_slots s)) = (cnt, slots)
                      /\ ordered_outcome s cur upd cnt slots claimed (po_acts po).
Proof.
  intros Hv Hb. destruct (ctx_unfold _ _ _ _ _ _ _ Hv) as (r & cnt & slots & H1 & H2 & H3 & H4).
  exists r, cnt, slots. repeat split; auto. rewrite H4. apply plan_ordered; assumption.
Qed.

Lemma ctx_burst cache s cur upd coll claimed po :
  ctx_valid cache (s, cur, upd, coll, claimed, po) -> allowsBurst s = true -> s_deleting s = false ->
  exists r cnt slots, s_replicas s = Some r /\ extend r (get_slots (s_slots s)) = (cnt, slots) /\
    (forall i, in_range cnt slots i = true -> (forall q, In q claimed -> getOrdinal q <> i) ->
               In (ACreate (new_versioned_pod s cur upd i)) (po_acts po))
    /\ (forall p0, In p0 claimed -> in_range cnt slots (getOrdinal p0) = true -> (isFailed p0 || isSucceeded p0) = true ->
                   (forall q, In q claimed -> getOrdinal q = getOrdinal p0 -> q = p0) ->
                   In (ADelete p0) (po_acts po) /\ In (ACreate (new_versioned_pod s cur upd (getOrdinal p0))) (po_acts po))
    /\ (forall c, In c claimed -> is_condemned cnt slots (getOrdinal c) = true -> isTerminating c = false ->
                  In (ADelete c) (po_acts po))
    /\ (exists a3, (a3 = [] \/ exists u, a3 = [ADelete u]) /\
                   po_acts po = rl_acts s cur upd false 0 (replicas_of s cur upd cnt slots claimed)
                                ++ map ADelete (filter (fun p => negb (isTerminating p)) (List.rev (condemned_of cnt slots claimed))) ++ a3).
Proof.
  intros Hv Hb Hd. destruct (ctx_unfold _ _ _ _ _ _ _ Hv) as (r & cnt & slots & H1 & H2 & H3 & H4).
  exists r, cnt, slots. split; [exact H1|]. split; [exact H2|]. rewrite H4.
  apply (plan_burst s cur upd cnt slots claimed H3 Hb Hd).
Qed.

Lemma ctx_deleting cache s cur upd coll claimed po :
  ctx_valid cache (s, cur, upd, coll, claimed, po) -> s_deleting s = true -> po_acts po = [].
Proof.
  intros Hv Hd. destruct (ctx_unfold _ _ _ _ _ _ _ Hv) as (r & cnt & slots & H1 & H2 & H3 & H4).
  rewrite H4. unfold plan_acts. rewrite Hd. reflexivity.
Qed.

(* reconcile-level readings *)
Theorem reconcile_delete_justified hashes api cache faults o log w' n e :
  reconcile hashes api cache faults = (o, log, w') -> In (CDeletePod n, e) log ->
  exists s cur upd coll claimed po r cnt slots p,
    ctx_valid cache (s, cur, upd, coll, claimed, po)
    /\ s_replicas s = Some r /\ extend r (get_slots (s_slots s)) = (cnt, slots)
    /\ p_name p = n /\ delete_reason s cur upd cnt slots claimed (po_acts po) p.
Proof.
  intros Hr Hin. destruct (reconcile_ctx hashes _ _ _ _ _ _ Hr) as (oc & Hv & F).
  rewrite Forall_forall in F. specialize (F _ Hin). cbn in F.
  destruct F as (s & cur & upd & coll & claimed & po & p & -> & Ha & Hn).
  specialize (Hv _ eq_refl).
  destruct (ctx_delete_reason _ _ _ _ _ _ _ _ Hv Ha) as (r & cnt & slots & H1 & H2 & H3).
  exists s, cur, upd, coll, claimed, po, r, cnt, slots, p.
  split; [exact Hv|]. split; [exact H1|]. split; [exact H2|]. split; [exact Hn | exact H3].
Qed.

Theorem reconcile_create_justified hashes api cache faults o log w' n rv t e :
  reconcile hashes api cache faults = (o, log, w') ->
  (forall q, In q (w_pods cache) -> isCreated q = true) ->
  In (CCreatePod n rv t, e) log ->
  exists s cur upd coll claimed po r cnt slots i,
    ctx_valid cache (s, cur, upd, coll, claimed, po) /\ s_deleting s = false
    /\ s_replicas s = Some r /\ extend r (get_slots (s_slots s)) = (cnt, slots)
    /\ In i (pod_ordinals r (get_slots (s_slots s)))
    /\ n = p_name (new_versioned_pod s cur upd i) /\ rv = p_rev (new_versioned_pod s cur upd i)
    /\ ((forall q, In q claimed -> getOrdinal q <> i)
        \/ exists p0 pre post, In p0 claimed /\ getOrdinal p0 = i /\ (isFailed p0 || isSucceeded p0) = true
             /\ po_acts po = pre ++ ADelete p0 :: ACreate (new_versioned_pod s cur upd i) :: post).
Proof.
  intros Hr Hcr Hin. destruct (reconcile_ctx hashes _ _ _ _ _ _ Hr) as (oc & Hv & F).
  rewrite Forall_forall in F. specialize (F _ Hin). cbn in F.
  destruct F as (s & cur & upd & coll & claimed & po & p & -> & Ha & Hn & Hrv & Ht).
  specialize (Hv _ eq_refl).
  destruct (ctx_create_reason _ _ _ _ _ _ _ _ Hv Hcr Ha) as (Hd & r & cnt & slots & i & H1 & H2 & H3 & H4 & H5 & H6).
  exists s, cur, upd, coll, claimed, po, r, cnt, slots, i. subst p.
  split; [exact Hv|]. split; [exact Hd|]. split; [exact H1|]. split; [exact H2|].
  split; [unfold pod_ordinals; rewrite H2; apply in_range_iff_desired; exact H4|].
  split; [symmetry; exact Hn|]. split; [symmetry; exact Hrv | exact H6].
Qed.

(* a set that is being deleted: no pod or claim is created, deleted or modified, nothing is adopted
   or released (pods or revisions) *)
Definition touches_pods_or_adopts (c : call) : bool :=
  match c with
  | CDeletePod _ | CCreatePod _ _ _ | CUpdatePod _ | CCreateClaim _ | CPatchPod _ _ | CPatchRev _ => true
  | _ => false
  end.
Theorem reconcile_deleting_leaves_alone hashes api cache faults o log w' s :
  reconcile hashes api cache faults = (o, log, w') -> w_set cache = Some s -> s_deleting s = true ->
  forall c e, In (c, e) log -> touches_pods_or_adopts c = false.
Proof.
  intros Hr Hs Hd c e Hin. destruct (reconcile_ctx hashes _ _ _ _ _ _ Hr) as (oc & Hv & F).
  rewrite Forall_forall in F. specialize (F _ Hin). cbn [fst] in F.
  assert (Hctx : forall s0 cur upd coll claimed po, oc = Some (s0, cur, upd, coll, claimed, po) -> po_acts po = []).
  { intros s0 cur upd coll claimed po ->. specialize (Hv _ eq_refl).
    pose proof Hv as (Hs0 & _). rewrite Hs in Hs0. inversion Hs0; subst s0.
    eapply ctx_deleting; eassumption. }
  destruct c; cbn in *; try reflexivity; exfalso.
  - destruct F as (s0 & Hs0 & Hd0). rewrite Hs in Hs0. inversion Hs0; subst. congruence.
  - destruct F as (s0 & p & Hs0 & _ & _ & Hd0 & _). rewrite Hs in Hs0. inversion Hs0; subst. congruence.
  - destruct F as (s0 & cur & upd & coll & claimed & po & p & Hoc & Ha & _). rewrite (Hctx _ _ _ _ _ _ Hoc) in Ha. destruct Ha.
  - destruct F as (s0 & cur & upd & coll & claimed & po & p & Hoc & [Ha|Ha]); rewrite (Hctx _ _ _ _ _ _ Hoc) in Ha; destruct Ha.
  - destruct F as (s0 & cur & upd & coll & claimed & po & p & Hoc & Ha & _). rewrite (Hctx _ _ _ _ _ _ Hoc) in Ha. destruct Ha.
  - destruct F as (s0 & cur & upd & coll & claimed & po & p & Hoc & Ha). rewrite (Hctx _ _ _ _ _ _ Hoc) in Ha. destruct Ha.
Qed.
