(* Watch.v — executable model of the hijacked watch relay,
   client/apis/apps/v1/helper/hijack.go: type hijackWatch, newHijackWatch, Stop, receive, ResultChan
   (code as of commit 7226928, "relay forwards non-StatefulSet payloads and selects on done"),
   and, as the separate variant [PreRepair], the relay as it stood before that commit.
   Definitions only; the lemmas are in WatchProofs.v, the statements in C20.v.

   A labelled transition system.  One state holds
     - the source watch (k8s.io/apimachinery/pkg/watch: FakeWatcher = unbuffered channel,
       RaceFreeFakeWatcher = buffered channel): the FIFO of values in the channel buffer followed by
       the senders blocked on it, the closed flag;
     - the hijackWatch object: stopped flag, done channel closed flag (both written under its mutex);
     - the relay goroutine hijackWatch.receive: a program counter;
     - the consumer: what it received from ResultChan(), how often it called Stop, and whether the
       result channel is closed;
     - ghost history: events offered by the source, events handed to the relay, panics raised.

   PARTIAL / MODELLED, NOT VERIFIED (see C20.v header): the Go scheduler, the channel implementation
   (rendezvous, buffering, close waking blocked senders with a panic, select choosing any ready case),
   sync.Mutex atomicity of Stop, defer order, and utilruntime.HandleCrash are written down here as rules
   from the Go specification; they are not derived from the Go runtime.  The model cannot exhibit
   runtime-level leaks other than the relay goroutine parked at one of its program points.  *)
From ASTS Require Import Base.

(* ---------- events ------------------------------------------------------------------------- *)
Inductive etype := Added | Modified | Deleted | Bookmark | Error.

(* payload kinds, each with an identity so that order and identity of relayed objects are visible *)
Inductive payload :=
| PAsts (id : Z)      (* *asv1.StatefulSet (apps.pingcap.com/v1) that encoding/json can marshal            *)
| PAstsBad (id : Z)   (* *asv1.StatefulSet on which json.Marshal fails (IntOrString with an impossible
                         Type): cannot come out of a decoder, can be built in memory                        *)
| PBuiltin (id : Z)   (* *appsv1.StatefulSet (apps/v1): what the consumer of the hijacked client expects    *)
| PStatus (id : Z)    (* *metav1.Status: payload of Error events                                            *)
| POther (id : Z).    (* nil or any other runtime.Object                                                    *)

Record event := Ev { ev_type : etype; ev_payload : payload }.

Definition etype_eqb (a b : etype) : bool :=
  match a, b with
  | Added, Added | Modified, Modified | Deleted, Deleted | Bookmark, Bookmark | Error, Error => true
  | _, _ => false
  end.
Definition payload_eqb (a b : payload) : bool :=
  match a, b with
  | PAsts i, PAsts j | PAstsBad i, PAstsBad j | PBuiltin i, PBuiltin j
  | PStatus i, PStatus j | POther i, POther j => Z.eqb i j
  | _, _ => false
  end.
Definition event_eqb (a b : event) : bool :=
  etype_eqb (ev_type a) (ev_type b) && payload_eqb (ev_payload a) (ev_payload b).

(* ToBuiltinStatefulSet on the payload: same object identity, built-in type; everything that is not an
   Advanced StatefulSet is relayed as it is (repaired relay) *)
Definition convert_payload (p : payload) : payload :=
  match p with PAsts i => PBuiltin i | q => q end.
Definition convert (e : event) : event := Ev (ev_type e) (convert_payload (ev_payload e)).

Definition payload_good (p : payload) : bool := match p with PAstsBad _ => false | _ => true end.
Definition is_asts (p : payload) : bool := match p with PAsts _ | PAstsBad _ => true | _ => false end.

(* ---------- state -------------------------------------------------------------------------- *)
Inductive variant := Repaired | PreRepair.

(* program counter of hijackWatch.receive *)
Inductive rpc :=
| Recv                 (* at the outer select: <-w.done / <-w.source.ResultChan()                     *)
| Conv (e : event)     (* holds a received event, before the type assertion and the conversion       *)
| Send (e : event)     (* at the inner select: w.result <- e / <-w.done   (pre-repair: plain send)   *)
| Panicking            (* panic raised in the loop body; deferred HandleCrash runs next              *)
| ExitStop             (* returning; deferred w.Stop() runs next                                     *)
| ExitClose            (* deferred close(w.result) runs next                                         *)
| Done                 (* goroutine finished                                                         *)
| Crashed.             (* the PROCESS died: re-panic of HandleCrash, or close of a closed channel     *)

Record state := St {
  cap : nat;                 (* capacity of the source channel: 0 = watch.NewFake, 100 = NewRaceFreeFake *)
  really_crash : bool;       (* utilruntime.ReallyCrash (default true)                                  *)
  src_q : list event;        (* source channel: buffered values (first cap) then blocked senders, FIFO  *)
  src_closed : bool;         (* source result channel closed (by the source itself or by source.Stop()) *)
  stopped : bool;            (* hijackWatch.stopped                                                     *)
  done_closed : bool;        (* hijackWatch.done closed                                                 *)
  pc : rpc;
  received : list event;     (* what the consumer got from ResultChan(), in order                       *)
  stop_calls : nat;          (* how often the consumer called Stop                                      *)
  result_closed : bool;      (* hijackWatch.result closed                                               *)
  offered : list event;      (* ghost: every event the source tried to send, in order                   *)
  handed : list event;       (* ghost: events received by the relay from the source channel, in order   *)
  panics : nat               (* ghost: panics raised inside the relay goroutine                         *)
}.

Definition init (c : nat) (rc : bool) : state :=
  St c rc [] false false false Recv [] 0 false [] [] 0.

Definition set_pc (s : state) (p : rpc) : state :=
  St (cap s) (really_crash s) (src_q s) (src_closed s) (stopped s) (done_closed s) p (received s)
     (stop_calls s) (result_closed s) (offered s) (handed s) (panics s).

(* close(source.result): the values already in the buffer stay receivable; every sender blocked on the
   channel panics ("send on closed channel") in ITS goroutine, i.e. its event is never handed over *)
Definition close_src (s : state) : state :=
  St (cap s) (really_crash s) (firstn (cap s) (src_q s)) true (stopped s) (done_closed s) (pc s)
     (received s) (stop_calls s) (result_closed s) (offered s) (handed s) (panics s).

Definition crash (s : state) : state := set_pc s Crashed.

(* body of hijackWatch.Stop, executed atomically (it holds the mutex from start to end):
     if !w.stopped { w.stopped = true; close(w.done); w.source.Stop() }
   close(w.done) on a closed channel would be a run-time panic in the caller: explicit. *)
Definition do_stop (v : variant) (s : state) : state :=
  if stopped s then s
  else match v with
       | Repaired =>
           if done_closed s then crash s
           else close_src (St (cap s) (really_crash s) (src_q s) (src_closed s) true true (pc s) (received s)
                              (stop_calls s) (result_closed s) (offered s) (handed s) (panics s))
       | PreRepair =>
           close_src (St (cap s) (really_crash s) (src_q s) (src_closed s) true (done_closed s) (pc s) (received s)
                         (stop_calls s) (result_closed s) (offered s) (handed s) (panics s))
       end.

(* ---------- labels ------------------------------------------------------------------------- *)
Inductive label :=
| source_offer (e : event)   (* a source goroutine starts `result <- e` (FakeWatcher.Action ...)               *)
| source_send (e : event)    (* the relay's receive takes e: rendezvous with the first blocked sender, or the
                                head of the buffer                                                            *)
| source_close               (* the source ends: close(source.result)                                         *)
| relay_recv_done            (* outer select takes <-w.done                                                   *)
| relay_recv_eof             (* outer select receives !ok from the closed, drained source channel             *)
| relay_convert              (* type assertion + ToBuiltinStatefulSet                                         *)
| relay_send_done            (* inner select takes <-w.done                                                   *)
| relay_handle_crash         (* deferred utilruntime.HandleCrash with a pending panic                         *)
| relay_exit_stop            (* deferred w.Stop()                                                             *)
| relay_exit_close           (* deferred close(w.result)                                                      *)
| consumer_recv              (* rendezvous on w.result: the consumer gets the event the relay is sending      *)
| consumer_recv_eof          (* the consumer receives !ok from the closed result channel                      *)
| consumer_stop.             (* the consumer calls Stop()                                                     *)

(* ---------- one step ------------------------------------------------------------------------
   None = the operation is not enabled in this state (it blocks, or it is not the relay's turn). *)
Definition step_gen (v : variant) (s : state) (a : label) : option state :=
  match pc s with
  | Crashed => None                                    (* the process is gone *)
  | _ =>
    match a with
    | source_offer e =>
        if src_closed s
        then (* FakeWatcher: the sender panics on the closed channel; RaceFreeFakeWatcher: dropped. *)
             Some (St (cap s) (really_crash s) (src_q s) true (stopped s) (done_closed s) (pc s) (received s)
                      (stop_calls s) (result_closed s) (offered s ++ [e]) (handed s) (panics s))
        else Some (St (cap s) (really_crash s) (src_q s ++ [e]) false (stopped s) (done_closed s) (pc s) (received s)
                      (stop_calls s) (result_closed s) (offered s ++ [e]) (handed s) (panics s))
    | source_send e =>
        match pc s, src_q s with
        | Recv, e' :: q =>
            if event_eqb e e'
            then Some (St (cap s) (really_crash s) q (src_closed s) (stopped s) (done_closed s) (Conv e') (received s)
                          (stop_calls s) (result_closed s) (offered s) (handed s ++ [e']) (panics s))
            else None
        | _, _ => None
        end
    | source_close => Some (close_src s)
    | relay_recv_done =>
        match v, pc s with
        | Repaired, Recv => if done_closed s then Some (set_pc s ExitStop) else None
        | _, _ => None                                  (* pre-repair: the outer select had no done case *)
        end
    | relay_recv_eof =>
        match pc s, src_q s with
        | Recv, [] => if src_closed s then Some (set_pc s ExitStop) else None
        | _, _ => None
        end
    | relay_convert =>
        match pc s with
        | Conv e =>
            match ev_payload e with
            | PAsts _ => Some (set_pc s (Send (convert e)))
            | PAstsBad _ =>                             (* ToBuiltinStatefulSet fails: panic(err) *)
                Some (St (cap s) (really_crash s) (src_q s) (src_closed s) (stopped s) (done_closed s) Panicking
                         (received s) (stop_calls s) (result_closed s) (offered s) (handed s) (S (panics s)))
            | _ =>
                match v with
                | Repaired => Some (set_pc s (Send e))  (* relayed as it is *)
                | PreRepair =>                           (* panic("unreachable") *)
                    Some (St (cap s) (really_crash s) (src_q s) (src_closed s) (stopped s) (done_closed s) Panicking
                             (received s) (stop_calls s) (result_closed s) (offered s) (handed s) (S (panics s)))
                end
            end
        | _ => None
        end
    | relay_send_done =>
        match v, pc s with
        | Repaired, Send _ => if done_closed s then Some (set_pc s ExitStop) else None
        | _, _ => None                                  (* pre-repair: plain blocking send *)
        end
    | relay_handle_crash =>
        match pc s with
        | Panicking => if really_crash s then Some (crash s) else Some (set_pc s ExitStop)
        | _ => None
        end
    | relay_exit_stop =>
        match pc s with
        | ExitStop =>
            let s1 := do_stop v s in
            match pc s1 with Crashed => Some s1 | _ => Some (set_pc s1 ExitClose) end
        | _ => None
        end
    | relay_exit_close =>
        match pc s with
        | ExitClose =>
            if result_closed s then Some (crash s)      (* close of closed channel *)
            else Some (St (cap s) (really_crash s) (src_q s) (src_closed s) (stopped s) (done_closed s) Done
                          (received s) (stop_calls s) true (offered s) (handed s) (panics s))
        | _ => None
        end
    | consumer_recv =>
        match pc s with
        | Send e =>
            if result_closed s then None                 (* a send on a closed channel would panic; see inv *)
            else Some (St (cap s) (really_crash s) (src_q s) (src_closed s) (stopped s) (done_closed s) Recv
                          (received s ++ [e]) (stop_calls s) (result_closed s) (offered s) (handed s) (panics s))
        | _ => None
        end
    | consumer_recv_eof => if result_closed s then Some s else None
    | consumer_stop =>
        let s1 := do_stop v s in
        Some (St (cap s1) (really_crash s1) (src_q s1) (src_closed s1) (stopped s1) (done_closed s1) (pc s1)
                 (received s1) (S (stop_calls s1)) (result_closed s1) (offered s1) (handed s1) (panics s1))
    end
  end.

Fixpoint run_gen (v : variant) (l : list label) (s : state) : option state :=
  match l with
  | [] => Some s
  | a :: t => match step_gen v s a with Some s' => run_gen v t s' | None => None end
  end.

(* the code as it is now, and the relay as it was before commit 7226928 *)
Definition step : state -> label -> option state := step_gen Repaired.
Definition run : list label -> state -> option state := run_gen Repaired.
Definition step_old : state -> label -> option state := step_gen PreRepair.
Definition run_old : list label -> state -> option state := run_gen PreRepair.

(* ---------- classification of labels -------------------------------------------------------- *)
(* steps the relay goroutine performs on its own (source_send is its receive from the source channel) *)
Definition relay_only (a : label) : bool :=
  match a with
  | source_send _ | relay_recv_done | relay_recv_eof | relay_convert | relay_send_done
  | relay_handle_crash | relay_exit_stop | relay_exit_close => true
  | _ => false
  end.
(* steps that make the relay advance: the above plus the delivery to the consumer *)
Definition progress (a : label) : bool :=
  match a with consumer_recv => true | _ => relay_only a end.

(* measure that every progress step decreases (as long as the source does not accept new events) *)
Definition pc_weight (p : rpc) : nat :=
  match p with
  | Done | Crashed => 0 | ExitClose => 1 | ExitStop => 2 | Recv => 3 | Panicking => 3 | Send _ => 4 | Conv _ => 5
  end%nat.
Definition measure (s : state) : nat := (4 * length (src_q s) + pc_weight (pc s))%nat.

Fixpoint count_labels (f : label -> bool) (l : list label) : nat :=
  match l with [] => 0%nat | a :: t => ((if f a then 1 else 0) + count_labels f t)%nat end.

Definition label_good (a : label) : bool :=
  match a with source_offer e => payload_good (ev_payload e) | _ => true end.

Fixpoint offers_of (l : list label) : list event :=
  match l with
  | [] => []
  | source_offer e :: t => e :: offers_of t
  | _ :: t => offers_of t
  end.

(* some relay-only step is enabled *)
Definition relay_next (v : variant) (s : state) : option label :=
  match pc s with
  | Recv =>
      match src_q s with
      | e :: _ => Some (source_send e)
      | [] => match v with
              | Repaired => if done_closed s then Some relay_recv_done
                            else if src_closed s then Some relay_recv_eof else None
              | PreRepair => if src_closed s then Some relay_recv_eof else None
              end
      end
  | Conv _ => Some relay_convert
  | Send _ => match v with Repaired => if done_closed s then Some relay_send_done else None | PreRepair => None end
  | Panicking => Some relay_handle_crash
  | ExitStop => Some relay_exit_stop
  | ExitClose => Some relay_exit_close
  | Done | Crashed => None
  end.

(* let the relay run on its own until it parks (or the fuel ends) *)
Fixpoint settle (v : variant) (fuel : nat) (s : state) : state :=
  match fuel with
  | O => s
  | S f => match relay_next v s with
           | None => s
           | Some a => match step_gen v s a with Some s' => settle v f s' | None => s end
           end
  end.

(* the relay goroutine has returned and the result channel is closed *)
Definition finished (s : state) : Prop := pc s = Done /\ result_closed s = true.

(* the same state with one more Stop call counted *)
Definition bump_stop (s : state) : state :=
  St (cap s) (really_crash s) (src_q s) (src_closed s) (stopped s) (done_closed s) (pc s) (received s)
     (S (stop_calls s)) (result_closed s) (offered s) (handed s) (panics s).

(* ---------- the harness view: a sequential driver ---------------------------------------------
   /verif/harness_c20 executes a schedule of external operations one after the other and lets the
   relay goroutine settle in between; this is the same thing on the model. *)
Inductive ext_op := XSend (e : event) | XClose | XRecv | XStop.

Inductive ost :=
| OCompleted | OBlocked | OAborted       (* send / stop / close: returned, still blocked, sender panicked *)
| OEvent (e : event) | OClosed.          (* recv: an event, or !ok *)

Definition ost_eqb (a b : ost) : bool :=
  match a, b with
  | OCompleted, OCompleted | OBlocked, OBlocked | OAborted, OAborted | OClosed, OClosed => true
  | OEvent e, OEvent f => event_eqb e f
  | _, _ => false
  end.

Definition settle_s (v : variant) (s : state) : state := settle v (measure s + 8) s.

Definition memb_ev (e : event) (l : list event) : bool := existsb (event_eqb e) l.

(* state of a send, looked at from the sender's side *)
Definition send_status (s : state) (e : event) : ost :=
  if memb_ev e (handed s) || memb_ev e (firstn (cap s) (src_q s)) then OCompleted
  else if memb_ev e (skipn (cap s) (src_q s)) then OBlocked
  else match cap s with O => OAborted | _ => OCompleted end.

Definition drive_step (v : variant) (s : state) (op : ext_op) : ost * state :=
  match op with
  | XSend e =>
      if src_closed s
      then (match cap s with O => OAborted | _ => OCompleted end,
            match step_gen v s (source_offer e) with Some s1 => s1 | None => s end)
      else match step_gen v s (source_offer e) with
           | Some s1 => let s2 := settle_s v s1 in
                        (if Nat.ltb (cap s2) (length (src_q s2)) then OBlocked else OCompleted, s2)
           | None => (OBlocked, s)
           end
  | XClose => match step_gen v s source_close with Some s1 => (OCompleted, settle_s v s1) | None => (OBlocked, s) end
  | XStop => match step_gen v s consumer_stop with Some s1 => (OCompleted, settle_s v s1) | None => (OBlocked, s) end
  | XRecv =>
      match pc s, step_gen v s consumer_recv with
      | Send e, Some s1 => (OEvent e, settle_s v s1)
      | _, _ => (if result_closed s then OClosed else OBlocked, s)
      end
  end.

Fixpoint drive (v : variant) (s : state) (ops : list ext_op) : list ost * state :=
  match ops with
  | [] => ([], s)
  | op :: t => let '(o, s1) := drive_step v s op in
               let '(os, s2) := drive v s1 t in (o :: os, s2)
  end.

Fixpoint sends_of (ops : list ext_op) : list event :=
  match ops with [] => [] | XSend e :: t => e :: sends_of t | _ :: t => sends_of t end.

Definition relay_alive (s : state) : bool := match pc s with Done | Crashed => false | _ => true end.
Definition probe (s : state) : ost :=
  match pc s with Send e => OEvent e | _ => if result_closed s then OClosed else OBlocked end.

Record watch_case := {
  wc_cap : nat;                 (* 0: watch.NewFake()   100: watch.NewRaceFreeFake() *)
  wc_ops : list ext_op;
  wc_obs : list ost;            (* per step *)
  wc_send_final : list ost;     (* state of every send at the end, in schedule order *)
  wc_received : list event;
  wc_alive : bool;              (* a goroutine running receive for this watch is still there *)
  wc_probe : ost;               (* last receive attempt *)
  wc_panics : Z                 (* panics seen by the process-level handler *)
}.

Fixpoint list_eqb {A} (f : A -> A -> bool) (a b : list A) : bool :=
  match a, b with
  | [], [] => true
  | x :: s, y :: t => f x y && list_eqb f s t
  | _, _ => false
  end.

(* the harness runs with ReallyCrash = false *)
Definition watch_model (v : variant) (c : watch_case) : list ost * state :=
  drive v (init (wc_cap c) false) (wc_ops c).

Definition watch_check_gen (v : variant) (c : watch_case) : bool :=
  let '(os, s) := watch_model v c in
  list_eqb ost_eqb os (wc_obs c)
  && list_eqb ost_eqb (map (send_status s) (sends_of (wc_ops c))) (wc_send_final c)
  && list_eqb event_eqb (received s) (wc_received c)
  && Bool.eqb (relay_alive s) (wc_alive c)
  && ost_eqb (probe s) (wc_probe c)
  && Z.eqb (Z.of_nat (panics s)) (wc_panics c).

Definition watch_check : watch_case -> bool := watch_check_gen Repaired.
Definition watch_check_old : watch_case -> bool := watch_check_gen PreRepair.

(* what the model predicts, for replay output *)
Definition watch_predict (v : variant) (c : nat) (ops : list ext_op) :=
  let '(os, s) := drive v (init c false) ops in
  (os, map (send_status s) (sends_of ops), received s, relay_alive s, probe s, panics s).
