(* C08 — Update revision mirrors the template; scaling edits never cause a restart.  Statements only.
   In this model a pod template is an abstract value (s_tmpl, r_tmpl) standing for the bytes of getPatch;
   that getPatch depends on spec.template only and that ApplyRevision restores it exactly are facts about
   the apimachinery codecs: they are decided on the real code by the `patch` family of props/c08.py
   (generated PodTemplateSpecs; every non-template edit must leave the bytes alone; apply/match round trip)
   — modelled, not proved. *)
From ASTS Require Import Base Slots Names World Reconcile MonadProofs PlanProofs ReconcileProofs RevisionProofs ExampleWorld.

(* (1) scaling edits: the revision resolution reads nothing of the set but its name, UID, template and
   status; two sets that differ only in replicas, delete-slots, pause flag, policy, strategy, partition,
   claims, limits, generation ... resolve, state by state, to the very same computation, hence the same
   update revision and the same API calls *)
Theorem C08_non_template_edits_do_not_affect_the_update_revision :
  forall hashes s1 s2 revs st,
    s_name s1 = s_name s2 -> s_uid s1 = s_uid s2 -> s_tmpl s1 = s_tmpl s2 -> s_status s1 = s_status s2 ->
    get_set_revisions hashes s1 revs st = get_set_revisions hashes s2 revs st.
Proof. exact gsr_ignores_non_template_fields. Qed.
Print Assumptions C08_non_template_edits_do_not_affect_the_update_revision.

(* (2) an unchanged (or reverted) template never adds a revision: when a listed revision records the
   template, the resolution issues no create — it re-uses the last one or renumbers the equal one *)
Theorem C08_no_new_revision_when_the_template_is_recorded :
  forall hashes s revs fresh_hash,
    hash_of hashes (s_tmpl s) (match st_coll (s_status s) with Some c => c | None => 0 end) = Some fresh_hash ->
    (exists r, In r revs /\ r_tmpl r = s_tmpl s /\ hash_num r = None) ->
    emits no_create (get_set_revisions hashes s revs).
Proof. exact gsr_no_create_when_equal_listed. Qed.
Print Assumptions C08_no_new_revision_when_the_template_is_recorded.

(* (3) name collisions, for EVERY hash function (the table `hashes` is arbitrary) and every API state and
   oracle: the collision loop only creates and reads — a colliding revision is never updated or deleted —
   and whatever it returns records the requested template *)
Theorem C08_collision_never_overwrites :
  forall hashes fuel s r coll,
    mspec create_only (fun x => r_tmpl (fst x) = r_tmpl r) (create_controller_revision hashes fuel s r coll).
Proof. exact ccr_spec. Qed.
Print Assumptions C08_collision_never_overwrites.

(* (4) EqualRevision implies equal recorded templates (the hash-label short-cut can only refuse) *)
Theorem C08_equal_revision_means_equal_template : forall a b, equal_revision a b = true -> r_tmpl a = r_tmpl b.
Proof. exact equal_revision_tmpl. Qed.
Print Assumptions C08_equal_revision_means_equal_template.

(* non-vacuity: reverting the template to a recorded one renumbers that revision above all others *)
Example C08_ex_rollback :
  filter (fun sh => String.prefix "update controllerrevisions" sh || String.prefix "create controllerrevisions" sh)
         (map (fun e => shape_of (fst e))
              (ex_log (ex_set 3 None "OrderedReady" 1 0 (ex_status 3 "web-h2" "web-h2")) ex_healthy3
                      [ex_rev "web-h1" 1 1; ex_rev "web-h2" 2 2]))
  = ["update controllerrevisions web-h1"%string].
Proof. vm_compute. reflexivity. Qed.
