(* RoundChain.v — C02 for the full model: along the fair rounds of the full reconcile + environment model the pods
   of the API state converge within mu rounds, as long as every round starts from a regular world (in sync,
   nothing to adopt, every pod claimed, update revision in place, claims of the desired ordinals known).
   The stored status changes from round to round; nothing the pod phase does depends on it (for a spec that
   carries a partition). *)
From ASTS Require Import Base Slots SlotsProofs Names NamesProofs World Reconcile ReconcileCheck MonadProofs PlanProofs
                         ConvergeProofs PodControlProofs Env QuietProofs TerminationProofs TerminationEnv RoundExec RoundCheck RoundLift.

(* ---------------------------------------------------------------- the status does not matter ---------- *)
Section Status.
Variable s0 : sset.
Variable st : status.
Variable rv : Z.
Hypothesis Hroll : s_rolling s0 <> None.
Let s1 := set_status s0 st rv.

Lemma use_current_status i : use_current s1 i = use_current s0 i.
Proof.
  unfold use_current, s1. cbn [set_status s_strategy s_rolling s_status].
  destruct (s_rolling s0) as [o|]; [|contradiction]. cbn [andb]. rewrite !andb_false_r. reflexivity.
Qed.
Lemma nvp_status cur upd i : new_versioned_pod s1 cur upd i = new_versioned_pod s0 cur upd i.
Proof. unfold new_versioned_pod. rewrite use_current_status. reflexivity. Qed.

Lemma fill_status cur upd slots : forall arr o, fill s1 cur upd slots o arr = fill s0 cur upd slots o arr.
Proof.
  induction arr as [|e t IH]; intros o; cbn [fill]; [reflexivity|]. rewrite IH, nvp_status. reflexivity.
Qed.
Lemma replicas_status cur upd cnt slots pods : replicas_of s1 cur upd cnt slots pods = replicas_of s0 cur upd cnt slots pods.
Proof. unfold replicas_of. apply fill_status. Qed.

Lemma rs_acts_status cur upd mono i p0 : rs_acts s1 cur upd mono i p0 = rs_acts s0 cur upd mono i p0.
Proof. unfold rs_acts. rewrite nvp_status. reflexivity. Qed.
Lemma rs_pod_status cur upd i p0 : rs_pod s1 cur upd i p0 = rs_pod s0 cur upd i p0.
Proof. unfold rs_pod. rewrite nvp_status. reflexivity. Qed.
Lemma rl_acts_status cur upd mono : forall l i, rl_acts s1 cur upd mono i l = rl_acts s0 cur upd mono i l.
Proof.
  induction l as [|[p0|] t IH]; intros i; cbn [rl_acts]; [reflexivity | rewrite rs_acts_status, IH; reflexivity | apply IH].
Qed.
Lemma rl_arr_status cur upd mono : forall l i, rl_arr s1 cur upd mono i l = rl_arr s0 cur upd mono i l.
Proof.
  induction l as [|[p0|] t IH]; intros i; cbn [rl_arr]; [reflexivity | rewrite rs_pod_status, IH; reflexivity | rewrite IH; reflexivity].
Qed.

Lemma plan_acts_status cur upd cnt slots pods : plan_acts s1 cur upd cnt slots pods = plan_acts s0 cur upd cnt slots pods.
Proof.
  unfold plan_acts. rewrite replicas_status, rl_acts_status, rl_arr_status. reflexivity.
Qed.

Lemma after_status acts pods : after s1 acts pods = after s0 acts pods.
Proof. reflexivity. Qed.

Lemma round_status upd cnt slots cur pods : round s1 upd cnt slots cur pods = round s0 upd cnt slots cur pods.
Proof. unfold round. rewrite plan_acts_status. apply after_status. Qed.

Lemma wf_status cnt slots pods : wf s0 cnt slots pods <-> wf s1 cnt slots pods.
Proof.
  split; intros [A B C D E]; constructor; assumption.
Qed.
End Status.

(* ---------------------------------------------------------------- the chain of rounds ------------------ *)
Definition rinfo_of (r : rev) : rinfo := {| ri_name := r_name r; ri_tmpl := r_tmpl r |}.

(* what a round of the full model needs to find (decidable, evaluated on observed worlds by RoundCheck.v):
   the cached set is s0 up to its status, nothing to adopt, every pod claimed, the update revision in place
   and newest, the claims of the desired ordinals known *)
Definition regular (hashes : list ((Z * Z) * string)) (s0 : sset) (upd : rinfo) (cnt : Z) (slots : list Z)
                   (w : world) (cur : rinfo) : Prop :=
  exists st rv rcur rupd coll,
    let s := set_status s0 st rv in
    w_set w = Some s
    /\ nothing_to_adopt w s = true
    /\ forallb (claim_quiet s) (w_pods w) = true /\ claim_value s (w_pods w) = w_pods w
    /\ gsr_value hashes s (sort_revs (lrevs w s)) = Some (rcur, rupd, coll)
    /\ cur = rinfo_of rcur /\ upd = rinfo_of rupd
    /\ (forall j, in_range cnt slots j = true -> claims_cached s w j).

Section Chain.
Variable hashes : list ((Z * Z) * string).
Variable s0 : sset.
Variable upd : rinfo.
Variables (cnt r : Z) (slots : list Z).
Hypothesis Hcnt : 0 <= cnt <= max_i32 + 1.
Hypothesis Hdel : s_deleting s0 = false.
Hypothesis Hclaims : NoDup (s_claims s0).
Hypothesis Hroll : s_rolling s0 <> None.
Hypothesis Hpause : get_paused (s_pause s0) = false.
Hypothesis Hsel : s_selector s0 = SelOk.
Hypothesis Hrep : s_replicas s0 = Some r.
Hypothesis Hext : extend r (get_slots (s_slots s0)) = (cnt, slots).

Lemma Huc0 : forall i, use_current s0 i = true -> i < umin_of s0.
Proof. apply use_current_defaulted. intros _. exact Hroll. Qed.

Variable Wd : nat -> world.
Variable curs : nat -> rinfo.
Hypothesis Hstep : forall k, Wd (S k) = env_round hashes (Wd k).
Hypothesis Hreg : forall k, regular hashes s0 upd cnt slots (Wd k) (curs k).
Hypothesis W0 : wf s0 cnt slots (w_pods (Wd O)).
Hypothesis N0 : NoDup (w_pods (Wd O)).

Lemma chain_steps : forall k,
  wf s0 cnt slots (w_pods (Wd k)) /\ NoDup (w_pods (Wd k))
  /\ estep s0 upd cnt slots (curs k) (w_pods (Wd k)) (w_pods (Wd (S k))).
Proof.
  assert (Hone : forall k, wf s0 cnt slots (w_pods (Wd k)) -> NoDup (w_pods (Wd k)) ->
            estep s0 upd cnt slots (curs k) (w_pods (Wd k)) (w_pods (Wd (S k)))).
  { intros k Wk Nk. destruct (Hreg k) as (st & rv & rcur & rupd & coll & H1 & H2 & H3 & H4 & H5 & H6 & H7 & H8). cbv zeta in *.
    set (s := set_status s0 st rv) in *.
    assert (Hucs : forall i, use_current s i = true -> i < umin_of s).
    { intros i Hi. unfold s in Hi. rewrite (use_current_status s0 st rv Hroll) in Hi. apply Huc0. exact Hi. }
    pose proof (lift_round s upd cnt slots Hcnt Hdel Hclaims Hucs (curs k) hashes (Wd k) rcur rupd coll r
                  H1 Hpause Hsel H2 H3 H4 H5 H6 H7 Hrep Hext (proj1 (wf_status s0 st rv cnt slots _) Wk) Nk H8) as [L1 L2].
    rewrite Hstep. unfold estep. split; [exact L1|].
    unfold s in L2. rewrite (round_status s0 st rv Hroll) in L2. exact L2. }
  induction k as [|k (Wk & Nk & Ek)].
  - split; [exact W0|]. split; [exact N0|]. apply Hone; assumption.
  - destruct Ek as [Nk' Mk'].
    assert (Wk' : wf s0 cnt slots (w_pods (Wd (S k)))).
    { apply (wf_members s0 cnt slots (round s0 upd cnt slots (curs k) (w_pods (Wd k)))); [|exact Mk'].
      apply (round_wf s0 upd cnt slots Hcnt Hclaims Huc0). exact Wk. }
    split; [exact Wk'|]. split; [exact Nk'|]. apply Hone; assumption.
Qed.

(* C02 over the full model: the fair rounds of the reconcile + environment model bring the pods of the API state
   to the converged set within mu rounds, and keep them there *)
Theorem full_model_rounds_converge :
  exists k, Z.of_nat k <= mu s0 upd cnt slots (w_pods (Wd O))
    /\ forall m, (k <= m)%nat ->
         pods_converged s0 upd cnt slots (w_pods (Wd m)) /\ same_members (w_pods (Wd m)) (w_pods (Wd k))
         /\ forall cur, plan_acts s0 cur upd cnt slots (w_pods (Wd m)) = [].
Proof.
  apply (env_rounds_converge s0 upd cnt slots Hcnt Hdel Hclaims Huc0 (fun k => w_pods (Wd k)) curs W0 N0).
  intros k. apply chain_steps.
Qed.

End Chain.
