(* RoundChain.v — C02 for the full model: along the fair rounds of the full reconcile + environment model the pods
   of the API state converge within mu rounds, as long as every round starts from a regular world (in sync,
   nothing to adopt, every pod claimed, update revision in place, claims of the desired ordinals known).
   The stored status changes from round to round; nothing the pod phase does depends on it (for a spec that
   carries a partition). *)
From ASTS Require Import Base Slots SlotsProofs Names NamesProofs World Reconcile ReconcileCheck MonadProofs PlanProofs
                         ConvergeProofs PodControlProofs Env QuietProofs TerminationProofs TerminationEnv RoundExec RoundCheck RoundLift.

(* ---------------------------------------------------------------- the status does not matter ---------- *)
Section Status.
Variable s0 : sset.
Variable st : status.
Variable rv : Z.
Hypothesis Hroll : s_rolling s0 <> None.
Let s1 := set_status s0 st rv.

Lemma use_current_status i : use_current s1 i = use_current s0 i.
Proof.
  unfold use_current, s1. cbn [set_status s_strategy s_rolling s_status].
  destruct (s_rolling s0) as [o|]; [|contradiction]. cbn [andb]. rewrite !andb_false_r. reflexivity.
Qed.
Lemma nvp_status cur upd i : new_versioned_pod s1 cur upd i = new_versioned_pod s0 cur upd i.
Proof. unfold new_versioned_pod. rewrite use_current_status. reflexivity. Qed.

Lemma fill_status cur upd slots : forall arr o, fill s1 cur upd slots o arr = fill s0 cur upd slots o arr.
Proof.
  induction arr as [|e t IH]; intros o; cbn [fill]; [reflexivity|]. rewrite IH, nvp_status. reflexivity.
Qed.
Lemma replicas_status cur upd cnt slots pods : replicas_of s1 cur upd cnt slots pods = replicas_of s0 cur upd cnt slots pods.
Proof. unfold replicas_of. apply fill_status. Qed.

Lemma rs_acts_status cur upd mono i p0 : rs_acts s1 cur upd mono i p0 = rs_acts s0 cur upd mono i p0.
Proof. unfold rs_acts. rewrite nvp_status. reflexivity. Qed.
Lemma rs_pod_status cur upd i p0 : rs_pod s1 cur upd i p0 = rs_pod s0 cur upd i p0.
Proof. unfold rs_pod. rewrite nvp_status. reflexivity. Qed.
Lemma rl_acts_status cur upd mono : forall l i, rl_acts s1 cur upd mono i l = rl_acts s0 cur upd mono i l.
Proof.
  induction l as [|[p0|] t IH]; intros i; cbn [rl_acts]; [reflexivity | rewrite rs_acts_status, IH; reflexivity | apply IH].
Qed.
Lemma rl_arr_status cur upd mono : forall l i, rl_arr s1 cur upd mono i l = rl_arr s0 cur upd mono i l.
Proof.
  induction l as [|[p0|] t IH]; intros i; cbn [rl_arr]; [reflexivity | rewrite rs_pod_status, IH; reflexivity | rewrite IH; reflexivity].
Qed.

Lemma plan_acts_status cur upd cnt slots pods : plan_acts s1 cur upd cnt slots pods = plan_acts s0 cur upd cnt slots pods.
Proof.
  unfold plan_acts. rewrite replicas_status, rl_acts_status, rl_arr_status. reflexivity.
Qed.

Lemma after_status acts pods : after s1 acts pods = after s0 acts pods.
Proof. reflexivity. Qed.

Lemma round_status upd cnt slots cur pods : round s1 upd cnt slots cur pods = round s0 upd cnt slots cur pods.
Proof. unfold round. rewrite plan_acts_status. apply after_status. Qed.

Lemma wf_status cnt slots pods : wf s0 cnt slots pods <-> wf s1 cnt slots pods.
Proof.
  split; intros [A B C D E]; constructor; assumption.
Qed.
End Status.

(* ---------------------------------------------------------------- the chain of rounds ------------------ *)
Definition rinfo_of (r : rev) : rinfo := {| ri_name := r_name r; ri_tmpl := r_tmpl r |}.

(* what a round of the full model needs to find (decidable, evaluated on observed worlds by RoundCheck.v):
   the cached set is s0 up to its status, nothing to adopt, every pod claimed, the update revision in place
   and newest, the claim names of the desired ordinals pairwise different (static, below) *)
Definition regular (hashes : list ((Z * Z) * string)) (s0 : sset) (upd : rinfo) (cnt : Z) (slots : list Z)
                   (w : world) (cur : rinfo) : Prop :=
  exists st rv rcur rupd coll,
    let s := set_status s0 st rv in
    w_set w = Some s
    /\ nothing_to_adopt w s = true
    /\ forallb (claim_quiet s) (w_pods w) = true /\ claim_value s (w_pods w) = w_pods w
    /\ gsr_value hashes s (sort_revs (lrevs w s)) = Some (rcur, rupd, coll)
    /\ cur = rinfo_of rcur /\ upd = rinfo_of rupd.

Section Chain.
Variable hashes : list ((Z * Z) * string).
Variable s0 : sset.
Variable upd : rinfo.
Variables (cnt r : Z) (slots : list Z).
Hypothesis Hcnt : 0 <= cnt <= max_i32 + 1.
Hypothesis Hdel : s_deleting s0 = false.
Hypothesis Hclaims : NoDup (s_claims s0).
Hypothesis Hroll : s_rolling s0 <> None.
Hypothesis Hpause : get_paused (s_pause s0) = false.
Hypothesis Hsel : s_selector s0 = SelOk.
Hypothesis Hrep : s_replicas s0 = Some r.
Hypothesis Hext : extend r (get_slots (s_slots s0)) = (cnt, slots).
Hypothesis Hnames : NoDup (flat_map (fun j => map (fun t => claim_name t (s_name s0) j) (s_claims s0)) (ordinals_of cnt slots)).

Lemma Huc0 : forall i, use_current s0 i = true -> i < umin_of s0.
Proof. apply use_current_defaulted. intros _. exact Hroll. Qed.

Variable Wd : nat -> world.
Variable curs : nat -> rinfo.
Hypothesis Hstep : forall k, Wd (S k) = env_round hashes (Wd k).
Hypothesis Hreg : forall k, regular hashes s0 upd cnt slots (Wd k) (curs k).
Hypothesis W0 : wf s0 cnt slots (w_pods (Wd O)).
Hypothesis N0 : NoDup (w_pods (Wd O)).

Lemma chain_steps : forall k,
  wf s0 cnt slots (w_pods (Wd k)) /\ NoDup (w_pods (Wd k))
  /\ estep s0 upd cnt slots (curs k) (w_pods (Wd k)) (w_pods (Wd (S k))).
Proof.
  assert (Hone : forall k, wf s0 cnt slots (w_pods (Wd k)) -> NoDup (w_pods (Wd k)) ->
            estep s0 upd cnt slots (curs k) (w_pods (Wd k)) (w_pods (Wd (S k)))).
  { intros k Wk Nk. destruct (Hreg k) as (st & rv & rcur & rupd & coll & H1 & H2 & H3 & H4 & H5 & H6 & H7). cbv zeta in *.
    set (s := set_status s0 st rv) in *.
    assert (Hucs : forall i, use_current s i = true -> i < umin_of s).
    { intros i Hi. unfold s in Hi. rewrite (use_current_status s0 st rv Hroll) in Hi. apply Huc0. exact Hi. }
    pose proof (lift_round s upd cnt slots Hcnt Hdel Hclaims Hucs (curs k) hashes (Wd k) rcur rupd coll r
                  H1 Hpause Hsel H2 H3 H4 H5 H6 H7 Hrep Hext (proj1 (wf_status s0 st rv cnt slots _) Wk) Nk Hnames) as [L1 L2].
    rewrite Hstep. unfold estep. split; [exact L1|].
    unfold s in L2. rewrite (round_status s0 st rv Hroll) in L2. exact L2. }
  induction k as [|k (Wk & Nk & Ek)].
  - split; [exact W0|]. split; [exact N0|]. apply Hone; assumption.
  - destruct Ek as [Nk' Mk'].
    assert (Wk' : wf s0 cnt slots (w_pods (Wd (S k)))).
    { apply (wf_members s0 cnt slots (round s0 upd cnt slots (curs k) (w_pods (Wd k)))); [|exact Mk'].
      apply (round_wf s0 upd cnt slots Hcnt Hclaims Huc0). exact Wk. }
    split; [exact Wk'|]. split; [exact Nk'|]. apply Hone; assumption.
Qed.

(* C02 over the full model: the fair rounds of the reconcile + environment model bring the pods of the API state
   to the converged set within mu rounds, and keep them there *)
Theorem full_model_rounds_converge :
  exists k, Z.of_nat k <= mu s0 upd cnt slots (w_pods (Wd O))
    /\ forall m, (k <= m)%nat ->
         pods_converged s0 upd cnt slots (w_pods (Wd m)) /\ same_members (w_pods (Wd m)) (w_pods (Wd k))
         /\ forall cur, plan_acts s0 cur upd cnt slots (w_pods (Wd m)) = [].
Proof.
  apply (env_rounds_converge s0 upd cnt slots Hcnt Hdel Hclaims Huc0 (fun k => w_pods (Wd k)) curs W0 N0).
  intros k. apply chain_steps.
Qed.

End Chain.

(* ================================================================ what the rounds preserve by themselves === *)
From ASTS Require Import KeepsSet.

Definition all_claimed (s : sset) (pods : list pod) : Prop :=
  forall p, In p pods -> owner_uid_is s (p_owner p) = true /\ p_match p = true /\ isMemberOf s p = true.

Lemma all_claimed_quiet s pods : all_claimed s pods ->
  forallb (claim_quiet s) pods = true /\ claim_value s pods = pods.
Proof.
  intros H. split.
  - apply forallb_forall. intros p Hp. destruct (H p Hp) as (A & B & C). unfold claim_quiet.
    destruct (p_owner p) as [o|] eqn:E; [|cbn in A; discriminate]. rewrite A, B, C. reflexivity.
  - unfold claim_value. induction pods as [|x t IH]; cbn [filter]; [reflexivity|].
    destruct (H x (or_introl eq_refl)) as (A & B & C). rewrite A, B, C. cbn [andb]. f_equal. apply IH.
    intros p Hp. apply H. right. exact Hp.
Qed.

Lemma fixpod_owner s p : p_owner (fixpod s p) = p_owner p /\ p_match (fixpod s p) = p_match p.
Proof.
  unfold fixpod. destruct (identityMatches s p);
    match goal with |- context [storageMatches s ?x] => destruct (storageMatches s x) end; split; reflexivity.
Qed.

Section Preserve.
Variable hashes : list ((Z * Z) * string).
Variable s0 : sset.
Variable upd : rinfo.
Variables (cnt r : Z) (slots : list Z).
Hypothesis Hcnt : 0 <= cnt <= max_i32 + 1.
Hypothesis Hdel : s_deleting s0 = false.
Hypothesis Hclaims : NoDup (s_claims s0).
Hypothesis Hroll : s_rolling s0 <> None.
Hypothesis Hpause : get_paused (s_pause s0) = false.
Hypothesis Hsel : s_selector s0 = SelOk.
Hypothesis Hrep : s_replicas s0 = Some r.
Hypothesis Hext : extend r (get_slots (s_slots s0)) = (cnt, slots).
Hypothesis Hnames : NoDup (flat_map (fun j => map (fun t => claim_name t (s_name s0) j) (s_claims s0)) (ordinals_of cnt slots)).

Lemma all_claimed_round cur pods pods' :
  wf s0 cnt slots pods -> all_claimed s0 pods ->
  same_members pods' (round s0 upd cnt slots cur pods) -> all_claimed s0 pods'.
Proof.
  intros W Hc Hm q Hq. apply Hm in Hq.
  pose proof (Huc0 s0 Hroll) as Huc.
  assert (Hmem : (exists p, In p pods /\ deleted (plan_acts s0 cur upd cnt slots pods) p = false
                           /\ q = (if updated (plan_acts s0 cur upd cnt slots pods) p then fixpod s0 p else p))
               \/ (exists i, in_range cnt slots i = true /\ q = ready_of (new_versioned_pod s0 cur upd i)
                             /\ In (ACreate (new_versioned_pod s0 cur upd i)) (plan_acts s0 cur upd cnt slots pods)
                             /\ (at_ord i pods = None \/ exists p0, In p0 pods /\ getOrdinal p0 = i
                                                          /\ In (ADelete p0) (plan_acts s0 cur upd cnt slots pods)))).
  { eapply round_members; eassumption. }
  destruct Hmem as [(p & Hp & _ & ->)|(i & R & -> & _)].
  - destruct (Hc p Hp) as (A & B & C).
    destruct (updated (plan_acts s0 cur upd cnt slots pods) p); [|tauto].
    destruct (fixpod_owner s0 p) as [E1 E2]. rewrite E1, E2. split; [exact A|]. split; [exact B|].
    unfold isMemberOf. rewrite (fixpod_name s0 p (wf_name _ _ _ _ W p Hp)). exact C.
  - assert (Hi : 0 <= i <= max_i32) by (apply in_range_bounds in R; lia).
    unfold new_versioned_pod. destruct (use_current s0 i);
      match goal with |- context [new_pod s0 i ?rn ?tm] =>
        destruct (new_pod_identity s0 i rn tm Hi Hclaims) as (_ & _ & _ & N4 & _ & _ & N7 & _) end;
      (split; [cbn [ready_of set_ready p_owner]; rewrite N4; cbn [owner_uid_is me o_uid]; apply String.eqb_refl|]);
      (split; [reflexivity | exact N7]).
Qed.

Lemma kubelet_set w n ev : w_set (kubelet w n ev) = w_set w /\ w_claims (kubelet w n ev) = w_claims w.
Proof.
  unfold kubelet. destruct (find_pod n (w_pods w)) as [p|]; [|split; reflexivity].
  destruct ev; cbn; try (split; reflexivity).
  - destruct (p_term p); split; reflexivity.
  - destruct (p_term p || isFailed p || isSucceeded p); split; reflexivity.
Qed.
Lemma kubelet_fold_set ev : forall names w,
  w_set (fold_left (fun a m => kubelet a m ev) names w) = w_set w
  /\ w_claims (fold_left (fun a m => kubelet a m ev) names w) = w_claims w.
Proof.
  induction names as [|m t IH]; intros w; cbn [fold_left]; [split; reflexivity|].
  destruct (IH (kubelet w m ev)) as [A B]. destruct (kubelet_set w m ev) as [C D]. rewrite A, B, C, D. split; reflexivity.
Qed.

(* a round of the full model keeps the spec of the stored set and every claim *)
Lemma env_round_set w st rv : w_set w = Some (set_status s0 st rv) ->
  exists st' rv', w_set (env_round hashes w) = Some (set_status s0 st' rv').
Proof.
  intros Hs. unfold env_round. cbn [hrun hstep fst hw_api hw_cache].
  destruct (reconcile hashes w _ []) as [[o lg] w1] eqn:Er. cbn [fst hw_api].
  destruct (kubelet_fold_set KSettle (map p_name (w_pods w1)) (fold_left (fun a m => kubelet a m KGone) (map p_name (w_pods w1)) w1)) as [A _].
  destruct (kubelet_fold_set KGone (map p_name (w_pods w1)) w1) as [B _]. rewrite A, B.
  pose proof (reconcile_keeps_spec _ _ _ _ _ _ _ Er) as Hk. rewrite Hs in Hk.
  destruct (w_set w1) as [s1|]; [|discriminate]. cbn [spec_of option_map] in Hk. inversion Hk as [Hk'].
  exists (s_status s1), (s_rv s1). f_equal. destruct s1, s0. cbn in *. inversion Hk'. subst. reflexivity.
Qed.
Lemma env_round_claims w : incl (w_claims w) (w_claims (env_round hashes w)).
Proof.
  unfold env_round. cbn [hrun hstep fst hw_api hw_cache].
  destruct (reconcile hashes w _ []) as [[o lg] w1] eqn:Er. cbn [fst hw_api].
  destruct (kubelet_fold_set KSettle (map p_name (w_pods w1)) (fold_left (fun a m => kubelet a m KGone) (map p_name (w_pods w1)) w1)) as [_ A].
  destruct (kubelet_fold_set KGone (map p_name (w_pods w1)) w1) as [_ B]. rewrite A, B.
  apply (reconcile_never_removes_a_claim _ _ _ _ _ _ _ Er).
Qed.

(* the part of regularity that is about the revision phase: nothing to adopt, and the update revision is in
   place, newest, and the one the rounds work towards *)
Definition rev_quiet (w : world) (cur : rinfo) : Prop :=
  forall s, w_set w = Some s ->
    nothing_to_adopt w s = true
    /\ exists rcur rupd coll, gsr_value hashes s (sort_revs (lrevs w s)) = Some (rcur, rupd, coll)
                              /\ cur = rinfo_of rcur /\ upd = rinfo_of rupd.

Variable Wd : nat -> world.
Variable curs : nat -> rinfo.
Hypothesis Hstep : forall k, Wd (S k) = env_round hashes (Wd k).
Hypothesis Hrev : forall k, rev_quiet (Wd k) (curs k).
Hypothesis Hset0 : exists st rv, w_set (Wd O) = Some (set_status s0 st rv).
Hypothesis W0 : wf s0 cnt slots (w_pods (Wd O)).
Hypothesis N0 : NoDup (w_pods (Wd O)).
Hypothesis C0 : all_claimed s0 (w_pods (Wd O)).

Definition inv (k : nat) : Prop :=
  (exists st rv, w_set (Wd k) = Some (set_status s0 st rv))
  /\ wf s0 cnt slots (w_pods (Wd k)) /\ NoDup (w_pods (Wd k)) /\ all_claimed s0 (w_pods (Wd k)).

Lemma inv_regular k : inv k -> regular hashes s0 upd cnt slots (Wd k) (curs k).
Proof.
  intros ((st & rv & Hs) & Wk & Nk & Ck).
  destruct (Hrev k _ Hs) as (Ha & rcur & rupd & coll & Hg & Hc & Hu).
  destruct (all_claimed_quiet (set_status s0 st rv) _ Ck) as [Q1 Q2].
  exists st, rv, rcur, rupd, coll. cbv zeta. repeat split; try assumption.
Qed.

Lemma inv_all : forall k, inv k.
Proof.
  induction k as [|k IH].
  - split; [exact Hset0|]. split; [exact W0|]. split; [exact N0 | exact C0].
  - pose proof (inv_regular k IH) as Rk. destruct IH as ((st & rv & Hs) & Wk & Nk & Ck).
    destruct Rk as (st1 & rv1 & rcur & rupd & coll & H1 & H2 & H3 & H4 & H5 & H6 & H7). cbv zeta in *.
    set (s := set_status s0 st1 rv1) in *.
    assert (Hucs : forall i, use_current s i = true -> i < umin_of s).
    { intros i Hi. unfold s in Hi. rewrite (use_current_status s0 st1 rv1 Hroll) in Hi. apply (Huc0 s0 Hroll). exact Hi. }
    pose proof (lift_round s upd cnt slots Hcnt Hdel Hclaims Hucs (curs k) hashes (Wd k) rcur rupd coll r
                  H1 Hpause Hsel H2 H3 H4 H5 H6 H7 Hrep Hext (proj1 (wf_status s0 st1 rv1 cnt slots _) Wk) Nk Hnames) as [L1 L2].
    unfold s in L2. rewrite (round_status s0 st1 rv1 Hroll) in L2. rewrite <- Hstep in L1, L2.
    split; [rewrite Hstep; apply (env_round_set _ st rv Hs)|].
    split; [apply (wf_members s0 cnt slots (round s0 upd cnt slots (curs k) (w_pods (Wd k)))); [apply (round_wf s0 upd cnt slots Hcnt Hclaims (Huc0 s0 Hroll)); exact Wk | exact L2]|].
    split; [exact L1|]. apply (all_claimed_round (curs k) (w_pods (Wd k))); assumption.
Qed.

(* C02 over the full model, with the per-round hypothesis reduced to the revision phase *)
Theorem full_model_converges_rev_quiet :
  exists k, Z.of_nat k <= mu s0 upd cnt slots (w_pods (Wd O))
    /\ forall m, (k <= m)%nat ->
         pods_converged s0 upd cnt slots (w_pods (Wd m)) /\ same_members (w_pods (Wd m)) (w_pods (Wd k))
         /\ forall cur, plan_acts s0 cur upd cnt slots (w_pods (Wd m)) = [].
Proof.
  apply (full_model_rounds_converge hashes s0 upd cnt r slots Hcnt Hdel Hclaims Hroll Hpause Hsel Hrep Hext Hnames Wd curs Hstep);
    [intros k; apply inv_regular; apply inv_all | exact W0 | exact N0].
Qed.

End Preserve.
