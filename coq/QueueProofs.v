(* QueueProofs.v — lemmas about the work-queue contract of Queue.v and processNextWorkItem:
   the well-formedness invariant of the queue is kept by every operation, one worker step never
   leaves its key in the processing set, puts a failed key back with one more failure and clears
   the failures of a successful one; a run over any list of outcomes.  Used by C16.v. *)
From ASTS Require Import Base Handlers HandlersProofs Queue.

(* ---------- sets as lists ----------------------------------------------------------------- *)
Lemma str_mem_false x l : str_mem x l = false <-> ~ In x l.
Proof.
  split.
  - intros H Hin. apply str_mem_In in Hin. congruence.
  - intros H. destruct (str_mem x l) eqn:E; [|reflexivity]. apply str_mem_In in E. contradiction.
Qed.

Lemma set_insert_In k s x : In x (set_insert k s) <-> x = k \/ In x s.
Proof.
  unfold set_insert. destruct (str_mem k s) eqn:E.
  - apply str_mem_In in E. split; [auto|]. intros [->|H]; auto.
  - simpl. split; intros [H|H]; auto.
Qed.

Lemma set_insert_NoDup k s : NoDup s -> NoDup (set_insert k s).
Proof.
  intros H. unfold set_insert. destruct (str_mem k s) eqn:E; [exact H|].
  constructor; [apply str_mem_false; exact E | exact H].
Qed.

Lemma set_delete_In k s x : In x (set_delete k s) <-> In x s /\ x <> k.
Proof.
  unfold set_delete. rewrite filter_In, negb_true_iff, String.eqb_neq. split; intros [A B]; split; auto.
Qed.

Lemma set_delete_NoDup k s : NoDup s -> NoDup (set_delete k s).
Proof. intros H. unfold set_delete. apply NoDup_filter. exact H. Qed.

Lemma set_delete_notin k s : ~ In k s -> set_delete k s = s.
Proof.
  induction s as [|a t IH]; intros H; [reflexivity|]. simpl.
  destruct (String.eqb k a) eqn:E.
  - apply String.eqb_eq in E. subst. exfalso. apply H. left. reflexivity.
  - simpl. f_equal. apply IH. intros Hin. apply H. right. exact Hin.
Qed.

Lemma set_delete_head k s : ~ In k s -> set_delete k (k :: s) = s.
Proof. intros H. simpl. rewrite String.eqb_refl. simpl. apply set_delete_notin. exact H. Qed.

Lemma str_mem_delete k s : str_mem k (set_delete k s) = false.
Proof. apply str_mem_false. intros H. apply set_delete_In in H. destruct H as [_ H]. congruence. Qed.

Lemma NoDup_snoc {A} (l : list A) (k : A) : NoDup l -> ~ In k l -> NoDup (l ++ [k]).
Proof.
  induction l as [|a t IH]; intros Hn Hk; simpl.
  - constructor; [intros [] | constructor].
  - inversion Hn as [|x y Ha Ht]; subst. constructor.
    + intros H. apply in_app_or in H. destruct H as [H|[H|[]]]; [contradiction|].
      subst. apply Hk. left. reflexivity.
    + apply IH; [exact Ht|]. intros H. apply Hk. right. exact H.
Qed.

(* ---------- failure counts ------------------------------------------------------------------ *)
Lemma fail_get_del_same k f : fail_get k (fail_del k f) = O.
Proof.
  induction f as [|[k' n] t IH]; [reflexivity|]. simpl.
  destruct (String.eqb k k') eqn:E; simpl; [exact IH|]. rewrite E. exact IH.
Qed.

Lemma fail_get_del_other k k' f : k' <> k -> fail_get k' (fail_del k f) = fail_get k' f.
Proof.
  intros Hne. induction f as [|[k0 n] t IH]; [reflexivity|]. simpl.
  destruct (String.eqb k k0) eqn:E; simpl.
  - apply String.eqb_eq in E. subst k0.
    destruct (String.eqb k' k) eqn:E'; [apply String.eqb_eq in E'; congruence | exact IH].
  - destruct (String.eqb k' k0); [reflexivity | exact IH].
Qed.

Lemma fail_get_incr_same k f : fail_get k (fail_incr k f) = S (fail_get k f).
Proof. unfold fail_incr. simpl. rewrite String.eqb_refl. reflexivity. Qed.

Lemma fail_get_incr_other k k' f : k' <> k -> fail_get k' (fail_incr k f) = fail_get k' f.
Proof.
  intros Hne. unfold fail_incr. simpl.
  destruct (String.eqb k' k) eqn:E; [apply String.eqb_eq in E; congruence|].
  apply fail_get_del_other. exact Hne.
Qed.

(* ---------- the invariant is kept by every operation --------------------------------------- *)
Lemma wf_empty : wq_wf q_empty.
Proof.
  unfold wq_wf, q_empty. simpl.
  split; [constructor|]. split; [constructor|]. split; [constructor|].
  split; [intros k []|]. split; intros k [].
Qed.

Lemma wf_failures q f :
  wq_wf q -> wq_wf {| q_queue := q_queue q; q_dirty := q_dirty q; q_processing := q_processing q; q_failures := f |}.
Proof. intros H. exact H. Qed.

Lemma wf_add k q : wq_wf q -> wq_wf (q_add k q).
Proof.
  intros [Hq [Hd [Hp [Hqd [Hqp Hdq]]]]]. unfold q_add.
  destruct (str_mem k (q_dirty q)) eqn:Ed; [repeat split; assumption|].
  assert (Hnd : ~ In k (q_dirty q)) by (apply str_mem_false; exact Ed).
  assert (Hnq : ~ In k (q_queue q)) by (intros H; apply Hnd; apply Hqd; exact H).
  destruct (str_mem k (q_processing q)) eqn:Ep; unfold wq_wf; simpl.
  - apply str_mem_In in Ep. repeat split; auto.
    + apply set_insert_NoDup. exact Hd.
    + intros x Hx. apply set_insert_In. right. apply Hqd. exact Hx.
    + intros x Hx. apply set_insert_In in Hx. destruct Hx as [->|Hx]; [right; exact Ep | apply Hdq; exact Hx].
  - apply str_mem_false in Ep. repeat split; auto.
    + apply NoDup_snoc; assumption.
    + apply set_insert_NoDup. exact Hd.
    + intros x Hx. apply set_insert_In. apply in_app_or in Hx. destruct Hx as [Hx|[<-|[]]]; [right; apply Hqd; exact Hx | left; reflexivity].
    + intros x Hx. apply in_app_or in Hx. destruct Hx as [Hx|[<-|[]]]; [apply Hqp; exact Hx | exact Ep].
    + intros x Hx. apply set_insert_In in Hx. destruct Hx as [->|Hx].
      * left. apply in_or_app. right. left. reflexivity.
      * destruct (Hdq x Hx) as [A|A]; [left; apply in_or_app; left; exact A | right; exact A].
Qed.

Lemma wf_get q k q' :
  wq_wf q -> q_get q = Some (k, q') ->
  wq_wf q' /\ In k (q_processing q') /\ ~ In k (q_queue q') /\ ~ In k (q_dirty q')
  /\ q_queue q = k :: q_queue q' /\ ~ In k (q_processing q).
Proof.
  intros [Hq [Hd [Hp [Hqd [Hqp Hdq]]]]] Hg. unfold q_get in Hg.
  destruct (q_queue q) as [|k0 t] eqn:Hqe; [discriminate|]. inversion Hg; subst k0 q'; clear Hg. simpl.
  inversion Hq as [|x y Hkt Ht]; subst.
  assert (Hkp : ~ In k (q_processing q)) by (apply Hqp; left; reflexivity).
  split; [|repeat split; auto].
  - unfold wq_wf. simpl. repeat split.
    + exact Ht.
    + apply set_delete_NoDup. exact Hd.
    + apply set_insert_NoDup. exact Hp.
    + intros x Hx. apply set_delete_In. split; [apply Hqd; right; exact Hx|]. intros ->. contradiction.
    + intros x Hx Hin. apply set_insert_In in Hin. destruct Hin as [->|Hin]; [contradiction|].
      apply (Hqp x); [right; exact Hx | exact Hin].
    + intros x Hx. apply set_delete_In in Hx. destruct Hx as [Hx Hne].
      destruct (Hdq x Hx) as [[A|A]|A]; [congruence | left; exact A | right; apply set_insert_In; right; exact A].
  - apply set_insert_In. left. reflexivity.
  - intros H. apply set_delete_In in H. destruct H as [_ H]. congruence.
Qed.

Lemma wf_done k q : wq_wf q -> In k (q_processing q) -> wq_wf (q_done k q).
Proof.
  intros [Hq [Hd [Hp [Hqd [Hqp Hdq]]]]] Hk. unfold q_done.
  assert (Hnq : ~ In k (q_queue q)) by (intros H; exact (Hqp k H Hk)).
  destruct (str_mem k (q_dirty q)) eqn:Ed; unfold wq_wf; simpl.
  - apply str_mem_In in Ed. repeat split; auto.
    + apply NoDup_snoc; assumption.
    + apply set_delete_NoDup. exact Hp.
    + intros x Hx. apply in_app_or in Hx. destruct Hx as [Hx|[<-|[]]]; [apply Hqd; exact Hx | exact Ed].
    + intros x Hx Hin. apply set_delete_In in Hin. destruct Hin as [Hin Hne].
      apply in_app_or in Hx. destruct Hx as [Hx|[Hx|[]]]; [exact (Hqp x Hx Hin) | congruence].
    + intros x Hx. destruct (Hdq x Hx) as [A|A]; [left; apply in_or_app; left; exact A|].
      destruct (String.eqb x k) eqn:E.
      * apply String.eqb_eq in E. subst. left. apply in_or_app. right. left. reflexivity.
      * apply String.eqb_neq in E. right. apply set_delete_In. split; assumption.
  - apply str_mem_false in Ed. repeat split; auto.
    + apply set_delete_NoDup. exact Hp.
    + intros x Hx Hin. apply set_delete_In in Hin. destruct Hin as [Hin _]. exact (Hqp x Hx Hin).
    + intros x Hx. destruct (Hdq x Hx) as [A|A]; [left; exact A|].
      right. apply set_delete_In. split; [exact A|]. intros ->. contradiction.
Qed.

Lemma wf_forget k q : wq_wf q -> wq_wf (q_forget k q).
Proof. intros H. exact H. Qed.

Lemma wf_add_rate_limited k q : wq_wf q -> wq_wf (q_add_rate_limited k q).
Proof. intros H. unfold q_add_rate_limited. apply wf_add. exact H. Qed.

(* ---------- one worker step, on any well-formed queue --------------------------------------- *)
Lemma process_next_fail sync q k t :
  wq_wf q -> q_queue q = k :: t -> sync k = false ->
  process_next sync q =
  Some {| q_queue := t ++ [k]; q_dirty := k :: set_delete k (q_dirty q);
          q_processing := q_processing q; q_failures := fail_incr k (q_failures q) |}.
Proof.
  intros Hwf Hqe Hs. destruct Hwf as [Hq [Hd [Hp [Hqd [Hqp Hdq]]]]].
  assert (Hkp : ~ In k (q_processing q)) by (apply Hqp; rewrite Hqe; left; reflexivity).
  unfold process_next, q_get. rewrite Hqe, Hs.
  unfold q_add_rate_limited, q_add. simpl.
  rewrite str_mem_delete.
  unfold set_insert at 1. rewrite (proj2 (str_mem_false k (q_processing q)) Hkp).
  simpl. rewrite String.eqb_refl. simpl.
  unfold q_done. simpl. unfold set_insert. rewrite str_mem_delete. simpl. rewrite String.eqb_refl. simpl.
  rewrite (proj2 (str_mem_false k (q_processing q)) Hkp).
  rewrite (set_delete_head k (q_processing q) Hkp). reflexivity.
Qed.

Lemma process_next_ok sync q k t :
  wq_wf q -> q_queue q = k :: t -> sync k = true ->
  process_next sync q =
  Some {| q_queue := t; q_dirty := set_delete k (q_dirty q);
          q_processing := q_processing q; q_failures := fail_del k (q_failures q) |}.
Proof.
  intros Hwf Hqe Hs. destruct Hwf as [Hq [Hd [Hp [Hqd [Hqp Hdq]]]]].
  assert (Hkp : ~ In k (q_processing q)) by (apply Hqp; rewrite Hqe; left; reflexivity).
  unfold process_next, q_get. rewrite Hqe, Hs.
  unfold q_forget, q_done. simpl. rewrite str_mem_delete.
  unfold set_insert. rewrite (proj2 (str_mem_false k (q_processing q)) Hkp).
  rewrite (set_delete_head k (q_processing q) Hkp). reflexivity.
Qed.

Theorem process_next_spec sync q k t :
  wq_wf q -> q_queue q = k :: t ->
  exists q', process_next sync q = Some q' /\ wq_wf q'
    /\ q_processing q' = q_processing q /\ ~ In k (q_processing q')
    /\ (sync k = false -> In k (q_queue q') /\ q_num_requeues k q' = S (q_num_requeues k q))
    /\ (sync k = true -> ~ In k (q_queue q') /\ q_num_requeues k q' = O)
    /\ (forall k', k' <> k -> q_num_requeues k' q' = q_num_requeues k' q
                              /\ (In k' (q_queue q') <-> In k' (q_queue q))).
Proof.
  intros Hwf Hqe.
  assert (Hwf' := Hwf). destruct Hwf' as [Hq [Hd [Hp [Hqd [Hqp Hdq]]]]].
  assert (Hkp : ~ In k (q_processing q)) by (apply Hqp; rewrite Hqe; left; reflexivity).
  assert (Hkt : ~ In k t) by (rewrite Hqe in Hq; inversion Hq; assumption).
  assert (Hgs : exists q1, q_get q = Some (k, q1)).
  { unfold q_get. rewrite Hqe. eexists. reflexivity. }
  destruct Hgs as [q1 Hg]. destruct (wf_get q k q1 Hwf Hg) as [Hwf1 [Hin1 _]].
  destruct (sync k) eqn:Hs.
  - eexists. split; [apply (process_next_ok sync q k t Hwf Hqe Hs)|].
    split.
    { assert (E : process_next sync q = Some (q_done k (q_forget k q1))).
      { unfold process_next. rewrite Hg, Hs. reflexivity. }
      rewrite (process_next_ok sync q k t Hwf Hqe Hs) in E. inversion E as [E'].
      rewrite E'. apply wf_done; [apply wf_forget; exact Hwf1 | exact Hin1]. }
    simpl. split; [reflexivity|]. split; [exact Hkp|]. split; [discriminate|].
    split.
    { intros _. split; [exact Hkt|]. unfold q_num_requeues. simpl. apply fail_get_del_same. }
    intros k' Hne. unfold q_num_requeues. simpl. split; [apply fail_get_del_other; exact Hne|].
    rewrite Hqe. simpl. split; [auto|]. intros [H|H]; [congruence | exact H].
  - eexists. split; [apply (process_next_fail sync q k t Hwf Hqe Hs)|].
    split.
    { assert (E : process_next sync q = Some (q_done k (q_add_rate_limited k q1))).
      { unfold process_next. rewrite Hg, Hs. reflexivity. }
      rewrite (process_next_fail sync q k t Hwf Hqe Hs) in E. inversion E as [E'].
      rewrite E'. apply wf_done; [apply wf_add_rate_limited; exact Hwf1|].
      unfold q_add_rate_limited, q_add. simpl.
      destruct (str_mem k (q_dirty q1)); [exact Hin1|].
      destruct (str_mem k (q_processing q1)); simpl; exact Hin1. }
    simpl. split; [reflexivity|]. split; [exact Hkp|].
    split.
    { intros _. split; [apply in_or_app; right; left; reflexivity|].
      unfold q_num_requeues. simpl. rewrite String.eqb_refl. reflexivity. }
    split; [discriminate|].
    intros k' Hne. unfold q_num_requeues. split.
    { apply (fail_get_incr_other k k' (q_failures q) Hne). }
    rewrite Hqe. simpl. rewrite in_app_iff. simpl. split.
    + intros [H|[H|[]]]; [right; exact H | congruence].
    + intros [H|H]; [congruence | left; exact H].
Qed.

(* ---------- a run on one key ------------------------------------------------------------------ *)
Definition inv (k : key) (n : nat) (q : wq) : Prop :=
  q_processing q = [] /\ q_num_requeues k q = n
  /\ ((q_queue q = [k] /\ q_dirty q = [k]) \/ (q_queue q = [] /\ q_dirty q = [] /\ n = O)).

Lemma inv_wf k n q : inv k n q -> wq_wf q.
Proof.
  intros [Hp [_ [[Hq Hd]|[Hq [Hd _]]]]]; unfold wq_wf; rewrite Hp, Hq, Hd.
  - split; [constructor; [intros [] | constructor]|]. split; [constructor; [intros [] | constructor]|].
    split; [constructor|]. split; [auto|]. split; [intros x _ []|]. intros x Hx. left. exact Hx.
  - split; [constructor|]. split; [constructor|]. split; [constructor|].
    split; [auto|]. split; [intros x []|]. intros x [].
Qed.

Lemma inv_init k : inv k O (q_add k q_empty).
Proof. unfold inv, q_add, q_empty. simpl. repeat split. left. split; reflexivity. Qed.

Lemma step_inv k (ok : bool) n q :
  inv k n q -> inv k (if ok then O else S n) (step k ok q)
               /\ (ok = false -> In k (q_queue (step k ok q)))
               /\ (ok = true -> q_queue (step k ok q) = []).
Proof.
  intros [Hp [Hn Hq]].
  assert (H0 : q_queue (q_add k q) = [k] /\ q_dirty (q_add k q) = [k] /\ q_processing (q_add k q) = []
               /\ q_failures (q_add k q) = q_failures q).
  { unfold q_add. destruct Hq as [[Hq Hd]|[Hq [Hd _]]]; rewrite Hd; simpl.
    - rewrite String.eqb_refl. simpl. auto.
    - rewrite Hp. simpl. rewrite Hq. simpl. auto. }
  destruct H0 as [Aq [Ad [Ap Af]]].
  unfold step. destruct (q_add k q) as [qq qd qp qf]. simpl in Aq, Ad, Ap, Af. subst qq qd qp qf.
  unfold process_next, q_get. simpl. destruct ok; simpl.
  - unfold q_forget, q_done, set_insert, set_delete; simpl. rewrite !String.eqb_refl. simpl.
    split; [|split; [discriminate | reflexivity]].
    unfold inv. simpl. split; [reflexivity|]. split.
    + unfold q_num_requeues. simpl. apply fail_get_del_same.
    + right. auto.
  - unfold q_add_rate_limited, q_add, q_done, set_insert, set_delete; simpl. rewrite !String.eqb_refl. simpl.
    rewrite !String.eqb_refl. simpl.
    split; [|split; [intros _; left; reflexivity | discriminate]].
    unfold inv. simpl. split; [reflexivity|]. split.
    + unfold q_num_requeues. simpl. rewrite String.eqb_refl. unfold q_num_requeues in Hn.
      rewrite Hn. reflexivity.
    + left. auto.
Qed.

Theorem run_inv k outcomes : forall n q,
  inv k n q -> inv k (trailing_failures outcomes n) (run k outcomes q).
Proof.
  induction outcomes as [|ok t IH]; intros n q H; [exact H|].
  unfold run, trailing_failures. simpl. apply IH. apply (step_inv k ok n q H).
Qed.

Lemma run_app k a b q : run k (a ++ b) q = run k b (run k a q).
Proof. unfold run. apply fold_left_app. Qed.

Lemma trailing_app a b n : trailing_failures (a ++ b) n = trailing_failures b (trailing_failures a n).
Proof. unfold trailing_failures. apply fold_left_app. Qed.

Theorem worker_run k outcomes :
  let q := run k outcomes (q_add k q_empty) in
  wq_wf q /\ q_processing q = [] /\ q_num_requeues k q = trailing_failures outcomes O.
Proof.
  assert (H := run_inv k outcomes O _ (inv_init k)).
  split; [exact (inv_wf _ _ _ H)|]. destruct H as [A [B _]]. auto.
Qed.

Theorem worker_each_step k pre ok :
  let q1 := run k pre (q_add k q_empty) in
  let q2 := run k (pre ++ [ok]) (q_add k q_empty) in
  q_processing q2 = []
  /\ (ok = false -> In k (q_queue q2) /\ q_num_requeues k q2 = S (q_num_requeues k q1))
  /\ (ok = true -> q_queue q2 = [] /\ q_num_requeues k q2 = O).
Proof.
  simpl. rewrite run_app.
  assert (H1 := run_inv k pre O _ (inv_init k)).
  set (q1 := run k pre (q_add k q_empty)) in *.
  set (n := trailing_failures pre O) in *.
  unfold run at 1. simpl.
  destruct (step_inv k ok n q1 H1) as [[Hp [Hn _]] [Hf Hs]].
  split; [exact Hp|]. split.
  - intros ->. split; [apply Hf; reflexivity|]. destruct H1 as [_ [Hn1 _]]. rewrite Hn, Hn1. reflexivity.
  - intros ->. split; [apply Hs; reflexivity | exact Hn].
Qed.

(* ---------- an event arriving at any moment is not lost ------------------------------------- *)
Definition enqueue_all (ks : list key) (q : wq) : wq := fold_left (fun q k => q_add k q) ks q.

Lemma add_dirty k q : In k (q_dirty (q_add k q)).
Proof.
  unfold q_add. destruct (str_mem k (q_dirty q)) eqn:E; [apply str_mem_In; exact E|].
  destruct (str_mem k (q_processing q)); simpl; apply set_insert_In; left; reflexivity.
Qed.

Lemma add_dirty_mono k x q : In x (q_dirty q) -> In x (q_dirty (q_add k q)).
Proof.
  intros H. unfold q_add. destruct (str_mem k (q_dirty q)); [exact H|].
  destruct (str_mem k (q_processing q)); simpl; apply set_insert_In; right; exact H.
Qed.

Lemma enqueue_all_wf ks : forall q, wq_wf q -> wq_wf (enqueue_all ks q).
Proof.
  induction ks as [|a t IH]; intros q H; [exact H|]. simpl. apply IH. apply wf_add. exact H.
Qed.

Lemma enqueue_all_dirty_mono ks : forall q x, In x (q_dirty q) -> In x (q_dirty (enqueue_all ks q)).
Proof.
  induction ks as [|a t IH]; intros q x H; [exact H|]. simpl. apply IH. apply add_dirty_mono. exact H.
Qed.

Theorem enqueued_not_lost ks k q :
  wq_wf q -> In k ks ->
  let q' := enqueue_all ks q in
  wq_wf q' /\ In k (q_dirty q') /\ (In k (q_queue q') \/ In k (q_processing q')).
Proof.
  intros Hwf Hin. simpl.
  assert (Hwf' := enqueue_all_wf ks q Hwf).
  assert (Hd : In k (q_dirty (enqueue_all ks q))).
  { clear Hwf Hwf'. revert q. induction ks as [|a t IH]; intros q; [destruct Hin|].
    simpl. destruct Hin as [->|Hin].
    - apply enqueue_all_dirty_mono. apply add_dirty.
    - apply IH. exact Hin. }
  split; [exact Hwf'|]. split; [exact Hd|].
  destruct Hwf' as [_ [_ [_ [_ [_ Hdq]]]]]. apply Hdq. exact Hd.
Qed.

Theorem done_requeues_dirty k q :
  In k (q_dirty q) -> In k (q_queue (q_done k q)).
Proof.
  intros Hd. unfold q_done. rewrite (proj2 (str_mem_In k (q_dirty q)) Hd). simpl.
  apply in_or_app. right. left. reflexivity.
Qed.

Theorem queue_invariant : wq_wf q_empty
  /\ (forall k q, wq_wf q -> wq_wf (q_add k q))
  /\ (forall q k q', wq_wf q -> q_get q = Some (k, q') -> wq_wf q')
  /\ (forall k q, wq_wf q -> In k (q_processing q) -> wq_wf (q_done k q))
  /\ (forall k q, wq_wf q -> wq_wf (q_forget k q))
  /\ (forall k q, wq_wf q -> wq_wf (q_add_rate_limited k q)).
Proof.
  split; [exact wf_empty|]. split; [exact wf_add|].
  split; [intros q k q' H G; exact (proj1 (wf_get q k q' H G))|].
  split; [exact wf_done|]. split; [exact wf_forget | exact wf_add_rate_limited].
Qed.
