(* RoundExec.v — how the executor and the kubelet change the pods of the API state, seen name by name.
   Generic part of the lifting of the abstract round (TerminationProofs.v) to the full reconcile model:
   look n L is the pod named n in L; every action touches one name only, so the pod a name ends up with is
   the fold of the actions of that name (life). *)
From ASTS Require Import Base Slots Names World Reconcile ReconcileCheck MonadProofs PlanProofs PodControlProofs Env QuietProofs.

Definition look (n : string) (L : list pod) : option pod := find_pod n L.

Lemma look_remove n m L : look n (remove_pod m L) = if String.eqb n m then None else look n L.
Proof.
  unfold look, find_pod, remove_pod. induction L as [|x t IH]; cbn [filter find]; [destruct (String.eqb n m); reflexivity|].
  destruct (String.eqb (p_name x) m) eqn:Em; cbn [negb].
  - rewrite IH. apply String.eqb_eq in Em. destruct (String.eqb n m) eqn:En; [reflexivity|].
    destruct (String.eqb (p_name x) n) eqn:Ex; [|reflexivity].
    apply String.eqb_eq in Ex. subst. rewrite String.eqb_refl in En. discriminate.
  - cbn [find]. destruct (String.eqb (p_name x) n) eqn:Ex.
    + apply String.eqb_eq in Ex. subst n. rewrite Em. reflexivity.
    + exact IH.
Qed.

Lemma look_replace n q L :
  look n (replace_pod q L) = if String.eqb n (p_name q) then (match look n L with Some _ => Some q | None => None end) else look n L.
Proof.
  unfold look, find_pod, replace_pod. induction L as [|x t IH]; cbn [map find]; [destruct (String.eqb n (p_name q)); reflexivity|].
  destruct (String.eqb_spec (p_name x) (p_name q)) as [E1|N1].
  - destruct (String.eqb_spec (p_name q) n) as [E2|N2].
    + subst n. rewrite String.eqb_refl. rewrite E1, String.eqb_refl. reflexivity.
    + rewrite E1. destruct (String.eqb_spec (p_name q) n) as [E3|_]; [contradiction|].
      destruct (String.eqb_spec n (p_name q)) as [E4|_]; [symmetry in E4; contradiction|].
      destruct (String.eqb_spec n (p_name q)) as [E5|_] in IH; [symmetry in E5; contradiction | exact IH].
  - destruct (String.eqb_spec (p_name x) n) as [E2|N2].
    + subst n. destruct (String.eqb_spec (p_name x) (p_name q)) as [E3|_]; [contradiction | reflexivity].
    + exact IH.
Qed.

Lemma look_app n L f : look n (L ++ [f]) = match look n L with Some x => Some x | None => if String.eqb (p_name f) n then Some f else None end.
Proof.
  unfold look, find_pod. rewrite find_app. destruct (find _ L); [reflexivity|]. cbn [find]. destruct (String.eqb (p_name f) n); reflexivity.
Qed.

Lemma look_In n L q : look n L = Some q -> In q L /\ p_name q = n.
Proof. unfold look, find_pod. intros H. apply find_some in H. destruct H as [H1 H2]. apply String.eqb_eq in H2. tauto. Qed.
Lemma look_None n L : look n L = None -> forall q, In q L -> p_name q <> n.
Proof. unfold look, find_pod. intros H q Hq E. pose proof (find_none _ _ H q Hq) as N. cbn in N. rewrite E, String.eqb_refl in N. discriminate. Qed.
Lemma look_unique L : NoDup (map p_name L) -> forall q, In q L -> look (p_name q) L = Some q.
Proof.
  induction L as [|x t IH]; intros Hnd q Hq; [destruct Hq|]. cbn [map] in Hnd. inversion Hnd; subst.
  unfold look, find_pod. cbn [find]. destruct Hq as [->|Hq].
  - rewrite String.eqb_refl. reflexivity.
  - destruct (String.eqb_spec (p_name x) (p_name q)) as [E|_]; [|apply IH; assumption].
    exfalso. match goal with H : ~ In (p_name x) _ |- _ => apply H end. rewrite E. apply in_map. exact Hq.
Qed.

(* ---------------------------------------------------------------- one action, one name ------------- *)
From ASTS Require Import ConvergeProofs TerminationProofs.

Definition pend (f : pod) : pod := if isCreated f then f else set_phase_pod f "Pending".

Section Exec.
Variable s : sset.

Definition act_name (a : act) : string :=
  match a with ADelete p => p_name p | ACreate f => p_name f | AUpdate p => p_name (fixpod s p) end.

(* the pods of the API state after the action succeeded (api_delete_pod / api_create_pod / api_update_pod) *)
Definition exec1 (L : list pod) (a : act) : list pod :=
  match a with
  | ADelete p => match find_pod (p_name p) L with
                 | Some q => if isFailed q || isSucceeded q then remove_pod (p_name p) L else replace_pod (set_term_pod q) L
                 | None => L
                 end
  | ACreate f => L ++ [pend f]
  | AUpdate p => replace_pod (fixpod s p) L
  end.

(* the same, for the pod of one name *)
Definition step1 (st : option pod) (a : act) : option pod :=
  match a with
  | ADelete _ => match st with Some q => if isFailed q || isSucceeded q then None else Some (set_term_pod q) | None => None end
  | ACreate f => match st with Some x => Some x | None => Some (pend f) end
  | AUpdate p => match st with Some _ => Some (fixpod s p) | None => None end
  end.

Lemma pend_name f : p_name (pend f) = p_name f.
Proof. unfold pend. destruct (isCreated f); reflexivity. Qed.

Lemma look_exec1 n L a : look n (exec1 L a) = if String.eqb n (act_name a) then step1 (look n L) a else look n L.
Proof.
  destruct a as [f|p|p]; cbn [exec1 act_name step1].
  - rewrite look_app, pend_name. rewrite (String.eqb_sym (p_name f) n).
    destruct (look n L); destruct (String.eqb n (p_name f)); reflexivity.
  - destruct (find_pod (p_name p) L) as [q|] eqn:E.
    + destruct (look_In _ _ _ E) as [_ Hq].
      destruct (String.eqb_spec n (p_name p)) as [->|N].
      * unfold look at 2. rewrite E. destruct (isFailed q || isSucceeded q).
        -- rewrite look_remove, String.eqb_refl. reflexivity.
        -- rewrite look_replace. cbn [set_term_pod p_name]. rewrite Hq, String.eqb_refl. unfold look. rewrite E. reflexivity.
      * destruct (isFailed q || isSucceeded q).
        -- rewrite look_remove. destruct (String.eqb_spec n (p_name p)); [contradiction | reflexivity].
        -- rewrite look_replace. cbn [set_term_pod p_name]. rewrite Hq. destruct (String.eqb_spec n (p_name p)); [contradiction | reflexivity].
    + destruct (String.eqb_spec n (p_name p)) as [->|N]; [|reflexivity]. unfold look. rewrite E. reflexivity.
  - rewrite look_replace. reflexivity.
Qed.

Definition life (n : string) (acts : list act) (st : option pod) : option pod :=
  fold_left (fun st a => if String.eqb n (act_name a) then step1 st a else st) acts st.

Lemma look_fold n : forall acts L, look n (fold_left exec1 acts L) = life n acts (look n L).
Proof.
  induction acts as [|a t IH]; intros L; cbn [fold_left life]; [reflexivity|].
  rewrite IH, look_exec1. reflexivity.
Qed.

Lemma life_app n a b st : life n (a ++ b) st = life n b (life n a st).
Proof. unfold life. apply fold_left_app. Qed.

(* only the actions of that name matter *)
Definition acts_for (n : string) (acts : list act) : list act := filter (fun a => String.eqb n (act_name a)) acts.
Lemma life_acts_for n : forall acts st, life n acts st = fold_left step1 (acts_for n acts) st.
Proof.
  induction acts as [|a t IH]; intros st; cbn [life fold_left acts_for filter]; [reflexivity|].
  fold (life n t). fold (acts_for n t). destruct (String.eqb n (act_name a)); cbn [fold_left]; apply IH.
Qed.

(* names stay pairwise different *)
Lemma names_replace q L : map p_name (replace_pod q L) = map p_name L.
Proof.
  unfold replace_pod. induction L as [|x t IH]; cbn [map]; [reflexivity|]. rewrite IH.
  destruct (String.eqb_spec (p_name x) (p_name q)) as [E|_]; [rewrite E|]; reflexivity.
Qed.
Lemma names_remove_nodup m L : NoDup (map p_name L) -> NoDup (map p_name (remove_pod m L)).
Proof.
  unfold remove_pod. induction L as [|x t IH]; cbn [map filter]; intros H; [constructor|]. inversion H; subst.
  destruct (negb (String.eqb (p_name x) m)); cbn [map]; [|apply IH; assumption].
  constructor; [|apply IH; assumption]. intros Hin. apply in_map_iff in Hin. destruct Hin as (y & Hy & Hyt).
  apply filter_In in Hyt. destruct Hyt as [Hyt _]. match goal with H : ~ In _ _ |- _ => apply H end. rewrite <- Hy. apply in_map. exact Hyt.
Qed.
Lemma exec1_nodup L a : NoDup (map p_name L) -> (forall f, a = ACreate f -> look (p_name f) L = None) -> NoDup (map p_name (exec1 L a)).
Proof.
  intros H Hc. destruct a as [f|p|p]; cbn [exec1].
  - rewrite map_app. cbn [map]. rewrite pend_name. apply NoDup_app_intro; [exact H | constructor; [intros [] | constructor]|].
    intros x Hx [<-|[]]. apply in_map_iff in Hx. destruct Hx as (y & Hy & Hyl). apply (look_None _ _ (Hc f eq_refl) y Hyl). exact Hy.
  - destruct (find_pod (p_name p) L) as [q|]; [|exact H].
    destruct (isFailed q || isSucceeded q); [apply names_remove_nodup; exact H | rewrite names_replace; exact H].
  - rewrite names_replace. exact H.
Qed.

End Exec.

(* ---------------------------------------------------------------- the kubelet's part ------------------ *)
Definition settle1 (p : pod) : pod := if p_term p || isFailed p || isSucceeded p then p else set_ready p "Running" true.
Definition post (st : option pod) : option pod :=
  match st with Some p => if p_term p then None else Some (settle1 p) | None => None end.

Lemma look_kubelet_gone n m w :
  look n (w_pods (kubelet w m KGone)) =
  if String.eqb n m then (match look n (w_pods w) with Some p => if p_term p then None else Some p | None => None end) else look n (w_pods w).
Proof.
  unfold kubelet. destruct (find_pod m (w_pods w)) as [p|] eqn:E.
  - destruct (String.eqb_spec n m) as [->|N].
    + unfold look at 2. rewrite E. destruct (p_term p) eqn:T; cbn [with_pods w_pods].
      * rewrite look_remove, String.eqb_refl. reflexivity.
      * exact E.
    + destruct (p_term p); cbn [with_pods w_pods]; [|reflexivity]. rewrite look_remove.
      destruct (String.eqb_spec n m); [contradiction | reflexivity].
  - destruct (String.eqb_spec n m) as [->|N]; [|reflexivity]. unfold look. rewrite E. reflexivity.
Qed.

Lemma look_kubelet_settle n m w :
  look n (w_pods (kubelet w m KSettle)) = if String.eqb n m then option_map settle1 (look n (w_pods w)) else look n (w_pods w).
Proof.
  unfold kubelet. destruct (find_pod m (w_pods w)) as [p|] eqn:E.
  - destruct (look_In _ _ _ E) as [_ Hp].
    destruct (String.eqb_spec n m) as [->|N].
    + unfold look at 2. rewrite E. cbn [option_map]. unfold settle1.
      destruct (p_term p || isFailed p || isSucceeded p); cbn [with_pods w_pods]; [exact E|].
      rewrite look_replace. cbn [set_ready p_name]. rewrite Hp, String.eqb_refl. unfold look. rewrite E. reflexivity.
    + destruct (p_term p || isFailed p || isSucceeded p); cbn [with_pods w_pods]; [reflexivity|].
      rewrite look_replace. cbn [set_ready p_name]. rewrite Hp. destruct (String.eqb_spec n m); [contradiction | reflexivity].
  - destruct (String.eqb_spec n m) as [->|N]; [|reflexivity]. unfold look. rewrite E. reflexivity.
Qed.

Definition drop_term (st : option pod) : option pod :=
  match st with Some p => if p_term p then None else Some p | None => None end.

Lemma look_gone_all n : forall names w,
  look n (w_pods (fold_left (fun a m => kubelet a m KGone) names w)) =
  if smemb n names then drop_term (look n (w_pods w)) else look n (w_pods w).
Proof.
  induction names as [|m t IH]; intros w; cbn [fold_left smemb existsb]; [reflexivity|].
  rewrite IH, look_kubelet_gone. fold (smemb n t). fold (drop_term (look n (w_pods w))).
  destruct (String.eqb n m); cbn [orb].
  - destruct (smemb n t); [|reflexivity]. destruct (look n (w_pods w)) as [p|]; cbn [drop_term]; [|reflexivity].
    destruct (p_term p) eqn:T; cbn [drop_term]; [reflexivity | rewrite T; reflexivity].
  - reflexivity.
Qed.

Lemma settle1_idem p : settle1 (settle1 p) = settle1 p.
Proof.
  unfold settle1. destruct (p_term p || isFailed p || isSucceeded p) eqn:E; [rewrite E; reflexivity|].
  apply orb_false_iff in E. destruct E as [E E3]. apply orb_false_iff in E. destruct E as [E1 E2].
  unfold isFailed, isSucceeded. cbn [set_ready p_term p_phase]. rewrite E1. reflexivity.
Qed.

Lemma look_settle_all n : forall names w,
  look n (w_pods (fold_left (fun a m => kubelet a m KSettle) names w)) =
  if smemb n names then option_map settle1 (look n (w_pods w)) else look n (w_pods w).
Proof.
  induction names as [|m t IH]; intros w; cbn [fold_left smemb existsb]; [reflexivity|].
  rewrite IH, look_kubelet_settle. fold (smemb n t).
  destruct (String.eqb n m); cbn [orb].
  - destruct (smemb n t); [|reflexivity]. destruct (look n (w_pods w)) as [p|]; cbn [option_map]; [|reflexivity].
    rewrite settle1_idem. reflexivity.
  - reflexivity.
Qed.

Lemma smemb_In_names n L : look n L <> None -> smemb n (map p_name L) = true.
Proof.
  intros H. destruct (look n L) as [p|] eqn:E; [|congruence]. destruct (look_In _ _ _ E) as [Hp Hn].
  unfold smemb. apply existsb_exists. exists (p_name p). split; [apply in_map; exact Hp | rewrite Hn; apply String.eqb_refl].
Qed.

(* terminating pods finish, the others become Running and Ready: name by name *)
Lemma look_settled n w1 :
  let names := map p_name (w_pods w1) in
  look n (w_pods (fold_left (fun a m => kubelet a m KSettle) names (fold_left (fun a m => kubelet a m KGone) names w1)))
  = post (look n (w_pods w1)).
Proof.
  intros names. rewrite look_settle_all, look_gone_all. unfold post.
  destruct (look n (w_pods w1)) as [p|] eqn:E.
  - assert (Hm : smemb n names = true) by (apply smemb_In_names; congruence). rewrite Hm. cbn [drop_term].
    destruct (p_term p); reflexivity.
  - destruct (smemb n names); reflexivity.
Qed.

Lemma kubelet_names_nodup w m ev : (ev = KGone \/ ev = KSettle) -> NoDup (map p_name (w_pods w)) -> NoDup (map p_name (w_pods (kubelet w m ev))).
Proof.
  intros Hev H. unfold kubelet. destruct (find_pod m (w_pods w)) as [p|]; [|exact H].
  destruct Hev as [-> | ->].
  - destruct (p_term p); cbn [with_pods w_pods]; [apply names_remove_nodup; exact H | exact H].
  - destruct (p_term p || isFailed p || isSucceeded p); cbn [with_pods w_pods]; [exact H | rewrite names_replace; exact H].
Qed.
Lemma kubelet_fold_nodup ev : (ev = KGone \/ ev = KSettle) -> forall names w,
  NoDup (map p_name (w_pods w)) -> NoDup (map p_name (w_pods (fold_left (fun a m => kubelet a m ev) names w))).
Proof.
  intros Hev. induction names as [|m t IH]; intros w H; cbn [fold_left]; [exact H|].
  apply IH. apply kubelet_names_nodup; assumption.
Qed.

(* ---------------------------------------------------------------- forward logic: no fault, success ----- *)
Definition hoare {A} (P : world -> Prop) (m : M A) (Q : A -> world -> Prop) : Prop :=
  forall st, P (rs_api st) -> rs_faults st = [] ->
    exists v st', m st = (Ok v, st') /\ rs_faults st' = [] /\ Q v (rs_api st').

Lemma hoare_ret {A} (P : world -> Prop) (v : A) : hoare P (ret v) (fun x w => x = v /\ P w).
Proof. intros st HP Hf. exists v, st. repeat split; assumption. Qed.
Lemma hoare_bind {A B} (P : world -> Prop) (m : M A) (f : A -> M B) Q R :
  hoare P m Q -> (forall v, hoare (Q v) (f v) R) -> hoare P (bind m f) R.
Proof.
  intros Hm Hf st HP Hfl. destruct (Hm st HP Hfl) as (v & s1 & E1 & F1 & Q1).
  destruct (Hf v s1 Q1 F1) as (u & s2 & E2 & F2 & R2). exists u, s2. unfold bind. rewrite E1. repeat split; assumption.
Qed.
Lemma hoare_conseq {A} (P P' : world -> Prop) (m : M A) (Q Q' : A -> world -> Prop) :
  (forall w, P' w -> P w) -> (forall v w, Q v w -> Q' v w) -> hoare P m Q -> hoare P' m Q'.
Proof.
  intros HP HQ Hm st HP' Hf. destruct (Hm st (HP _ HP') Hf) as (v & s1 & E & F & Q1). exists v, s1. repeat split; auto.
Qed.
Lemma hoare_call {A} (P : world -> Prop) (c : call) (apply : world -> (A + errkind) * world) (Q : A -> world -> Prop) :
  (forall w, P w -> exists v w', apply w = (inl v, w') /\ Q v w') -> hoare P (call_api c apply) Q.
Proof.
  intros Ha st HP Hf. destruct (Ha _ HP) as (v & w' & E & Q1). unfold call_api. rewrite Hf. cbn [take_fault]. rewrite E.
  eexists. eexists. split; [reflexivity|]. cbn [rs_faults rs_api]. split; [reflexivity | exact Q1].
Qed.
Lemma hoare_reads {A} w0 (m : M A) v (P : world -> Prop) : reads w0 m v -> hoare (fun w => w = w0 /\ P w0) m (fun x w => x = v /\ w = w0 /\ P w0).
Proof.
  intros Hr st [HP1 HP2] Hf. destruct (Hr st HP1 Hf) as (s1 & E & W & F & _). exists v, s1. repeat split; assumption.
Qed.

Section Executor.
Variable s : sset.
Variable cache : world.

(* the claims createPersistentVolumeClaims has to create for an ordinal: those the cache does not know *)
Definition missing_of (ts : list string) (ord : Z) : list string :=
  filter (fun n => negb (smemb n (w_claims cache))) (map (fun t => claim_name t (s_name s) ord) ts).
Definition missing (ord : Z) : list string := missing_of (s_claims s) ord.

Definition upd_world (w : world) (L : list pod) (C : list string) : world := with_claims (with_pods w L) C.

Lemma smemb_not_in n l : ~ In n l -> smemb n l = false.
Proof.
  intros H. unfold smemb. destruct (existsb (String.eqb n) l) eqn:E; [|reflexivity].
  apply existsb_exists in E. destruct E as (x & Hx & Ex). apply String.eqb_eq in Ex. subst x. contradiction.
Qed.

(* the missing claims are created, in order, when none of them is in the API state yet *)
Lemma create_claims_new ord : forall ts failed w,
  NoDup (missing_of ts ord) -> (forall n, In n (missing_of ts ord) -> ~ In n (w_claims w)) ->
  hoare (fun x => x = w) (create_claims s cache ord ts failed)
        (fun v x => v = failed /\ x = with_claims w (w_claims w ++ missing_of ts ord)).
Proof.
  induction ts as [|t rest IH]; intros failed w Hnd Hdis; cbn [create_claims].
  - intros st HP Hf. exists failed, st. split; [reflexivity|]. split; [exact Hf|]. split; [reflexivity|].
    cbv beta in HP. rewrite HP. unfold missing_of. cbn [map filter]. rewrite app_nil_r. destruct w; reflexivity.
  - unfold missing_of in *. cbn [map filter] in *.
    destruct (smemb (claim_name t (s_name s) ord) (w_claims cache)) eqn:M; cbn [negb] in *.
    + apply IH; assumption.
    + inversion Hnd as [|? ? Hnotin Hnd']; subst.
      set (n := claim_name t (s_name s) ord) in *.
      assert (Hn : smemb n (w_claims w) = false) by (apply smemb_not_in; apply Hdis; left; reflexivity).
      intros st HP Hf. cbv beta in HP.
      set (w1 := with_claims w (w_claims w ++ [n])).
      assert (Hdis1 : forall m, In m (filter (fun x => negb (smemb x (w_claims cache))) (map (fun t0 => claim_name t0 (s_name s) ord) rest)) -> ~ In m (w_claims w1)).
      { intros m Hm Hin. unfold w1 in Hin. cbn [with_claims w_claims] in Hin. apply in_app_or in Hin. destruct Hin as [Hin|[<-|[]]].
        - apply (Hdis m); [right; exact Hm | exact Hin].
        - contradiction. }
      destruct (IH failed w1 Hnd' Hdis1 {| rs_api := w1; rs_log := (CCreateClaim n, None) :: rs_log st; rs_n := S (rs_n st); rs_faults := [] |} eq_refl eq_refl)
        as (v & st' & E & F & (-> & Ex)).
      exists failed, st'. unfold bind, try, api_create_claim, call_api. rewrite Hf. cbn [take_fault]. rewrite HP, Hn. fold w1.
      split; [exact E|]. split; [exact F|]. split; [reflexivity|]. rewrite Ex. unfold w1. cbn [with_claims w_claims].
      rewrite <- app_assoc. reflexivity.
Qed.

Lemma create_pvcs_new w p :
  NoDup (missing (getOrdinal p)) -> (forall n, In n (missing (getOrdinal p)) -> ~ In n (w_claims w)) ->
  hoare (fun x => x = w) (create_pvcs s cache p) (fun _ x => x = with_claims w (w_claims w ++ missing (getOrdinal p))).
Proof.
  intros Hnd Hdis. unfold create_pvcs.
  eapply hoare_bind; [apply (create_claims_new (getOrdinal p) (s_claims s) false w Hnd Hdis)|].
  intros v. cbv beta. intros st [-> HP] Hf. exists tt, st. split; [reflexivity|]. split; [exact Hf | exact HP].
Qed.

(* the claims of the API state after the action succeeded *)
Definition exec1c (C : list string) (a : act) : list string :=
  match a with
  | ADelete _ => C
  | ACreate f => C ++ missing (getOrdinal f)
  | AUpdate p => if storageMatches s (if identityMatches s p then p else updateIdentity s p) then C
                 else C ++ missing (getOrdinal (fixpod s p))
  end.

Definition claims_fresh (C : list string) (ord : Z) : Prop :=
  NoDup (missing ord) /\ forall n, In n (missing ord) -> ~ In n C.

(* when does one action succeed, given the pods and the claims of the API state *)
Definition okact (L : list pod) (C : list string) (a : act) : Prop :=
  match a with
  | ADelete p => look (p_name p) L <> None
  | ACreate f => look (p_name f) L = None /\ claims_fresh C (getOrdinal f)
  | AUpdate p => look (p_name (fixpod s p)) L <> None /\ (identityMatches s p && storageMatches s p) = false
                 /\ claims_fresh C (getOrdinal (fixpod s p))
  end.

Lemma exec_act_ok w a : okact (w_pods w) (w_claims w) a ->
  hoare (fun x => x = w) (exec_act s cache a)
        (fun _ x => x = upd_world w (exec1 s (w_pods w) a) (exec1c (w_claims w) a)).
Proof.
  intros Hok. destruct a as [f|p|p]; cbn [exec_act okact exec1 exec1c] in *.
  - destruct Hok as [Hn [Hc1 Hc2]]. unfold create_stateful_pod.
    eapply hoare_bind; [apply (create_pvcs_new w f Hc1 Hc2)|]. intros u. cbv beta.
    unfold api_create_pod. apply hoare_call. intros x ->. cbn [with_claims w_pods]. unfold look in Hn. rewrite Hn.
    eexists. eexists. split; [reflexivity|]. unfold pend, upd_world. reflexivity.
  - unfold api_delete_pod. apply hoare_call. intros x ->. unfold look in Hok.
    destruct (find_pod (p_name p) (w_pods w)) as [q|]; [|congruence].
    destruct (isFailed q || isSucceeded q); eexists; eexists; (split; [reflexivity|]); unfold upd_world; destruct w; reflexivity.
  - destruct Hok as (Hn & Hm & [Hc1 Hc2]). cbn [update_stateful_pod].
    set (p1 := if identityMatches s p then p else updateIdentity s p).
    assert (E2 : (if storageMatches s p1 then p1 else updateStorage s p1) = fixpod s p) by reflexivity.
    rewrite E2.
    assert (Hcond : (identityMatches s p && storageMatches s p1) = false).
    { unfold p1. destruct (identityMatches s p); [exact Hm | reflexivity]. }
    rewrite Hcond.
    set (C' := if storageMatches s p1 then w_claims w else w_claims w ++ missing (getOrdinal (fixpod s p))).
    apply (hoare_bind _ _ _ (fun _ x => x = with_claims w C')).
    + unfold C'. destruct (storageMatches s p1).
      * intros st HP Hf. exists tt, st. split; [reflexivity|]. split; [exact Hf|]. cbv beta in HP. rewrite HP. destruct w; reflexivity.
      * apply (create_pvcs_new w (fixpod s p) Hc1 Hc2).
    + intros u. apply (hoare_bind _ _ _ (fun r x => r = inl tt /\ x = upd_world w (replace_pod (fixpod s p) (w_pods w)) C')).
      * intros st HP Hf. unfold try, api_update_pod, call_api. rewrite Hf. cbn [take_fault]. rewrite HP. cbn [with_claims w_pods].
        unfold look in Hn. destruct (find_pod (p_name (fixpod s p)) (w_pods w)); [|congruence].
        eexists. eexists. split; [reflexivity|]. cbn [rs_faults rs_api]. repeat split.
      * intros r0. intros st [-> HP] Hf. exists tt, st. split; [reflexivity|]. split; [exact Hf | exact HP].
Qed.

Fixpoint all_ok (L : list pod) (C : list string) (acts : list act) : Prop :=
  match acts with [] => True | a :: t => okact L C a /\ all_ok (exec1 s L a) (exec1c C a) t end.

Lemma exec_acts_ok : forall acts w, all_ok (w_pods w) (w_claims w) acts ->
  hoare (fun x => x = w) (forM acts (exec_act s cache))
        (fun _ x => x = upd_world w (fold_left (exec1 s) acts (w_pods w)) (fold_left exec1c acts (w_claims w))).
Proof.
  induction acts as [|a t IH]; intros w H; cbn [forM fold_left all_ok] in *.
  - intros st HP Hf. exists tt, st. split; [reflexivity|]. split; [exact Hf|]. cbv beta. cbv beta in HP. rewrite HP. unfold upd_world. destruct w; reflexivity.
  - destruct H as [H1 H2]. eapply hoare_bind; [apply exec_act_ok; exact H1|]. intros u. cbv beta.
    eapply hoare_conseq; [| |apply (IH (upd_world w (exec1 s (w_pods w) a) (exec1c (w_claims w) a)))].
    + intros x Hx. exact Hx.
    + intros v x ->. reflexivity.
    + exact H2.
Qed.

(* a claim of the API state after the actions was there before, or is a missing claim of an ordinal an action named *)
Definition claim_ord (a : act) : option Z :=
  match a with ADelete _ => None | ACreate f => Some (getOrdinal f) | AUpdate p => Some (getOrdinal (fixpod s p)) end.
Lemma exec1c_in : forall acts C n, In n (fold_left exec1c acts C) ->
  In n C \/ exists a j, In a acts /\ claim_ord a = Some j /\ In n (missing j).
Proof.
  induction acts as [|a t IH]; intros C n H; cbn [fold_left] in H; [left; exact H|].
  destruct (IH _ _ H) as [Hc|(a' & j & Ha' & Hj & Hn)].
  - destruct a as [f|p|p]; cbn [exec1c] in Hc.
    + apply in_app_or in Hc. destruct Hc as [Hc|Hc]; [left; exact Hc|]. right. exists (ACreate f), (getOrdinal f). repeat split; [left; reflexivity | exact Hc].
    + left. exact Hc.
    + destruct (storageMatches s _); [left; exact Hc|]. apply in_app_or in Hc. destruct Hc as [Hc|Hc]; [left; exact Hc|].
      right. exists (AUpdate p), (getOrdinal (fixpod s p)). repeat split; [left; reflexivity | exact Hc].
  - right. exists a', j. repeat split; [right; exact Ha' | exact Hj | exact Hn].
Qed.

End Executor.
